"""Core of the check pipeline: translate -> prove (lake + axiom audit) -> correspond -> monitor -> decide.

One code path for all properties; see DESIGN.md §2.3.  Exit codes: 0 held, 1 VIOLATION, 2 infrastructure.
"""
from __future__ import annotations

import fcntl
import hashlib
import importlib
import json
import os
import random
import re
import shutil
import subprocess
import sys
import tempfile
import time
import traceback
from collections import Counter
from pathlib import Path
from typing import Any

VERIF = Path(__file__).resolve().parent.parent
LEAN = VERIF / "lean"
DRIVER = LEAN / ".lake" / "build" / "bin" / "stabdrv"
ALLOWED_AXIOMS = {"propext", "Classical.choice", "Quot.sound"}
FORBIDDEN = re.compile(r"\bsorry\b|\badmit\b|^\s*axiom\s|native_decide|bv_decide|implemented_by|\bunsafe\s|maxHeartbeats\s+0\b|@\[extern")

TRUSTED_BASE_COMMON = [
    "Lean 4.33.0 kernel (optionally re-checked by leanchecker in the thorough tier)",
    "axioms allowed in property theorems: propext, Classical.choice, Quot.sound (audited with #print axioms on every run); no sorry/admit/native_decide/bv_decide/own axioms (grep on every run)",
    "translate/*.py (Python ast extractors) for the generated tables in lean/Stab/Gen",
    "the correspondence harness (harness/*.py), its canonicalisation and generators: the model is tied to /repo only on the inputs it generates",
    "SQLite atomic commit / single writer, CPython json round-trip, python-ulid monotonic ids: modelled, not verified",
]


class Infra(Exception):
    """Infrastructure problem: exit 2, never a violation."""


def repo_root() -> Path:
    return Path(os.environ.get("STABILIZE_REPO", "/repo"))


def ensure_repo_on_path() -> None:
    src = str(repo_root() / "src")
    if src not in sys.path:
        sys.path.insert(0, src)
    os.environ.setdefault("STABILIZE_VERIF", "1")
    import stabilize  # noqa

    if not str(Path(stabilize.__file__).resolve()).startswith(str((repo_root() / "src").resolve())):
        raise Infra(f"stabilize imported from {stabilize.__file__}, expected under {repo_root()}/src")


def scratch_dir() -> Path:
    base = Path("/dev/shm") if Path("/dev/shm").is_dir() and os.access("/dev/shm", os.W_OK) else Path(tempfile.gettempdir())
    d = Path(tempfile.mkdtemp(prefix="stabverif-", dir=base))
    return d


# --------------------------------------------------------------------------------------
# Lean side
# --------------------------------------------------------------------------------------

class LakeLock:
    def __enter__(self):
        LEAN.mkdir(exist_ok=True)
        self.f = open(LEAN / ".lake-lock", "w")
        fcntl.flock(self.f, fcntl.LOCK_EX)
        return self

    def __exit__(self, *a):
        fcntl.flock(self.f, fcntl.LOCK_UN)
        self.f.close()


def run_translators() -> dict:
    sys.path.insert(0, str(VERIF))
    out: dict[str, Any] = {}
    import translate.run as tr

    importlib.reload(tr)
    return tr.run_all()


def lake_build(targets: list[str], timeout: int = 3000) -> tuple[bool, str]:
    env = dict(os.environ)
    p = subprocess.run(["lake", "build", *targets], cwd=LEAN, capture_output=True, text=True, timeout=timeout, env=env)
    return p.returncode == 0, (p.stdout + p.stderr)


def theorem_names(prop: str) -> list[str]:
    """Names of the theorems of Stab/Props/<prop>.lean (fully qualified)."""
    f = LEAN / "Stab" / "Props" / f"{prop}.lean"
    if not f.exists():
        return []
    names = []
    ns: list[str] = []
    for line in strip_comments(f.read_text()).splitlines():
        m = re.match(r"^\s*namespace\s+(\S+)", line)
        if m:
            ns.append(m.group(1))
            continue
        m = re.match(r"^\s*end\s+(\S+)", line)
        if m and ns and ns[-1] == m.group(1):
            ns.pop()
            continue
        m = re.match(r"^\s*(?:@\[[^\]]*\]\s*)*(?:private\s+|protected\s+)?theorem\s+(\S+)", line)
        if m:
            names.append(".".join(ns + [m.group(1)]))
    return names


def strip_comments(text: str) -> str:
    # block comments (nested) and line comments
    out = []
    i = 0
    depth = 0
    n = len(text)
    while i < n:
        if text.startswith("/-", i):
            depth += 1
            i += 2
            continue
        if depth and text.startswith("-/", i):
            depth -= 1
            i += 2
            continue
        if depth:
            if text[i] == "\n":
                out.append("\n")
            i += 1
            continue
        if text.startswith("--", i):
            while i < n and text[i] != "\n":
                i += 1
            continue
        out.append(text[i])
        i += 1
    return "".join(out)


def grep_forbidden() -> list[str]:
    hits = []
    for f in sorted((LEAN / "Stab").rglob("*.lean")) + [LEAN / "Driver.lean"]:
        if not f.exists():
            continue
        for ln, line in enumerate(strip_comments(f.read_text()).splitlines(), 1):
            if FORBIDDEN.search(line):
                hits.append(f"{f.relative_to(LEAN)}:{ln}: {line.strip()}")
    return hits


def audit_axioms(prop: str, names: list[str]) -> dict[str, list[str] | None]:
    """#print axioms for every theorem; None = could not be printed."""
    if not names:
        return {}
    d = LEAN / ".audit"
    d.mkdir(exist_ok=True)
    f = d / f"{prop}.lean"
    f.write_text(f"import Stab.Props.{prop}\n" + "".join(f"#print axioms {n}\n" for n in names))
    p = subprocess.run(["lake", "env", "lean", str(f)], cwd=LEAN, capture_output=True, text=True, timeout=1200)
    text = p.stdout + p.stderr
    res: dict[str, list[str] | None] = {n: None for n in names}
    for m in re.finditer(r"'([^']+)' depends on axioms: \[([^\]]*)\]", text, re.S):
        res[m.group(1)] = [a.strip() for a in m.group(2).replace("\n", " ").split(",") if a.strip()]
    for m in re.finditer(r"'([^']+)' does not depend on any axioms", text):
        res[m.group(1)] = []
    return res


# --------------------------------------------------------------------------------------
# Context handed to the per-property modules
# --------------------------------------------------------------------------------------

class Ctx:
    def __init__(self, prop: str, tier: str, seed: int):
        self.prop = prop
        self.tier = tier
        self.seed = seed
        self.rng = random.Random(f"{prop}:{seed}")
        self.t0 = time.time()
        self.evaluations = 0
        self._distinct: set[str] = set()
        self.samples: list[Any] = []
        self.tags: Counter[str] = Counter()
        self.corr_failures: list[dict] = []
        self.corr_suites: Counter[str] = Counter()
        self.monitor_hits: list[dict] = []
        self.notes: list[str] = []
        self.driver_ok = DRIVER.exists()
        self.driver_path = DRIVER
        self.exhaustive = False
        self.extra: dict[str, Any] = {}
        self.budget_scale = float(os.environ.get("VERIF_BUDGET", "1"))

    # ---- bookkeeping -------------------------------------------------------------
    @property
    def thorough(self) -> bool:
        return self.tier == "thorough"

    def n(self, quick: int, thorough: int) -> int:
        return max(1, int((thorough if self.thorough else quick) * self.budget_scale))

    def count(self, canonical_input: Any, nontrivial: bool = True) -> None:
        self.evaluations += 1
        if nontrivial:
            self._distinct.add(hashlib.sha1(json.dumps(canonical_input, sort_keys=True, default=str).encode()).hexdigest())

    def sample(self, x: Any, cap: int = 6) -> None:
        if len(self.samples) < cap:
            self.samples.append(x)

    def tag(self, *names: str) -> None:
        for n in names:
            self.tags[n] += 1

    # ---- model driver ------------------------------------------------------------
    def lean(self, lines: list[str], timeout: int = 1800) -> list[str] | None:
        """Pipe lines to the compiled model driver; one output line per input line."""
        if not self.driver_ok:
            return None
        if not lines:
            return []
        for l in lines:
            if "\n" in l:
                raise Infra("newline inside a driver line")
        p = subprocess.run([str(self.driver_path)], input="\n".join(lines) + "\n", capture_output=True, text=True, timeout=timeout)
        if p.returncode != 0:
            raise Infra(f"model driver failed rc={p.returncode}: {p.stderr[:2000]}")
        out = p.stdout.split("\n")
        if out and out[-1] == "":
            out.pop()
        if len(out) != len(lines):
            raise Infra(f"model driver returned {len(out)} lines for {len(lines)} inputs")
        return out

    def correspond(self, suite: str, inputs: list[Any], lines: list[str], impl_out: list[str]) -> int:
        """Run `lines` through the model and diff with the implementation's canonical outputs."""
        assert len(inputs) == len(lines) == len(impl_out)
        self.corr_suites[suite] += len(lines)
        model_out = self.lean(lines)
        if model_out is None:
            self.notes.append(f"suite {suite}: model driver unavailable, correspondence skipped")
            return 0
        bad = 0
        for inp, line, a, b in zip(inputs, lines, impl_out, model_out):
            if a != b:
                bad += 1
                if len(self.corr_failures) < 50:
                    self.corr_failures.append({"suite": suite, "input": inp, "driver_line": line, "impl": a, "model": b})
        return bad

    # ---- monitors ----------------------------------------------------------------
    def violation(self, what: str, signature: str, replay: Any) -> None:
        """An implementation-side oracle saw the property fail on a concrete input."""
        for h in self.monitor_hits:
            if h["signature"] == signature:
                h["count"] += 1
                return
        self.monitor_hits.append({"what": what, "signature": signature, "replay": replay, "count": 1})


def match_known(sig: str, known_sigs: dict[str, dict]) -> dict | None:
    """exact signature, or a listed signature ending in `*` (a documented class of inputs) as a prefix"""
    if sig in known_sigs:
        return known_sigs[sig]
    for ks, k in known_sigs.items():
        if ks.endswith("*") and sig.startswith(ks[:-1]):
            return k
    return None


def load_known() -> list[dict]:
    f = VERIF / "known_findings.json"
    if not f.exists():
        return []
    return json.loads(f.read_text()).get("findings", [])


def write_replay(prop: str, body: dict) -> Path:
    d = VERIF / "out" / "replays"
    d.mkdir(parents=True, exist_ok=True)
    h = hashlib.sha1(json.dumps(body, sort_keys=True, default=str).encode()).hexdigest()[:12]
    p = d / f"{prop}-{h}.json"
    p.write_text(json.dumps(body, indent=1, default=str))
    return p


def run_check(prop: str, tier: str, seed: int, replay: str | None = None) -> int:
    t0 = time.time()
    ctx = Ctx(prop, tier, seed)
    ensure_repo_on_path()
    mod = importlib.import_module(f"harness.props.{prop.lower()}")

    if replay:
        return mod.replay(ctx, json.loads(Path(replay).read_text()))

    # 1. translate + 2. prove (one lock: the generated files and the build output are shared) ------
    proof_problems: list[str] = []
    names = theorem_names(prop)
    axioms: dict[str, list[str] | None] = {}
    build_log = ""
    with LakeLock():
        try:
            gen = run_translators()
        except Exception as e:  # translator no longer understands the source: a broken tie, not infra
            gen = {"error": f"{type(e).__name__}: {e}"}
            proof_problems.append(f"translator failed: {type(e).__name__}: {e}")
        ok_drv, log_drv = lake_build(["stabdrv"])
        if not ok_drv:
            # the driver only depends on Model/*; if it fails it is our bug or the toolchain
            build_log += log_drv
        ctx.driver_ok = DRIVER.exists() and ok_drv
        if ctx.driver_ok:
            # private copy: other people's builds replace the binary while this check runs
            ctx.driver_path = Path(tempfile.mkdtemp(prefix="stabdrv-", dir="/dev/shm" if Path("/dev/shm").is_dir() else None)) / "stabdrv"
            shutil.copy2(DRIVER, ctx.driver_path)
        ok, log = lake_build([f"Stab.Props.{prop}"])
        build_log += log
        if not ok:
            proof_problems.append("lake build Stab.Props.%s failed: %s" % (prop, first_error(log)))
        else:
            axioms = audit_axioms(prop, names)
    if not names:
        proof_problems.append(f"no theorems found in Stab/Props/{prop}.lean")
    for n in names:
        ax = axioms.get(n)
        if ax is None:
            if ok:
                proof_problems.append(f"theorem {n}: axioms could not be printed")
        elif not set(ax) <= ALLOWED_AXIOMS:
            proof_problems.append(f"theorem {n} depends on disallowed axioms {sorted(set(ax) - ALLOWED_AXIOMS)}")
    forb = grep_forbidden()
    if forb:
        proof_problems.append("forbidden tokens: " + "; ".join(forb[:5]))
    discharged = sum(1 for n in names if axioms.get(n) is not None and set(axioms[n]) <= ALLOWED_AXIOMS) if not forb else 0

    leanchecker = None
    if tier == "thorough" and ok and os.environ.get("VERIF_SKIP_LEANCHECKER") != "1":
        try:
            p = subprocess.run(["lake", "env", "leanchecker", f"Stab.Props.{prop}"], cwd=LEAN, capture_output=True, text=True, timeout=1800)
            leanchecker = {"rc": p.returncode, "tail": (p.stdout + p.stderr)[-300:]}
            if p.returncode != 0:
                proof_problems.append("leanchecker rejected Stab.Props.%s" % prop)
        except Exception as e:
            leanchecker = {"error": str(e)}

    # 3+4. correspond and monitor -------------------------------------------------------
    infra_error = None
    try:
        mod.run(ctx)
    except Infra as e:
        infra_error = str(e)
    except Exception as e:
        if type(e).__name__ == "TranslateError":
            # a translator used inside the suite no longer understands the source: the tie is broken, not the infrastructure
            proof_problems.append(f"translator failed inside the suite: {e}")
        else:
            infra_error = traceback.format_exc()

    if infra_error is None and (proof_problems or ctx.corr_failures) and not ctx.monitor_hits and hasattr(mod, "search"):
        # 5. a proof obligation or the correspondence broke: search for a concrete failing input
        try:
            ctx.extra["search_ran"] = True
            mod.search(ctx)
        except Infra as e:
            infra_error = str(e)
        except Exception:
            infra_error = traceback.format_exc()

    # decide -----------------------------------------------------------------------------
    known = [k for k in load_known() if k.get("property") == prop and k.get("kind") == "known"]
    known_sigs = {k["signature"]: k for k in known}
    out_lines: list[str] = []
    new_hits = []
    known_seen = []
    printed = set()
    for h in ctx.monitor_hits:
        k = match_known(h["signature"], known_sigs)
        if k is not None:
            known_seen.append(h["signature"])
            if k["signature"] not in printed:
                printed.add(k["signature"])
                out_lines.append(f"KNOWN-FINDING: property={prop} {k.get('what', h['what'])}")
        else:
            new_hits.append(h)
    rc = 0
    for h in new_hits:
        p = write_replay(prop, {"property": prop, "kind": "failing-input", "what": h["what"], "signature": h["signature"],
                                "replay": h["replay"], "seed": seed, "tier": tier})
        out_lines.append(f"VIOLATION property={prop} replay={p}")
        rc = 1
    if not new_hits and (proof_problems or ctx.corr_failures) and infra_error is None:
        p = write_replay(prop, {"property": prop, "kind": "no-failing-input-found",
                                "proof_obligations_broken": proof_problems,
                                "correspondence_broken": ctx.corr_failures[:10],
                                "build_log_tail": build_log[-3000:] if proof_problems else "",
                                "seed": seed, "tier": tier})
        out_lines.append(f"VIOLATION property={prop} replay={p} no-failing-input-found")
        rc = 1
    if infra_error is not None and rc == 0:
        rc = 2

    wall = time.time() - t0
    theorems = {n: axioms.get(n) for n in names}
    evidence = {
        "property_id": prop,
        "tier": tier,
        "seed": seed,
        "level": "proof",
        "wall_s": round(wall, 2),
        "violations": len(new_hits) + (1 if rc == 1 and not new_hits else 0),
        "coverage": {
            "obligations": max(len(names), 1),
            "discharged": discharged,
            "checker_cmd": f"cd lean && lake build Stab.Props.{prop} && lake env lean .audit/{prop}.lean  # #print axioms for each theorem"
                           + ("; lake env leanchecker Stab.Props.%s" % prop if tier == "thorough" else ""),
            "trusted_base": TRUSTED_BASE_COMMON + list(getattr(mod, "TRUSTED_BASE", [])),
            "theorems": theorems,
            "partial_theorems": [n for n in names if n.endswith("_partial")],
            "proof_problems": proof_problems,
            "leanchecker": leanchecker,
            "generated_tables": gen,
            "evaluations": ctx.evaluations,
            "distinct_nontrivial": len(ctx._distinct),
            "rule": getattr(mod, "RULE", ""),
            "samples": ctx.samples or [{"obligation": n, "axioms": axioms.get(n)} for n in names[:3]],
            "exhaustive": ctx.exhaustive,
            "correspondence_suites": dict(ctx.corr_suites),
            "correspondence_failures": ctx.corr_failures[:10],
            "traces_validated_against_impl": sum(ctx.corr_suites.values()) if ctx.driver_ok else 0,
            "branch_tags_hit": dict(ctx.tags),
            "monitor_hits": [{"what": h["what"], "signature": h["signature"], "count": h["count"]} for h in ctx.monitor_hits],
            "known_findings_seen": known_seen,
            "notes": ctx.notes,
            "infra_error": infra_error,
            **ctx.extra,
        },
        "assumptions": list(getattr(mod, "ASSUMPTIONS", [])),
    }
    # committed evidence comes from runs against /repo itself; a development run against a scratch copy
    # (STABILIZE_REPO=...) writes next to the replays instead
    edir = VERIF / "evidence" if os.path.realpath(os.environ.get("STABILIZE_REPO", "/repo")) == "/repo" else VERIF / "out" / "evidence-dev"
    edir.mkdir(parents=True, exist_ok=True)
    (edir / f"{prop}.json").write_text(json.dumps(evidence, indent=1, default=str))

    if ctx.driver_path != DRIVER:
        shutil.rmtree(ctx.driver_path.parent, ignore_errors=True)
    for l in out_lines:
        print(l)
    status = {0: "HELD", 1: "VIOLATION", 2: "INFRA-ERROR"}[rc]
    print(f"[{prop}] {status} tier={tier} seed={seed} theorems={discharged}/{len(names)} evaluations={ctx.evaluations} "
          f"distinct={len(ctx._distinct)} corr_fail={len(ctx.corr_failures)} monitor_hits={len(ctx.monitor_hits)} wall={wall:.1f}s")
    if infra_error:
        print(infra_error, file=sys.stderr)
    if proof_problems:
        for pp in proof_problems:
            print("  proof-problem:", pp[:500], file=sys.stderr)
    return rc


def first_error(log: str) -> str:
    for line in log.splitlines():
        if "error" in line:
            return line.strip()[:300]
    return log.strip()[-300:]


def setup() -> int:
    """MANIFEST.setup_cmd: translate + build everything."""
    ensure_repo_on_path()
    try:
        run_translators()
    except Exception as e:
        print("translator problem during setup (reported by the checks):", e, file=sys.stderr)
    with LakeLock():
        ok, log = lake_build(["stabdrv"])
        print(log[-2000:])
        ok2, log2 = lake_build([])
        print(log2[-4000:])
    return 0 if ok else 2
