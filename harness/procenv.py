"""Small assembly kit for suites that drive the REAL QueueProcessor on a scratch SQLite file (used by C09, C14).

Nothing in the repo is modified; rows of `queue_messages` are chosen for delivery by rewriting `deliver_at`
(time is made explicit) and then calling the real `poll_one()`, so the attempts arithmetic is the engine's own.
"""
from __future__ import annotations

import json
import shutil
import sqlite3
from datetime import timedelta
from pathlib import Path
from typing import Any

PAST = "2000-01-01T00:00:00+00:00"
FUTURE = "2100-01-01T00:00:00+00:00"


def reset_globals() -> None:
    from stabilize import RunTaskHandler
    from stabilize.events import reset_event_bus, reset_event_migrator, reset_event_recorder
    from stabilize.persistence.connection import ConnectionManager, SingletonMeta
    from stabilize.queue.dedup import reset_deduplicator
    from stabilize.resilience.cancellation import reset_cancellation_state

    SingletonMeta.reset(ConnectionManager)
    RunTaskHandler._executing_tasks.clear()
    reset_cancellation_state()
    reset_event_bus()
    reset_event_recorder()
    reset_event_migrator()
    reset_deduplicator()


class PassThroughCircuits:
    """Injected instead of WorkflowCircuitFactory: the in-memory circuit state is keyed by task type, so permanent
    failures of one scripted workflow open the circuit for every later workflow of the run (RunTask then fails fast
    with a TransientError for 30 s without executing the task). Suites that are not about circuit breaking switch it off."""

    def get_circuit(self, workflow_execution_id: str, task_type: str):  # noqa: ARG002
        return lambda f: f

    def clear_workflow_circuits(self, workflow_execution_id: str) -> None:  # noqa: ARG002
        return None


class ProcEnv:
    """store + queue + processor on one scratch file; `ro` is an independent autocommit connection for inspection."""

    def __init__(self, workdir: Path, name: str, tasks: dict[str, Any] | None = None, qmax: int = 10,
                 proc_config: Any = None, reset: bool = True, dedup_items: int | None = 5000, pass_circuit: bool = True):
        from stabilize import SqliteQueue, SqliteWorkflowStore

        self.dir = Path(workdir)
        self.path = self.dir / f"{name}.db"
        self.url = f"sqlite:///{self.path}"
        self.tasks = dict(tasks or {})
        self.qmax = qmax
        self.proc_config = proc_config
        self.pass_circuit = pass_circuit
        if reset:
            reset_globals()
            if dedup_items:
                # the process-wide filter is created on first use; with the default 100 000 expected items every
                # message pays ~130 ms in should_reset()/fill_ratio (pure-Python popcount over 180 kB)
                from stabilize.queue.dedup import get_deduplicator

                get_deduplicator(expected_items=dedup_items)
        from harness.engine import install_kill_shim

        install_kill_shim()   # engine connections can die at a chosen commit (see kill_after); inert until armed
        self.store = SqliteWorkflowStore(self.url, create_tables=True)
        self.queue = SqliteQueue(self.url, lock_duration=timedelta(hours=1), max_attempts=qmax)
        self.queue._create_table()
        self.processor = self.new_processor()
        self.ro = sqlite3.connect(str(self.path), isolation_level=None, check_same_thread=False)
        self.ro.row_factory = sqlite3.Row

    def new_processor(self, proc_config: Any = None):
        from stabilize import QueueProcessor, TaskRegistry
        from stabilize.resilience.config import HandlerConfig

        reg = TaskRegistry()
        for n, t in self.tasks.items():
            reg.register(n, t)
        hc = HandlerConfig(task_backoff_min_delay_ms=1, task_backoff_max_delay_ms=2, handler_retry_delay_seconds=0.001,
                           concurrency_min_delay_ms=1, concurrency_max_delay_ms=2)
        cfg = proc_config if proc_config is not None else self.proc_config
        return QueueProcessor(self.queue, config=cfg, store=self.store, task_registry=reg, handler_config=hc,
                              circuit_factory=PassThroughCircuits() if self.pass_circuit else None)

    # ---- queue inspection / explicit time -------------------------------------------------------
    def rows(self) -> list[sqlite3.Row]:
        return self.ro.execute(
            "SELECT id, message_type, payload, attempts, max_attempts FROM queue_messages ORDER BY id").fetchall()

    def row(self, rid: int):
        return self.ro.execute(
            "SELECT id, message_type, payload, attempts, max_attempts FROM queue_messages WHERE id = ?", (rid,)).fetchone()

    def poll_row(self, rid: int):
        """Make row `rid` the only deliverable one (delay elapsed, lock lapsed) and call the real poll_one()."""
        self.ro.execute(
            "UPDATE queue_messages SET locked_until = NULL, deliver_at = CASE WHEN id = ? THEN ? ELSE ? END",
            (rid, PAST, FUTURE))
        m = self.queue.poll_one()
        if m is not None and m.message_id != str(rid):
            raise RuntimeError(f"poll_one returned row {m.message_id}, wanted {rid}")
        return m

    def release_all(self) -> None:
        self.ro.execute("UPDATE queue_messages SET locked_until = NULL, deliver_at = ?", (PAST,))

    def handle_and_ack(self, m) -> None:
        """what QueueProcessor.process_one does after poll_one on the success path"""
        self.processor._handle_message(m)
        self.queue.ack(m)

    def kill_after(self, m, k: int) -> tuple[str, int]:
        """process_one's success path on `m`, but the worker process dies when `k` durable commits of this delivery have
        completed (the (k+1)-th commit raises instead of committing); then the process is restarted on the same file.
        Returns ("killed" | "completed", commits completed)."""
        from harness.engine import Kill, _KillState

        _KillState.count, _KillState.dead, _KillState.armed = 0, False, k
        outcome = "completed"
        try:
            self.processor._handle_message(m)
            self.queue.ack(m)
        except Kill:
            outcome = "killed"
        finally:
            n = _KillState.count
            _KillState.armed, _KillState.dead = None, False
        if outcome == "killed":
            self.restart()
        return outcome, n

    def handle_with_concurrent_writer(self, m, k: int, stage_id: str) -> int:
        """process_one's success path on `m`, while a second client (own thread = own connection) commits a write to the
        stage row `stage_id` (context key `ext` bumped through the real read-modify-`store_stage`, so the version moves)
        right after the k-th `retrieve_stage` call the handler makes in this delivery.  Returns how many injections ran
        (0 when the handler made fewer than k such calls)."""
        import threading

        from stabilize.persistence.connection import ConnectionManager

        store = self.store
        orig = store.retrieve_stage
        state = {"calls": 0, "done": 0}
        main = threading.current_thread()
        conn = ConnectionManager().get_sqlite_connection(self.url)

        def other_client() -> None:
            st = orig(stage_id)
            st.context["ext"] = int(st.context.get("ext", 0)) + 1
            store.store_stage(st)

        def wrapped(sid, *a, **kw):  # noqa: ANN001
            res = orig(sid, *a, **kw)
            if threading.current_thread() is main:
                state["calls"] += 1
                # only where this client holds no SQLite lock (a writer would just block until our commit otherwise)
                if state["calls"] >= k and not state["done"] and not conn.in_transaction:
                    th = threading.Thread(target=other_client)
                    th.start()
                    th.join(30)
                    state["done"] += 1
            return res

        store.retrieve_stage = wrapped
        try:
            self.processor._handle_message(m)
            self.queue.ack(m)
        finally:
            del store.retrieve_stage
        return state["done"]

    def restart(self) -> None:
        """the worker process is gone: its connection (with whatever transaction was open) is closed, volatile state
        (bloom filter, executing-task registry) is lost, store/queue/processor objects are rebuilt from the file"""
        from stabilize import RunTaskHandler, SqliteQueue, SqliteWorkflowStore
        from stabilize.persistence.connection import ConnectionManager
        from stabilize.queue.dedup import get_deduplicator, reset_deduplicator

        ConnectionManager().close_sqlite_connection(self.url)
        RunTaskHandler._executing_tasks.clear()
        reset_deduplicator()
        get_deduplicator(expected_items=5000)
        self.store = SqliteWorkflowStore(self.url, create_tables=True)
        self.queue = SqliteQueue(self.url, lock_duration=timedelta(hours=1), max_attempts=self.qmax)
        self.processor = self.new_processor()

    def drain(self, max_messages: int = 10_000) -> int:
        """FIFO drain through the real process_one until nothing is deliverable."""
        n = 0
        while n < max_messages:
            self.release_all()
            try:
                if not self.processor.process_one():
                    break
            except Exception:
                pass
            n += 1
        return n

    def close(self) -> None:
        try:
            self.ro.close()
        except Exception:
            pass
        try:
            self.store.close()
        except Exception:
            pass


def payload(row) -> dict:
    try:
        return json.loads(row["payload"])
    except Exception:
        return {}


def rmtree(p: Path) -> None:
    shutil.rmtree(p, ignore_errors=True)
