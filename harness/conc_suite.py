"""Concurrency-limit / cancel-before-start family (IMPLEMENTATION-ONLY: monitors on runs of the real engine, no model line).

Several workflows share one `pipeline_config_id` with `is_limit_concurrent` and `max_concurrent_executions` = 1 | 2: StartWorkflow
parks the surplus ones BUFFERED, CompleteWorkflow of a running one pushes StartWaitingWorkflows, which promotes the oldest waiting
ones (BUFFERED -> NOT_STARTED + StartWorkflow) and - with keep_waiting_pipelines=False - purges the others (store.cancel: the flag
only).  Besides: an operator's store.cancel() (flag only, what the monitor UI calls) on a workflow that has not started yet, and
Orchestrator.cancel at random moments.  All workflows live in ONE database / queue and are delivered in order or in random order.

Oracles (C05: "final or explicitly waiting for ... a concurrency slot"; C17: "the workflow reaches a final status"):
  * drained  =>  every workflow is final, or BUFFERED while as many workflows RUN as the limit allows (a slot is really awaited);
  * never more workflows RUNNING than the limit;
  * a workflow whose cancel flag is set is final (CANCELED unless it had finished) once the queue is drained.
A third of the scenarios is the CancelRegion member: ONE generated workflow (engine_suites.gen_spec, families w0 / w1), a random
subset of its stages tagged cancel_region='r', a CancelRegion message pushed before a random step, in-order or random delivery;
oracle: drained => the workflow is final or a stage explicitly waits; no RUNNING stage in a finished workflow.
The AddMultiInstance member (C01 only) is described at run_mi.
Found on the unchanged tree: F64 (AddMultiInstance in three commits, the first one carrying the dedup mark), F63 (CancelRegion fanned out CancelStage and queued no CompleteWorkflow: RUNNING for ever), F60 (StartWorkflow of a canceled workflow called a stub: NOT_STARTED for ever; purged waiting
workflows never became final and the slot was never offered again)."""
from __future__ import annotations

import json
import random
import shutil
import time
from concurrent.futures import ProcessPoolExecutor
from pathlib import Path

from harness import core

FINAL = {"SUCCEEDED", "TERMINAL", "CANCELED", "STOPPED", "FAILED_CONTINUE", "SKIPPED"}


def run_region(case: dict, wd: Path) -> dict:
    """CancelRegion member: ONE generated workflow, some stages tagged cancel_region='r', CancelRegion pushed before step `at`"""
    import re

    from harness.engine import Engine, Spec

    core.ensure_repo_on_path()
    import logging

    logging.disable(logging.CRITICAL)
    rng = random.Random(case["seed"])
    spec = Spec.from_json(case["spec"])
    e = Engine(spec, wd)
    try:
        from stabilize.queue.messages import CancelRegion

        for i in case["region"]:
            e.ro.execute("UPDATE stage_executions SET cancel_region='r' WHERE id=?", (e.stage_ids[i],))
        e.start()
        ops: list[str] = []
        sent = False
        at = case["at"]
        for step in range(800):
            if not sent and step >= at:
                e.queue.push(CancelRegion(execution_type=e._wf_obj.type.value, execution_id=e.wf_id, region="r"))
                ops.append("CancelRegion(r)")
                sent = True
            p = e.pending()
            dl = e.delayed_ids()
            now = [x for x in p if x[0] not in dl]
            p = now or [x for x in p if x[1].startswith("RT.")] or p
            if not p:
                if not sent:
                    at = step
                    continue
                break
            x = p[0] if case["mode"] == "fifo" else rng.choice(p)
            r = e.deliver(x[0])
            ops.append(f"d{x[0]}[{x[1]}]" + ("" if r == "ok" else ":" + r))
        parts = e.state_line().split(";")
        w = parts[0][2:].split(",")[0]
        st = [q.split("=")[1].split(",")[0] for q in parts if re.match(r"S\d+=", q)]
        sigs = []
        if e.pending():
            sigs.append(("no-drain", "the queue did not drain within the step budget"))
        if w not in FINAL and not any(x in ("SUSPENDED", "PAUSED") for x in st):
            sigs.append((f"region:stuck:W-{w}:stages-{'+'.join(sorted(set(st)))}",
                         f"after CancelRegion the queue is drained, the workflow is {w} and nothing waits for a signal; stages {st}"))
        if w in FINAL and any(x == "RUNNING" for x in st):
            sigs.append(("region:finished-with-running-stage", f"workflow {w} with a RUNNING stage: {st}"))
        if w == "SUCCEEDED" and any(x not in ("SUCCEEDED", "SKIPPED", "FAILED_CONTINUE") for x in st[:len(spec.stages)]):
            sigs.append(("region:succeeded-with-unfinished-or-failed-stage", f"workflow SUCCEEDED with stages {st}"))
        return {"final": [w] + st, "ops": ops, "sigs": sorted(set(sigs)), "nmsg": sum(1 for o in ops if o[0] == "d")}
    finally:
        e.close()


MI_CONFIG = {"allow_dynamic": True, "count": 0, "count_from_context": "", "sync_on_complete": True,
             "collection_from_context": "", "join_threshold": 0, "cancel_remaining": False}


def run_mi(case: dict, wd: Path) -> dict:
    """AddMultiInstance member (C01): a stage with a dynamic multi-instance config polls; after `at` in-order deliveries an
    AddMultiInstance message is pushed and delivered - uninterrupted (reference) or with the worker killed after its k-th
    commit, followed by restart + lock expiry + recovery sweep; then the in-order drain.  Oracle: the same stages with the same
    final statuses as the uninterrupted run (crash anywhere + recovery = uninterrupted outcome)."""
    from harness.engine import Engine, Spec

    core.ensure_repo_on_path()
    import logging

    logging.disable(logging.CRITICAL)
    spec = Spec.from_json(case["spec"])

    def one(kill_k):
        e = Engine(spec, wd, name=f"mi{kill_k}")
        try:
            from stabilize.queue.messages import AddMultiInstance

            e.ro.execute("UPDATE stage_executions SET mi_config=? WHERE id=?", (json.dumps(MI_CONFIG), e.stage_ids[0]))
            e.start()
            ops: list[str] = []

            def dl(n: int) -> None:
                for _ in range(n):
                    p = e.pending()
                    if not p:
                        return
                    r = e.deliver(p[0][0])
                    ops.append(f"d{p[0][0]}[{p[0][1]}]" + ("" if r == "ok" else ":" + r))

            dl(case["at"])
            e.queue.push(AddMultiInstance(execution_type=e._wf_obj.type.value, execution_id=e.wf_id, stage_id=e.stage_ids[0],
                                          instance_context={"x": 1}))
            rid = [i for i, c, _ in e.pending() if c.startswith("AddMultiInstance")][0]
            if kill_k is None:
                r = e.deliver(rid)
                ops.append(f"d{rid}[AddMultiInstance]" + ("" if r == "ok" else ":" + r))
            else:
                r, _n = e.crash(rid, kill_k)
                ops.append(f"k{rid}.{kill_k}[AddMultiInstance]:{r}")
                if r == "killed":
                    e.restart()
                    e.expire_locks()
                    e.sweep()
                    ops.append("restart+expire+sweep")
            dl(300)
            rows = e.ro.execute("SELECT ref_id, status FROM stage_executions ORDER BY ref_id").fetchall()
            w = e.ro.execute("SELECT status FROM pipeline_executions").fetchone()[0]
            return [w] + [f"{r[0]}={r[1]}" for r in rows], ops, bool(e.pending())
        finally:
            e.close()

    ref, _ops, _nd = one(None)
    got, ops, nodrain = one(case["kill"])
    sigs = []
    if nodrain:
        sigs.append(("no-drain", "the queue did not drain within the step budget"))
    if got != ref:
        lost = sorted(set(ref) - set(got))
        sigs.append((f"mi:outcome-differs-after-kill:k{case['kill']}:{'instance-lost' if any('_instance_' in x for x in lost) else 'other'}",
                     f"AddMultiInstance killed after commit {case['kill']} + restart + sweep ends {got}, the uninterrupted run {ref}"))
    return {"final": got, "ops": ops, "sigs": sorted(set(sigs)), "nmsg": sum(1 for o in ops if o[0] == "d")}


def run_flag(case: dict, wd: Path) -> dict:
    """cancel-through-the-store member (C17): ONE generated workflow; before step `at` the operator cancels it -
    via = "ui": through the monitor's own action (monitor/display/interaction.handle_workflow_action with the curses calls
    stubbed), the monitor having been given the queue;  via = "store": WorkflowStore.cancel() called directly (the flag only).
    Oracle = C17's clauses: no task execution starts after the request, every stage unfinished at that moment ends CANCELED, the
    workflow is final - CANCELED unless it had in effect finished - once the queue is drained."""
    import re
    import types

    from harness.engine import Engine, Spec

    core.ensure_repo_on_path()
    import logging

    logging.disable(logging.CRITICAL)
    rng = random.Random(case["seed"])
    spec = Spec.from_json(case["spec"])
    e = Engine(spec, wd)
    try:
        def parse():
            parts = e.state_line().split(";")
            return parts[0][2:].split(",")[0], [q.split("=")[1].split(",")[0] for q in parts if re.match(r"S\d+=", q)]

        e.start()
        ops: list[str] = []
        sent = False
        at = case["at"]
        pre = None
        ledger_at = None
        for step in range(800):
            if not sent and step >= at:
                pre = parse()
                if case["via"] == "ui":
                    from stabilize.monitor.data import MonitorDataFetcher
                    from stabilize.monitor.display import interaction

                    saved = (interaction.get_input, interaction.show_message)
                    interaction.get_input = lambda _scr, _prompt: "operator said so"
                    interaction.show_message = lambda *_a, **_k: None
                    try:
                        interaction.handle_workflow_action(None, "cancel", {"type": "workflow", "data": types.SimpleNamespace(id=e.wf_id)},
                                                           MonitorDataFetcher(e.store, e.queue))
                    finally:
                        interaction.get_input, interaction.show_message = saved
                    ops.append("monitor:cancel")
                else:
                    e.store.cancel(e.wf_id, "operator", "flag only")
                    ops.append("store.cancel")
                sent = True
                ledger_at = len(e.world.ledger)
            p = e.pending()
            dl = e.delayed_ids()
            now = [x for x in p if x[0] not in dl]
            p = now or [x for x in p if x[1].startswith("RT.")] or p
            if not p:
                if not sent:
                    at = step
                    continue
                break
            x = p[0] if case["mode"] == "fifo" else rng.choice(p)
            r = e.deliver(x[0])
            ops.append(f"d{x[0]}[{x[1]}]" + ("" if r == "ok" else ":" + r))
        w, st = parse()
        pfx = "ui-cancel" if case["via"] == "ui" else "flag-only-cancel"
        sigs = []
        if e.pending():
            sigs.append(("no-drain", "the queue did not drain within the step budget"))
        if w not in FINAL:
            sigs.append((f"{pfx}:not-final:W-{w}", f"cancel requested ({case['via']}), queue drained, workflow {w}, stages {st}"))
        if pre is not None and pre[0] not in FINAL:
            for i, (a, b) in enumerate(zip(pre[1], st)):
                if a == "NOT_STARTED" and b not in ("CANCELED", "NOT_STARTED") or a in ("RUNNING", "SUSPENDED") and b not in ("CANCELED",) + tuple(FINAL - {"SKIPPED"}):
                    sigs.append((f"{pfx}:unfinished-stage-ends:{a}>{b}", f"stage {i} was {a} at the request and ends {b}"))
                if a == "NOT_STARTED" and b == "NOT_STARTED" and w in FINAL:
                    sigs.append((f"{pfx}:unfinished-stage-ends:NOT_STARTED>NOT_STARTED", f"stage {i} was never started and is left NOT_STARTED in the {w} workflow"))
        if ledger_at is not None and any(True for _ in e.world.ledger[ledger_at:]):
            sigs.append((f"{pfx}:task-executed-after-request", f"{len(e.world.ledger) - ledger_at} task execution(s) began after the request"))
        return {"final": [w] + st, "ops": ops, "sigs": sorted(set(sigs)), "nmsg": sum(1 for o in ops if o[0] == "d")}
    finally:
        e.close()


def run_case(case: dict, wd: Path) -> dict:
    """one scenario, fully determined by `case` (all random choices come from random.Random(case['seed']))"""
    if case.get("kind") == "region":
        return run_region(case, wd)
    if case.get("kind") == "flag":
        return run_flag(case, wd)
    if case.get("kind") == "mi":
        return run_mi(case, wd)
    from harness.engine import Engine, Spec, StageSpec

    core.ensure_repo_on_path()
    import logging

    logging.disable(logging.CRITICAL)
    rng = random.Random(case["seed"])
    script = case["script"]
    spec = Spec([StageSpec(tasks=[script]), StageSpec(reqs=[0], tasks=[["S"]])])
    e = Engine(spec, wd)
    try:
        from stabilize.models.stage import StageExecution
        from stabilize.models.task import TaskExecution
        from stabilize.models.workflow import Workflow

        nwf, limit, keep, mode = case["nwf"], case["limit"], case["keep"], case["mode"]
        wfs = []
        for w in range(nwf):
            stages = []
            for i, sp in enumerate(spec.stages):
                tasks = [TaskExecution.create(name=f"t{t}", implementing_class=f"T_{i}_{t}", stage_start=(t == 0),
                                              stage_end=(t == len(sp.tasks) - 1)) for t in range(len(sp.tasks))]
                stages.append(StageExecution(ref_id=f"s{i}", type="scripted", name=f"s{i}", context={}, tasks=tasks,
                                             requisite_stage_ref_ids={f"s{r}" for r in sp.reqs}))
            wf = Workflow.create(application="verif", name=f"wf{w}", stages=stages)
            if case["limited"]:
                wf.pipeline_config_id = "cfg"
                wf.is_limit_concurrent = True
                wf.max_concurrent_executions = limit
                wf.keep_waiting_pipelines = keep
            e.store.store(wf)
            wfs.append(wf)
        ops: list[str] = []

        def rows():
            return e.ro.execute("SELECT id, status, is_canceled FROM pipeline_executions").fetchall()

        def st() -> list[tuple[str, int]]:
            by = {r["id"]: (r["status"], int(bool(r["is_canceled"]))) for r in rows()}
            return [by[w.id] for w in wfs]

        def pend():
            rs = e.ro.execute("SELECT id, message_type, payload FROM queue_messages ORDER BY id").fetchall()
            wi = {w.id: k for k, w in enumerate(wfs)}
            return [(r["id"], f"{r['message_type']}@{wi.get(json.loads(r['payload']).get('execution_id'), '-')}") for r in rs]

        max_running = 0

        def deliver() -> bool:
            nonlocal max_running
            p = pend()
            dl = e.delayed_ids()
            now = [x for x in p if x[0] not in dl]
            p = now or p
            if not p:
                return False
            x = p[0] if mode == "fifo" else rng.choice(p)
            r = e.deliver(x[0])
            ops.append(f"d{x[0]}[{x[1]}]" + ("" if r == "ok" else ":" + r))
            max_running = max(max_running, sum(1 for s, _ in st() if s == "RUNNING"))
            return True

        flag_cancels = list(case["flag_cancels"])       # indices of workflows that get store.cancel() BEFORE their start
        msg_cancels = case["msg_cancels"]
        for k, w in enumerate(wfs):
            if k in flag_cancels:
                e.store.cancel(w.id, "operator", "flag before start")
                ops.append(f"store.cancel@{k}")
            e.orch.start(w)
            ops.append(f"start@{k}")
            if rng.random() < 0.4:
                for _ in range(rng.randint(1, 6)):
                    if not deliver():
                        break
        for _ in range(1200):
            if msg_cancels and rng.random() < 0.05:
                k = rng.randrange(nwf)
                e.orch.cancel(wfs[k], "u", "r")
                ops.append(f"cancel@{k}({st()[k][0]})")
                msg_cancels -= 1
            if not deliver():
                break
        s = st()
        sigs = []
        running = sum(1 for x, _ in s if x == "RUNNING")
        if pend():
            sigs.append(("no-drain", "the queue did not drain within the step budget"))
        for k, (x, canc) in enumerate(s):
            if x in FINAL:
                continue
            if canc:
                sigs.append((f"canceled-not-final:{x}", f"workflow {k} has its cancel flag set and is {x} with the queue drained"))
            elif x == "BUFFERED" and case["limited"] and running >= limit:
                continue
            else:
                sigs.append((f"stuck:{x}:running-{running}-of-{limit}", f"workflow {k} is {x} with the queue drained ({running} running, limit {limit})"))
        if case["limited"] and max_running > limit:
            sigs.append((f"over-limit:{max_running}-of-{limit}", f"{max_running} workflows RUNNING at once, limit {limit}"))
        return {"final": [f"{x},{c}" for x, c in s], "ops": ops, "sigs": sorted(set(sigs)), "nmsg": sum(1 for o in ops if o[0] == "d")}
    finally:
        e.close()


def gen_case(rng: random.Random, tag: str, kinds: tuple = ("conc", "region")) -> dict:
    if "mi" in kinds and (kinds == ("mi",) or rng.random() < 0.2):
        from harness.engine import Spec, StageSpec

        first = rng.choice([["R", "R", "S"], ["R", "S"], ["R", "R", "R", "S"], ["R", "T"], ["R", "F"]])
        stages = [StageSpec(tasks=[first])]
        if rng.random() < 0.7:
            stages.append(StageSpec(reqs=[0], tasks=[["S"]]))
        return {"kind": "mi", "seed": tag, "spec": Spec(stages).to_json(), "at": rng.choice([3, 4, 4, 5]), "kill": rng.choice([1, 1, 2, 3, 4])}
    if "flag" in kinds and (kinds == ("flag",) or rng.random() < 0.3):
        from harness import engine_suites as es

        spec = es.gen_spec(rng, rng.choice(["w1", "w1", "w0"]))
        return {"kind": "flag", "seed": tag, "spec": spec.to_json(), "at": rng.randint(0, 6 + 4 * len(spec.stages)),
                "mode": rng.choice(["fifo", "rand"]), "via": rng.choice(["ui", "ui", "store"])}
    if "region" in kinds and ("conc" not in kinds or rng.random() < 0.35):
        from harness import engine_suites as es

        spec = es.gen_spec(rng, rng.choice(["w1", "w1", "w0"]))
        n = len(spec.stages)
        return {"kind": "region", "seed": tag, "spec": spec.to_json(), "region": [i for i in range(n) if rng.random() < 0.5] or [rng.randrange(n)],
                "at": rng.randint(0, 6 + 4 * n), "mode": rng.choice(["fifo", "rand"])}
    limited = rng.random() < 0.8
    nwf = rng.choice([2, 3, 3, 4]) if limited else rng.choice([1, 2])
    return {"seed": tag, "script": rng.choice([["S"], ["S"], ["T"], ["F"], ["R", "S"]]), "nwf": nwf, "limited": limited,
            "limit": rng.choice([1, 1, 2]), "keep": rng.random() < 0.5, "mode": rng.choice(["fifo", "rand"]),
            "flag_cancels": sorted(rng.sample(range(nwf), rng.choice([0, 0, 1, 1, 2]) if nwf > 1 else rng.choice([0, 1]))),
            "msg_cancels": rng.choice([0, 0, 1, 2])}


def _worker(job) -> list[dict]:
    seed, lo, hi, kinds = job
    wd = core.scratch_dir()
    out = []
    try:
        for j in range(lo, hi):
            case = gen_case(random.Random(f"conc:{seed}:{j}"), f"conc:{seed}:{j}", kinds)
            try:
                out.append({"case": case, **run_case(case, wd)})
            except Exception:
                import traceback

                out.append({"case": case, "error": traceback.format_exc()})
    finally:
        shutil.rmtree(wd, ignore_errors=True)
    return out


def run_for(ctx, prop: str, kinds: tuple = ("conc", "region")) -> None:
    t0 = time.time()
    total = ctx.n(480, 4800) if kinds != ("mi",) else ctx.n(96, 480)
    nproc = 16
    per = max(1, total // nproc)
    jobs = [(ctx.seed, i * per, (i + 1) * per, tuple(kinds)) for i in range(nproc)]
    res: list[dict] = []
    with ProcessPoolExecutor(max_workers=nproc) as ex:
        for part in ex.map(_worker, jobs):
            res.extend(part)
    errs = [r["error"] for r in res if "error" in r]
    if errs:
        raise core.Infra("concurrency-limit family failed: " + errs[0][-1500:])
    fam = ctx.extra.setdefault("concurrency_limit_family", {"model": "none (implementation-only monitors)", "scenarios": 0, "messages": 0})
    for r in res:
        c = r["case"]
        ctx.count(["conc", c], nontrivial=True)
        if c.get("kind") == "mi":
            ctx.tag("model-free:add-multi-instance", f"conc:mi:kill-after-commit:{c['kill']}", f"conc:mi:pushed-after:{c['at']}",
                    "conc:mi:instance-present" if any("_instance_" in x for x in r["final"]) else "conc:mi:no-instance(parent-complete-or-refused)")
            fam["mi_scenarios"] = fam.get("mi_scenarios", 0) + 1
        elif c.get("kind") == "flag":
            ctx.tag("model-free:cancel-through-store-or-monitor", f"conc:flag:via:{c['via']}", f"conc:flag:mode:{c['mode']}", "conc:flag:wf:" + r["final"][0])
            fam["flag_scenarios"] = fam.get("flag_scenarios", 0) + 1
        elif c.get("kind") == "region":
            ctx.tag("model-free:cancel-region", f"conc:region:mode:{c['mode']}", "conc:region:wf:" + r["final"][0],
                    f"conc:region:stages-in-region:{min(len(c['region']), 3)}")
            fam["region_scenarios"] = fam.get("region_scenarios", 0) + 1
        else:
            ctx.tag("model-free:concurrency-limit", f"conc:mode:{c['mode']}", f"conc:limited:{int(c['limited'])}:keep:{int(c['keep'])}",
                    f"conc:flag-cancels:{len(c['flag_cancels'])}", f"conc:msg-cancels:{c['msg_cancels']}")
            for f in r["final"]:
                ctx.tag("conc:final:" + f)
        fam["scenarios"] += 1
        fam["messages"] += r["nmsg"]
        for sig, what in r["sigs"]:
            ctx.violation(what + f" (final {r['final']})", f"conc:{prop}:{sig}", {"kind_conc": True, "prop": prop, "case": c, "ops_seen": r["ops"], "signature": sig})
    fam["wall_s"] = round(time.time() - t0, 1)
    if res:
        ctx.sample({"suite": "concurrency-limit / cancel-before-start (implementation-only)", "case": res[0]["case"], "final": res[0]["final"], "ops": res[0]["ops"][:40]})


def is_replay(body: dict) -> bool:
    rp = body.get("replay") or body
    return bool(isinstance(rp, dict) and rp.get("kind_conc"))


def replay(ctx, body: dict) -> int:
    rp = body.get("replay") or body
    wd = core.scratch_dir()
    try:
        r = run_case(rp["case"], wd)
    finally:
        shutil.rmtree(wd, ignore_errors=True)
    print(f"  concurrency-limit replay (implementation-only): case {json.dumps(rp['case'])}")
    for o in r["ops"]:
        print("   ", o)
    print(f"  final (status,cancel flag per workflow): {r['final']}")
    rc = 0
    for sig, what in r["sigs"]:
        print(f"FAILS conc:{rp.get('prop') or ctx.prop}:{sig}: {what}")
        rc = 1
    if rc == 0:
        print("replay: property held on this input")
    return rc
