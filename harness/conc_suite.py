"""Concurrency-limit / cancel-before-start family (IMPLEMENTATION-ONLY: monitors on runs of the real engine, no model line).

Several workflows share one `pipeline_config_id` with `is_limit_concurrent` and `max_concurrent_executions` = 1 | 2: StartWorkflow
parks the surplus ones BUFFERED, CompleteWorkflow of a running one pushes StartWaitingWorkflows, which promotes the oldest waiting
ones (BUFFERED -> NOT_STARTED + StartWorkflow) and - with keep_waiting_pipelines=False - purges the others (store.cancel: the flag
only).  Besides: an operator's store.cancel() (flag only, what the monitor UI calls) on a workflow that has not started yet, and
Orchestrator.cancel at random moments.  All workflows live in ONE database / queue and are delivered in order or in random order.

Oracles (C05: "final or explicitly waiting for ... a concurrency slot"; C17: "the workflow reaches a final status"):
  * drained  =>  every workflow is final, or BUFFERED while as many workflows RUN as the limit allows (a slot is really awaited);
  * never more workflows RUNNING than the limit;
  * a workflow whose cancel flag is set is final (CANCELED unless it had finished) once the queue is drained.
Found on the unchanged tree: F60 (StartWorkflow of a canceled workflow called a stub: NOT_STARTED for ever; purged waiting
workflows never became final and the slot was never offered again)."""
from __future__ import annotations

import json
import random
import shutil
import time
from concurrent.futures import ProcessPoolExecutor
from pathlib import Path

from harness import core

FINAL = {"SUCCEEDED", "TERMINAL", "CANCELED", "STOPPED", "FAILED_CONTINUE", "SKIPPED"}


def run_case(case: dict, wd: Path) -> dict:
    """one scenario, fully determined by `case` (all random choices come from random.Random(case['seed']))"""
    from harness.engine import Engine, Spec, StageSpec

    core.ensure_repo_on_path()
    import logging

    logging.disable(logging.CRITICAL)
    rng = random.Random(case["seed"])
    script = case["script"]
    spec = Spec([StageSpec(tasks=[script]), StageSpec(reqs=[0], tasks=[["S"]])])
    e = Engine(spec, wd)
    try:
        from stabilize.models.stage import StageExecution
        from stabilize.models.task import TaskExecution
        from stabilize.models.workflow import Workflow

        nwf, limit, keep, mode = case["nwf"], case["limit"], case["keep"], case["mode"]
        wfs = []
        for w in range(nwf):
            stages = []
            for i, sp in enumerate(spec.stages):
                tasks = [TaskExecution.create(name=f"t{t}", implementing_class=f"T_{i}_{t}", stage_start=(t == 0),
                                              stage_end=(t == len(sp.tasks) - 1)) for t in range(len(sp.tasks))]
                stages.append(StageExecution(ref_id=f"s{i}", type="scripted", name=f"s{i}", context={}, tasks=tasks,
                                             requisite_stage_ref_ids={f"s{r}" for r in sp.reqs}))
            wf = Workflow.create(application="verif", name=f"wf{w}", stages=stages)
            if case["limited"]:
                wf.pipeline_config_id = "cfg"
                wf.is_limit_concurrent = True
                wf.max_concurrent_executions = limit
                wf.keep_waiting_pipelines = keep
            e.store.store(wf)
            wfs.append(wf)
        ops: list[str] = []

        def rows():
            return e.ro.execute("SELECT id, status, is_canceled FROM pipeline_executions").fetchall()

        def st() -> list[tuple[str, int]]:
            by = {r["id"]: (r["status"], int(bool(r["is_canceled"]))) for r in rows()}
            return [by[w.id] for w in wfs]

        def pend():
            rs = e.ro.execute("SELECT id, message_type, payload FROM queue_messages ORDER BY id").fetchall()
            wi = {w.id: k for k, w in enumerate(wfs)}
            return [(r["id"], f"{r['message_type']}@{wi.get(json.loads(r['payload']).get('execution_id'), '-')}") for r in rs]

        max_running = 0

        def deliver() -> bool:
            nonlocal max_running
            p = pend()
            dl = e.delayed_ids()
            now = [x for x in p if x[0] not in dl]
            p = now or p
            if not p:
                return False
            x = p[0] if mode == "fifo" else rng.choice(p)
            r = e.deliver(x[0])
            ops.append(f"d{x[0]}[{x[1]}]" + ("" if r == "ok" else ":" + r))
            max_running = max(max_running, sum(1 for s, _ in st() if s == "RUNNING"))
            return True

        flag_cancels = list(case["flag_cancels"])       # indices of workflows that get store.cancel() BEFORE their start
        msg_cancels = case["msg_cancels"]
        for k, w in enumerate(wfs):
            if k in flag_cancels:
                e.store.cancel(w.id, "operator", "flag before start")
                ops.append(f"store.cancel@{k}")
            e.orch.start(w)
            ops.append(f"start@{k}")
            if rng.random() < 0.4:
                for _ in range(rng.randint(1, 6)):
                    if not deliver():
                        break
        for _ in range(1200):
            if msg_cancels and rng.random() < 0.05:
                k = rng.randrange(nwf)
                e.orch.cancel(wfs[k], "u", "r")
                ops.append(f"cancel@{k}({st()[k][0]})")
                msg_cancels -= 1
            if not deliver():
                break
        s = st()
        sigs = []
        running = sum(1 for x, _ in s if x == "RUNNING")
        if pend():
            sigs.append(("no-drain", "the queue did not drain within the step budget"))
        for k, (x, canc) in enumerate(s):
            if x in FINAL:
                continue
            if canc:
                sigs.append((f"canceled-not-final:{x}", f"workflow {k} has its cancel flag set and is {x} with the queue drained"))
            elif x == "BUFFERED" and case["limited"] and running >= limit:
                continue
            else:
                sigs.append((f"stuck:{x}:running-{running}-of-{limit}", f"workflow {k} is {x} with the queue drained ({running} running, limit {limit})"))
        if case["limited"] and max_running > limit:
            sigs.append((f"over-limit:{max_running}-of-{limit}", f"{max_running} workflows RUNNING at once, limit {limit}"))
        return {"final": [f"{x},{c}" for x, c in s], "ops": ops, "sigs": sorted(set(sigs)), "nmsg": sum(1 for o in ops if o[0] == "d")}
    finally:
        e.close()


def gen_case(rng: random.Random, tag: str) -> dict:
    limited = rng.random() < 0.8
    nwf = rng.choice([2, 3, 3, 4]) if limited else rng.choice([1, 2])
    return {"seed": tag, "script": rng.choice([["S"], ["S"], ["T"], ["F"], ["R", "S"]]), "nwf": nwf, "limited": limited,
            "limit": rng.choice([1, 1, 2]), "keep": rng.random() < 0.5, "mode": rng.choice(["fifo", "rand"]),
            "flag_cancels": sorted(rng.sample(range(nwf), rng.choice([0, 0, 1, 1, 2]) if nwf > 1 else rng.choice([0, 1]))),
            "msg_cancels": rng.choice([0, 0, 1, 2])}


def _worker(job) -> list[dict]:
    seed, lo, hi = job
    wd = core.scratch_dir()
    out = []
    try:
        for j in range(lo, hi):
            case = gen_case(random.Random(f"conc:{seed}:{j}"), f"conc:{seed}:{j}")
            try:
                out.append({"case": case, **run_case(case, wd)})
            except Exception:
                import traceback

                out.append({"case": case, "error": traceback.format_exc()})
    finally:
        shutil.rmtree(wd, ignore_errors=True)
    return out


def run_for(ctx, prop: str) -> None:
    t0 = time.time()
    total = ctx.n(480, 4800)
    nproc = 16
    per = max(1, total // nproc)
    jobs = [(ctx.seed, i * per, (i + 1) * per) for i in range(nproc)]
    res: list[dict] = []
    with ProcessPoolExecutor(max_workers=nproc) as ex:
        for part in ex.map(_worker, jobs):
            res.extend(part)
    errs = [r["error"] for r in res if "error" in r]
    if errs:
        raise core.Infra("concurrency-limit family failed: " + errs[0][-1500:])
    fam = ctx.extra.setdefault("concurrency_limit_family", {"model": "none (implementation-only monitors)", "scenarios": 0, "messages": 0})
    for r in res:
        c = r["case"]
        ctx.count(["conc", c], nontrivial=True)
        ctx.tag("model-free:concurrency-limit", f"conc:mode:{c['mode']}", f"conc:limited:{int(c['limited'])}:keep:{int(c['keep'])}",
                f"conc:flag-cancels:{len(c['flag_cancels'])}", f"conc:msg-cancels:{c['msg_cancels']}")
        for f in r["final"]:
            ctx.tag("conc:final:" + f)
        fam["scenarios"] += 1
        fam["messages"] += r["nmsg"]
        for sig, what in r["sigs"]:
            ctx.violation(what + f" (final {r['final']})", f"conc:{prop}:{sig}", {"kind_conc": True, "prop": prop, "case": c, "ops_seen": r["ops"], "signature": sig})
    fam["wall_s"] = round(time.time() - t0, 1)
    if res:
        ctx.sample({"suite": "concurrency-limit / cancel-before-start (implementation-only)", "case": res[0]["case"], "final": res[0]["final"], "ops": res[0]["ops"][:40]})


def is_replay(body: dict) -> bool:
    rp = body.get("replay") or body
    return bool(isinstance(rp, dict) and rp.get("kind_conc"))


def replay(ctx, body: dict) -> int:
    rp = body.get("replay") or body
    wd = core.scratch_dir()
    try:
        r = run_case(rp["case"], wd)
    finally:
        shutil.rmtree(wd, ignore_errors=True)
    print(f"  concurrency-limit replay (implementation-only): case {json.dumps(rp['case'])}")
    for o in r["ops"]:
        print("   ", o)
    print(f"  final (status,cancel flag per workflow): {r['final']}")
    rc = 0
    for sig, what in r["sigs"]:
        print(f"FAILS conc:{rp.get('prop') or ctx.prop}:{sig}: {what}")
        rc = 1
    if rc == 0:
        print("replay: property held on this input")
    return rc
