"""Engine-level pairs for C07: two (three) REAL handlers touching ONE stage row concurrently, under Mode B (harness/modeb.py).

Pairs (both directions; B's whole delivery injected at every legal DB-call point of A, nested once more for three upstreams; then
the queue is drained FIFO):
  join    CompleteStage(u_a) vs CompleteStage(u_b) on one join stage j (DISCRIMINATOR | N_OF_M threshold 1, 2; 2 or 3 upstreams):
          `_update_join_tracking` reads j, appends its branch to `_completed_branches`, writes j with the version CAS
  signal  SignalStage(g, persistent) vs RunTask(g) whose task answers RUNNING-with-context or SUCCEEDED-with-context:
          the signal handler appends to `_buffered_signals`, `_process_result_safely` merges the task's context; both write g
  cancel  CancelStage(i) vs CompleteTask(i.t) (1 or 2 tasks): one sets the stage + open tasks CANCELED, the other records the task result
  cancelrun  CancelStage(i) vs RunTask(i.t) whose task answers SUCCEEDED / RUNNING-with-context / TERMINAL: the cancel commits between the
          RunTask handler's reload of the stage (`_process_result_safely`) and its result commit (`execute_atomic`)
  cancelstart  StartStage(i) vs CancelStage(i) on a NOT_STARTED stage (1 or 2 tasks; CancelStage pushed directly, as CompleteWorkflow's failure
          fan-out / a cancel region do, so the workflow-level cancel flag is NOT set and StartStage's own guard does not pre-empt the race;
          variant `workflow`: a CancelWorkflow handled in the prefix set the flag and fanned the CancelStage out): the cancel COMPLETES the
          stage between StartStage's claim commit and its plan commit (the "taken over after claiming" test of the plan-commit retry)
  twosignals  two persistent SignalStage(g) on a NOT_STARTED stage WITHOUT task rows (stage type `gen`: tasks are built at planning time) — the
          stage-row version check is the only guard (no per-task version check can reject the stale writer); B is injected, among all legal
          points, between the `SELECT` at the head of A's `txn.store_stage` and its UPDATE (the first DML opens the transaction)
  wfrow   the WORKFLOW row (pipeline_executions): CancelWorkflow vs a handler that writes the workflow status from its in-memory Workflow —
          `start`: fresh workflow, StartWorkflow x CancelWorkflow; `complete`: last stage done, CompleteWorkflow x CancelWorkflow.
          Monitors only (no CasRow tie: the row has no version column, its writers are plain column UPDATEs): a history trigger on
          pipeline_executions (`_ep_whist`) — no committed write reverts is_canceled 1 -> 0, clears canceled_by / cancellation_reason or
          leaves a final status; C17 clause: once the cancel flag was committed it is still 1 at the end and no task execution begins
  startmerge  StartStage(j) vs a persistent SignalStage(j) where j's OWN context holds keys that planning rewrites: `items` (a list two upstreams
          also publish: own list extended by the ancestors' lists) and `score` (named in j's output_reducers: the upstream values are summed).
          The signal handler's write lands between StartStage's claim commit and its plan commit; the merge-on-retry of the plan commit must
          keep the PLANNED values.  Oracle (C16): the context handed to j's task equals what the un-raced in-order run hands over, keys
          starting with `_` (signal mailbox, bookkeeping) aside
  startjoin  StartStage(j) vs CompleteStage(u_next) on a join stage j with 3 upstreams whose tracking list ALREADY names the upstreams
          completed in the prefix (DISCRIMINATOR / N_OF_M 1: u1; N_OF_M 2: u1, u2): the sibling's `_update_join_tracking` UPDATES the
          existing `_completed_branches` key between StartStage's claim commit and its plan commit (merge-on-retry of the plan commit)
  startsignal  StartStage(g) vs a SECOND persistent SignalStage(g), one persistent signal already buffered in the prefix: the signal handler
          UPDATES the existing `_buffered_signals` key inside StartStage's claim -> plan window

The same schedules serve four properties (`start(ctx, prop)`; C17 runs the `wfrow` kinds only, with the cancel-flag oracle; C16 runs the
`startmerge` kind only, with the planned-context oracle): C07 applies the lost-update oracles below, C06 applies its own oracle to
the durable status audit of every schedule (`_mb_audit`: every committed status change of a stage / task / workflow row must be a
legal transition of `stabilize.models.status.can_transition`; completed statuses have no successor).

Oracles are implementation-only (history of the stage / task rows recorded by SQL triggers, rolled-back writes never appear):
nothing a committed write put into the contended row's context disappears again, every committed write of the row bumps the
version by exactly one, `_join_fired` / CANCELED / a recorded task status never revert, every upstream whose completion committed
is in the join's `_completed_branches`, the final state equals the final state of one of the two sequential orders.

Model tie: the store-level call log of the workers on the contended row (SELECT * … WHERE id = read, UPDATE stage_executions …
WHERE id AND version = CAS write with its rowcount) is replayed as an op list of the optimistic-locking model `Stab.CasRow`
(`cas final …`): per-write outcome (ok / conflict), version delta, and WHICH writers' modifications the final row holds.
"""
from __future__ import annotations

import json
import logging
import os
import re
import shutil
import time
from dataclasses import asdict, dataclass
from pathlib import Path
from typing import Any

SUITE = "engine-pairs-cas"
SIG = {"join": "engine-pair:lost-update:join-tracking", "signal": "engine-pair:lost-update:signal-vs-result",
       "cancel": "engine-pair:reverted:cancel-vs-complete", "cancelrun": "engine-pair:reverted:cancel-vs-result",
       "startjoin": "engine-pair:lost-update:start-vs-join-tracking", "startsignal": "engine-pair:lost-update:start-vs-signal",
       "cancelstart": "engine-pair:reverted:cancel-vs-start", "twosignals": "engine-pair:lost-update:signal-vs-signal",
       "wfrow": "engine-pair:reverted:workflow-row", "startmerge": "engine-pair:lost-update:start-vs-signal"}
SIG_PLANNED = "engine-pair:planned-context-lost:start-vs-signal"
SEEN: list[tuple[str, dict]] = []      # (stage ref, context handed to the c07ctx task), kept outside the engine; cleared per schedule
SIG_VERSION = "engine-pair:version-not-bumped-by-one"
SIG_SEQ = "engine-pair:outcome-differs-from-both-sequential-orders"
SIG_STUCK = "engine-pair:no-quiescence"
ROW_READ = "SELECT * FROM stage_executions WHERE id = :id"
COMPLETE = {"SUCCEEDED", "TERMINAL", "CANCELED", "STOPPED", "FAILED_CONTINUE", "SKIPPED"}

RULE = ("engine pairs (Mode B, exhaustive per scenario): join = fan-in u1..un -> j -> d with every CompleteStage(u*) pending, join type DISCRIMINATOR / "
        "N_OF_M (threshold 1, 2), n in {2, 3}; signal = g -> d with RunTask(g) pending and one persistent SignalStage(g) pushed, the task answering "
        "RUNNING-with-context or SUCCEEDED-with-context; cancel = i -> d with CompleteTask(i.t1) pending (1 or 2 tasks) and a CancelStage(i) pushed; "
        "cancelrun = i -> d with RunTask(i.t) pending (task answering SUCCEEDED / RUNNING-with-context / TERMINAL) and a CancelStage(i) pushed; "
        "cancelstart = i -> d with StartStage(i) pending (i NOT_STARTED, 1 or 2 tasks) and a CancelStage(i) pushed directly (workflow cancel flag not set) or "
        "fanned out by a CancelWorkflow handled in the prefix (flag set); raced StartStage(i) x CancelStage(i); "
        "twosignals = g -> d with g NOT_STARTED and WITHOUT task rows (tasks built at planning time), StartStage(g) held back and two persistent "
        "SignalStage(g) pending, raced against each other; startsignal also in a variant whose stage g has no task rows (nt=0); "
        "wfrow (the workflow row) = i -> d, either fresh with StartWorkflow pending or with every stage done and CompleteWorkflow pending, plus a pushed "
        "CancelWorkflow; raced StartWorkflow / CompleteWorkflow x CancelWorkflow; "
        "startmerge = a1, a2 -> j -> d, the upstreams publishing items=[a1] / [a2] and score=3 / 4, j with own context items=[own], score=0 and "
        "output_reducers score=sum, StartStage(j) pending and ready, one persistent SignalStage(j) pushed; raced StartStage(j) x SignalStage(j); "
        "startjoin (states WITH HISTORY) = fan-in u1..u3 -> j -> d, join DISCRIMINATOR / N_OF_M (threshold 1, 2), the first max(1, threshold) CompleteStage(u*) "
        "delivered in the prefix so that j's `_completed_branches` already exists and StartStage(j) is pending and ready, raced StartStage(j) x "
        "CompleteStage(next upstream) (thorough: the remaining CompleteStage nested as C); startsignal = g -> d with StartStage(g) pending, one persistent "
        "signal already buffered in the prefix, raced StartStage(g) x a second persistent SignalStage(g); "
        "worker A handles one message and worker B the other one atomically at EVERY legal DB-call point of A (before A's first read, every read / CAS "
        "window, after A) in BOTH directions; for three upstreams additionally C = the third CompleteStage at every legal point of B inside A; then FIFO "
        "drain; a schedule is distinct by (scenario, direction, injection point[s]) and non-trivial when B really ran inside A")
ASSUMPTIONS = ["engine pairs: Mode B explores the interleavings SQLite's single-writer locking permits at transaction granularity plus all read / CAS "
               "windows (B atomic inside a window of A, nested to depth 2), not every statement-level interleaving of free-running workers",
               "engine pairs: backoff delays of retry_on_concurrency_error are shortened through the engine's own environment knobs; delayed messages are "
               "delivered only when no immediate one is pending"]
TRUSTED_BASE = ["engine pairs: the mapping store-level call log -> CasRow op list (harness/engine_pairs.py `cas_line`): a `SELECT * FROM stage_executions WHERE id` "
                "of the contended row = `read`, a version-checked UPDATE of it = `mod` (the worker's own modification, entry = worker number) + `write` whose "
                "outcome is the UPDATE's rowcount; reads of the row through other statements are not mapped, so a handler that writes content taken from such "
                "a read shows up as a correspondence failure, not as a model step",
                "engine pairs, start family: StartStage's two commits (claim with expected_phase, plan) are two `mod`+`write` pairs of one worker; its "
                "merge-on-retry (re-read after a lost plan CAS, merge of the foreign context, retry on the fresh version) is represented by the model's "
                "`read` + `mod` + `write` (the object is REPLACED by the fresh row and the worker's own modification re-applied), which is what a correct "
                "merge must be equivalent to on the keys another worker writes; the observed payload carries one entry per successful write of a worker "
                "whose contribution (branch in `_completed_branches`, second signal in `_buffered_signals`) is in the final context",
                "engine pairs on task-less stages (stage type `gen` of harness/modeb.py: `build_tasks` creates the task at planning time): only the task rows "
                "that existed at the base state are part of the compared abstraction (the rows a StartStage inserts at planning are not)",
                "engine pairs on the workflow row (`wfrow`): MONITORS ONLY, no CasRow tie — pipeline_executions has no version column and its writers "
                "(cancel_execution, update_status, AtomicTransaction.update_workflow_status) are plain column UPDATEs, so the optimistic-locking model "
                "does not describe it; the oracle is the committed history of the row (trigger `_ep_whist`) and the task ledger; 'the cancel was accepted' "
                "= a write with is_canceled = 1 committed; the Lean engine model's `canceled_monotone` states the same monotonicity for the model only"]


# --------------------------------------------------------------------------------------
# scenarios
# --------------------------------------------------------------------------------------

@dataclass(frozen=True)
class Scn:
    kind: str                    # join | signal | cancel | cancelrun | cancelstart | twosignals | startjoin | startsignal | startmerge | wfrow
    n_up: int = 2                # join: upstream branches
    join: str = "DISCRIMINATOR"  # join: join type
    th: int = 0                  # join: threshold (N_OF_M)
    res: str = "running"         # signal / cancelrun: task answer on its first execution: running | success (both with context) | terminal
                                 # cancelstart: where the CancelStage comes from: direct | workflow
                                 # wfrow: which status-writing handler is raced with CancelWorkflow: start | complete
    nt: int = 1                  # cancel / cancelstart: tasks of the stage; startsignal: 1 = predefined task, 0 = no task rows until planned

    def key(self) -> str:
        if self.kind == "join":
            return f"join-{self.join}{self.th}-n{self.n_up}"
        if self.kind == "signal":
            return f"signal-{self.res}"
        if self.kind == "cancelrun":
            return f"cancelrun-{self.res}"
        if self.kind == "cancelstart":
            return f"cancelstart-t{self.nt}-{self.res}"
        if self.kind == "startjoin":
            return f"start-{self.join}{self.th}"
        if self.kind == "startsignal":
            return "start-signal" + ("" if self.nt else "-taskless")
        if self.kind == "twosignals":
            return "two-signals-taskless"
        if self.kind == "wfrow":
            return f"wfrow-{self.res}"
        if self.kind == "startmerge":
            return "start-merge-own-keys"
        return f"cancel-t{self.nt}"

    def contended(self) -> str:
        return {"join": "j", "signal": "g", "cancel": "i", "cancelrun": "i", "cancelstart": "i", "startjoin": "j", "startsignal": "g", "twosignals": "g", "wfrow": "i", "startmerge": "j"}[self.kind]

    def prefix_ups(self) -> int:
        """startjoin: upstream completions delivered before the race (the join is ready and its tracking key exists)"""
        return max(1, self.th)


def scn_from(d: dict) -> Scn:
    return Scn(**{k: d[k] for k in ("kind", "n_up", "join", "th", "res", "nt") if k in d})


def scenarios(thorough: bool, prop: str = "C07") -> list[Scn]:
    wf = [Scn("wfrow", res="start"), Scn("wfrow", res="complete")]
    if prop == "C17":
        return wf
    if prop == "C16":
        return [Scn("startmerge")]
    s = list(wf)
    for join, th in (("DISCRIMINATOR", 0), ("N_OF_M", 1), ("N_OF_M", 2)):
        for n in (2, 3):
            if prop == "C06" and (n == 3 or (not thorough and th == 1)):
                continue      # C06: the status audit of the join pairs is the least interesting; no nested family
            s.append(Scn("join", n_up=n, join=join, th=th))
    s += [Scn("signal", res="running"), Scn("signal", res="success"), Scn("cancel", nt=1), Scn("cancel", nt=2)]
    s += [Scn("cancelrun", res="success"), Scn("cancelrun", res="running"), Scn("cancelrun", res="terminal")]
    s += [Scn("cancelstart", nt=1, res="direct"), Scn("cancelstart", nt=2, res="direct"), Scn("cancelstart", nt=1, res="workflow")]
    if prop != "C06":
        s += [Scn("startjoin", n_up=3, join="DISCRIMINATOR", th=0), Scn("startjoin", n_up=3, join="N_OF_M", th=1),
              Scn("startjoin", n_up=3, join="N_OF_M", th=2), Scn("startsignal"), Scn("startsignal", nt=0), Scn("twosignals", nt=0),
              Scn("startmerge")]
    return s


def directions(scn: Scn, thorough: bool) -> list[dict]:
    """{a, b[, c]} = canonical codes of the raced queue rows"""
    if scn.kind == "join":
        ups = [f"CS(u{i + 1})" for i in range(scn.n_up)]
        out = [{"a": ups[0], "b": ups[1]}, {"a": ups[1], "b": ups[0]}]
        if scn.n_up == 3:
            out += [{"a": ups[2], "b": ups[0]}, {"a": ups[0], "b": ups[1], "c": ups[2]}]
            if thorough:
                out += [{"a": ups[1], "b": ups[2]}, {"a": ups[2], "b": ups[1], "c": ups[0]}]
        return out
    if scn.kind == "signal":
        return [{"a": "SG(g)", "b": "RT(g)"}, {"a": "RT(g)", "b": "SG(g)"}]
    if scn.kind == "cancelrun":
        return [{"a": "RT(i)", "b": "XS(i)"}, {"a": "XS(i)", "b": "RT(i)"}]
    if scn.kind == "cancelstart":
        return [{"a": "SS(i)", "b": "XS(i)"}, {"a": "XS(i)", "b": "SS(i)"}]
    if scn.kind == "startjoin":
        nxt = f"CS(u{scn.prefix_ups() + 1})"
        out = [{"a": "SS(j)", "b": nxt}, {"a": nxt, "b": "SS(j)"}]
        if thorough and scn.prefix_ups() + 2 <= scn.n_up:
            out.append({"a": "SS(j)", "b": nxt, "c": f"CS(u{scn.prefix_ups() + 2})"})
        return out
    if scn.kind == "startsignal":
        return [{"a": "SS(g)", "b": "SG(g)"}, {"a": "SG(g)", "b": "SS(g)"}]
    if scn.kind == "startmerge":
        return [{"a": "SS(j)@0", "b": "SG(j)"}, {"a": "SG(j)", "b": "SS(j)@0"}]
    if scn.kind == "wfrow":
        h = "SW" if scn.res == "start" else "CW"
        # drain = lifo: after the pair the NEWEST pending message is delivered first (a legal delivery order: StartStage(i) pushed by StartWorkflow
        # overtakes the CancelStage fan-out), so that a lost cancel flag shows as a task that begins executing
        return [{"a": h, "b": "XW"}, {"a": "XW", "b": h}, {"a": h, "b": "XW", "drain": "lifo"}, {"a": "XW", "b": h, "drain": "lifo"}]
    if scn.kind == "twosignals":
        return [{"a": "SG(g)@0", "b": "SG(g)@1"}, {"a": "SG(g)@1", "b": "SG(g)@0"}]       # @k = the k-th pending row with that code
    return [{"a": "XS(i)", "b": "CT(i)SUCC"}, {"a": "CT(i)SUCC", "b": "XS(i)"}]


# --------------------------------------------------------------------------------------
# worker-process side
# --------------------------------------------------------------------------------------

HIST_SQL = """
CREATE TABLE IF NOT EXISTS _ep_whist(seq INTEGER PRIMARY KEY AUTOINCREMENT, id TEXT, oldst TEXT, newst TEXT, oldc INTEGER, newc INTEGER,
  oldby TEXT, newby TEXT, oldreason TEXT, newreason TEXT, oldpaused TEXT, newpaused TEXT);
CREATE TRIGGER IF NOT EXISTS _ep_whist_t AFTER UPDATE ON pipeline_executions
  BEGIN INSERT INTO _ep_whist(id, oldst, newst, oldc, newc, oldby, newby, oldreason, newreason, oldpaused, newpaused)
        VALUES(NEW.id, OLD.status, NEW.status, OLD.is_canceled, NEW.is_canceled, OLD.canceled_by, NEW.canceled_by,
               OLD.cancellation_reason, NEW.cancellation_reason, OLD.paused, NEW.paused); END;
CREATE TRIGGER IF NOT EXISTS _ep_wcancel_t AFTER UPDATE ON pipeline_executions WHEN OLD.is_canceled <> NEW.is_canceled
  BEGIN INSERT INTO _mb_audit(kind, id, old, new) VALUES('C', NEW.id, OLD.is_canceled, NEW.is_canceled); END;
CREATE TABLE IF NOT EXISTS _ep_hist(seq INTEGER PRIMARY KEY AUTOINCREMENT, id TEXT, oldv INTEGER, newv INTEGER, oldst TEXT, newst TEXT, oldctx TEXT, newctx TEXT);
CREATE TRIGGER IF NOT EXISTS _ep_hist_t AFTER UPDATE ON stage_executions
  BEGIN INSERT INTO _ep_hist(id, oldv, newv, oldst, newst, oldctx, newctx)
        VALUES(NEW.id, OLD.version, NEW.version, OLD.status, NEW.status, OLD.context, NEW.context); END;
"""


def _setup_process() -> None:
    from harness import core

    core.ensure_repo_on_path()
    logging.disable(logging.CRITICAL)


_ENV_CLS = None


def _env_class():
    """modeb.Env + task type `c07ctx` (answers with context) + a history trigger on stage_executions (version, status, context)."""
    global _ENV_CLS
    if _ENV_CLS is not None:
        return _ENV_CLS
    from harness import modeb as mb
    from stabilize.queue.messages import RunTask
    from stabilize.tasks.interface import Task
    from stabilize.tasks.result import TaskResult

    class CtxTask(Task):
        def execute(self, stage):  # noqa: ANN001
            mb.LEDGER.append((stage.ref_id, "t"))
            SEEN.append((stage.ref_id, json.loads(json.dumps(dict(stage.context), default=str))))
            n = sum(1 for x in mb.LEDGER if x[0] == stage.ref_id)
            if stage.context.get("_res") == "terminal":
                return TaskResult.terminal("scripted terminal failure", context={"saved_by_task": "failed"})
            if stage.context.get("_res") == "running" and n == 1:
                return TaskResult.running(context={"saved_by_task": "poll-1"})
            if stage.context.get("_res") == "running":
                return TaskResult.success(outputs={f"o_{stage.ref_id}": n}, context={"finished_by_task": n})
            return TaskResult.success(outputs={f"o_{stage.ref_id}": n}, context={"saved_by_task": "done"})

    class EnvPairs(mb.Env):
        def open(self, create: bool = False):
            super().open(create)
            self.processor._handlers[RunTask].task_registry.register("c07ctx", CtxTask())
            if create:
                self.ro.executescript(HIST_SQL)
            return self

        def hist(self, ref: str) -> list[dict]:
            return [dict(r) for r in self.q("SELECT oldv, newv, oldst, newst, oldctx, newctx FROM _ep_hist WHERE id=? ORDER BY seq", self.ids[ref])]

        def whist(self) -> list[dict]:
            return [dict(r) for r in self.q("SELECT * FROM _ep_whist WHERE id=? ORDER BY seq", self.wf_id)]

        def wf_row(self) -> dict:
            return dict(self.q("SELECT status, is_canceled, canceled_by, cancellation_reason FROM pipeline_executions WHERE id=?", self.wf_id)[0])

        def ctx_of(self, ref: str) -> dict:
            return json.loads(self.q("SELECT context FROM stage_executions WHERE id=?", self.ids[ref])[0]["context"] or "{}")

        def tasks_of(self, ref: str) -> list[tuple[int, str]]:
            return [(r["version"], r["status"]) for r in self.q("SELECT version, status FROM task_executions WHERE stage_id=? ORDER BY id", self.ids[ref])]

    _ENV_CLS = EnvPairs
    return EnvPairs


class Lab:
    def __init__(self) -> None:
        from harness import core
        from harness import modeb as mb

        self.mb = mb
        self.dir = core.scratch_dir()
        self.env = None

    def close(self) -> None:
        if self.env is not None:
            self.env.close()
        shutil.rmtree(self.dir, ignore_errors=True)

    def base(self, scn: Scn):
        from stabilize.models.stage import StageExecution
        from stabilize.models.task import TaskExecution
        from stabilize.queue.messages import CancelStage, CancelWorkflow, SignalStage

        mb = self.mb
        if self.env is not None:
            self.env.close()
        p = Path(self.dir) / f"{scn.key()}.db"
        for suf in mb.SUFFIXES:
            q = Path(str(p) + suf)
            if q.exists():
                q.unlink()
        mb.LEDGER.clear()
        env = _env_class()(p).open(create=True)
        if scn.kind == "join":
            mb.build_fanin(env, scn.n_up, scn.join, scn.th)
            env.start()
            env.drain(max_steps=40, hold=lambda c: c.startswith("CS(u"))
            want = [f"CS(u{i + 1})" for i in range(scn.n_up)]
        elif scn.kind == "signal":
            g = StageExecution(ref_id="g", type="noop", name="g", context={"_res": scn.res},
                               tasks=[TaskExecution.create(name="t", implementing_class="c07ctx", stage_start=True, stage_end=True)],
                               requisite_stage_ref_ids=set())
            env.create_workflow([g, mb.stage("d", {"g"})])
            env.start()
            env.drain(max_steps=20, hold=lambda c: c.startswith("RT(g)"))
            env.push(SignalStage(execution_type=env.wf_type, execution_id=env.wf_id, stage_id=env.ids["g"], signal_name="go",
                                 signal_data={"x": 1}, persistent=True))
            want = ["RT(g)", "SG(g)"]
        elif scn.kind == "cancelrun":
            i = StageExecution(ref_id="i", type="noop", name="i", context={"_res": scn.res},
                               tasks=[TaskExecution.create(name="t", implementing_class="c07ctx", stage_start=True, stage_end=True)],
                               requisite_stage_ref_ids=set())
            env.create_workflow([i, mb.stage("d", {"i"})])
            env.start()
            env.drain(max_steps=20, hold=lambda c: c.startswith("RT(i)"))
            env.push(CancelStage(execution_type=env.wf_type, execution_id=env.wf_id, stage_id=env.ids["i"]))
            want = ["RT(i)", "XS(i)"]
        elif scn.kind == "cancelstart":
            tasks = [TaskExecution.create(name=f"t{k + 1}", implementing_class="ledger", stage_start=(k == 0), stage_end=(k == scn.nt - 1))
                     for k in range(scn.nt)]
            i = StageExecution(ref_id="i", type="noop", name="i", context={}, tasks=tasks, requisite_stage_ref_ids=set())
            env.create_workflow([i, mb.stage("d", {"i"})])
            env.start()
            env.drain(max_steps=20, hold=lambda c: c.startswith("SS(i)"))
            if scn.res == "workflow":
                env.push(CancelWorkflow(execution_type=env.wf_type, execution_id=env.wf_id, user="verif", reason="pair"))
                env.deliver(env.find("XW")[0])
                want = None
                if not env.find("SS(i)") or not env.find("XS(i)"):
                    raise RuntimeError(f"base state of {scn.key()} not reached: {env.state_line()}")
            else:
                env.push(CancelStage(execution_type=env.wf_type, execution_id=env.wf_id, stage_id=env.ids["i"]))
                want = ["SS(i)", "XS(i)"]
            if env.stage_row("i")["status"] != "NOT_STARTED":
                raise RuntimeError(f"base state of {scn.key()}: stage i is not NOT_STARTED: {env.state_line()}")
        elif scn.kind == "startjoin":
            mb.build_fanin(env, scn.n_up, scn.join, scn.th)
            env.start()
            env.drain(max_steps=40, hold=lambda c: c.startswith("CS(u"))
            for k in range(scn.prefix_ups()):
                env.deliver(env.find(f"CS(u{k + 1})")[0])
            want = [f"CS(u{k + 1})" for k in range(scn.prefix_ups(), scn.n_up)] + ["SS(j)"] * scn.prefix_ups()
            done = env.ctx_of("j").get("_completed_branches") or []
            if done != [f"u{k + 1}" for k in range(scn.prefix_ups())] or env.stage_row("j")["status"] != "NOT_STARTED":
                raise RuntimeError(f"base state of {scn.key()} has no history: {env.state_line()}")
        elif scn.kind == "startmerge":
            ups = [StageExecution(ref_id=f"a{k}", type="noop", name=f"a{k}", context={}, outputs={"items": [f"a{k}"], "score": 2 + k},
                                  tasks=[TaskExecution.create(name="t", implementing_class="ledger", stage_start=True, stage_end=True)],
                                  requisite_stage_ref_ids=set()) for k in (1, 2)]
            j = StageExecution(ref_id="j", type="noop", name="j", context={"items": ["own"], "score": 0}, output_reducers={"score": "sum"},
                               tasks=[TaskExecution.create(name="t", implementing_class="c07ctx", stage_start=True, stage_end=True)],
                               requisite_stage_ref_ids={"a1", "a2"})
            env.create_workflow(ups + [j, mb.stage("d", {"j"})])
            env.start()
            env.drain(max_steps=40, hold=lambda c: c.startswith("SS(j)"))
            env.push(SignalStage(execution_type=env.wf_type, execution_id=env.wf_id, stage_id=env.ids["j"], signal_name="s2",
                                 signal_data={"n": 2}, persistent=True))
            want = ["SG(j)", "SS(j)", "SS(j)"]
        elif scn.kind == "wfrow":
            env.create_workflow([mb.stage("i"), mb.stage("d", {"i"})])
            env.start()
            if scn.res == "complete":
                env.drain(max_steps=40, hold=lambda c: c.startswith("CW"))
            env.push(CancelWorkflow(execution_type=env.wf_type, execution_id=env.wf_id, user="verif", reason="pair"))
            want = ["SW" if scn.res == "start" else "CW", "XW"]
            if env.wf_row()["is_canceled"]:
                raise RuntimeError(f"base state of {scn.key()}: cancel flag already set: {env.state_line()}")
        elif scn.kind == "twosignals":
            env.create_workflow([mb.stage("g", tasks=False), mb.stage("d", {"g"})])
            env.start()
            env.drain(max_steps=20, hold=lambda c: c.startswith("SS(g)"))
            for n in (1, 2):
                env.push(SignalStage(execution_type=env.wf_type, execution_id=env.wf_id, stage_id=env.ids["g"], signal_name=f"s{n}",
                                     signal_data={"n": n}, persistent=True))
            want = ["SG(g)", "SG(g)", "SS(g)"]
            if env.tasks_of("g") or env.stage_row("g")["status"] != "NOT_STARTED":
                raise RuntimeError(f"base state of {scn.key()}: stage g must be NOT_STARTED without task rows: {env.state_line()}")
        elif scn.kind == "startsignal":
            env.create_workflow([mb.stage("g", tasks=bool(scn.nt)), mb.stage("d", {"g"})])
            env.start()
            env.drain(max_steps=20, hold=lambda c: c.startswith("SS(g)"))

            def sig(n: int):
                return SignalStage(execution_type=env.wf_type, execution_id=env.wf_id, stage_id=env.ids["g"], signal_name=f"s{n}",
                                   signal_data={"n": n}, persistent=True)

            env.push(sig(1))
            env.deliver(env.find("SG(g)")[0])
            env.push(sig(2))
            want = ["SG(g)", "SS(g)"]
            if scn.nt == 0 and env.tasks_of("g"):
                raise RuntimeError(f"base state of {scn.key()}: stage g must have no task rows: {env.state_line()}")
            if [x.get("signal_name") for x in env.ctx_of("g").get("_buffered_signals") or []] != ["s1"] or env.stage_row("g")["status"] != "NOT_STARTED":
                raise RuntimeError(f"base state of {scn.key()} has no history: {env.state_line()}")
        else:
            tasks = [TaskExecution.create(name=f"t{k + 1}", implementing_class="ledger", stage_start=(k == 0), stage_end=(k == scn.nt - 1))
                     for k in range(scn.nt)]
            i = StageExecution(ref_id="i", type="noop", name="i", context={}, tasks=tasks, requisite_stage_ref_ids=set())
            env.create_workflow([i, mb.stage("d", {"i"})])
            env.start()
            env.drain(max_steps=20, hold=lambda c: c.startswith("CT(i)"))
            env.push(CancelStage(execution_type=env.wf_type, execution_id=env.wf_id, stage_id=env.ids["i"]))
            want = ["CT(i)SUCC", "XS(i)"]
        got = sorted(c for _, c in env.pending())
        if want is not None and got != sorted(want):
            raise RuntimeError(f"base state of {scn.key()} not reached: {env.state_line()}")
        r = scn.contended()
        row = env.stage_row(r)
        meta = {"ids": dict(env.ids), "refs": dict(env.refs), "wf_id": env.wf_id, "wf_type": env.wf_type, "v0": row["version"],
                "st0": row["status"], "tasks0": env.tasks_of(r), "hist0": len(env.hist(r)), "audit0": len(env.audit()),
                "whist0": len(env.whist())}
        snap = mb.snapshot(env)
        self.env = env
        if scn.kind == "startmerge":
            # reference: the un-raced in-order run (no signal handled before j's task runs): what j's task is handed
            mb.restore(env, snap)
            _fix(env, meta)
            del SEEN[:]
            env.deliver(env.find("SS(j)")[0])
            env.drain(max_steps=60, hold=lambda c: c.startswith("SG("))
            got = [c for r_, c in SEEN if r_ == "j"]
            if not got:
                raise RuntimeError(f"reference run of {scn.key()}: j's task did not run: {env.state_line()}")
            meta["ref_ctx"] = _own_keys(got[0])
        return env, snap, meta


def _row(e, code: str) -> int:
    """queue row id of a canonical code; `code@k` = the k-th pending row with that code (two messages of the same kind)"""
    if "@" in code:
        base, k = code.split("@")
        return e.find(base)[int(k)]
    return e.find(code)[0]


def _own_keys(ctx: dict) -> dict:
    """the context without the engine's bookkeeping keys (`_buffered_signals`, `_hydrated_keys`, …); lists compared as sorted lists"""
    return {k: (sorted(v, key=str) if isinstance(v, list) else v) for k, v in ctx.items() if not k.startswith("_")}


def _fix(e, meta) -> None:
    e.refs, e.ids, e.wf_id, e.wf_type = meta["refs"], meta["ids"], meta["wf_id"], meta["wf_type"]


def _norm(sql: str) -> str:
    return " ".join(sql.split())


def _pget(params: Any, key: str) -> Any:
    return params.get(key) if isinstance(params, dict) else None


# ---- store-level call log -> CasRow op list ------------------------------------------------

def _global_order(top) -> list[tuple[int, Any]]:
    """the DB calls of A, B (C) in the order they were performed: the injected op runs right before the call it is armed at"""
    out: list[tuple[int, Any]] = []

    def walk(op, w: int) -> None:
        inj = {k: o for k, o in op.arm.items() if k in op.injected}
        nxt = [w + 1]
        for c in op.calls:
            if c.idx in inj:
                walk(inj[c.idx], nxt[0])
            out.append((w, c))
        for k in sorted(inj):
            if k >= len(op.calls):
                walk(inj[k], nxt[0])

    walk(top, 0)
    return out


def cas_line(scn: Scn, top, meta: dict, names: list[str]) -> tuple[str, list[str], list[int]]:
    """`cas final …` request for the contended row + the per-write outcomes the implementation showed (UPDATE rowcounts)"""
    rid = meta["ids"][scn.contended()]
    ops: list[str] = []
    outs: list[str] = []
    successful: list[int] = []
    for w, c in _global_order(top):
        if c.kind != "exec":
            continue
        sql = _norm(c.sql)
        if sql.startswith(ROW_READ) and _pget(c.params, "id") == rid:
            ops.append(f"read:{w}")
        elif sql.startswith("UPDATE stage_executions SET") and "version = :version" in sql and _pget(c.params, "id") == rid:
            st = _pget(c.params, "status")
            ops.append(f"mod:{w}:{names.index(st) if st in names else '-'}:{w + 1}:-:0")
            ph = _pget(c.params, "expected_phase")
            ops.append(f"write:{w}:t:{names.index(ph) if ph in names else '-'}")
            outs.append("ok" if c.rowcount == 1 else "conflict")
            if c.rowcount == 1:
                successful.append(w + 1)
    return f"cas final {names.index(meta['st0'])} {len(meta['tasks0'])} " + ";".join(ops), outs, successful


def impl_final(scn: Scn, env, meta: dict, outs: list[str], present: list[int], names: list[str]) -> str:
    r = scn.contended()
    row = env.stage_row(r)
    t0 = meta["tasks0"]
    # task rows that existed at the base state (a task-less stage gets its rows at planning time: not part of the compared abstraction)
    ts = ",".join(f"{k}.{v - t0[k][0]}.0" for k, (v, _) in enumerate(env.tasks_of(r)[:len(t0)])) or "-"
    return f"{','.join(outs) or '-'}#{row['version'] - meta['v0']}.{names.index(row['status'])}.{','.join(str(x) for x in sorted(present)) or '-'}#{ts}"


# ---- monitors ----------------------------------------------------------------------------------

def _present(scn: Scn, ctx: dict, workers: list[str], successful: list[int]) -> list[int]:
    """which workers' modifications the contended row's context holds (worker number + 1)"""
    out = []
    for w, code in enumerate(workers):
        if scn.kind == "startmerge":
            here = code.startswith("SS(") or "s2" in [x.get("signal_name") for x in ctx.get("_buffered_signals") or []]
            out += [w + 1] * (successful.count(w + 1) if here else 0)
        elif scn.kind == "twosignals":
            want = "s1" if code.endswith("@0") else "s2"
            here = want in [x.get("signal_name") for x in ctx.get("_buffered_signals") or []]
            out += [w + 1] * (successful.count(w + 1) if here else 0)
        elif scn.kind in ("startjoin", "startsignal", "cancelstart"):
            # StartStage writes the row twice (claim, plan): one payload entry per successful write of a worker whose contribution is there
            if code.startswith("SS(") or code.startswith("XS("):
                here = True         # their modifications are statuses (compared in the status field / checked by the monitors)
            elif code.startswith("CS("):
                here = code[3:-1] in (ctx.get("_completed_branches") or [])
            else:
                here = "s2" in [x.get("signal_name") for x in ctx.get("_buffered_signals") or []]
            out += [w + 1] * (successful.count(w + 1) if here else 0)
        elif scn.kind == "join":
            if code[3:-1] in (ctx.get("_completed_branches") or []):
                out.append(w + 1)
        elif scn.kind == "signal":
            if (code == "SG(g)" and ctx.get("_buffered_signals")) or (code == "RT(g)" and "saved_by_task" in ctx):
                out.append(w + 1)
        elif (w + 1) in successful:
            out.append(w + 1)      # cancel: the modifications are status changes, checked by the monitors, not by the payload
    return out


def history_monitors(scn: Scn, hist: list[dict]) -> list[tuple[str, str]]:
    """every committed write of the contended row, in commit order"""
    hits = []
    for h in hist:
        old, new = json.loads(h["oldctx"] or "{}"), json.loads(h["newctx"] or "{}")
        if h["newv"] != h["oldv"] + 1:
            hits.append((f"a committed write of stage {scn.contended()} moved the version {h['oldv']} -> {h['newv']} (not +1)", SIG_VERSION))
        lost = []
        for key in ("_completed_branches", "_buffered_signals"):
            o, n = old.get(key) or [], new.get(key) or []
            gone = [x for x in o if x not in n]
            if gone:
                lost.append(f"{key} {o} -> {n}")
        if old.get("_join_fired") and not new.get("_join_fired"):
            lost.append("_join_fired True -> absent")
        for key in ("saved_by_task", "finished_by_task"):
            if key in old and key not in new:
                lost.append(f"context key {key} removed")
        if lost:
            hits.append((f"the committed write v{h['oldv']} -> v{h['newv']} of stage {scn.contended()} passed the version check and silently "
                         f"overwrote what another handler had committed: {'; '.join(lost)}", SIG[scn.kind]))
    return hits


def state_monitors(scn: Scn, env, when: str) -> list[tuple[str, str]]:
    hits = []
    if scn.kind in ("join", "startjoin"):
        done = env.ctx_of("j").get("_completed_branches") or []
        for i in range(scn.n_up):
            u = f"u{i + 1}"
            if env.stage_row(u)["status"] in COMPLETE and u not in done:
                hits.append((f"{when}: CompleteStage({u}) committed {u}'s completion but the join's _completed_branches is {done}: its branch record was lost",
                             SIG[scn.kind]))
    elif scn.kind == "startmerge":
        got = [x.get("signal_name") for x in env.ctx_of("j").get("_buffered_signals") or []]
        if "s2" not in got:
            hits.append((f"{when}: the persistent signal s2 was handled (nothing suspends, so it is not consumed) but stage j's mailbox holds {got}", SIG[scn.kind]))
    elif scn.kind in ("startsignal", "twosignals"):
        got = [x.get("signal_name") for x in env.ctx_of("g").get("_buffered_signals") or []]
        if not {"s1", "s2"} <= set(got):
            hits.append((f"{when}: both persistent signals were handled (nothing suspends, so none is consumed) but stage g's "
                         f"mailbox _buffered_signals holds {got}", SIG[scn.kind]))
    elif scn.kind == "signal" and when != "after the first op":
        c = env.ctx_of("g")
        if not c.get("_buffered_signals") or "saved_by_task" not in c:
            hits.append((f"{when}: stage g's context has _buffered_signals={c.get('_buffered_signals')} and saved_by_task="
                         f"{c.get('saved_by_task', '<absent>')}: both the buffered persistent signal and the task's saved context must be there", SIG["signal"]))
    elif scn.kind in ("cancel", "cancelrun", "cancelstart"):
        au = env.audit()
        for kind, ent, old, new in au:
            if kind == "S" and ent == "i" and old == "CANCELED":
                hits.append((f"{when}: stage i left CANCELED ({old} -> {new})", SIG[scn.kind]))
            if kind == "T" and old in COMPLETE:
                hits.append((f"{when}: a task of stage i left its recorded status ({old} -> {new})", SIG[scn.kind]))
        if when == "after the drain":
            row = env.stage_row("i")
            ts = [s for _, s in env.tasks_of("i")]
            if scn.kind in ("cancel", "cancelstart") and row["status"] != "CANCELED":
                hits.append((f"{when}: CancelStage(i) was handled but stage i is {row['status']}", SIG[scn.kind]))
            if scn.kind == "cancelrun" and row["status"] not in COMPLETE:
                hits.append((f"{when}: CancelStage(i) and the task result were handled but stage i is {row['status']}", SIG[scn.kind]))
            if any(s in ("RUNNING", "NOT_STARTED") for s in ts):
                hits.append((f"{when}: stage i is {row['status']} with tasks {ts}: a task is left RUNNING / NOT_STARTED", SIG[scn.kind]))
    return hits


def legality_monitors(scn: Scn, env, audit0: int) -> list[tuple[str, str]]:
    """C06's oracle on the durable status audit of one schedule (race + drain): every committed status change of a stage / task /
    workflow row is a legal transition of the REAL table; a completed status has no successor.  (The only exemption of the
    message-level monitor, a re-arm to NOT_STARTED by a JumpToStage, cannot occur: the scenarios contain no jump.)"""
    from stabilize.models.status import WorkflowStatus, can_transition

    hits = []
    pair = scn.key()
    tasks = {}
    for ref, sid in env.ids.items():
        for k, r in enumerate(env.q("SELECT id FROM task_executions WHERE stage_id=? ORDER BY id", sid)):
            tasks[r["id"]] = f"{ref}.t{k + 1}"
    for kind, ent, old, new in env.audit()[audit0:]:
        if kind not in ("S", "T", "W"):
            continue          # 'C' rows mark changes of pipeline_executions.is_canceled (workflow-row pairs), not status changes
        if can_transition(WorkflowStatus[old], WorkflowStatus[new]):
            continue
        who = tasks.get(ent, ent) if kind == "T" else ent
        cls = "completed-left" if old in COMPLETE else "illegal"
        hits.append((f"durable status change of {'stage' if kind == 'S' else 'task' if kind == 'T' else 'workflow'} {who}: {old} -> {new} is not in the "
                     f"transition table" + (" (a completed status was left)" if cls == "completed-left" else ""),
                     f"engine-pair:{cls}:{kind}:{old}>{new}:{pair}"))
    return hits


def workflow_monitors(scn: Scn, env, meta: dict) -> tuple[list[tuple[str, str]], list[tuple[str, str]]]:
    """(C07 clause, C17 clause) on the history of the workflow row (race + drain) and the task ledger.
    C07: no committed write reverts a column another worker committed (is_canceled 1 -> 0, canceled_by / cancellation_reason cleared, a final
    status left).  C17: once a write with is_canceled = 1 committed (the CancelWorkflow handler ran on a non-final workflow), the flag is 1 at
    the end and no task execution begins afterwards — the raced handlers (StartWorkflow / CompleteWorkflow / CancelWorkflow) execute no task, so
    every execution in the ledger (cleared at the snapshot) began after the pair, i.e. after that commit."""
    from harness import modeb as mb

    c07, c17 = [], []
    key = scn.key()
    hist = env.whist()[meta["whist0"]:]
    accepted = False
    for h in hist:
        desc = f"{h['oldst']}/c{h['oldc']} -> {h['newst']}/c{h['newc']}"
        if h["oldc"] == 1 and h["newc"] != 1:
            c07.append((f"a committed write of the workflow row ({desc}) set is_canceled back from 1 to {h['newc']}: the CancelWorkflow another worker "
                        f"had committed was silently undone", SIG["wfrow"] + ":is_canceled"))
        for col in ("by", "reason"):
            if h["old" + col] is not None and h["new" + col] is None:
                name = "canceled_by" if col == "by" else "cancellation_reason"
                c07.append((f"a committed write of the workflow row ({desc}) cleared {name} ({h['old' + col]!r} -> NULL)", SIG["wfrow"] + ":" + name))
        if h["oldst"] in COMPLETE and h["newst"] != h["oldst"]:
            c07.append((f"a committed write of the workflow row left the final status {h['oldst']} -> {h['newst']}", SIG["wfrow"] + ":status"))
        accepted = accepted or h["newc"] == 1
    row = env.wf_row()
    if accepted and row["is_canceled"] != 1:
        c17.append((f"a write with is_canceled = 1 was committed (CancelWorkflow accepted) but at the end the workflow row has is_canceled = "
                    f"{row['is_canceled']}, status {row['status']}: the cancel flag is not monotone; workflow-row history "
                    f"{[(h['oldst'], h['oldc'], h['newst'], h['newc']) for h in hist]}", f"engine-pair:cancel-flag-lost:{key}"))
    if accepted and mb.LEDGER:
        c17.append((f"the cancel flag was committed during the pair, yet {len(mb.LEDGER)} task execution(s) began afterwards: {mb.LEDGER}; final "
                    f"workflow row status {row['status']} is_canceled {row['is_canceled']}", f"engine-pair:exec-after-cancel:{key}"))
    return c07, c17


def final_abstract(scn: Scn, env) -> str:
    parts = [f"W={env.wf_status()}" + (f",c{env.wf_row()['is_canceled']}" if scn.kind == "wfrow" else "")]
    for ref in sorted(env.ids):
        r = env.stage_row(ref)
        c = env.ctx_of(ref)
        extra = ""
        if ref == scn.contended():
            extra = (f",cb={sorted(c.get('_completed_branches') or [])},jf={int(bool(c.get('_join_fired')))},bs={len(c.get('_buffered_signals') or [])},"
                     f"sv={c.get('saved_by_task', '-')}")
        parts.append(f"{ref}={r['status']}{extra},{'.'.join(s[:4] for _, s in env.tasks_of(ref)) or '-'}")
    return ";".join(parts)


# ---- one schedule ------------------------------------------------------------------------------

def run_sched(lab: Lab, scn: Scn, snap, meta, d: dict, at: int, nest_at: int | None = None) -> dict:
    mb = lab.mb
    env = lab.env
    from stabilize.models.status import WorkflowStatus

    names = [x.name for x in WorkflowStatus]

    def mk(e):
        _fix(e, meta)
        arm_b = {}
        if nest_at is not None:
            arm_b = {nest_at: e.deliver_op("C", _row(e, d["c"]))}
        return e.deliver_op("A", _row(e, d["a"]), {at: e.deliver_op("B", _row(e, d["b"]), arm_b)})

    del SEEN[:]
    out = mb.run_schedule(env, snap, mk)
    sched = {"scn": asdict(scn), "dir": d, "at": at}
    if nest_at is not None:
        sched["nest_at"] = nest_at
    res: dict[str, Any] = {"sched": sched, "blocked": bool(out.blocked), "skipped": bool(out.skipped), "trace": out.trace, "inside": False,
                           "violations": [], "line": None, "impl": None, "b_calls": []}
    if out.blocked:
        return res
    A, B = out.ops[0], out.ops[1]
    res["inside"] = bool(A.injected) and at < len(A.calls)
    res["b_calls"] = [c.idx for c in B.calls if c.legal] + [len(B.calls)]
    res["results"] = [o.result for o in out.ops]
    workers = [d["a"], d["b"]] + ([d["c"]] if nest_at is not None else [])
    res["post_race"] = env.state_line()
    res["a_ncalls"] = len(A.calls)
    if scn.kind == "wfrow":
        res["line"] = res["impl"] = None      # the workflow row has no version column: monitors only, no CasRow tie
    else:
        line, outs, successful = cas_line(scn, out.ops[0], meta, names)
        res["line"] = line
        res["impl"] = impl_final(scn, env, meta, outs, _present(scn, env.ctx_of(scn.contended()), workers, successful), names)
    race_hits = state_monitors(scn, env, "after the race")
    def newest_first(cand):
        # budget-respecting like the FIFO drain: a delayed re-poll (code suffix rN) is delivered only when no immediate message is pending
        now = [i for i, c in cand if not re.search(r"r\d+$", c)]
        return max(now or [i for i, _ in cand])

    reason, steps = env.drain(max_steps=100, order=newest_first if d.get("drain") == "lifo" else None)
    res["final"] = {"drain": [reason, steps], "state": env.state_line()}
    res["final_abs"] = final_abstract(scn, env)
    hist = env.hist(scn.contended())[meta["hist0"]:]
    res["history"] = [f"v{h['oldv']}->v{h['newv']} {h['oldst']}->{h['newst']} ctx {h['newctx']}" for h in hist]
    res["audit"] = [f"{k}:{'task' if k == 'T' else 'W' if k == 'C' else ent}:{old}>{new}" for k, ent, old, new in env.audit()[meta["audit0"]:]]
    res["c06"] = legality_monitors(scn, env, meta["audit0"])
    res["c17"] = []
    res["c16"] = []
    if scn.kind == "startmerge":
        seen_j = [c for r_, c in SEEN if r_ == "j"]
        res["seen"] = seen_j[:1]
        if not seen_j:
            res["c16"].append((f"stage j's task never ran after the pair ({env.state_line()})", SIG_STUCK))
        elif _own_keys(seen_j[0]) != meta["ref_ctx"]:
            res["c16"].append((f"the context handed to stage j's task is {_own_keys(seen_j[0])} but the un-raced in-order run hands over {meta['ref_ctx']} "
                               f"(own list extended by the ancestors' lists, reducer key combined over the upstream branches): what planning wrote into "
                               f"the stage's own keys was overwritten by the merge after the lost plan commit", SIG_PLANNED))
    hits = history_monitors(scn, hist) + race_hits + state_monitors(scn, env, "after the drain")
    if scn.kind == "wfrow":
        c07w, res["c17"] = workflow_monitors(scn, env, meta)
        hits = c07w + hits
        res["whistory"] = [f"{h['oldst']}/c{h['oldc']}->{h['newst']}/c{h['newc']}" for h in env.whist()[meta["whist0"]:]]
        res["ledger"] = list(lab.mb.LEDGER)
    if reason != "empty":
        hits.append((f"the queue did not drain after the pair: {reason} after {steps} deliveries; {env.state_line()}", SIG_STUCK))
    seen = set()
    for what, sig in hits:
        if (what, sig) not in seen:
            seen.add((what, sig))
            res["violations"].append((what, sig))
    return res


def points_of(lab: Lab, scn: Scn, snap, meta, d: dict) -> tuple[list, list[int]]:
    def mk(e):
        _fix(e, meta)
        return e.deliver_op("A", _row(e, d["a"]))

    calls = lab.mb.enumerate_points(lab.env, snap, mk)
    return calls, [c.idx for c in calls if c.legal] + [len(calls)]


def unit(args: dict) -> dict:
    _setup_process()
    if "replay" in args:
        return replay_sched(args["replay"])
    scn = scn_from(args["scn"])
    d = args["dir"]
    shard = args.get("shard") or [1, 0]
    lab = Lab()
    res = {"schedules": [], "points": 0, "illegal_points": 0, "scn": asdict(scn), "dir": d}
    try:
        env, snap, meta = lab.base(scn)
        calls, legal = points_of(lab, scn, snap, meta, d)
        if shard[1] == 0:
            res["points"] = len(legal)
            res["illegal_points"] = len(calls) + 1 - len(legal)
            res["calls"] = [c.text() for c in calls]
        n = 0
        for at in legal:
            if "c" not in d:
                if n % shard[0] == shard[1]:
                    res["schedules"].append(run_sched(lab, scn, snap, meta, d, at))
                n += 1
                continue
            # three workers: C at every legal point of B as B ran inside A at `at`
            probe = run_sched(lab, scn, snap, meta, {"a": d["a"], "b": d["b"]}, at)
            for j in ([] if probe["blocked"] else probe["b_calls"]):
                if n % shard[0] == shard[1]:
                    res["schedules"].append(run_sched(lab, scn, snap, meta, d, at, nest_at=j))
                n += 1
    finally:
        lab.close()
    return res


# --------------------------------------------------------------------------------------
# parent side
# --------------------------------------------------------------------------------------

def _pool(n: int):
    import multiprocessing as mp

    return mp.get_context("spawn").Pool(n)


def plan_units(thorough: bool, prop: str = "C07") -> list[dict]:
    units = []
    for scn in scenarios(thorough, prop):
        for d in directions(scn, thorough):
            if "c" in d:
                shards = 6 if thorough else 4
                stride = 1 if thorough else 3       # quick: every third nested schedule (the plain pairs are complete in both tiers)
                for s in range(shards):
                    units.append({"scn": asdict(scn), "dir": d, "shard": [shards * stride, s * stride]})
            else:
                units.append({"scn": asdict(scn), "dir": d})
    return units


def replay_units(prop: str = "C07") -> list[dict]:
    from harness import core

    d = core.VERIF / "replays" / prop
    out = []
    for f in sorted(d.glob("*.json")) if d.is_dir() else []:
        body = json.loads(f.read_text())
        rp = body.get("replay") or body
        if isinstance(rp, dict) and "enginepair" in rp:
            out.append({"replay": rp["enginepair"], "file": f.name})
    return out


def start(ctx, prop: str = "C07"):
    """launch the worker processes; the caller runs its other suites meanwhile and then calls finish()"""
    os.environ.setdefault("STABILIZE_MAX_STAGE_WAIT_RETRIES", "2")
    units = replay_units(prop) + plan_units(ctx.thorough, prop)
    # the slow units first (RunTask as A: execute_atomic's inner retry really sleeps on every conflict)
    units.sort(key=lambda u: 0 if ("replay" not in u and u["dir"]["a"].startswith("RT(")) else 1)
    pool = _pool(min(12, os.cpu_count() or 4))
    return {"pool": pool, "units": units, "async": pool.map_async(unit, units, chunksize=1), "t0": time.time(), "prop": prop}


def finish(ctx, h) -> None:
    try:
        results = h["async"].get(timeout=1500)
    finally:
        h["pool"].terminate()
    units = h["units"]
    prop = h.get("prop", "C07")
    for u, r in zip(units, results):
        if "replay" in u:
            ctx.count({"enginepair-replay": u["file"]}, nontrivial=True)
            ctx.tag("pair:replay")
            for what, sig in (r.get("c06", []) if prop == "C06" else r.get("c17", []) if prop == "C17" else r.get("c16", []) if prop == "C16" else r["violations"]):
                ctx.violation(f"{what} (regression corpus {u['file']})", sig, {"enginepair": r["sched"], "trace": r["trace"], "replay_file": u["file"]})
    digest(ctx, [r for u, r in zip(units, results) if "replay" not in u], prop)
    ep = ctx.extra.setdefault("engine_pairs", {})
    ep["units"] = len(units)
    ep["scenarios"] = [s.key() for s in scenarios(ctx.thorough, prop)]
    ep["wall_s"] = round(time.time() - h["t0"], 1)


def run_for(ctx, prop: str) -> None:
    finish(ctx, start(ctx, prop))


def _describe(sched: dict) -> str:
    d = sched["dir"]
    s = f"{scn_from(sched['scn']).key()}: A = {d['a']}, B = {d['b']} injected before DB call {sched['at']} of A"
    if d.get("drain") == "lifo":
        s += " (then newest-first drain)"
    if "nest_at" in sched:
        s += f", C = {d['c']} injected before DB call {sched['nest_at']} of B"
    return s


def digest(ctx, results: list[dict], prop: str = "C07") -> None:
    ep = ctx.extra.setdefault("engine_pairs", {"points": 0, "illegal_points": 0, "schedules": 0, "blocked": 0, "compared": 0, "inside": 0})
    allsched = []
    for res in results:
        ep["points"] += res["points"]
        ep["illegal_points"] += res["illegal_points"]
        if "calls" in res:
            ep.setdefault("calls", {})[f"{scn_from(res['scn']).key()}/{res['dir']['a']}"] = " ".join(res["calls"])
        for r in res["schedules"]:
            allsched.append(r)
    # simplest first: a monitor keeps the first witness per signature
    allsched.sort(key=lambda r: ("nest_at" in r["sched"], r["sched"]["scn"].get("n_up", 0), json.dumps(r["sched"], sort_keys=True)))
    # the final states of the two sequential orders, per scenario and per unordered pair
    seq: dict[str, set] = {}
    for r in allsched:
        if not r["blocked"] and "nest_at" not in r["sched"] and (r["sched"]["at"] == 0 or r["sched"]["at"] >= r["a_ncalls"]):
            sc = r["sched"]
            seq.setdefault(scn_from(sc["scn"]).key() + "/" + "+".join(sorted([sc["dir"]["a"], sc["dir"]["b"]])) + sc["dir"].get("drain", ""), set()).add(r["final_abs"])
    inputs, lines, impl = [], [], []
    for r in allsched:
        sched = r["sched"]
        scn = scn_from(sched["scn"])
        ctx.count({"enginepair": sched}, nontrivial=r["inside"])
        ep["schedules"] += 1
        ctx.tag(f"pair:{scn.kind}", f"pair:scn={scn.key()}", "pair:depth=" + ("2" if "nest_at" in sched else "1"))
        if r["blocked"]:
            ep["blocked"] += 1
            ctx.tag("pair:blocked")
            continue
        if r["inside"]:
            ep["inside"] += 1
            ctx.tag("pair:B-inside-A")
        if "conflict" in (r["impl"] or "").split("#")[0]:
            ctx.tag(f"pair:{scn.kind}:cas-conflict-then-retry")
        replay_obj = {"enginepair": sched, "trace": r["trace"], "history_of_contended_row": r.get("history"), "status_audit": r.get("audit"),
                      "post_race": r.get("post_race"), "final": r.get("final"), "cas": {"request": r["line"], "observed": r["impl"]}}
        if prop == "C16":
            for what, sig in r.get("c16", []):
                ctx.violation(f"{what}; schedule {_describe(sched)}", sig, {**replay_obj, "context_handed_to_task": r.get("seen")})
            if "conflict" in (r["impl"] or "").split("#")[0]:
                ctx.tag("pair:startmerge:plan-commit-lost-then-merged")
            if r["inside"] and len([x for x in ctx.samples if "enginepair" in x]) < 2:
                ctx.sample({"enginepair": sched, "context_handed_to_task": r.get("seen")})
            continue
        if prop == "C17":
            ctx.tag("pair:cancel-" + ("accepted" if any("c1" in w.split("->")[1] for w in r.get("whistory", [])) else "not-accepted(workflow already final)"))
            for what, sig in r.get("c17", []):
                ctx.violation(f"{what}; schedule {_describe(sched)}", sig, {**replay_obj, "workflow_row_history": r.get("whistory"), "ledger": r.get("ledger")})
            if r["inside"] and len([x for x in ctx.samples if "enginepair" in x]) < 2:
                ctx.sample({"enginepair": sched, "workflow_row_history": r.get("whistory"), "status_audit": r.get("audit")})
            continue
        if prop == "C06":
            ctx.tag(*(f"pair:audit:{a.split(':')[0]}:{a.split(':')[-1]}" for a in r.get("audit", [])))
            for what, sig in r.get("c06", []):
                ctx.violation(f"{what}; status audit of the schedule {r.get('audit')}; schedule {_describe(sched)}", sig, replay_obj)
            if r["inside"] and len([x for x in ctx.samples if "enginepair" in x]) < 2:
                ctx.sample({"enginepair": sched, "status_audit": r.get("audit")})
            continue
        for what, sig in r["violations"]:
            ctx.violation(f"{what}; schedule {_describe(sched)}", sig, replay_obj)
        if "nest_at" not in sched and 0 < sched["at"] < r["a_ncalls"]:
            key = scn.key() + "/" + "+".join(sorted([sched["dir"]["a"], sched["dir"]["b"]])) + sched["dir"].get("drain", "")
            if key in seq and r["final_abs"] not in seq[key]:
                ctx.violation(f"the final state after the interleaved pair is {r['final_abs']}, which is the final state of neither sequential order "
                              f"{sorted(seq[key])}; schedule {_describe(sched)}", SIG_SEQ + ":" + scn.kind, replay_obj)
        if r["inside"] and len([x for x in ctx.samples if "enginepair" in x]) < 2:
            ctx.sample({"enginepair": sched, "cas": r["line"], "observed": r["impl"]})
        if r["line"] is not None:
            inputs.append(sched)
            lines.append(r["line"])
            impl.append(r["impl"])
    if lines:
        bad = ctx.correspond(SUITE, inputs, lines, impl)
        ep["compared"] += len(lines)
        ep["mismatches"] = ep.get("mismatches", 0) + bad


# --------------------------------------------------------------------------------------
# replay
# --------------------------------------------------------------------------------------

def replay_sched(sched: dict) -> dict:
    _setup_process()
    scn = scn_from(sched["scn"])
    lab = Lab()
    try:
        env, snap, meta = lab.base(scn)
        calls, legal = points_of(lab, scn, snap, meta, sched["dir"])
        at = sched["at"]
        note = None
        if at not in legal:
            at2 = min(legal, key=lambda x: abs(x - at))
            note = f"DB call {at} is no longer a legal injection point of A; nearest legal point {at2} used"
            at = at2
        r = run_sched(lab, scn, snap, meta, sched["dir"], at, nest_at=sched.get("nest_at"))
        r["calls"] = [c.text() for c in calls]
        r["note"] = note
        return r
    finally:
        lab.close()


def replay(ctx, body, prop: str = "C07") -> int:
    rp = body.get("replay") or body
    if not (isinstance(rp, dict) and "enginepair" in rp):
        print("replay: body has neither `ops`, `torn` nor `enginepair`")
        return 2
    r = replay_sched(rp["enginepair"])
    print("engine pair", _describe(r["sched"]))
    print("  DB calls of A (un-armed; * = inside a write transaction):", " ".join(r.get("calls", [])))
    for line in r.get("trace", []):
        print("  ", line)
    if r.get("note"):
        print("  note:", r["note"])
    if r.get("blocked"):
        print("  schedule blocked by SQLite locking (not a legal interleaving)")
        return 0
    print("  after the race :", r.get("post_race"))
    print("  committed writes of the contended row, in commit order:")
    for h in r.get("history", []):
        print("     ", h)
    print("  after the drain:", (r.get("final") or {}).get("state"), (r.get("final") or {}).get("drain"))
    print("  store-level log as CasRow ops:", r.get("line"))
    print("  observed                     :", r.get("impl"))
    out = ctx.lean([r["line"]]) if r.get("line") else None
    if out:
        print("  model                        :", out[0], "(agrees)" if out[0] == r["impl"] else "(DIFFERS)")
    print("  durable status changes (race + drain), in commit order:", " ".join(r.get("audit", [])))
    if r.get("whistory") is not None:
        print("  committed writes of the workflow row (status/is_canceled), in commit order:", " ".join(r["whistory"]), "| task executions after the snapshot:", r.get("ledger"))
    if r.get("seen") is not None:
        print("  context handed to j's task:", r["seen"])
    hits = r.get("c06", []) if prop == "C06" else r.get("c17", []) if prop == "C17" else r.get("c16", []) if prop == "C16" else r["violations"]
    for what, sig in hits:
        print(f"PROPERTY FAILS: {what}  [{sig}]")
    if not hits:
        print("replay: property held on this input")
    return 1 if hits else 0
