"""Event-sourced engine environment shared by C12 and C13.

Real SqliteWorkflowStore + SqliteQueue + QueueProcessor + SqliteEventStore in ONE SQLite file, the global
event recorder configured as in tests/test_weak_spots.py::TestReplayEquivalence, scripted tasks, a
synchronous bus subscriber that, at the moment of publication, asks a SECOND connection whether the event
row is already committed, chosen-message delivery, cancel injection, kill at the k-th commit.

Nothing in the repo is modified.
"""
from __future__ import annotations

import json
import sqlite3
from pathlib import Path
from typing import Any


class Crash(BaseException):
    """The process 'dies' here (BaseException: none of the engine's `except Exception` paths run)."""


class CrashCtl:
    def __init__(self) -> None:
        self.crash_at: int | None = None
        self.commits = 0
        self.dead = False

    def arm(self, k: int | None) -> None:
        self.crash_at = k
        self.commits = 0
        self.dead = False


CTL = CrashCtl()


class CountingConn(sqlite3.Connection):
    def commit(self):  # type: ignore[override]
        if self.in_transaction:
            if CTL.dead:
                raise Crash("commit after death")
            if CTL.crash_at is not None and CTL.commits == CTL.crash_at:
                CTL.dead = True
                raise Crash(f"killed at commit {CTL.commits}")
            CTL.commits += 1
        return super().commit()


class _Shim:
    """Stands in for the `sqlite3` module inside stabilize.persistence.connection."""

    def __getattr__(self, n):
        return getattr(sqlite3, n)

    def connect(self, *a, **k):
        k.setdefault("factory", CountingConn)
        return sqlite3.connect(*a, **k)


def install_shim() -> None:
    import stabilize.persistence.connection as pc

    if type(pc.sqlite3).__name__ != "_Shim":
        pc.sqlite3 = _Shim()


def reset_globals() -> None:
    from stabilize import RunTaskHandler
    from stabilize.events import reset_event_bus, reset_event_migrator, reset_event_recorder
    from stabilize.persistence.connection import ConnectionManager, SingletonMeta
    from stabilize.queue.dedup import reset_deduplicator
    from stabilize.resilience.cancellation import reset_cancellation_state
    import stabilize.events.txn_scope as ts

    SingletonMeta.reset(ConnectionManager)
    RunTaskHandler._executing_tasks.clear()
    reset_cancellation_state()
    reset_event_bus()
    reset_event_recorder()
    reset_event_migrator()
    reset_deduplicator()
    # a kill inside a `with transaction` block leaves the thread-local scope bound (a real kill takes the thread with it)
    ts._local.scope = None


# outcome letters of scripted tasks
OUTCOMES = {"S": "success", "T": "terminal", "F": "failed_continue", "P": "stopped", "K": "skipped", "C": "canceled", "X": "raise"}


def make_task(env: "Env"):
    from stabilize.tasks.interface import Task
    from stabilize.tasks.result import TaskResult

    class ScriptedTask(Task):
        def execute(self, stage):  # noqa: ANN001
            oc = stage.context.get("_oc", {}).get(env.current_task_name or "", "S")
            env.executions.append((stage.ref_id, env.current_task_name, oc))
            if oc == "S":
                return TaskResult.success(outputs={f"o_{stage.ref_id}": 1})
            if oc == "T":
                return TaskResult.terminal("scripted terminal")
            if oc == "F":
                return TaskResult.failed_continue("scripted failure")
            if oc == "P":
                return TaskResult.stopped()
            if oc == "K":
                return TaskResult.skipped()
            if oc == "C":
                return TaskResult.canceled()
            if oc == "X":
                raise ValueError("scripted permanent error")
            raise AssertionError(oc)

    return ScriptedTask()


class Env:
    """One SQLite file with store + queue + event store, any number of workflows.

    spec of a workflow: list of stages {"reqs": [i...], "tasks": ["S","T",...], "enabled": None|False|True, "cont": bool}
    optional per stage: "synth": [{"owner": "B" | "A", "tasks": [...], ("req": k)}, ...] = pre-declared synthetic STAGE_BEFORE / STAGE_AFTER
    children, built the way the repo's tests build them; they are the stage indices after the top-level ones (refs w<i>s<idx>)
    """

    def __init__(self, workdir: Path, name: str = "e", same_db: bool = True):
        self.dir = Path(workdir)
        self.path = self.dir / f"{name}.db"
        self.evpath = self.path if same_db else self.dir / f"{name}-events.db"
        for p0 in {self.path, self.evpath}:
            for suffix in ("", "-wal", "-shm"):
                p = Path(str(p0) + suffix)
                if p.exists():
                    p.unlink()
        self.url = f"sqlite:///{self.path}"
        self.evurl = f"sqlite:///{self.evpath}"
        self.workflows: list[dict] = []          # {"id", "obj", "stage_ids", "task_ids": {id: (s,t)}, "spec"}
        self.executions: list[tuple] = []
        self.current_task_name: str | None = None
        self.published: list[dict] = []          # {"seq", "type", "kind", "eid", "committed": bool}
        self.writers: dict[tuple[str, str], str] = {}
        self.ro: sqlite3.Connection | None = None
        self.open(create=True)

    # ---- life cycle -----------------------------------------------------------------
    def open(self, create: bool = False) -> None:
        from datetime import timedelta

        from stabilize import QueueProcessor, SqliteQueue, SqliteWorkflowStore, TaskRegistry
        from stabilize.events import SqliteEventStore, configure_event_sourcing, get_event_bus
        from stabilize.queue.dedup import get_deduplicator
        from stabilize.resilience.config import HandlerConfig

        install_shim()
        reset_globals()
        CTL.arm(None)
        # same BloomDeduplicator class, sized down: fill_ratio() is O(bits) per message and would dominate the run time
        get_deduplicator(expected_items=2000)
        self.store = SqliteWorkflowStore(self.url, create_tables=True)
        self.queue = SqliteQueue(self.url, lock_duration=timedelta(hours=1))
        self.queue._create_table()
        self.event_store = SqliteEventStore(self.evurl, create_tables=True)
        self.recorder = configure_event_sourcing(self.event_store)
        get_event_bus().subscribe("verif-sync", self._on_event)
        self.registry = TaskRegistry()
        self.registry.register("scripted", make_task(self))
        hc = HandlerConfig(task_backoff_min_delay_ms=1, task_backoff_max_delay_ms=2, handler_retry_delay_seconds=0.001,
                           concurrency_min_delay_ms=1, concurrency_max_delay_ms=2, max_stage_wait_retries=6)
        self.processor = QueueProcessor(self.queue, store=self.store, task_registry=self.registry, handler_config=hc)
        if self.ro is not None:
            try:
                self.ro.close()
            except Exception:
                pass
        self.ro = sqlite3.connect(str(self.path), isolation_level=None, check_same_thread=False)
        self.ro.row_factory = sqlite3.Row
        if create:
            # which delivery wrote which status: SQL triggers log every durable status change, deliver() attributes the new rows
            self.ro.executescript(
                """
                CREATE TABLE IF NOT EXISTS _audit(seq INTEGER PRIMARY KEY AUTOINCREMENT, kind TEXT, id TEXT, old TEXT, new TEXT);
                CREATE TRIGGER IF NOT EXISTS _au_s AFTER UPDATE OF status ON stage_executions WHEN OLD.status <> NEW.status
                  BEGIN INSERT INTO _audit(kind,id,old,new) VALUES('S', NEW.id, OLD.status, NEW.status); END;
                CREATE TRIGGER IF NOT EXISTS _au_t AFTER UPDATE OF status ON task_executions WHEN OLD.status <> NEW.status
                  BEGIN INSERT INTO _audit(kind,id,old,new) VALUES('T', NEW.id, OLD.status, NEW.status); END;
                """
            )
            self.writers = {}
        if self.evpath != self.path:
            self.ro_ev = sqlite3.connect(str(self.evpath), isolation_level=None, check_same_thread=False)
            self.ro_ev.row_factory = sqlite3.Row
        else:
            self.ro_ev = self.ro

    def _on_event(self, event) -> None:  # noqa: ANN001
        row = self.ro_ev.execute("SELECT event_id FROM events WHERE sequence = ?", (event.sequence,)).fetchone()
        committed = row is not None and row["event_id"] == event.event_id
        self.published.append({"seq": event.sequence, "type": event.event_type.name, "kind": event.entity_type.value,
                               "eid": event.entity_id, "event_id": event.event_id, "committed": committed})

    def close(self) -> None:
        for c in {self.ro, getattr(self, "ro_ev", None)}:
            try:
                if c is not None:
                    c.close()
            except Exception:
                pass
        self.ro = None
        reset_globals()

    def restart(self) -> None:
        """Process restart after a kill: every engine object is rebuilt from the file(s)."""
        self.open(create=False)

    # ---- workflows --------------------------------------------------------------------
    def add_workflow(self, spec: list[dict], start: bool = True) -> int:
        from stabilize.models.stage import StageExecution
        from stabilize.models.task import TaskExecution
        from stabilize.models.workflow import Workflow
        from stabilize.queue.messages import StartWorkflow

        stages = []
        for i, sp in enumerate(spec):
            tasks_oc = sp.get("tasks", ["S"])
            ctx: dict[str, Any] = {"_oc": {f"tk{t}": oc for t, oc in enumerate(tasks_oc)}}
            if sp.get("cont"):
                ctx["continuePipelineOnFailure"] = True
            if sp.get("enabled") is not None:
                ctx["stageEnabled"] = {"type": "expression", "expression": "true" if sp["enabled"] else "false"}
            tasks = [TaskExecution.create(name=f"tk{t}", implementing_class="scripted", stage_start=(t == 0),
                                          stage_end=(t == len(tasks_oc) - 1)) for t in range(len(tasks_oc))]
            extra = {}
            if sp.get("join"):
                from stabilize.models.stage import JoinType

                extra = {"join_type": JoinType[sp["join"]], "join_threshold": sp.get("threshold", 0)}
            stages.append(StageExecution(ref_id=f"s{i}", type="scripted", name=f"s{i}", context=ctx, tasks=tasks,
                                         requisite_stage_ref_ids={f"s{r}" for r in sp.get("reqs", [])}, **extra))
        n_top = len(stages)
        for par, sp in enumerate(spec):
            first = len(stages)          # a child with "req": k is chained behind the k-th child of the same parent
            for ch in sp.get("synth") or []:
                from stabilize.models.stage import SyntheticStageOwner

                i = len(stages)
                tasks_oc = ch.get("tasks", ["S"])
                tasks = [TaskExecution.create(name=f"tk{t}", implementing_class="scripted", stage_start=(t == 0),
                                              stage_end=(t == len(tasks_oc) - 1)) for t in range(len(tasks_oc))]
                child = StageExecution(ref_id=f"s{i}", type="scripted", name=f"s{i}", tasks=tasks,
                                       requisite_stage_ref_ids=({f"s{first + ch['req']}"} if ch.get("req") is not None else set()),
                                       context={"_oc": {f"tk{t}": oc for t, oc in enumerate(tasks_oc)}},
                                       synthetic_stage_owner=(SyntheticStageOwner.STAGE_BEFORE if ch["owner"] == "B" else SyntheticStageOwner.STAGE_AFTER))
                child.parent_stage_id = stages[par].id
                stages.append(child)
        del n_top
        wf = Workflow.create(application="verif", name=f"wf{len(self.workflows)}", stages=stages)
        self.store.store(wf)
        w = {"id": wf.id, "obj": wf, "type": wf.type.value, "stage_ids": [s.id for s in stages], "spec": spec,
             "task_ids": {t.id: (i, j) for i, s in enumerate(stages) for j, t in enumerate(s.tasks)}}
        self.workflows.append(w)
        if start:
            with self.store.transaction(self.queue) as txn:
                txn.push_message(StartWorkflow(execution_type=w["type"], execution_id=wf.id))
        return len(self.workflows) - 1

    def cancel(self, wi: int) -> None:
        from stabilize.queue.messages import CancelWorkflow

        w = self.workflows[wi]
        with self.store.transaction(self.queue) as txn:
            txn.push_message(CancelWorkflow(execution_type=w["type"], execution_id=w["id"], user="verif", reason="injected"))

    # ---- canonical names ----------------------------------------------------------------
    def ref(self, ident: str) -> str | None:
        for wi, w in enumerate(self.workflows):
            if ident == w["id"]:
                return f"w{wi}"
            if ident in w["stage_ids"]:
                return f"w{wi}s{w['stage_ids'].index(ident)}"
            if ident in w["task_ids"]:
                s, t = w["task_ids"][ident]
                return f"w{wi}s{s}k{t}"
        return None

    # ---- delivery -----------------------------------------------------------------------
    def pending(self) -> list[tuple[int, str, dict]]:
        rows = self.ro.execute("SELECT id, message_type, payload FROM queue_messages ORDER BY id").fetchall()
        return [(r["id"], r["message_type"], json.loads(r["payload"])) for r in rows]

    def describe(self, mtype: str, payload: dict) -> str:
        parts = [mtype]
        for k in ("execution_id", "stage_id", "task_id"):
            if payload.get(k):
                parts.append(self.ref(payload[k]) or "?")
        if payload.get("status"):
            parts.append(str(payload["status"]))
        return ":".join(parts[:1] + parts[-2:]) if len(parts) > 3 else ":".join(parts)

    def deliver(self, row_id: int) -> str:
        """Deliver one chosen message through the real QueueProcessor._handle_message, then ack (what process_one does)."""
        from datetime import timedelta

        from stabilize.queue.sqlite.serialization import deserialize_message

        row = self.ro.execute("SELECT * FROM queue_messages WHERE id=?", (row_id,)).fetchone()
        if row is None:
            return "no-row"
        self.ro.execute("UPDATE queue_messages SET attempts = attempts + 1, version = version + 1 WHERE id=?", (row_id,))
        m = deserialize_message(row["message_type"], row["payload"])
        m.message_id = str(row_id)
        m.attempts = row["attempts"] + 1
        payload = json.loads(row["payload"])
        self.current_task_name = None
        if row["message_type"] == "RunTask":
            for w in self.workflows:
                if payload.get("task_id") in w["task_ids"]:
                    self.current_task_name = f"tk{w['task_ids'][payload['task_id']][1]}"
        mark = self.ro.execute("SELECT COALESCE(MAX(seq), 0) FROM _audit").fetchone()[0]
        try:
            self.processor._handle_message(m)
            self.queue.ack(m)
            return "ok"
        except Exception as e:
            m.set_error_context(e)
            self.queue.reschedule(m, timedelta(0))
            return "raised:" + type(e).__name__
        finally:
            # (also after a kill: what the dead worker committed before it died is attributed to its message)
            for r in self.ro.execute("SELECT id, new FROM _audit WHERE seq > ?", (mark,)).fetchall():
                self.writers[(r["id"], r["new"])] = row["message_type"]

    def writer_of(self, ident: str, status: str) -> str | None:
        """message type of the delivery that (last) wrote `status` into the stage / task row `ident`"""
        return self.writers.get((ident, status))

    def drain(self, rng=None, reorder: float = 0.0, max_steps: int = 400, on_step=None, picks=None) -> list[str]:
        """Deliver pending messages until the queue is empty; lowest id first, or (prob. `reorder`) a random one;
        `picks[i]` (index into the pending list, id order) overrides the choice at step i."""
        trace = []
        for step in range(max_steps):
            pend = self.pending()
            if not pend:
                break
            pick = pend[0]
            if picks is not None and step < len(picks):
                pick = pend[min(picks[step], len(pend) - 1)]
            elif rng is not None and reorder > 0 and len(pend) > 1 and rng.random() < reorder:
                pick = rng.choice(pend)
            r = self.deliver(pick[0])
            trace.append(f"{self.describe(pick[1], pick[2])}={r}")
            if len(trace) >= 30 and len(set(trace[-30:])) == 1:
                break   # a message re-queued forever (unbounded task retry): not this check's subject
            if on_step is not None:
                on_step(step)
        return trace

    # ---- observation ---------------------------------------------------------------------
    def event_rows(self, wi: int | None = None) -> list[dict]:
        q = "SELECT sequence, event_id, event_type, entity_type, entity_id, workflow_id, timestamp, data, source_handler FROM events"
        args: tuple = ()
        if wi is not None:
            q += " WHERE workflow_id = ?"
            args = (self.workflows[wi]["id"],)
        rows = self.ro_ev.execute(q + " ORDER BY sequence", args).fetchall()
        return [dict(r) | {"data": json.loads(r["data"] or "{}")} for r in rows]

    def store_statuses(self, wi: int) -> dict[str, str]:
        """ref -> durable status, straight from the tables (what store.retrieve() reads)."""
        w = self.workflows[wi]
        out = {f"w{wi}": self.ro.execute("SELECT status FROM pipeline_executions WHERE id=?", (w["id"],)).fetchone()["status"]}
        for sid in w["stage_ids"]:
            out[self.ref(sid)] = self.ro.execute("SELECT status FROM stage_executions WHERE id=?", (sid,)).fetchone()["status"]
        for tid in w["task_ids"]:
            r = self.ro.execute("SELECT status FROM task_executions WHERE id=?", (tid,)).fetchone()
            if r is not None:
                out[self.ref(tid)] = r["status"]
        return out
