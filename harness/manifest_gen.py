"""Regenerates MANIFEST.json from the table below (run by hand: /venv/bin/python -m harness.manifest_gen)."""
from __future__ import annotations

import json
from pathlib import Path

VERIF = Path(__file__).resolve().parent.parent

# property -> (technique, level text, level note, design ref)
CLAIMED: dict[str, dict] = {}
NOT_YET: dict[str, str] = {}


def claim(pid, technique, text, note, ref):
    CLAIMED[pid] = {"technique": technique, "text": text, "note": note, "ref": ref}


import importlib
spec = importlib.import_module("harness.manifest_table")
spec.fill(claim, NOT_YET)

ENGINES = spec.ENGINES


def main() -> None:
    checks = []
    for pid in sorted(CLAIMED):
        c = CLAIMED[pid]
        checks.append({
            "property_id": pid,
            "quick_cmd": f"./check {pid} --tier quick",
            "thorough_cmd": f"./check {pid} --tier thorough",
            "evidence_file": f"evidence/{pid}.json",
            "replay_cmd_template": f"./check {pid} --replay {{path}}",
            "engine": "lean-proofs",
            "level_claimed": {"category": "proof", "text": c["text"], "design_ref": c["ref"]},
            "level_note": c["note"],
            "technique": c["technique"],
        })
    m = {
        "version": 1,
        "setup_cmd": "./check --setup",
        "hooks": {
            "guard": "STABILIZE_VERIF",
            "enable": "no source hooks: the harness drives the real engine in-process and instruments it from outside (sqlite3 connection factory, SQL triggers, scripted Task classes); STABILIZE_VERIF=1 is exported by the harness but nothing in /repo reads it",
            "baseline_off_cmd": "cd /repo && /venv/bin/python -m pytest -ra -q -p no:cacheprovider --timeout=900 --continue-on-collection-errors",
            "source_commits": [],
            "add_only": True,
        },
        "engines": ENGINES,
        "checks": checks,
        "not_applicable": [{"property_id": k, "reason": v} for k, v in sorted(NOT_YET.items())],
        "notes": spec.NOTES,
    }
    (VERIF / "MANIFEST.json").write_text(json.dumps(m, indent=1) + "\n")
    print("claimed:", sorted(CLAIMED), "not claimed:", sorted(NOT_YET))


if __name__ == "__main__":
    main()
