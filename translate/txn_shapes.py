"""handlers/**/*.py -> Stab/Gen/TxnShapes.lean: the transaction shapes of every handler module.

For every function of every module under src/stabilize/handlers/ (pure `ast`, nothing imported):

  kind "with"     one entry per `with <...>.transaction(<...>) as txn:` block; `calls` = the names of the calls that
                  occur lexically inside the block, in source order, restricted to the vocabulary below
                  (store_stage, update_workflow_status, mark_message_processed, push_message, acquire_claim,
                  store / store_workflow..., every name starting with record_ / _record_ / publish, set_* of
                  txn scopes is not included)
  kind "atomic" / "atomic_critical"
                  one entry per call of `<...>.execute_atomic(...)` / `execute_atomic_critical(...)`; `calls` = the
                  keyword arguments passed (stage, source_message, messages_to_push, handler_name, require_atomic)
                  — TransactionHelper turns them into store_stage / mark_message_processed / push_message inside ONE
                  `with repository.transaction(queue)` block (persistence/transaction.py, checked by `helperShapeOk`)
  kind "push_outside"
                  one entry per `<...>queue.push(...)` / `.ensure(...)` call that is NOT lexically inside a
                  transaction block; `calls` = [method name]

`idx` numbers the entries of one function in source order (stable under edits elsewhere in the file); `line` is
informational only (no proof may depend on it).
"""
from __future__ import annotations

import ast

from .common import TranslateError, lean_bool, lean_list, lean_str, repo_root, write_if_changed

VOCAB = {
    "store_stage", "update_workflow_status", "mark_message_processed", "push_message", "acquire_claim",
    "store", "update_status", "add_stage", "remove_stage",
}
PREFIXES = ("record_", "_record_", "publish")
ATOMIC = {"execute_atomic": "atomic", "execute_atomic_critical": "atomic_critical"}


def _call_name(node: ast.Call) -> str | None:
    f = node.func
    if isinstance(f, ast.Attribute):
        return f.attr
    if isinstance(f, ast.Name):
        return f.id
    return None


def _is_txn_with(node: ast.With) -> bool:
    for item in node.items:
        ce = item.context_expr
        if isinstance(ce, ast.Call) and _call_name(ce) == "transaction":
            return True
    return False


def _interesting(name: str | None) -> bool:
    return name is not None and (name in VOCAB or name.startswith(PREFIXES))


def _src_order(nodes):
    return sorted(nodes, key=lambda n: (n.lineno, n.col_offset))


def _is_queue_push(node: ast.Call) -> str | None:
    f = node.func
    if isinstance(f, ast.Attribute) and f.attr in ("push", "ensure"):
        v = f.value
        if (isinstance(v, ast.Name) and v.id == "queue") or (isinstance(v, ast.Attribute) and v.attr == "queue"):
            return f.attr
    return None


class _Fn(ast.NodeVisitor):
    """collect entries of one module, tracking the qualified function name and whether we are inside a txn block"""

    def __init__(self, rel: str):
        self.rel = rel
        self.stack: list[str] = []
        self.in_txn = 0
        self.entries: list[dict] = []

    def qual(self) -> str:
        return ".".join(self.stack) or "<module>"

    def _add(self, kind: str, calls: list[str], line: int) -> None:
        self.entries.append({"file": self.rel, "func": self.qual(), "kind": kind, "calls": calls, "line": line})

    def visit_ClassDef(self, node):
        self.stack.append(node.name)
        self.generic_visit(node)
        self.stack.pop()

    def visit_FunctionDef(self, node):
        self.stack.append(node.name)
        self.generic_visit(node)
        self.stack.pop()

    visit_AsyncFunctionDef = visit_FunctionDef

    def visit_With(self, node):
        if _is_txn_with(node):
            calls = []
            for stmt in node.body:
                for sub in ast.walk(stmt):
                    if isinstance(sub, ast.Call) and _interesting(_call_name(sub)):
                        calls.append(sub)
            self._add("with", [_call_name(c) for c in _src_order(calls)], node.lineno)
            self.in_txn += 1
            self.generic_visit(node)
            self.in_txn -= 1
        else:
            self.generic_visit(node)

    def visit_Call(self, node):
        name = _call_name(node)
        if name in ATOMIC and isinstance(node.func, ast.Attribute):
            kws = [k.arg if k.arg is not None else "**" for k in node.keywords]
            if node.args:
                kws = [f"<{len(node.args)} positional>"] + kws
            self._add(ATOMIC[name], kws, node.lineno)
        pushed = _is_queue_push(node)
        if pushed and not self.in_txn:
            self._add("push_outside", [pushed], node.lineno)
        self.generic_visit(node)


def _helper_shape_ok() -> bool:
    """persistence/transaction.py: both execute_atomic* bodies do store_stage (if stage) / mark_message_processed (if
    source_message and its id) / push_message (for each) inside one `with self.repository.transaction(self.queue)`."""
    p = repo_root() / "src" / "stabilize" / "persistence" / "transaction.py"
    mod = ast.parse(p.read_text())
    ok = {}
    for node in ast.walk(mod):
        if isinstance(node, ast.FunctionDef) and node.name in ATOMIC:
            withs = [w for w in ast.walk(node) if isinstance(w, ast.With) and _is_txn_with(w)]
            if len(withs) != 1:
                ok[node.name] = False
                continue
            names = [_call_name(c) for c in _src_order([c for s in withs[0].body for c in ast.walk(s) if isinstance(c, ast.Call)])]
            names = [n for n in names if n in ("store_stage", "mark_message_processed", "push_message")]
            ifs = [i for s in withs[0].body for i in ast.walk(s) if isinstance(i, ast.If)]
            guards = " ".join(ast.unparse(i.test) for i in ifs)
            ok[node.name] = names == ["store_stage", "mark_message_processed", "push_message"] and "source_message" in guards and "stage" in guards
    return len(ok) == 2 and all(ok.values())


def extract() -> dict:
    base = repo_root() / "src" / "stabilize"
    hdir = base / "handlers"
    if not hdir.is_dir():
        raise TranslateError("src/stabilize/handlers not found")
    entries: list[dict] = []
    files = sorted(hdir.rglob("*.py"))
    for f in files:
        rel = str(f.relative_to(base))
        v = _Fn(rel)
        v.visit(ast.parse(f.read_text(), filename=str(f)))
        # number the entries of each function in source order
        per: dict[str, int] = {}
        for e in sorted(v.entries, key=lambda e: e["line"]):
            k = e["func"]
            e["idx"] = per.get(k, 0)
            per[k] = e["idx"] + 1
            entries.append(e)
    if not entries:
        raise TranslateError("no transaction shapes found under handlers/")
    return {"entries": entries, "files": [str(f.relative_to(base)) for f in files], "helper_ok": _helper_shape_ok()}


def render(x: dict) -> str:
    lines = [
        "/- GENERATED by translate/txn_shapes.py from src/stabilize/handlers/**/*.py — do not edit. -/",
        "namespace Stab.Gen.TxnShapes",
        "",
        "structure Entry where",
        "  file : String        -- module path below src/stabilize",
        "  func : String        -- qualified name of the enclosing function",
        "  idx : Nat            -- ordinal of the entry inside that function (source order)",
        "  kind : String        -- \"with\" | \"atomic\" | \"atomic_critical\" | \"push_outside\"",
        "  calls : List String  -- \"with\": call names inside the block; \"atomic*\": keyword arguments; \"push_outside\": method",
        "  line : Nat           -- informational only",
        "  deriving DecidableEq, Repr",
        "",
        "/-- every handler module that was scanned -/",
        "def files : List String :=",
        "  " + lean_list([lean_str(f) for f in x["files"]]),
        "",
        "/-- TransactionHelper.execute_atomic / execute_atomic_critical still do store_stage, mark_message_processed,",
        "    push_message (in that order, guarded by `stage` / `source_message`) inside one transaction block -/",
        f"def helperShapeOk : Bool := {lean_bool(x['helper_ok'])}",
        "",
        "def entries : List Entry := [",
    ]
    rows = []
    for e in x["entries"]:
        rows.append("  { file := %s, func := %s, idx := %d, kind := %s, calls := %s, line := %d }" % (
            lean_str(e["file"]), lean_str(e["func"]), e["idx"], lean_str(e["kind"]),
            lean_list([lean_str(c) for c in e["calls"]]), e["line"]))
    lines.append(",\n".join(rows))
    lines += ["]", "", "end Stab.Gen.TxnShapes", ""]
    return "\n".join(lines)


def run() -> dict:
    x = extract()
    changed, digest = write_if_changed("TxnShapes", render(x))
    kinds: dict[str, int] = {}
    for e in x["entries"]:
        kinds[e["kind"]] = kinds.get(e["kind"], 0) + 1
    return {"file": "Stab/Gen/TxnShapes.lean", "changed": changed, "sha256": digest,
            "extracted": {"files": len(x["files"]), "entries": len(x["entries"]), "kinds": kinds, "helper_ok": x["helper_ok"]}}
