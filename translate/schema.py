"""Persistence / message codec tables -> Stab/Gen/Schema.lean   (C19)

Extracted with `ast` + light SQL-text parsing, nothing imported from the repo:

* dataclass field names (public) of StageExecution / TaskExecution / Workflow;
* INSERT column lists + bound parameter names + keys of the parameter dicts: insert_stage, upsert_task (insert branch),
  SqliteWorkflowCrudMixin.store (+ execution_to_dict keys);
* UPDATE statements: SET column lists and WHERE columns of upsert_task (update branch) and of the four stage UPDATEs
  (store_stage of the store and of the atomic transaction, each with / without expected_phase);
* row_to_stage / row_to_task / row_to_execution: the row keys read and the constructor keywords passed;
* every `SELECT ... FROM task_executions`: its ORDER BY;
* the message registry: MESSAGE_TYPES name -> dataclass fields incl. inherited, each with a kind
  (plain | status | optStatus | phase | datetime) derived from its annotation;
* deserialize_message: which keys are converted (and how they are guarded) and which are popped;
* the shape of the two serialisers (serialize_message, AtomicTransaction.push_message): loop over `__dict__`,
  `_`-skip, datetime -> isoformat, Enum -> which attribute, else identity;
* for the dataclass fields that are NOT persisted: the number of places in src/ that read them.
"""
from __future__ import annotations

import ast
import re

from .common import TranslateError, lean_bool, lean_list, lean_str, parse, repo_root, write_if_changed

# ----------------------------------------------------------------------------------------------------
# helpers
# ----------------------------------------------------------------------------------------------------


def _find_class(mod: ast.Module, name: str) -> ast.ClassDef:
    for n in ast.walk(mod):
        if isinstance(n, ast.ClassDef) and n.name == name:
            return n
    raise TranslateError(f"class {name} not found")


def _find_func(node: ast.AST, name: str) -> ast.FunctionDef:
    for n in ast.walk(node):
        if isinstance(n, ast.FunctionDef) and n.name == name:
            return n
    raise TranslateError(f"function {name} not found")


def _dataclass_fields(cls: ast.ClassDef, public_only: bool = True) -> list[tuple[str, str]]:
    out = []
    for st in cls.body:
        if isinstance(st, ast.AnnAssign) and isinstance(st.target, ast.Name):
            n = st.target.id
            if public_only and n.startswith("_"):
                continue
            out.append((n, ast.unparse(st.annotation)))
    return out


def _sql_strings(fn: ast.AST) -> list[tuple[str, ast.Call]]:
    """(sql text, call) for every `<x>.execute("<sql>", ...)` inside fn, in source order"""
    out = []
    for n in ast.walk(fn):
        if isinstance(n, ast.Call) and isinstance(n.func, ast.Attribute) and n.func.attr == "execute" and n.args:
            a0 = n.args[0]
            if isinstance(a0, ast.Constant) and isinstance(a0.value, str):
                out.append((a0.value, n))
    out.sort(key=lambda t: (t[1].lineno, t[1].col_offset))
    return out


def _norm(sql: str) -> str:
    return re.sub(r"\s+", " ", sql).strip()


def _parse_insert(sql: str) -> tuple[str, list[str], list[str]]:
    m = re.match(r"INSERT(?: OR \w+)? INTO (\w+) \((.*?)\) VALUES \((.*)\)$", _norm(sql), re.S)
    if not m:
        raise TranslateError(f"INSERT not understood: {_norm(sql)[:80]}")
    cols = [c.strip() for c in m.group(2).split(",")]
    vals = [v.strip() for v in m.group(3).split(",")]
    if len(cols) != len(vals):
        raise TranslateError(f"INSERT into {m.group(1)}: {len(cols)} columns but {len(vals)} values")
    return m.group(1), cols, vals


def _parse_update(sql: str) -> tuple[str, list[tuple[str, str]], list[tuple[str, str]]]:
    m = re.match(r"UPDATE (\w+) SET (.*?) WHERE (.*)$", _norm(sql), re.S)
    if not m:
        raise TranslateError(f"UPDATE not understood: {_norm(sql)[:80]}")
    sets = []
    for part in m.group(2).split(","):
        c, _, e = part.partition("=")
        sets.append((c.strip(), e.strip()))
    wh = []
    for part in re.split(r"\s+AND\s+", m.group(3)):
        c, _, e = part.partition("=")
        wh.append((c.strip(), e.strip()))
    return m.group(1), sets, wh


def _dict_keys(node: ast.AST) -> list[str]:
    if not isinstance(node, ast.Dict):
        raise TranslateError("parameter dict is not a literal")
    out = []
    for k in node.keys:
        if not (isinstance(k, ast.Constant) and isinstance(k.value, str)):
            raise TranslateError("parameter dict key is not a string literal")
        out.append(k.value)
    return out


def _row_reader(fn: ast.FunctionDef, ctor: str) -> tuple[list[str], list[str]]:
    """row keys read (row["k"], _safe_get("k", ..)) and the keywords of the final `return <ctor>(...)`"""
    keys: list[str] = []
    for n in ast.walk(fn):
        if isinstance(n, ast.Subscript) and isinstance(n.value, ast.Name) and n.value.id == "row":
            if isinstance(n.slice, ast.Constant) and isinstance(n.slice.value, str):
                if n.slice.value not in keys:
                    keys.append(n.slice.value)
            elif isinstance(n.slice, ast.Name) and n.slice.id == "key":
                continue  # the generic accessor inside _safe_get
            else:
                raise TranslateError(f"{fn.name}: row[...] with a non-literal key")
        if isinstance(n, ast.Call) and isinstance(n.func, ast.Name) and n.func.id == "_safe_get":
            if not (n.args and isinstance(n.args[0], ast.Constant)):
                raise TranslateError(f"{fn.name}: _safe_get with a non-literal key")
            if n.args[0].value not in keys:
                keys.append(n.args[0].value)
    kwargs: list[str] | None = None
    for n in ast.walk(fn):
        if isinstance(n, ast.Return) and isinstance(n.value, ast.Call) and getattr(n.value.func, "id", None) == ctor:
            if n.value.args:
                raise TranslateError(f"{fn.name}: positional constructor arguments")
            kwargs = [k.arg for k in n.value.keywords if k.arg]
    if kwargs is None:
        raise TranslateError(f"{fn.name}: `return {ctor}(...)` not found")
    return keys, kwargs


def _kind(annotation: str) -> str:
    a = annotation.replace(" ", "")
    if a == "WorkflowStatus":
        return "status"
    if a in ("WorkflowStatus|None", "None|WorkflowStatus", "Optional[WorkflowStatus]"):
        return "optStatus"
    if a == "SyntheticStageOwner":
        return "phase"
    if a == "datetime":
        return "datetime"
    if "WorkflowStatus" in a or "SyntheticStageOwner" in a or "datetime" in a or "Enum" in a:
        raise TranslateError(f"message field annotation not understood: {annotation}")
    return "plain"


def _serializer_shape(fn: ast.FunctionDef) -> list[str]:
    """the `for key, value in message.__dict__.items()` loop as a list of tokens"""
    loops = [n for n in ast.walk(fn) if isinstance(n, ast.For) and "__dict__" in ast.unparse(n.iter)]
    if len(loops) != 1:
        raise TranslateError(f"{fn.name}: expected exactly one loop over __dict__")
    lp = loops[0]
    if ast.unparse(lp.iter) != "message.__dict__.items()" or ast.unparse(lp.target) != "(key, value)":
        raise TranslateError(f"{fn.name}: loop header not understood: {ast.unparse(lp.target)} in {ast.unparse(lp.iter)}")
    shape: list[str] = []
    body = list(lp.body)
    if not body:
        raise TranslateError("empty serializer loop")

    def rhs_token(st: ast.stmt) -> str:
        if not (isinstance(st, ast.Assign) and ast.unparse(st.targets[0]) == "data[key]"):
            raise TranslateError(f"{fn.name}: assignment not understood: {ast.unparse(st)}")
        r = ast.unparse(st.value)
        if r == "value":
            return "id"
        if r == "value.isoformat()":
            return "isoformat"
        if r in ("value.name", "value.value"):
            return r.split(".")[1]
        raise TranslateError(f"{fn.name}: value expression not understood: {r}")

    st0 = body[0]
    if (isinstance(st0, ast.If) and ast.unparse(st0.test) == "key.startswith('_')" and len(st0.body) == 1
            and isinstance(st0.body[0], ast.Continue) and not st0.orelse):
        shape.append("skip:_")
        body = body[1:]
    if len(body) != 1 or not isinstance(body[0], ast.If):
        raise TranslateError(f"{fn.name}: serializer loop body not understood")
    node: ast.stmt | None = body[0]
    while isinstance(node, ast.If):
        t = ast.unparse(node.test)
        m = re.match(r"isinstance\(value, (\w+)\)$", t)
        if not m or len(node.body) != 1:
            raise TranslateError(f"{fn.name}: branch not understood: {t}")
        shape.append(f"{m.group(1)}:{rhs_token(node.body[0])}")
        if len(node.orelse) != 1:
            raise TranslateError(f"{fn.name}: missing else branch")
        node = node.orelse[0]
    shape.append(f"else:{rhs_token(node)}")
    return shape


def _count_reads(field: str, skip_files: set[str]) -> int:
    """number of `<expr>.<field>` reads (Load context) in src/stabilize outside the defining dataclass files"""
    total = 0
    root = repo_root() / "src" / "stabilize"
    for f in sorted(root.rglob("*.py")):
        rel = str(f.relative_to(root))
        if rel in skip_files:
            continue
        text = f.read_text()
        if field not in text:
            continue
        try:
            tree = ast.parse(text)
        except SyntaxError as e:  # pragma: no cover
            raise TranslateError(f"{rel}: {e}")
        for n in ast.walk(tree):
            if isinstance(n, ast.Attribute) and n.attr == field and isinstance(n.ctx, ast.Load):
                total += 1
            if isinstance(n, ast.Call) and getattr(n.func, "id", None) == "getattr" and len(n.args) >= 2 \
                    and isinstance(n.args[1], ast.Constant) and n.args[1].value == field:
                total += 1
    return total


# ----------------------------------------------------------------------------------------------------
# extraction
# ----------------------------------------------------------------------------------------------------

def extract() -> dict:
    x: dict = {}
    stage_cls = _find_class(parse("models/stage/stage.py"), "StageExecution")
    task_cls = _find_class(parse("models/task.py"), "TaskExecution")
    wf_cls = _find_class(parse("models/workflow.py"), "Workflow")
    x["stageFields"] = [n for n, _ in _dataclass_fields(stage_cls)]
    x["taskFields"] = [n for n, _ in _dataclass_fields(task_cls)]
    x["workflowFields"] = [n for n, _ in _dataclass_fields(wf_cls)]
    post_init = ast.unparse(_find_func(stage_cls, "__post_init__"))
    x["reducersViaContext"] = ("self.context.setdefault('_output_reducers', dict(self.output_reducers))" in post_init
                               and "self.output_reducers = dict(self.context['_output_reducers'])" in post_init)

    helpers = parse("persistence/sqlite/helpers.py")
    ins = _sql_strings(_find_func(helpers, "insert_stage"))
    if len(ins) != 1:
        raise TranslateError("insert_stage: expected exactly one SQL statement")
    t, cols, vals = _parse_insert(ins[0][0])
    if t != "stage_executions":
        raise TranslateError("insert_stage inserts into " + t)
    x["stageInsertCols"], x["stageInsertVals"] = cols, vals
    x["stageInsertParams"] = _dict_keys(ins[0][1].args[1])

    ups = _sql_strings(_find_func(helpers, "upsert_task"))
    if len(ups) != 2:
        raise TranslateError("upsert_task: expected UPDATE + INSERT")
    t, sets, wh = _parse_update(ups[0][0])
    if t != "task_executions":
        raise TranslateError("upsert_task updates " + t)
    x["taskUpdateSet"], x["taskUpdateWhere"] = sets, wh
    x["taskUpdateParams"] = _dict_keys(ups[0][1].args[1])
    t, cols, vals = _parse_insert(ups[1][0])
    if t != "task_executions":
        raise TranslateError("upsert_task inserts into " + t)
    x["taskInsertCols"], x["taskInsertVals"] = cols, vals
    x["taskInsertParams"] = _dict_keys(ups[1][1].args[1])

    crud = parse("persistence/sqlite/store/workflow_crud.py")
    st = _sql_strings(_find_func(crud, "store"))
    if len(st) != 1:
        raise TranslateError("SqliteWorkflowCrudMixin.store: expected one INSERT")
    t, cols, vals = _parse_insert(st[0][0])
    if t != "pipeline_executions" or ast.unparse(st[0][1].args[1]) != "execution_to_dict(execution)":
        raise TranslateError("workflow store(): statement / parameters not understood")
    x["workflowInsertCols"], x["workflowInsertVals"] = cols, vals
    conv = parse("persistence/sqlite/converters.py")
    e2d = _find_func(conv, "execution_to_dict")
    rets = [n for n in ast.walk(e2d) if isinstance(n, ast.Return)]
    if len(rets) != 1:
        raise TranslateError("execution_to_dict: expected one return")
    x["workflowInsertParams"] = _dict_keys(rets[0].value)

    x["stageRowKeys"], x["stageCtorKwargs"] = _row_reader(_find_func(conv, "row_to_stage"), "StageExecution")
    x["taskRowKeys"], x["taskCtorKwargs"] = _row_reader(_find_func(conv, "row_to_task"), "TaskExecution")
    x["workflowRowKeys"], x["workflowCtorKwargs"] = _row_reader(_find_func(conv, "row_to_execution"), "Workflow")
    r2e = ast.unparse(_find_func(conv, "row_to_execution"))
    x["originEmptyReadsUnknown"] = "origin=row['origin'] or 'unknown'" in r2e

    # the four stage UPDATEs
    updates = []
    for rel, where in (("persistence/sqlite/store/stage_ops.py", "store"), ("persistence/sqlite/transaction.py", "txn")):
        fn = _find_func(parse(rel), "store_stage")
        found = [(s, c) for s, c in _sql_strings(fn) if _norm(s).startswith("UPDATE")]
        if len(found) != 2:
            raise TranslateError(f"{rel}: store_stage: expected two UPDATE statements, found {len(found)}")
        for s, c in found:
            t, sets, wh = _parse_update(s)
            if t != "stage_executions":
                raise TranslateError(f"{rel}: store_stage updates {t}")
            updates.append({"where": where, "set": sets, "cond": wh, "params": _dict_keys(c.args[1])})
    x["stageUpdates"] = updates

    # ORDER BY of every task SELECT
    orders = []
    for rel in ("persistence/sqlite/queries.py", "persistence/sqlite/store/workflow_crud.py", "persistence/sqlite/store/stage_ops.py"):
        for s, _c in _sql_strings(parse(rel)):
            n = _norm(s)
            if re.search(r"FROM task_executions\b", n) and n.startswith("SELECT"):
                m = re.search(r"ORDER BY (.*)$", n)
                orders.append((rel, m.group(1).strip() if m else ""))
        # f-strings (queries.py builds its IN (...) list with one)
        for node in ast.walk(parse(rel)):
            if isinstance(node, ast.JoinedStr):
                text = _norm("".join(v.value if isinstance(v, ast.Constant) else "?" for v in node.values))
                if text.startswith("SELECT") and re.search(r"FROM task_executions\b", text):
                    m = re.search(r"ORDER BY (.*)$", text)
                    orders.append((rel, m.group(1).strip() if m else ""))
    if len(orders) < 3:
        raise TranslateError(f"expected at least three task SELECTs, found {len(orders)}")
    x["taskSelectOrder"] = orders

    # messages
    msgs = parse("queue/messages.py")
    classes = {n.name: n for n in msgs.body if isinstance(n, ast.ClassDef)}

    def all_fields(name: str) -> list[tuple[str, str]]:
        c = classes.get(name)
        if c is None:
            raise TranslateError(f"message base class {name} not found in messages.py")
        out: list[tuple[str, str]] = []
        for b in c.bases:
            if isinstance(b, ast.Name) and b.id in classes:
                out += all_fields(b.id)
            elif isinstance(b, ast.Name) and b.id == "object":
                pass
            else:
                raise TranslateError(f"{name}: base class not understood: {ast.unparse(b)}")
        for n, a in _dataclass_fields(c, public_only=False):
            out = [(m, k) for m, k in out if m != n] + [(n, _kind(a))]
        return out

    registry = None
    for n in msgs.body:
        tgt = n.target if isinstance(n, ast.AnnAssign) else (n.targets[0] if isinstance(n, ast.Assign) else None)
        if isinstance(tgt, ast.Name) and tgt.id == "MESSAGE_TYPES":
            if not isinstance(n.value, ast.Dict):
                raise TranslateError("MESSAGE_TYPES is not a dict literal")
            registry = []
            for k, v in zip(n.value.keys, n.value.values):
                if not (isinstance(k, ast.Constant) and isinstance(v, ast.Name)):
                    raise TranslateError("MESSAGE_TYPES entry not understood")
                if k.value != v.id:
                    raise TranslateError(f"MESSAGE_TYPES maps {k.value!r} to class {v.id} (get_message_type_name uses the class name)")
                registry.append((k.value, all_fields(v.id)))
    if not registry:
        raise TranslateError("MESSAGE_TYPES not found")
    x["messageTypes"] = registry
    gname = ast.unparse(_find_func(msgs, "get_message_type_name").body[-1])
    x["typeNameIsClassName"] = gname == "return message.__class__.__name__"
    cmfd = ast.unparse(_find_func(msgs, "create_message_from_dict"))
    x["createIsKwargsCall"] = "message_class = MESSAGE_TYPES[type_name]" in cmfd and "return message_class(**data)" in cmfd

    ser = parse("queue/sqlite/serialization.py")
    x["queueSerializerShape"] = _serializer_shape(_find_func(ser, "serialize_message"))
    x["txnSerializerShape"] = _serializer_shape(_find_func(parse("persistence/sqlite/transaction.py"), "push_message"))

    des = _find_func(ser, "deserialize_message")
    conversions, pops = [], []
    for n in des.body:
        if isinstance(n, ast.If):
            t = ast.unparse(n.test)
            if len(n.body) != 1 or not isinstance(n.body[0], ast.Assign):
                raise TranslateError(f"deserialize_message: conversion not understood: {t}")
            a = ast.unparse(n.body[0])
            m = re.match(r"data\['(\w+)'\] = (\w+)\[data\['(\w+)'\]\]$", a)
            if not m or m.group(1) != m.group(3):
                raise TranslateError(f"deserialize_message: conversion not understood: {a}")
            key, enum = m.group(1), m.group(2)
            if t == f"'{key}' in data and isinstance(data['{key}'], str)":
                guard = "isStr"
            elif t == f"'{key}' in data and data['{key}']":
                guard = "truthy"
            else:
                raise TranslateError(f"deserialize_message: guard not understood: {t}")
            conversions.append((key, enum, guard))
        elif isinstance(n, ast.Expr) and isinstance(n.value, ast.Call) and ast.unparse(n.value.func) == "data.pop":
            if not (len(n.value.args) == 2 and isinstance(n.value.args[0], ast.Constant)):
                raise TranslateError("deserialize_message: pop not understood")
            pops.append(n.value.args[0].value)
    if ast.unparse(des.body[-1]) != "return create_message_from_dict(type_name, data)":
        raise TranslateError("deserialize_message: tail call not understood")
    x["conversions"], x["pops"] = conversions, pops

    # enums stored by value / sent by name
    enums_mod = parse("models/stage/enums.py")
    enums = {}
    for cname in ("SyntheticStageOwner", "JoinType", "SplitType"):
        c = _find_class(enums_mod, cname)
        members = []
        for st_ in c.body:
            if isinstance(st_, ast.Assign) and isinstance(st_.targets[0], ast.Name) and isinstance(st_.value, ast.Constant) \
                    and isinstance(st_.value.value, str):
                members.append((st_.targets[0].id, st_.value.value))
        if not members:
            raise TranslateError(f"enum {cname}: no members found")
        enums[cname] = members
    x["enums"] = enums

    # fields of the dataclasses that have no column: how often does src/ read them?
    unread = {}
    for f in ("cleanup_on_failure", "finalizer_names"):
        unread[f] = _count_reads(f, {"models/stage/stage.py"})
    unread["config_version"] = _count_reads("config_version", {"models/workflow.py"})
    x["unpersistedReads"] = sorted(unread.items())
    return x


# ----------------------------------------------------------------------------------------------------
# rendering
# ----------------------------------------------------------------------------------------------------

def _strs(xs) -> str:
    return lean_list([lean_str(s) for s in xs])


def _pairs(xs) -> str:
    return lean_list([f"({lean_str(a)}, {lean_str(b)})" for a, b in xs])


def render(x: dict) -> str:
    L = [
        "/- GENERATED by translate/schema.py from src/stabilize/{models,persistence/sqlite,queue} — do not edit. -/",
        "namespace Stab.Gen.Schema",
        "",
    ]

    def d(name: str, ty: str, val: str, doc: str) -> None:
        L.extend([f"/-- {doc} -/", f"def {name} : {ty} :=", f"  {val}", ""])

    d("stageFields", "List String", _strs(x["stageFields"]), "public dataclass fields of `StageExecution`")
    d("taskFields", "List String", _strs(x["taskFields"]), "public dataclass fields of `TaskExecution`")
    d("workflowFields", "List String", _strs(x["workflowFields"]), "public dataclass fields of `Workflow`")
    d("reducersViaContext", "Bool", lean_bool(x["reducersViaContext"]),
      "`StageExecution.__post_init__` mirrors `output_reducers` into `context['_output_reducers']` and back")
    for p, doc in (("stage", "insert_stage"), ("task", "upsert_task (insert branch)"), ("workflow", "SqliteWorkflowCrudMixin.store")):
        d(f"{p}InsertCols", "List String", _strs(x[f"{p}InsertCols"]), f"{doc}: column list")
        d(f"{p}InsertVals", "List String", _strs(x[f"{p}InsertVals"]), f"{doc}: VALUES list (same positions)")
        d(f"{p}InsertParams", "List String", _strs(x[f"{p}InsertParams"]), f"{doc}: keys of the parameter dict")
    d("taskUpdateSet", "List (String × String)", _pairs(x["taskUpdateSet"]), "upsert_task (update branch): SET column = expression")
    d("taskUpdateWhere", "List (String × String)", _pairs(x["taskUpdateWhere"]), "upsert_task (update branch): WHERE")
    d("taskUpdateParams", "List String", _strs(x["taskUpdateParams"]), "upsert_task (update branch): keys of the parameter dict")
    for p, doc in (("stage", "row_to_stage"), ("task", "row_to_task"), ("workflow", "row_to_execution")):
        d(f"{p}RowKeys", "List String", _strs(x[f"{p}RowKeys"]), f"{doc}: row keys read")
        d(f"{p}CtorKwargs", "List String", _strs(x[f"{p}CtorKwargs"]), f"{doc}: constructor keywords passed")
    d("originEmptyReadsUnknown", "Bool", lean_bool(x["originEmptyReadsUnknown"]), "`origin=row['origin'] or 'unknown'`")
    ups = []
    for u in x["stageUpdates"]:
        ups.append(f"({lean_str(u['where'])}, {_pairs(u['set'])}, {_pairs(u['cond'])}, {_strs(u['params'])})")
    d("stageUpdates", "List (String × List (String × String) × List (String × String) × List String)",
      "[" + ",\n   ".join(ups) + "]", "the stage UPDATE statements: (where it lives, SET, WHERE, parameter keys)")
    d("taskSelectOrder", "List (String × String)", _pairs(x["taskSelectOrder"]), "every SELECT … FROM task_executions: (file, ORDER BY clause)")
    mt = []
    for name, fields in x["messageTypes"]:
        mt.append(f"({lean_str(name)}, {_pairs(fields)})")
    d("messageTypes", "List (String × List (String × String))", "[" + ",\n   ".join(mt) + "]",
      "MESSAGE_TYPES: type name -> dataclass fields incl. inherited, in `__dict__` order, with kind")
    d("typeNameIsClassName", "Bool", lean_bool(x["typeNameIsClassName"]), "get_message_type_name returns the class name")
    d("createIsKwargsCall", "Bool", lean_bool(x["createIsKwargsCall"]), "create_message_from_dict is `MESSAGE_TYPES[type_name](**data)`")
    d("queueSerializerShape", "List String", _strs(x["queueSerializerShape"]), "serialize_message: the loop over `__dict__`")
    d("txnSerializerShape", "List String", _strs(x["txnSerializerShape"]), "AtomicTransaction.push_message: the loop over `__dict__`")
    d("conversions", "List (String × String × String)",
      lean_list([f"({lean_str(a)}, {lean_str(b)}, {lean_str(c)})" for a, b, c in x["conversions"]]),
      "deserialize_message: (key, enum looked up by NAME, guard)")
    d("pops", "List String", _strs(x["pops"]), "deserialize_message: popped metadata keys")
    for cname, lname in (("SyntheticStageOwner", "syntheticStageOwner"), ("JoinType", "joinType"), ("SplitType", "splitType")):
        d(lname, "List (String × String)", _pairs(x["enums"][cname]), f"enum {cname}: (member name, value)")
    d("unpersistedReads", "List (String × Nat)", lean_list([f"({lean_str(a)}, {b})" for a, b in x["unpersistedReads"]]),
      "dataclass fields without a column: number of read sites in src/stabilize outside the defining file")
    L += ["end Stab.Gen.Schema", ""]
    return "\n".join(L)


def run() -> dict:
    x = extract()
    changed, digest = write_if_changed("Schema", render(x))
    return {"file": "Stab/Gen/Schema.lean", "changed": changed, "sha256": digest,
            "extracted": {"stageFields": len(x["stageFields"]), "stageInsertCols": len(x["stageInsertCols"]),
                          "stageUpdates": [[c for c, _ in u["set"]] for u in x["stageUpdates"]],
                          "messageTypes": len(x["messageTypes"]), "queueSerializerShape": x["queueSerializerShape"],
                          "txnSerializerShape": x["txnSerializerShape"], "conversions": x["conversions"], "pops": x["pops"],
                          "taskSelectOrder": x["taskSelectOrder"], "unpersistedReads": x["unpersistedReads"]}}
