"""Run every translator (each translate/<name>.py with a run() function); called at the start of every check."""
from __future__ import annotations

import importlib
from pathlib import Path

SKIP = {"__init__", "common", "run"}


def run_all() -> dict:
    out = {}
    for f in sorted(Path(__file__).parent.glob("*.py")):
        n = f.stem
        if n in SKIP:
            continue
        m = importlib.import_module(f"translate.{n}")
        importlib.reload(m)
        if hasattr(m, "run"):
            out[n] = m.run()
    return out
