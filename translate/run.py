"""Run every translator; called at the start of every check."""
from __future__ import annotations

import importlib

NAMES = ["status"]


def run_all() -> dict:
    out = {}
    for n in NAMES:
        m = importlib.import_module(f"translate.{n}")
        importlib.reload(m)
        out[n] = m.run()
    return out
