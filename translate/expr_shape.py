"""expressions.py (+ its two callers) -> Stab/Gen/ExprShape.lean.

Extracted, all by pure `ast` reading:
  * dispatch        the ast node classes `_eval_node` tests with `isinstance(node, ast.X)`, in source order,
                    and whether the function ends in `raise ExpressionError(...)`
  * operator tables the keys of `_SAFE_OPERATORS`, `_SAFE_BOOL_OPS`, `_SAFE_UNARY_OPS`
  * guards          every `try/except` of `evaluate_expression` and of each dispatch branch:
                    (where, exception class caught, what the handler does)
  * depth bound     `_MAX_DEPTH`, whether `_eval_node` starts with the `depth > _MAX_DEPTH` check and whether
                    every recursive call passes `depth`
  * purity facts    imported modules, every called name, method names called, non-local store targets,
                    `global`/`nonlocal`/`del` statements — Lean decides that none of them is dangerous
  * callers         for both callers: the exception classes of the `try` around `evaluate_expression`
                    and what the handler does
"""
from __future__ import annotations

import ast

from .common import TranslateError, lean_bool, lean_list, lean_str, parse, write_if_changed

CALLERS = [
    ("handlers/complete_stage/split_logic.py", "_apply_split_logic"),
    ("handlers/start_stage/conditions.py", "_should_skip"),
]


def _dotted(node: ast.AST) -> str:
    if isinstance(node, ast.Name):
        return node.id
    if isinstance(node, ast.Attribute):
        return _dotted(node.value) + "." + node.attr
    if isinstance(node, ast.Call):
        return _dotted(node.func) + "()"
    if isinstance(node, ast.Subscript):
        return _dotted(node.value) + "[]"
    return type(node).__name__


def _exc_names(h: ast.ExceptHandler) -> list[str]:
    if h.type is None:
        return ["BaseException"]
    if isinstance(h.type, ast.Tuple):
        return [_dotted(e) for e in h.type.elts]
    return [_dotted(h.type)]


def _handler_action(h: ast.ExceptHandler) -> str:
    """What an except clause does, as a small enum."""
    for st in ast.walk(h):
        if isinstance(st, ast.Raise):
            if st.exc is None:
                return "reraise"
            f = st.exc.func if isinstance(st.exc, ast.Call) else st.exc
            return "raise " + _dotted(f)
    for st in h.body:
        if isinstance(st, ast.Return):
            if isinstance(st.value, ast.Constant):
                return "return " + repr(st.value.value)
            return "return " + (_dotted(st.value) if st.value is not None else "None")
    calls = [_dotted(c.func) for st in h.body for c in ast.walk(st) if isinstance(c, ast.Call)]
    calls = [c for c in calls if not c.startswith("logger.")]
    return "call " + ",".join(calls) if calls else "pass"


def _tries(body: list[ast.stmt]) -> list[ast.Try]:
    out = []
    for st in body:
        for n in ast.walk(st):
            if isinstance(n, ast.Try):
                out.append(n)
    return out


def _table_keys(mod: ast.Module, name: str) -> list[str]:
    for node in mod.body:
        tgt = val = None
        if isinstance(node, ast.AnnAssign) and isinstance(node.target, ast.Name):
            tgt, val = node.target.id, node.value
        elif isinstance(node, ast.Assign) and isinstance(node.targets[0], ast.Name):
            tgt, val = node.targets[0].id, node.value
        if tgt == name:
            if not isinstance(val, ast.Dict):
                raise TranslateError(f"{name} is not a dict literal")
            keys = []
            for k in val.keys:
                if not (isinstance(k, ast.Attribute) and getattr(k.value, "id", None) == "ast"):
                    raise TranslateError(f"{name}: unexpected key {ast.dump(k)}")
                keys.append(k.attr)
            return keys
    raise TranslateError(f"{name} not found")


def _func(mod: ast.Module, name: str) -> ast.FunctionDef:
    for node in ast.walk(mod):
        if isinstance(node, ast.FunctionDef) and node.name == name:
            return node
    raise TranslateError(f"function {name} not found")


def _isinstance_class(test: ast.AST) -> str | None:
    """`isinstance(node, ast.X)` -> 'X'"""
    if (isinstance(test, ast.Call) and getattr(test.func, "id", None) == "isinstance" and len(test.args) == 2
            and getattr(test.args[0], "id", None) == "node"):
        c = test.args[1]
        if isinstance(c, ast.Attribute) and getattr(c.value, "id", None) == "ast":
            return c.attr
        return _dotted(c)
    return None


def extract() -> dict:
    mod = parse("expressions.py")
    ev = _func(mod, "_eval_node")
    top = _func(mod, "evaluate_expression")

    # ---- dispatch ---------------------------------------------------------------
    dispatch: list[str] = []
    guards: list[tuple[str, str, str]] = []
    depth_check = False
    body = [st for st in ev.body if not (isinstance(st, ast.Expr) and isinstance(st.value, ast.Constant))]  # drop docstring
    for i, st in enumerate(body):
        if isinstance(st, ast.If):
            cls = _isinstance_class(st.test)
            if cls is not None:
                if st.orelse:
                    raise TranslateError(f"_eval_node: branch {cls} has an else")
                dispatch.append(cls)
                for t in _tries(st.body):
                    for h in t.handlers:
                        for en in _exc_names(h):
                            guards.append((cls, en, _handler_action(h)))
                continue
            # the depth check: `if depth > _MAX_DEPTH: raise ExpressionError(...)` before any dispatch
            t = st.test
            if (not dispatch and isinstance(t, ast.Compare) and getattr(t.left, "id", None) == "depth"
                    and len(t.ops) == 1 and isinstance(t.ops[0], ast.Gt)
                    and getattr(t.comparators[0], "id", None) == "_MAX_DEPTH"
                    and len(st.body) == 1 and isinstance(st.body[0], ast.Raise)
                    and _dotted(st.body[0].exc.func if isinstance(st.body[0].exc, ast.Call) else st.body[0].exc) == "ExpressionError"):
                depth_check = True
                continue
            raise TranslateError(f"_eval_node: unexpected top-level if: {ast.unparse(st.test)}")
    last = body[-1]
    ends_in_raise = (isinstance(last, ast.Raise) and isinstance(last.exc, ast.Call)
                     and _dotted(last.exc.func) == "ExpressionError")
    if not dispatch:
        raise TranslateError("_eval_node: no isinstance dispatch found")

    # recursive calls pass `depth` (3 positional args / depth keyword)
    rec_calls = [c for c in ast.walk(ev) if isinstance(c, ast.Call) and getattr(c.func, "id", None) == "_eval_node"]
    rec_pass_depth = bool(rec_calls) and all(
        (len(c.args) >= 3 and (_dotted(c.args[2]) == "depth" or ast.unparse(c.args[2]) == "depth + 1"))
        or any(k.arg == "depth" for k in c.keywords) for c in rec_calls)
    # children must be evaluated one level deeper: `depth += 1` right after the check, or `depth + 1` at the calls
    incr = any(isinstance(st, ast.AugAssign) and getattr(st.target, "id", None) == "depth" and isinstance(st.op, ast.Add)
               and isinstance(st.value, ast.Constant) and st.value.value == 1 for st in body[:3])
    incr = incr or (bool(rec_calls) and all(len(c.args) >= 3 and ast.unparse(c.args[2]) == "depth + 1" for c in rec_calls))
    max_depth = None
    for node in mod.body:
        if isinstance(node, ast.Assign) and getattr(node.targets[0], "id", None) == "_MAX_DEPTH":
            if isinstance(node.value, ast.Constant) and isinstance(node.value.value, int):
                max_depth = node.value.value
        if isinstance(node, ast.AnnAssign) and getattr(node.target, "id", None) == "_MAX_DEPTH":
            if isinstance(node.value, ast.Constant) and isinstance(node.value.value, int):
                max_depth = node.value.value

    # ---- guards of evaluate_expression ---------------------------------------------
    for t in _tries(top.body):
        what = "parse" if any(isinstance(c, ast.Call) and _dotted(c.func) == "ast.parse" for s in t.body for c in ast.walk(s)) \
            else "eval" if any(isinstance(c, ast.Call) and _dotted(c.func) == "_eval_node" for s in t.body for c in ast.walk(s)) \
            else "other"
        for h in t.handlers:
            for en in _exc_names(h):
                guards.append((what, en, _handler_action(h)))

    # ---- purity facts ------------------------------------------------------------------
    imports: list[str] = []
    for node in ast.walk(mod):
        if isinstance(node, ast.Import):
            imports += [a.name for a in node.names]
        if isinstance(node, ast.ImportFrom):
            imports.append(("." * node.level) + (node.module or ""))
    calls = sorted({_dotted(c.func) for c in ast.walk(mod) if isinstance(c, ast.Call)})
    methods = sorted({c.func.attr for c in ast.walk(mod) if isinstance(c, ast.Call) and isinstance(c.func, ast.Attribute)})
    bad_stores: list[str] = []
    for fn in (ev, top):
        for n in ast.walk(fn):
            if isinstance(n, (ast.Attribute, ast.Subscript)) and isinstance(n.ctx, (ast.Store, ast.Del)):
                bad_stores.append(f"{fn.name}:{ast.unparse(n)}")
            if isinstance(n, (ast.Global, ast.Nonlocal, ast.Delete)):
                bad_stores.append(f"{fn.name}:{type(n).__name__}")
    names_used = sorted({n.id for n in ast.walk(mod) if isinstance(n, ast.Name)})

    # ---- callers ------------------------------------------------------------------------
    callers = []
    for rel, fname in CALLERS:
        cm = parse(rel)
        fn = _func(cm, fname)
        imported = any(isinstance(n, ast.ImportFrom) and n.module == "stabilize.expressions"
                       and {"ExpressionError", "evaluate_expression"} <= {a.name for a in n.names if a.asname is None}
                       for n in cm.body)
        found = []
        calls_total = sum(1 for c in ast.walk(fn) if isinstance(c, ast.Call) and _dotted(c.func) == "evaluate_expression")
        calls_guarded = 0
        for t in _tries(fn.body):
            n_here = sum(1 for s in t.body for c in ast.walk(s) if isinstance(c, ast.Call) and _dotted(c.func) == "evaluate_expression")
            if n_here:
                calls_guarded += n_here
                for h in t.handlers:
                    found.append((_exc_names(h), _handler_action(h)))
        if calls_total == 0:
            raise TranslateError(f"{rel}:{fname} no longer calls evaluate_expression")
        callers.append({"file": rel, "func": fname, "imports_ok": imported, "all_calls_guarded": calls_guarded == calls_total,
                        "handlers": found})

    return {
        "dispatch": dispatch, "ends_in_raise": ends_in_raise,
        "cmp_ops": _table_keys(mod, "_SAFE_OPERATORS"), "bool_ops": _table_keys(mod, "_SAFE_BOOL_OPS"),
        "unary_ops": _table_keys(mod, "_SAFE_UNARY_OPS"),
        "guards": guards, "max_depth": max_depth, "depth_check": depth_check and incr, "rec_pass_depth": rec_pass_depth,
        "imports": sorted(set(imports)), "calls": calls, "methods": methods, "bad_stores": bad_stores,
        "names_used": names_used, "callers": callers,
    }


def render(x: dict) -> str:
    def strs(xs):
        return lean_list([lean_str(s) for s in xs])

    lines = [
        "/- GENERATED by translate/expr_shape.py from src/stabilize/expressions.py and its two callers — do not edit. -/",
        "namespace Stab.Gen.ExprShape",
        "",
        "/-- ast classes `_eval_node` dispatches on (`isinstance(node, ast.X)`), in source order -/",
        f"def dispatch : List String := {strs(x['dispatch'])}",
        "",
        "/-- `_eval_node` ends in `raise ExpressionError(...)` for every other node class -/",
        f"def endsInRaise : Bool := {lean_bool(x['ends_in_raise'])}",
        "",
        f"def cmpOps : List String := {strs(x['cmp_ops'])}",
        f"def boolOps : List String := {strs(x['bool_ops'])}",
        f"def unaryOps : List String := {strs(x['unary_ops'])}",
        "",
        "/-- every except clause: (dispatch branch | `parse` | `eval`, class caught, action of the handler) -/",
        "def guards : List (String × String × String) :=",
        "  " + lean_list([f"({lean_str(a)}, {lean_str(b)}, {lean_str(c)})" for a, b, c in x["guards"]]),
        "",
        "/-- `_MAX_DEPTH` (none when the constant does not exist) -/",
        f"def maxDepth : Option Nat := {'some ' + str(x['max_depth']) if x['max_depth'] is not None else 'none'}",
        "/-- `_eval_node` starts with `if depth > _MAX_DEPTH: raise ExpressionError` and evaluates children one level deeper -/",
        f"def depthCheck : Bool := {lean_bool(x['depth_check'])}",
        "/-- every recursive call of `_eval_node` passes `depth` -/",
        f"def recursivePassDepth : Bool := {lean_bool(x['rec_pass_depth'])}",
        "",
        "/-- modules imported by expressions.py -/",
        f"def imports : List String := {strs(x['imports'])}",
        "/-- every callee in expressions.py (dotted) -/",
        f"def calls : List String := {strs(x['calls'])}",
        "/-- method names called on some object -/",
        f"def methods : List String := {strs(x['methods'])}",
        "/-- every identifier that occurs in expressions.py -/",
        f"def namesUsed : List String := {strs(x['names_used'])}",
        "/-- attribute / subscript stores, `del`, `global`, `nonlocal` inside the two functions -/",
        f"def nonLocalStores : List String := {strs(x['bad_stores'])}",
        "",
        "/-- (file, function, imports evaluate_expression+ExpressionError from stabilize.expressions, every call is inside a try,",
        "    [(classes caught, handler action)]) -/",
        "def callers : List (String × String × Bool × Bool × List (List String × String)) :=",
        "  " + lean_list([
            f"({lean_str(c['file'])}, {lean_str(c['func'])}, {lean_bool(c['imports_ok'])}, {lean_bool(c['all_calls_guarded'])}, "
            + lean_list([f"({strs(n)}, {lean_str(a)})" for n, a in c["handlers"]]) + ")" for c in x["callers"]]),
        "",
        "end Stab.Gen.ExprShape",
        "",
    ]
    return "\n".join(lines)


def run() -> dict:
    x = extract()
    changed, digest = write_if_changed("ExprShape", render(x))
    return {"file": "Stab/Gen/ExprShape.lean", "changed": changed, "sha256": digest,
            "extracted": {"dispatch": x["dispatch"], "guards": x["guards"], "max_depth": x["max_depth"],
                          "depth_check": x["depth_check"], "imports": x["imports"], "methods": x["methods"],
                          "callers": [(c["file"], c["handlers"]) for c in x["callers"]]}}
