"""events/{base,replay}.py, events/recorder/*.py, events/store/sqlite/events.py -> Stab/Gen/EventMap.lean

Extracted (pure `ast`, nothing imported):
  * EventType / EntityType members,
  * for every `record_*` function of the recorder mixins: entity kind, EventType it creates, and how
    `data["status"]` is filled (`entity` = `<entity>.status.name`, `none` = no status key),
  * the fold table of `EventReplayer._apply_{workflow,stage,task}_event`: per EventType the effect on
    `status` (`const:X` | `data:DEFAULT` | `none`) and the list of fields it assigns,
  * the dispatch of `_apply_event` (EntityType -> method),
  * which WorkflowState fields `_load_state_from_snapshot` restores,
  * the comparison operators of `rebuild_workflow_state` (snapshot guard, as_of filter) and the WHERE/ORDER
    clause of `get_events_for_workflow`.
"""
from __future__ import annotations

import ast
import re

from .common import TranslateError, lean_bool, lean_list, lean_str, parse, write_if_changed

RECORDER_FILES = ["events/recorder/workflow_events.py", "events/recorder/stage_events.py",
                  "events/recorder/task_events.py", "events/recorder/generic_events.py"]
FACTORY_KIND = {"create_workflow_event": "workflow", "create_stage_event": "stage", "create_task_event": "task"}


def _enum_members(mod: ast.Module, cls: str) -> list[tuple[str, str]]:
    for node in mod.body:
        if isinstance(node, ast.ClassDef) and node.name == cls:
            out = []
            for st in node.body:
                if isinstance(st, ast.Assign) and isinstance(st.value, ast.Constant) and isinstance(st.value.value, str):
                    out.append((st.targets[0].id, st.value.value))
            return out
    raise TranslateError(f"enum {cls} not found")


def _attr_chain(n: ast.AST) -> str:
    return ast.unparse(n)


def _recorders() -> list[tuple[str, str, str, str, list[str]]]:
    out = []
    for rel in RECORDER_FILES:
        mod = parse(rel)
        for cls in [n for n in mod.body if isinstance(n, ast.ClassDef)]:
            for fn in [n for n in cls.body if isinstance(n, ast.FunctionDef) and n.name.startswith("record_")]:
                calls = [c for c in ast.walk(fn) if isinstance(c, ast.Call)
                         and isinstance(c.func, ast.Name) and c.func.id in (*FACTORY_KIND, "Event")]
                if len(calls) != 1:
                    raise TranslateError(f"{rel}:{fn.name}: expected exactly one event construction, got {len(calls)}")
                call = calls[0]
                kw = {k.arg: k.value for k in call.keywords}
                et = kw.get("event_type")
                if not (isinstance(et, ast.Attribute) and _attr_chain(et.value) == "EventType"):
                    raise TranslateError(f"{rel}:{fn.name}: event_type is not an EventType constant")
                if call.func.id == "Event":
                    ent = kw.get("entity_type")
                    if isinstance(ent, ast.Attribute) and _attr_chain(ent.value) == "EntityType":
                        kind = ent.attr.lower()
                    else:
                        kind = "param"
                else:
                    kind = FACTORY_KIND[call.func.id]
                data = kw.get("data")
                if not isinstance(data, ast.Dict):
                    raise TranslateError(f"{rel}:{fn.name}: data is not a dict literal")
                keys = []
                status_src = "none"
                for k, v in zip(data.keys, data.values):
                    if not (isinstance(k, ast.Constant) and isinstance(k.value, str)):
                        raise TranslateError(f"{rel}:{fn.name}: non-literal data key")
                    keys.append(k.value)
                    if k.value == "status":
                        src = ast.unparse(v)
                        if re.fullmatch(r"(stage|task|workflow)\.status\.name", src):
                            status_src = "entity"
                        else:
                            raise TranslateError(f"{rel}:{fn.name}: data['status'] = {src} not understood")
                # the function must end in `return self._record(event, connection)`
                last = fn.body[-1]
                if not (isinstance(last, ast.Return) and ast.unparse(last.value) == "self._record(event, connection)"):
                    raise TranslateError(f"{rel}:{fn.name}: does not end in self._record(event, connection)")
                out.append((fn.name, kind, et.attr, status_src, keys))
    if not out:
        raise TranslateError("no recorder functions found")
    return out


def _status_effect(expr: ast.AST) -> str:
    if isinstance(expr, ast.Constant) and isinstance(expr.value, str):
        return "const:" + expr.value
    src = ast.unparse(expr)
    m = re.fullmatch(r"event\.data\.get\('status', '([A-Z_]+)'\)", src)
    if m:
        return "data:" + m.group(1)
    raise TranslateError(f"status effect {src} not understood")


def _fold_table(cls: ast.ClassDef) -> tuple[list[tuple[str, str, str, list[str]]], list[tuple[str, str]], list[str], list[str]]:
    table = []
    dispatch = []
    entry_keys = {}
    for fn in [n for n in cls.body if isinstance(n, ast.FunctionDef)]:
        if fn.name == "_apply_event":
            for node in ast.walk(fn):
                if isinstance(node, ast.If):
                    t = node.test
                    if (isinstance(t, ast.Compare) and ast.unparse(t.left) == "event.entity_type" and isinstance(t.ops[0], ast.Eq)
                            and isinstance(t.comparators[0], ast.Attribute) and len(node.body) == 1):
                        dispatch.append((t.comparators[0].attr, ast.unparse(node.body[0].value.func).replace("self.", "")))
        m = re.fullmatch(r"_apply_(workflow|stage|task)_event", fn.name)
        if not m:
            continue
        kind = m.group(1)
        # the if/elif chain on event.event_type
        chain = [n for n in fn.body if isinstance(n, ast.If) and "event.event_type" in ast.unparse(n.test)]
        if len(chain) != 1:
            raise TranslateError(f"{fn.name}: expected one if/elif chain on event.event_type")
        node = chain[0]
        while True:
            t = node.test
            if not (isinstance(t, ast.Compare) and ast.unparse(t.left) == "event.event_type" and isinstance(t.ops[0], ast.Eq)
                    and isinstance(t.comparators[0], ast.Attribute)):
                raise TranslateError(f"{fn.name}: test {ast.unparse(t)} not understood")
            et = t.comparators[0].attr
            status = "none"
            assigned = []
            for st in ast.walk(ast.Module(body=node.body, type_ignores=[])):
                tgt = None
                if isinstance(st, ast.Assign):
                    tgt = st.targets[0]
                    val = st.value
                    if isinstance(tgt, ast.Attribute) and ast.unparse(tgt.value) == "state":
                        name = tgt.attr
                    elif isinstance(tgt, ast.Subscript) and isinstance(tgt.slice, ast.Constant):
                        name = tgt.slice.value
                    else:
                        raise TranslateError(f"{fn.name}/{et}: assignment target {ast.unparse(tgt)} not understood")
                    assigned.append(name)
                    if name == "status":
                        status = _status_effect(val)
                elif isinstance(st, ast.Call) and ast.unparse(st.func) == "state.context.update":
                    assigned.append("context")
            table.append((kind, et, status, assigned))
            if len(node.orelse) == 1 and isinstance(node.orelse[0], ast.If):
                node = node.orelse[0]
            elif not node.orelse:
                break
            else:
                raise TranslateError(f"{fn.name}: else branch not understood")
        # keys of the entry created for an unseen stage/task
        for n in ast.walk(fn):
            if isinstance(n, ast.Assign) and isinstance(n.value, ast.Dict) and isinstance(n.targets[0], ast.Subscript):
                entry_keys[kind] = [k.value for k in n.value.keys]
    return table, dispatch, entry_keys.get("stage", []), entry_keys.get("task", [])


def extract() -> dict:
    base = parse("events/base.py")
    x: dict = {"event_types": _enum_members(base, "EventType"), "entity_types": _enum_members(base, "EntityType")}
    x["recorders"] = _recorders()
    rp = parse("events/replay.py")
    cls = next((n for n in rp.body if isinstance(n, ast.ClassDef) and n.name == "EventReplayer"), None)
    if cls is None:
        raise TranslateError("EventReplayer not found")
    x["fold"], x["dispatch"], x["stage_entry_keys"], x["task_entry_keys"] = _fold_table(cls)
    if len(x["dispatch"]) != 3:
        raise TranslateError(f"_apply_event dispatch not understood: {x['dispatch']}")
    # _load_state_from_snapshot: keywords given to WorkflowState(...)
    loaded = None
    guard_op = asof_op = None
    start_from_snapshot = None
    for fn in [n for n in cls.body if isinstance(n, ast.FunctionDef)]:
        if fn.name == "_load_state_from_snapshot":
            for c in ast.walk(fn):
                if isinstance(c, ast.Call) and getattr(c.func, "id", None) == "WorkflowState":
                    loaded = sorted(k.arg for k in c.keywords)
        if fn.name == "rebuild_workflow_state":
            for c in ast.walk(fn):
                if isinstance(c, ast.Compare) and len(c.ops) == 1:
                    src = (ast.unparse(c.left), ast.unparse(c.comparators[0]))
                    if src == ("snapshot.sequence", "as_of_sequence"):
                        guard_op = type(c.ops[0]).__name__
                    if src == ("e.sequence", "as_of_sequence"):
                        asof_op = type(c.ops[0]).__name__
                if isinstance(c, ast.Assign) and ast.unparse(c.targets[0]) == "start_sequence" and not isinstance(c.value, ast.Constant):
                    start_from_snapshot = ast.unparse(c.value)
    if loaded is None or guard_op is None or asof_op is None or start_from_snapshot is None:
        raise TranslateError("replay.py: snapshot loader / rebuild comparisons not found")
    x["snapshot_loaded"] = loaded
    x["guard_op"], x["asof_op"], x["start_from_snapshot"] = guard_op, asof_op, start_from_snapshot
    # SQL of get_events_for_workflow
    ev = parse("events/store/sqlite/events.py")
    sql = None
    for fn in ast.walk(ev):
        if isinstance(fn, ast.FunctionDef) and fn.name == "get_events_for_workflow":
            for c in ast.walk(fn):
                if isinstance(c, ast.Constant) and isinstance(c.value, str) and "SELECT" in c.value:
                    sql = " ".join(c.value.split())
    if sql is None:
        raise TranslateError("get_events_for_workflow SQL not found")
    x["workflow_query"] = sql
    return x


def render(x: dict) -> str:
    def sl(items):
        return lean_list([lean_str(s) for s in items])

    lines = [
        "/- GENERATED by translate/event_map.py from src/stabilize/events/{base,replay}.py, events/recorder/*.py,",
        "   events/store/sqlite/events.py — do not edit. -/",
        "namespace Stab.Gen.EventMap",
        "",
        "/-- `EventType` members (NAME, value) in declaration order -/",
        "def eventTypes : List (String × String) :=",
        "  " + lean_list([f"({lean_str(a)}, {lean_str(b)})" for a, b in x["event_types"]]),
        "",
        "/-- `EntityType` members (NAME, value) -/",
        "def entityTypes : List (String × String) :=",
        "  " + lean_list([f"({lean_str(a)}, {lean_str(b)})" for a, b in x["entity_types"]]),
        "",
        "/-- recorder functions: (function, entity kind, EventType NAME, source of data[\"status\"]: \"entity\" = `<entity>.status.name`, \"none\" = no status key) -/",
        "def recorders : List (String × String × String × String) :=",
        "  " + lean_list([f"({lean_str(f)}, {lean_str(k)}, {lean_str(e)}, {lean_str(s)})" for f, k, e, s, _ in x["recorders"]]),
        "",
        "/-- data keys written by each recorder function -/",
        "def recorderDataKeys : List (String × List String) :=",
        "  " + lean_list([f"({lean_str(f)}, {sl(keys)})" for f, _, _, _, keys in x["recorders"]]),
        "",
        "/-- fold table of `EventReplayer._apply_<kind>_event`: (kind, EventType NAME, effect on status, fields assigned in source order) -/",
        "def foldTable : List (String × String × String × List String) :=",
        "  " + lean_list([f"({lean_str(k)}, {lean_str(e)}, {lean_str(s)}, {sl(a)})" for k, e, s, a in x["fold"]]),
        "",
        "/-- `_apply_event`: EntityType NAME -> method -/",
        "def foldDispatch : List (String × String) :=",
        "  " + lean_list([f"({lean_str(a)}, {lean_str(b)})" for a, b in x["dispatch"]]),
        "",
        "/-- keys of the entry created for a stage / task the replayer has not seen yet -/",
        f"def stageEntryKeys : List String := {sl(x['stage_entry_keys'])}",
        f"def taskEntryKeys : List String := {sl(x['task_entry_keys'])}",
        "",
        "/-- `WorkflowState` fields restored by `_load_state_from_snapshot` (sorted) -/",
        f"def snapshotLoadedFields : List String := {sl(x['snapshot_loaded'])}",
        "",
        "/-- does `_load_state_from_snapshot` restore `start_time` and `end_time`? -/",
        f"def snapshotLoadsTimes : Bool := {lean_bool('start_time' in x['snapshot_loaded'] and 'end_time' in x['snapshot_loaded'])}",
        "",
        "/-- `rebuild_workflow_state`: `snapshot.sequence <op> as_of_sequence`, `e.sequence <op> as_of_sequence`, start_sequence source -/",
        f"def snapshotGuardOp : String := {lean_str(x['guard_op'])}",
        f"def asOfFilterOp : String := {lean_str(x['asof_op'])}",
        f"def startSequenceFrom : String := {lean_str(x['start_from_snapshot'])}",
        "",
        "/-- SQL of `SqliteEventStore.get_events_for_workflow` (whitespace-normalised) -/",
        f"def workflowQuery : String := {lean_str(x['workflow_query'])}",
        "",
        "end Stab.Gen.EventMap",
        "",
    ]
    return "\n".join(lines)


def run() -> dict:
    x = extract()
    changed, digest = write_if_changed("EventMap", render(x))
    return {"file": "Stab/Gen/EventMap.lean", "changed": changed, "sha256": digest,
            "extracted": {"event_types": len(x["event_types"]), "recorders": [(f, e, s) for f, _, e, s, _ in x["recorders"]],
                          "fold": [(k, e, s) for k, e, s, _ in x["fold"]], "snapshot_loaded": x["snapshot_loaded"],
                          "guard_op": x["guard_op"], "asof_op": x["asof_op"], "workflow_query": x["workflow_query"]}}
