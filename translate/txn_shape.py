"""events/txn_scope.py, events/recorder/base.py, persistence/sqlite/store/store.py -> Stab/Gen/TxnShape.lean

Shape facts the `TxnScope` model relies on (pure `ast`):
  * abort_store_transaction: does the inner-block branch (`if scope.depth > 0:`) clear `scope.pending`?
    (as shipped: no — finding F35; with commit 50ce0ff: yes); it never publishes; the outermost
    branch unbinds the scope (`_local.scope = None`);
  * commit_store_transaction: returns before publishing while `scope.depth > 0`; unbinds the scope and
    publishes `scope.pending` in order otherwise;
  * EventRecorderBase._record: inside a scope the event is queued (`scope.pending.append`), the bus is
    notified directly only in the `else` branch; the append joins `scope.connection` when the store matches;
  * SqliteWorkflowStore.transaction: begin -> yield -> conn.commit() inside the try, rollback + abort in the
    handler, commit_store_transaction after the try.
"""
from __future__ import annotations

import ast

from .common import TranslateError, lean_bool, lean_list, lean_str, parse, write_if_changed


def _fn(mod: ast.AST, name: str) -> ast.FunctionDef:
    for n in ast.walk(mod):
        if isinstance(n, ast.FunctionDef) and n.name == name:
            return n
    raise TranslateError(f"function {name} not found")


def _calls(node: ast.AST) -> list[str]:
    return [ast.unparse(c.func) for c in ast.walk(node) if isinstance(c, ast.Call)]


def _depth_guard(fn: ast.FunctionDef) -> ast.If:
    for n in fn.body:
        if isinstance(n, ast.If) and ast.unparse(n.test) == "scope.depth > 0":
            return n
    raise TranslateError(f"{fn.name}: `if scope.depth > 0:` not found")


def extract() -> dict:
    ts = parse("events/txn_scope.py")
    abort = _fn(ts, "abort_store_transaction")
    commit = _fn(ts, "commit_store_transaction")
    begin = _fn(ts, "begin_store_transaction")
    x: dict = {}
    g = _depth_guard(abort)
    inner_src = [ast.unparse(s) for s in g.body]
    x["inner_abort_clears_pending"] = any(s in ("scope.pending.clear()", "scope.pending = []", "del scope.pending[:]") for s in inner_src)
    x["inner_abort_returns"] = isinstance(g.body[-1], ast.Return)
    x["abort_never_publishes"] = not any("publish" in c for c in _calls(abort))
    x["abort_unbinds"] = any(ast.unparse(s) == "_local.scope = None" for s in abort.body)
    x["abort_decrements"] = any(ast.unparse(s) == "scope.depth -= 1" for s in abort.body)
    gc = _depth_guard(commit)
    x["inner_commit_returns_without_publishing"] = isinstance(gc.body[-1], ast.Return) and not any("publish" in c for c in _calls(gc))
    x["commit_unbinds"] = any(ast.unparse(s) == "_local.scope = None" for s in commit.body)
    x["commit_decrements"] = any(ast.unparse(s) == "scope.depth -= 1" for s in commit.body)
    loops = [n for n in ast.walk(commit) if isinstance(n, ast.For)]
    x["commit_publishes_pending_in_order"] = any(ast.unparse(l.iter) == "scope.pending" and any(c.endswith("publish") for c in _calls(l)) for l in loops)
    bsrc = [ast.unparse(s) for s in ast.walk(begin) if isinstance(s, (ast.AugAssign, ast.Assign))]
    x["begin_reentrant"] = "scope.depth += 1" in bsrc and any(s.startswith("_local.scope = TxnScope(") for s in bsrc)

    rec = _fn(parse("events/recorder/base.py"), "_record")
    queued = direct = joins = False
    for n in ast.walk(rec):
        if isinstance(n, ast.If) and ast.unparse(n.test) == "scope is not None":
            queued = any(ast.unparse(s) == "scope.pending.append(recorded)" for s in n.body) and not any("publish" in c for s in n.body for c in _calls(s))
            direct = any(c.endswith("publish") for s in n.orelse for c in _calls(s))
        if isinstance(n, ast.Assign) and ast.unparse(n) == "connection = scope.connection":
            joins = True
    pubs = [c for c in _calls(rec) if c.endswith("publish")]
    x["record_queues_in_scope"] = queued
    x["record_publishes_directly_only_outside_scope"] = direct and len(pubs) == 1
    x["record_joins_scope_connection"] = joins

    tr = _fn(parse("persistence/sqlite/store/store.py"), "transaction")
    order: list[str] = []
    for st in tr.body:
        if isinstance(st, ast.Try):
            for s in st.body:
                if isinstance(s, ast.Expr) and isinstance(s.value, ast.Yield):
                    order.append("yield")
                elif isinstance(s, ast.Expr) and isinstance(s.value, ast.Call):
                    order.append("try:" + ast.unparse(s.value.func))
            for h in st.handlers:
                hname = ast.unparse(h.type) if h.type is not None else "bare"
                for s in h.body:
                    if isinstance(s, ast.Expr) and isinstance(s.value, ast.Call):
                        order.append(f"except {hname}:" + ast.unparse(s.value.func))
                    elif isinstance(s, ast.Raise):
                        order.append(f"except {hname}:raise")
        elif isinstance(st, ast.Expr) and isinstance(st.value, ast.Call):
            order.append(ast.unparse(st.value.func))
    x["transaction_order"] = order
    return x


BOOLS = ["inner_abort_clears_pending", "inner_abort_returns", "abort_never_publishes", "abort_unbinds", "abort_decrements",
         "inner_commit_returns_without_publishing", "commit_unbinds", "commit_decrements", "commit_publishes_pending_in_order",
         "begin_reentrant", "record_queues_in_scope", "record_publishes_directly_only_outside_scope", "record_joins_scope_connection"]


def _camel(s: str) -> str:
    p = s.split("_")
    return p[0] + "".join(w.capitalize() for w in p[1:])


def render(x: dict) -> str:
    lines = [
        "/- GENERATED by translate/txn_shape.py from events/txn_scope.py, events/recorder/base.py,",
        "   persistence/sqlite/store/store.py — do not edit. -/",
        "namespace Stab.Gen.TxnShape",
        "",
    ]
    for b in BOOLS:
        lines.append(f"def {_camel(b)} : Bool := {lean_bool(x[b])}")
    lines += [
        "",
        "/-- significant statements of `SqliteWorkflowStore.transaction`, in source order -/",
        "def transactionOrder : List String :=",
        "  " + lean_list([lean_str(s) for s in x["transaction_order"]]),
        "",
        "end Stab.Gen.TxnShape",
        "",
    ]
    return "\n".join(lines)


def run() -> dict:
    x = extract()
    changed, digest = write_if_changed("TxnShape", render(x))
    return {"file": "Stab/Gen/TxnShape.lean", "changed": changed, "sha256": digest, "extracted": x}
