"""persistence/sqlite/{store/stage_ops.py, transaction.py, helpers.py} -> Stab/Gen/StoreSql.lean

Extracts, with `ast` only, the SQL text of the optimistic-locking statements:
  * the two UPDATE stage_executions statements of SqliteWorkflowStore.store_stage (with / without expected_phase),
  * the two of AtomicTransaction.store_stage,
  * the UPDATE and the INSERT of helpers.upsert_task,
and a few shape facts about the Python around them (rowcount == 0 -> ConcurrencyError, IntegrityError -> ConcurrencyError,
in-memory version bump after a successful UPDATE, commit/rollback placement).
Each UPDATE is split into its SET list [(column, expression)] and its WHERE conjuncts.

Read path (torn reads): for the functions that build the stage objects later handed to store_stage
(stage_ops.retrieve_stage, workflow_crud.retrieve, sqlite/queries.py load_tasks_for_stages / set_execution_reference /
get_{upstream,downstream,synthetic}_stages) it lists
  * every assignment to an attribute called `version` (there must be none: the version an object carries is the one
    `row_to_stage` took from the row that also supplied status / context / outputs),
  * every SELECT on stage_executions that names the `version` column (there must be none: only `SELECT *` rows),
and for converters.row_to_stage whether `version`, `status`, `context`, `outputs` of the constructed StageExecution all
come from the one `row` argument.
"""
from __future__ import annotations

import ast
import re

from .common import TranslateError, lean_bool, lean_list, lean_str, parse, write_if_changed


def _sql_strings(fn: ast.FunctionDef) -> list[tuple[int, str]]:
    """string constants passed as first argument to *.execute(...) inside fn, in source order"""
    out = []
    for node in ast.walk(fn):
        if isinstance(node, ast.Call) and isinstance(node.func, ast.Attribute) and node.func.attr == "execute" and node.args:
            a = node.args[0]
            if isinstance(a, ast.Constant) and isinstance(a.value, str):
                out.append((node.lineno, a.value))
            elif isinstance(a, ast.JoinedStr):
                raise TranslateError(f"f-string SQL at line {node.lineno}: not understood")
    return sorted(out)


def _norm(s: str) -> str:
    return re.sub(r"\s+", " ", s).strip()


def split_update(sql: str) -> dict:
    s = _norm(sql)
    m = re.match(r"^UPDATE (\w+) SET (.*) WHERE (.*)$", s, re.I)
    if not m:
        raise TranslateError(f"not an UPDATE … SET … WHERE …: {s[:80]}")
    table, setpart, wherepart = m.group(1), m.group(2), m.group(3)
    sets = []
    for item in setpart.split(","):
        if "=" not in item:
            raise TranslateError(f"SET item without '=': {item}")
        col, expr = item.split("=", 1)
        sets.append((_norm(col), _norm(expr)))
    where = [_norm(c) for c in re.split(r"\bAND\b", wherepart, flags=re.I)]
    if re.search(r"\bOR\b", wherepart, re.I):
        raise TranslateError("WHERE clause with OR: not understood")
    return {"table": table, "set": sets, "where": where}


def split_insert(sql: str) -> dict:
    s = _norm(sql)
    m = re.match(r"^INSERT INTO (\w+) \((.*?)\) VALUES \((.*)\)$", s, re.I)
    if not m:
        raise TranslateError(f"not an INSERT: {s[:80]}")
    cols = [_norm(c) for c in m.group(2).split(",")]
    vals = [_norm(c) for c in m.group(3).split(",")]
    if len(cols) != len(vals):
        raise TranslateError("INSERT column/value count mismatch")
    return {"table": m.group(1), "cols": list(zip(cols, vals))}


def _find_fn(mod: ast.Module, cls: str | None, name: str) -> ast.FunctionDef:
    for node in ast.walk(mod):
        if cls is None and isinstance(node, ast.FunctionDef) and node.name == name:
            return node
        if cls is not None and isinstance(node, ast.ClassDef) and node.name == cls:
            for st in node.body:
                if isinstance(st, ast.FunctionDef) and st.name == name:
                    return st
    raise TranslateError(f"{cls}.{name} not found")


def _rowcount_zero_raises(fn: ast.FunctionDef) -> bool:
    """`if cursor.rowcount == 0:` whose body (possibly nested) raises ConcurrencyError"""
    for node in ast.walk(fn):
        if isinstance(node, ast.If) and isinstance(node.test, ast.Compare):
            t = node.test
            if (isinstance(t.left, ast.Attribute) and t.left.attr == "rowcount" and len(t.ops) == 1 and isinstance(t.ops[0], ast.Eq)
                    and isinstance(t.comparators[0], ast.Constant) and t.comparators[0].value == 0):
                for n in ast.walk(ast.Module(body=node.body, type_ignores=[])):
                    if isinstance(n, ast.Raise) and isinstance(n.exc, ast.Call) and getattr(n.exc.func, "id", None) == "ConcurrencyError":
                        return True
    return False


def _integrity_mapped(fn: ast.FunctionDef) -> bool:
    for node in ast.walk(fn):
        if isinstance(node, ast.ExceptHandler) and node.type is not None and "IntegrityError" in ast.unparse(node.type):
            for n in ast.walk(ast.Module(body=node.body, type_ignores=[])):
                if isinstance(n, ast.Raise) and isinstance(n.exc, ast.Call) and getattr(n.exc.func, "id", None) == "ConcurrencyError":
                    return True
    return False


def _bumps_local_version(fn: ast.FunctionDef, var: str) -> bool:
    for node in ast.walk(fn):
        if isinstance(node, ast.AugAssign) and isinstance(node.op, ast.Add) and ast.unparse(node.target) == f"{var}.version":
            return True
    return False


def _calls(fn: ast.FunctionDef, attr: str) -> int:
    return sum(1 for n in ast.walk(fn) if isinstance(n, ast.Call) and isinstance(n.func, ast.Attribute) and n.func.attr == attr)


READ_PATH = [
    ("persistence/sqlite/store/stage_ops.py", ["retrieve_stage"]),
    ("persistence/sqlite/store/workflow_crud.py", ["retrieve"]),
    ("persistence/sqlite/queries.py", ["load_tasks_for_stages", "set_execution_reference", "get_upstream_stages",
                                       "get_downstream_stages", "get_synthetic_stages"]),
]


def _all_sql(fn: ast.FunctionDef) -> list[str]:
    """every SQL text passed to *.execute(...) inside fn, f-strings with their holes shown as {}"""
    out = []
    for node in ast.walk(fn):
        if isinstance(node, ast.Call) and isinstance(node.func, ast.Attribute) and node.func.attr == "execute" and node.args:
            a = node.args[0]
            if isinstance(a, ast.Constant) and isinstance(a.value, str):
                out.append((node.lineno, _norm(a.value)))
            elif isinstance(a, ast.JoinedStr):
                out.append((node.lineno, _norm("".join(v.value if isinstance(v, ast.Constant) else "{}" for v in a.values))))
            else:
                # SQL held in a variable: take the string constants assigned to that name inside fn
                name = ast.unparse(a)
                found = False
                for n in ast.walk(fn):
                    if isinstance(n, ast.Assign) and any(ast.unparse(t) == name for t in n.targets) and isinstance(n.value, ast.Constant) \
                            and isinstance(n.value.value, str):
                        out.append((node.lineno, _norm(n.value.value)))
                        found = True
                if not found:
                    raise TranslateError(f"{fn.name}: SQL expression `{name}` at line {node.lineno} not understood")
    return [s for _, s in sorted(out)]


def _version_assignments(fn: ast.FunctionDef) -> list[str]:
    out = []
    for node in ast.walk(fn):
        targets = []
        if isinstance(node, ast.Assign):
            targets = list(node.targets)
        elif isinstance(node, (ast.AugAssign, ast.AnnAssign)):
            targets = [node.target]
        elif isinstance(node, ast.Call) and getattr(node.func, "id", None) == "setattr" and len(node.args) >= 2:
            a = node.args[1]
            if not isinstance(a, ast.Constant) or a.value == "version":
                out.append(f"{fn.name}: {_norm(ast.unparse(node))}")
        elif isinstance(node, ast.Call) and isinstance(node.func, ast.Attribute) and node.func.attr in ("update", "__setattr__") \
                and "__dict__" in ast.unparse(node.func):
            out.append(f"{fn.name}: {_norm(ast.unparse(node))}")
        flat = []
        for t in targets:
            flat += list(t.elts) if isinstance(t, (ast.Tuple, ast.List)) else [t]
        for t in flat:
            if isinstance(t, ast.Attribute) and t.attr == "version":
                out.append(f"{fn.name}: {_norm(ast.unparse(node))}")
    return sorted(out)


def _read_path() -> dict:
    assigns, selects, fns = [], [], []
    for rel, names in READ_PATH:
        mod = parse(rel)
        for name in names:
            fn = None
            for node in ast.walk(mod):
                if isinstance(node, ast.FunctionDef) and node.name == name:
                    fn = node
            if fn is None:
                raise TranslateError(f"{rel}: {name} not found")
            fns.append(name)
            assigns += _version_assignments(fn)
            for sql in _all_sql(fn):
                if re.search(r"\bstage_executions\b", sql) and re.search(r"\bversion\b", sql):
                    selects.append(f"{name}: {sql}")
    cv = parse("persistence/sqlite/converters.py")
    f_row = _find_fn(cv, None, "row_to_stage")
    params = [a.arg for a in f_row.args.args]
    if len(params) != 1:
        raise TranslateError("row_to_stage: expected exactly one parameter (the row)")
    row = params[0]
    ctor = None
    for node in ast.walk(f_row):
        if isinstance(node, ast.Return) and isinstance(node.value, ast.Call) and getattr(node.value.func, "id", None) == "StageExecution":
            ctor = node.value
    if ctor is None:
        raise TranslateError("row_to_stage: `return StageExecution(...)` not found")
    kw = {k.arg: ast.unparse(k.value) for k in ctor.keywords if k.arg}
    # local names assigned once from the row (context = json.loads(row["context"] or "{}"))
    local = {}
    for node in f_row.body:
        if isinstance(node, ast.Assign) and len(node.targets) == 1 and isinstance(node.targets[0], ast.Name):
            local[node.targets[0].id] = ast.unparse(node.value)

    def from_row(expr: str, col: str) -> bool:
        expr = local.get(expr, expr)
        cols = set(re.findall(r"\b%s\[['\"](\w+)['\"]\]" % re.escape(row), expr))
        names = {n.id for n in ast.walk(ast.parse(expr, mode="eval")) if isinstance(n, ast.Name)}
        return cols == {col} and names <= {row, "json", "WorkflowStatus"}

    return {
        "functions": fns,
        "assignments": assigns,
        "selects": selects,
        "versionFromRow": from_row(kw.get("version", ""), "version") if kw.get("version") else False,
        "contentFromRow": all(kw.get(k) and from_row(kw[k], k) for k in ("status", "context", "outputs")),
    }


def extract() -> dict:
    so = parse("persistence/sqlite/store/stage_ops.py")
    tx = parse("persistence/sqlite/transaction.py")
    hp = parse("persistence/sqlite/helpers.py")
    st = parse("persistence/sqlite/store/store.py")
    f_store = None
    for node in ast.walk(so):
        if isinstance(node, ast.FunctionDef) and node.name == "store_stage":
            f_store = node
    if f_store is None:
        raise TranslateError("stage_ops.store_stage not found")
    f_txn = _find_fn(tx, "AtomicTransaction", "store_stage")
    f_up = _find_fn(hp, None, "upsert_task")
    f_ctx = None
    for node in ast.walk(st):
        if isinstance(node, ast.FunctionDef) and node.name == "transaction":
            f_ctx = node
    if f_ctx is None:
        raise TranslateError("store.transaction not found")

    def updates(fn):
        ups = [split_update(s) for _, s in _sql_strings(fn) if _norm(s).upper().startswith("UPDATE")]
        if len(ups) != 2:
            raise TranslateError(f"{fn.name}: expected 2 UPDATE statements, found {len(ups)}")
        phase = [u for u in ups if any("expected_phase" in w for w in u["where"])]
        plain = [u for u in ups if not any("expected_phase" in w for w in u["where"])]
        if len(phase) != 1 or len(plain) != 1:
            raise TranslateError(f"{fn.name}: cannot tell the expected_phase variant apart")
        return plain[0], phase[0]

    sp, spp = updates(f_store)
    tp, tpp = updates(f_txn)
    up_sql = _sql_strings(f_up)
    up_upd = [split_update(s) for _, s in up_sql if _norm(s).upper().startswith("UPDATE")]
    up_ins = [split_insert(s) for _, s in up_sql if _norm(s).upper().startswith("INSERT")]
    if len(up_upd) != 1 or len(up_ins) != 1:
        raise TranslateError("upsert_task: expected one UPDATE and one INSERT")
    ctx_src = ast.unparse(f_ctx)
    return {
        "storePlain": sp, "storePhase": spp, "txnPlain": tp, "txnPhase": tpp,
        "taskUpdate": up_upd[0], "taskInsert": up_ins[0],
        "read": _read_path(),
        "flags": {
            "storeRowcountZeroRaises": _rowcount_zero_raises(f_store),
            "txnRowcountZeroRaises": _rowcount_zero_raises(f_txn),
            "taskIntegrityErrorMapped": _integrity_mapped(f_up),
            "storeBumpsLocalVersion": _bumps_local_version(f_store, "stage"),
            "txnBumpsLocalVersion": _bumps_local_version(f_txn, "stage"),
            "taskBumpsLocalVersion": _bumps_local_version(f_up, "task"),
            "storeCommits": _calls(f_store, "commit") == 1,
            "storeRollsBackOnConflict": _calls(f_store, "rollback") >= 2,   # after a missed stage CAS and after a failed upsert_task
            "txnStoreStageCommits": _calls(f_txn, "commit") > 0,
            "txnContextRollsBackOnException": "conn.rollback()" in ctx_src and "rollback_versions()" in ctx_src,
        },
    }


def _upd(name: str, u: dict) -> list[str]:
    return [
        f"def {name} : Upd :=",
        f"  {{ table := {lean_str(u['table'])}",
        "    set := " + lean_list([f"({lean_str(c)}, {lean_str(e)})" for c, e in u["set"]]),
        "    cond := " + lean_list([lean_str(w) for w in u["where"]]) + " }",
        "",
    ]


def render(x: dict) -> str:
    lines = [
        "/- GENERATED by translate/store_sql.py from persistence/sqlite/{store/stage_ops.py, transaction.py, helpers.py} — do not edit. -/",
        "namespace Stab.Gen.StoreSql",
        "",
        "/-- an `UPDATE t SET … WHERE …` statement: SET list as (column, expression), WHERE as its AND-conjuncts -/",
        "structure Upd where",
        "  table : String",
        "  set : List (String × String)",
        "  cond : List String",
        "  deriving DecidableEq, Repr",
        "",
    ]
    lines += _upd("storePlain", x["storePlain"]) + _upd("storePhase", x["storePhase"])
    lines += _upd("txnPlain", x["txnPlain"]) + _upd("txnPhase", x["txnPhase"]) + _upd("taskUpdate", x["taskUpdate"])
    lines += [
        "/-- the INSERT of `upsert_task`: (column, value expression) -/",
        "def taskInsert : List (String × String) :=",
        "  " + lean_list([f"({lean_str(c)}, {lean_str(v)})" for c, v in x["taskInsert"]["cols"]]),
        "",
    ]
    for k, v in x["flags"].items():
        lines += [f"def {k} : Bool := {lean_bool(v)}"]
    r = x["read"]
    lines += [
        "",
        "/-- read path (" + ", ".join(r["functions"]) + "): assignments to an attribute `version` (function: statement) -/",
        "def readPathVersionAssignments : List String := " + lean_list([lean_str(a) for a in r["assignments"]]),
        "/-- read path: SELECTs on stage_executions that name the `version` column (function: SQL) -/",
        "def readPathVersionSelects : List String := " + lean_list([lean_str(a) for a in r["selects"]]),
        "/-- converters.row_to_stage: `version=` of the constructed StageExecution is `row[\"version\"]` -/",
        f"def rowToStageVersionFromRow : Bool := {lean_bool(r['versionFromRow'])}",
        "/-- converters.row_to_stage: status / context / outputs come from the same `row` -/",
        f"def rowToStageContentFromRow : Bool := {lean_bool(r['contentFromRow'])}",
    ]
    lines += ["", "end Stab.Gen.StoreSql", ""]
    return "\n".join(lines)


def run() -> dict:
    x = extract()
    changed, digest = write_if_changed("StoreSql", render(x))
    return {"file": "Stab/Gen/StoreSql.lean", "changed": changed, "sha256": digest,
            "extracted": {"storePlain.where": x["storePlain"]["where"], "storePhase.where": x["storePhase"]["where"],
                          "txnPlain.where": x["txnPlain"]["where"], "txnPhase.where": x["txnPhase"]["where"],
                          "taskUpdate.where": x["taskUpdate"]["where"],
                          "set_columns": [c for c, _ in x["storePlain"]["set"]], "flags": x["flags"], "read_path": x["read"]}}
