"""handlers/**/*.py -> Stab/Gen/EventSites.lean: every place a handler records an event, and where it sits
relative to the `with self.repository.transaction(...)` blocks.

One row per call of
  * `self.event_recorder.record_*(...)`                          (kind "direct", or "in-helper" when it is the body
                                                                  of a helper named `record_completion_event` /
                                                                  `_record_completion_event`),
  * `self._record_completion_event(...)` / `record_completion_event()`   (kind "helper-call").

Columns: module, enclosing function chain, callee, kind, position ("inside" a with-transaction block |
"before" | "after" the state-storing transaction blocks of the same function | "no-txn" | "helper" for the body of a helper), whether that
with-block also calls `<txn>.store_stage` / `<txn>.update_workflow_status`, and the status the handler has
just written, when it is a literal (`self.set_*_status(x, WorkflowStatus.K)` preceding the call, or an
`== WorkflowStatus.K` guard around it; "dynamic" otherwise).
"""
from __future__ import annotations

import ast

from .common import TranslateError, lean_bool, lean_list, lean_str, src, write_if_changed

HELPERS = {"record_completion_event", "_record_completion_event"}
STORE_CALLS = {"store_stage", "update_workflow_status"}


def _is_txn_with(node: ast.AST) -> str | None:
    """`with <x>.transaction(...) as txn:` -> 'txn' ('' when unnamed); None otherwise."""
    if not isinstance(node, ast.With):
        return None
    for item in node.items:
        c = item.context_expr
        if isinstance(c, ast.Call) and isinstance(c.func, ast.Attribute) and c.func.attr == "transaction":
            if item.optional_vars is not None and isinstance(item.optional_vars, ast.Name):
                return item.optional_vars.id
            return ""
    return None


def _with_stores(node: ast.With, var: str) -> bool:
    for c in ast.walk(node):
        if isinstance(c, ast.Call) and isinstance(c.func, ast.Attribute) and c.func.attr in STORE_CALLS:
            if isinstance(c.func.value, ast.Name) and (not var or c.func.value.id == var):
                return True
    return False


def _callee(call: ast.Call) -> tuple[str, str] | None:
    f = call.func
    if isinstance(f, ast.Attribute) and f.attr.startswith("record_") and ast.unparse(f.value) == "self.event_recorder":
        return f.attr, "direct"
    if isinstance(f, ast.Attribute) and f.attr in HELPERS and ast.unparse(f.value) == "self":
        return f.attr, "helper-call"
    if isinstance(f, ast.Name) and f.id in HELPERS:
        return f.id, "helper-call"
    return None


def _status_literal(node: ast.AST) -> str | None:
    if isinstance(node, ast.Attribute) and ast.unparse(node.value) == "WorkflowStatus":
        return node.attr
    return None


def _sites_of_module(rel: str, mod: ast.Module) -> list[dict]:
    rows: list[dict] = []
    parents: dict[ast.AST, ast.AST] = {}
    for p in ast.walk(mod):
        for ch in ast.iter_child_nodes(p):
            parents[ch] = p

    def chain(n: ast.AST) -> list[ast.AST]:
        out = []
        while n in parents:
            n = parents[n]
            out.append(n)
        return out

    for call in [n for n in ast.walk(mod) if isinstance(n, ast.Call)]:
        cal = _callee(call)
        if cal is None:
            continue
        callee, kind = cal
        anc = chain(call)
        funcs = [a for a in anc if isinstance(a, (ast.FunctionDef, ast.AsyncFunctionDef))]
        classes = [a for a in anc if isinstance(a, ast.ClassDef)]
        if not funcs:
            raise TranslateError(f"{rel}: event recorded at module level")
        fn_chain = ".".join([c.name for c in reversed(classes)] + [f.name for f in reversed(funcs)])
        if kind == "direct" and funcs[0].name in HELPERS:
            kind = "in-helper"
        # innermost enclosing with-transaction block (not crossing a function boundary)
        inside = None
        for a in anc:
            if isinstance(a, (ast.FunctionDef, ast.AsyncFunctionDef, ast.Lambda)):
                break
            v = _is_txn_with(a)
            if v is not None:
                inside = (a, v)
                break
        outer = funcs[-1]
        if inside is not None:
            position = "inside"
            stores = _with_stores(inside[0], inside[1])
        else:
            stores = False
            blocks = [w for w in ast.walk(funcs[0]) if _is_txn_with(w) is not None and _with_stores(w, _is_txn_with(w) or "")]
            if any(w.lineno > call.lineno for w in blocks):
                position = "before"
            elif any((w.end_lineno or w.lineno) < call.lineno for w in blocks):
                position = "after"
            else:
                position = "no-txn"
        # written status: guard `== WorkflowStatus.K` on an enclosing if (call in its body), else the nearest
        # preceding self.set_*_status(_, WorkflowStatus.K) in the outermost function
        written = None
        prev: ast.AST = call
        for a in anc:
            if isinstance(a, (ast.FunctionDef, ast.AsyncFunctionDef)):
                break
            if isinstance(a, ast.If) and any(prev is b or prev in ast.walk(b) for b in a.body):
                t = a.test
                if isinstance(t, ast.Compare) and len(t.ops) == 1 and isinstance(t.ops[0], ast.Eq):
                    lit = _status_literal(t.comparators[0])
                    if lit:
                        written = lit
                        break
            prev = a
        if written is None and kind == "direct":
            best = None
            for c in ast.walk(outer):
                if (isinstance(c, ast.Call) and isinstance(c.func, ast.Attribute)
                        and c.func.attr in ("set_stage_status", "set_task_status", "set_workflow_status")
                        and ast.unparse(c.func.value) == "self" and len(c.args) == 2 and c.lineno < call.lineno):
                    lit = _status_literal(c.args[1])
                    if best is None or c.lineno > best[0]:
                        best = (c.lineno, lit)
            if best is not None and best[1] is not None:
                written = best[1]
        if kind == "in-helper":
            position = "helper"
        if kind == "helper-call":
            written = None
        rows.append({"module": rel, "function": fn_chain, "callee": callee, "kind": kind, "position": position,
                     "stores": stores, "written": written or "dynamic", "line": call.lineno})
    rows.sort(key=lambda r: r["line"])
    return rows


def extract() -> dict:
    root = src("handlers")
    rows: list[dict] = []
    files = sorted(p for p in root.rglob("*.py"))
    if not files:
        raise TranslateError("no handler modules found")
    for p in files:
        rel = "handlers/" + str(p.relative_to(root))
        mod = ast.parse(p.read_text(), filename=str(p))
        rows += _sites_of_module(rel, mod)
    if not rows:
        raise TranslateError("no event recording sites found")
    return {"rows": rows, "modules": ["handlers/" + str(p.relative_to(root)) for p in files]}


def render(x: dict) -> str:
    lines = [
        "/- GENERATED by translate/event_sites.py from src/stabilize/handlers/**/*.py — do not edit. -/",
        "namespace Stab.Gen.EventSites",
        "",
        "structure Site where",
        "  module : String",
        "  function : String",
        "  callee : String",
        "  kind : String        -- direct | in-helper | helper-call",
        "  position : String    -- inside | before | after | no-txn | helper   (relative to `with …transaction(…)`)",
        "  stores : Bool        -- the enclosing with-block also calls txn.store_stage / txn.update_workflow_status",
        "  written : String     -- status literal the handler has just written, or \"dynamic\"",
        "  deriving DecidableEq, Repr",
        "",
        "/-- every event-recording call of every handler module, in source order -/",
        "def sites : List Site :=",
        "  [" + ",\n   ".join(
            "{ module := %s, function := %s, callee := %s, kind := %s, position := %s, stores := %s, written := %s }"
            % (lean_str(r["module"]), lean_str(r["function"]), lean_str(r["callee"]), lean_str(r["kind"]),
               lean_str(r["position"]), lean_bool(r["stores"]), lean_str(r["written"])) for r in x["rows"]) + "]",
        "",
        "/-- handler modules scanned -/",
        "def modules : List String :=",
        "  " + lean_list([lean_str(m) for m in x["modules"]]),
        "",
        "end Stab.Gen.EventSites",
        "",
    ]
    return "\n".join(lines)


def run() -> dict:
    x = extract()
    changed, digest = write_if_changed("EventSites", render(x))
    return {"file": "Stab/Gen/EventSites.lean", "changed": changed, "sha256": digest,
            "extracted": [(r["module"], r["function"], r["callee"], r["kind"], r["position"], r["stores"], r["written"]) for r in x["rows"]]}
