"""Shared helpers for the source -> Lean translators (pure `ast`, nothing from /repo is imported)."""
from __future__ import annotations

import ast
import hashlib
import os
from pathlib import Path

VERIF = Path(__file__).resolve().parent.parent
GEN_DIR = VERIF / "lean" / "Stab" / "Gen"


def repo_root() -> Path:
    return Path(os.environ.get("STABILIZE_REPO", "/repo"))


def src(rel: str) -> Path:
    return repo_root() / "src" / "stabilize" / rel


def parse(rel: str) -> ast.Module:
    return ast.parse(src(rel).read_text(), filename=str(src(rel)))


def lean_str(s: str) -> str:
    out = ['"']
    for ch in s:
        if ch == '"':
            out.append('\\"')
        elif ch == "\\":
            out.append("\\\\")
        elif ch == "\n":
            out.append("\\n")
        elif ch == "\t":
            out.append("\\t")
        elif ord(ch) < 32:
            out.append("\\x%02x" % ord(ch))
        else:
            out.append(ch)
    out.append('"')
    return "".join(out)


def lean_list(items: list[str]) -> str:
    return "[" + ", ".join(items) + "]"


def lean_bool(b: bool) -> str:
    return "true" if b else "false"


def write_if_changed(name: str, text: str) -> tuple[bool, str]:
    """Write Stab/Gen/<name>.lean if its content changed. Returns (changed, sha256)."""
    GEN_DIR.mkdir(parents=True, exist_ok=True)
    p = GEN_DIR / f"{name}.lean"
    digest = hashlib.sha256(text.encode()).hexdigest()
    old = p.read_text() if p.exists() else None
    if old != text:
        p.write_text(text)
        return True, digest
    return False, digest


class TranslateError(Exception):
    """The source no longer has the shape the translator understands."""
