-- root of the library: everything that `lake build` checks
import Stab.Model.Status
import Stab.Gen.Status
import Stab.Props.C06
