/-
  Line-protocol driver for the executable models: one self-contained request per input line,
  one output line per request.  The first token selects the model, the rest of the line is handed
  to that model's `drive : String → String`.  Imports `Stab.Model.*` only (no Mathlib, no Props),
  so it links as a native executable.
-/
import Stab.Model.Status
import Stab.Model.Expr
import Stab.Model.Topo
import Stab.Model.Ready
import Stab.Model.Jump
import Stab.Model.Dedup
import Stab.Model.Queue
import Stab.Model.CasRow
import Stab.Model.Retry
import Stab.Model.Merge
import Stab.Model.Codec
import Stab.Model.Replay
import Stab.Model.TxnScope
import Stab.Model.ClaimProtocol
import Stab.Model.Claims
import Stab.Model.Engine
import Stab.Model.SignalRace

def dispatch (line : String) : String :=
  let line := line.trimAscii.toString
  let tok := (line.splitOn " ").headD ""
  let rest := (line.drop (tok.length + 1)).toString
  match tok with
  | "status" => Stab.Status.drive rest
  | "expr" => Stab.Expr.drive rest
  | "topo" => Stab.Topo.drive rest
  | "ready" => Stab.Ready.drive rest
  | "jump" => Stab.Jump.drive rest
  | "dedup" => Stab.Dedup.drive rest
  | "queue" => Stab.Queue.drive rest
  | "cas" => Stab.CasRow.drive rest
  | "retry" => Stab.Retry.drive rest
  | "merge" => Stab.Merge.drive rest
  | "codec" => Stab.Codec.drive rest
  | "replay" => Stab.Replay.drive rest
  | "txnscope" => Stab.TxnScope.drive rest
  | "claim" => Stab.ClaimProtocol.drive rest
  | "claims" => Stab.Claims.drive rest
  | "engine" => Stab.Engine.drive rest
  | "sigrace" => Stab.SignalRace.drive rest
  | _ => "bad-request"

partial def loop (h : IO.FS.Stream) (out : IO.FS.Stream) : IO Unit := do
  let line ← h.getLine
  if line.isEmpty then return ()
  out.putStrLn (dispatch line)
  loop h out

def main : IO Unit := do
  let out ← IO.getStdout
  loop (← IO.getStdin) out
  out.flush
