/-
  Line-protocol driver for the executable models: one self-contained request per input line,
  one output line per request.  First token selects the model.  Imports `Stab.Model.*` only
  (no Mathlib, no Props), so it links as a native executable.
-/
import Stab.Model.Status

open Stab

def dispatch (line : String) : String :=
  let line := line.trimAscii.toString
  match line.splitOn " " with
  | "status" :: rest => Stab.Status.drive rest
  | _ => "bad-request"

partial def loop (h : IO.FS.Stream) (out : IO.FS.Stream) : IO Unit := do
  let line ← h.getLine
  if line.isEmpty then return ()
  out.putStrLn (dispatch line)
  loop h out

def main : IO Unit := do
  let out ← IO.getStdout
  loop (← IO.getStdin) out
  out.flush
