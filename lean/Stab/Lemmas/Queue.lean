/-
  Invariants of the queue model (`Stab.Queue`) and their preservation by every primitive transition.
  Used by `Stab/Props/C08.lean`.
-/
import Stab.Model.Queue

namespace Stab.Queue

/-! ### generic list facts -/

theorem count_map_filter_split {α} (v : α → Nat) (p : α → Bool) (l : List α) (t : Nat) :
    ((l.filter p).map v).count t + ((l.filter (fun x => !p x)).map v).count t = (l.map v).count t := by
  induction l with
  | nil => simp
  | cons a l ih =>
    by_cases h : p a = true <;> simp [h, List.count_cons] <;> omega

/-- removing the (unique) element with key `k r` removes exactly `v r` from the multiset of values -/
theorem count_remove_key {α} (k v : α → Nat) (l : List α)
    (h : l.Pairwise (fun a b => k a ≠ k b)) (r : α) (hr : r ∈ l) (t : Nat) :
    ((l.filter (fun x => k x != k r)).map v).count t + (if v r = t then 1 else 0) = (l.map v).count t := by
  induction l with
  | nil => simp at hr
  | cons a l ih =>
    rw [List.pairwise_cons] at h
    rcases List.mem_cons.mp hr with rfl | hr'
    · have : l.filter (fun x => k x != k r) = l := by
        apply List.filter_eq_self.mpr
        intro x hx
        have := h.1 x hx
        simp; exact fun e => this e.symm
      simp [this, List.count_cons]
    · have hne : k a ≠ k r := h.1 r hr'
      have := ih h.2 hr'
      simp [hne, List.count_cons]
      omega

theorem unique_of_pairwise {α} (k : α → Nat) : ∀ (l : List α), l.Pairwise (fun a b => k a ≠ k b) →
    ∀ a ∈ l, ∀ b ∈ l, k a = k b → a = b
  | [], _, a, ha, _, _, _ => by simp at ha
  | c :: l, h, a, ha, b, hb, e => by
    rw [List.pairwise_cons] at h
    rcases List.mem_cons.mp ha with rfl | ha' <;> rcases List.mem_cons.mp hb with rfl | hb'
    · rfl
    · exact absurd e (h.1 b hb')
    · exact absurd e.symm (h.1 a ha')
    · exact unique_of_pairwise k l h.2 a ha' b hb' e

theorem find?_mem_key {α} (l : List α) (p : α → Bool) (r : α) (h : l.find? p = some r) : r ∈ l ∧ p r = true :=
  ⟨List.mem_of_find?_eq_some h, List.find?_some h⟩

/-! ### pick -/

theorem pick_mem : ∀ (l : List Row) (r : Row), pick l = some r → r ∈ l
  | [], r, h => by simp [pick] at h
  | a :: l, r, h => by
    unfold pick at h
    split at h
    · simp at h; simp [h]
    · rename_i b hb
      have := pick_mem l b hb
      split at h <;> simp at h <;> subst h <;> simp [this]

theorem pick_none : ∀ (l : List Row), pick l = none → l = []
  | [], _ => rfl
  | a :: l, h => by
    unfold pick at h
    split at h <;> (try split at h) <;> simp at h


/-! ### the base invariant (holds after every op sequence) -/

structure Base (s : State) : Prop where
  idLt : ∀ r ∈ s.rows, r.id < s.nextId
  idNodup : s.rows.Pairwise (fun a b => a.id ≠ b.id)
  didLt : ∀ d ∈ s.dlq, d.did < s.nextDid
  didNodup : s.dlq.Pairwise (fun a b => a.did ≠ b.did)
  selLt : ∀ x ∈ s.sels, x.id < s.nextId
  leaseLt : ∀ l ∈ s.leases, l.id < s.nextId
  selVer : ∀ x ∈ s.sels, ∀ r ∈ s.rows, r.id = x.id → x.version ≤ r.version
  selAtt : ∀ x ∈ s.sels, ∀ r ∈ s.rows, r.id = x.id → r.version = x.version →
            r.attempts = x.attempts ∧ x.attempts < s.maxAttempts

theorem base_init (m : Nat) : Base (init m) := by
  constructor <;> simp [init]

theorem candidate_mem {s : State} {r : Row} (h : candidate s = some r) :
    r ∈ s.rows ∧ eligible s.maxAttempts r = true := by
  have := pick_mem _ _ h
  simpa [List.mem_filter] using this

theorem base_pushRow {s : State} (h : Base s) (m b : Nat) (d : Bool) : Base (pushRow s m b d) := by
  obtain ⟨h1, h2, h3, h4, h5, h6, h7, h8⟩ := h
  constructor <;> simp only [pushRow, List.mem_append, List.mem_singleton, List.pairwise_append] <;> grind


theorem mem_dropSels {w : Nat} {sels : List Sel} {x : Sel} : x ∈ dropSels w sels → x ∈ sels := by
  simp only [dropSels, List.mem_filter]; exact fun h => h.1

theorem base_setSel {s : State} (h : Base s) (w : Nat) : Base (setSel s w) := by
  obtain ⟨h1, h2, h3, h4, h5, h6, h7, h8⟩ := h
  have hu := unique_of_pairwise (fun r : Row => r.id) s.rows h2
  unfold setSel
  split
  · constructor <;> simp only [] <;> first | assumption | (intro x hx; have := mem_dropSels hx; grind)
  · rename_i r hr
    obtain ⟨hm, he⟩ := candidate_mem hr
    have he' : r.attempts < s.maxAttempts := by simp [eligible] at he; exact he.2
    constructor <;> simp only [List.mem_cons] <;> first | assumption | skip
    · rintro x (rfl | hx)
      · exact h1 r hm
      · exact h5 x (mem_dropSels hx)
    · rintro x (rfl | hx) r' hr' hid
      · have : r' = r := hu r' hr' r hm hid
        subst this; exact Nat.le_refl _
      · exact h7 x (mem_dropSels hx) r' hr' hid
    · rintro x (rfl | hx) r' hr' hid hv
      · have : r' = r := hu r' hr' r hm hid
        subst this; exact ⟨rfl, he'⟩
      · exact h8 x (mem_dropSels hx) r' hr' hid hv

theorem base_dropSel {s : State} (h : Base s) (w : Nat) : Base { s with sels := dropSels w s.sels } := by
  obtain ⟨h1, h2, h3, h4, h5, h6, h7, h8⟩ := h
  constructor <;> simp only [] <;> first | assumption | (intro x hx; have := mem_dropSels hx; grind)

theorem base_kill {s : State} (h : Base s) : Base (kill s) := by
  obtain ⟨h1, h2, h3, h4, h5, h6, h7, h8⟩ := h
  constructor <;> simp [kill] <;> assumption


/-- rows rewritten in place by a function that keeps ids, never lowers versions and keeps `attempts`
    whenever it keeps the version -/
theorem base_mapRows {s : State} (h : Base s) (f : Row → Row) (ls : List Lease) (c : Nat)
    (hid : ∀ r, (f r).id = r.id) (hv : ∀ r, r.version ≤ (f r).version)
    (ha : ∀ r, (f r).version = r.version → (f r).attempts = r.attempts)
    (hl : ∀ l ∈ ls, l.id < s.nextId) :
    Base { s with rows := s.rows.map f, leases := ls, clock := c } := by
  obtain ⟨h1, h2, h3, h4, h5, h6, h7, h8⟩ := h
  constructor <;> simp only [List.mem_map, List.pairwise_map] <;> first | assumption | skip
  · rintro r' ⟨r, hr, rfl⟩; rw [hid]; exact h1 r hr
  · exact h2.imp (by intro a b hab; rw [hid, hid]; exact hab)
  · rintro x hx r' ⟨r, hr, rfl⟩ hi
    rw [hid] at hi
    exact Nat.le_trans (h7 x hx r hr hi) (hv r)
  · rintro x hx r' ⟨r, hr, rfl⟩ hi hvv
    rw [hid] at hi
    have h7' := h7 x hx r hr hi
    have hvr := hv r
    have : r.version = x.version := by omega
    have h8' := h8 x hx r hr hi this
    rw [ha r (by omega)]
    exact h8'

theorem mem_dropLeases {w i : Nat} {ls : List Lease} {l : Lease} : l ∈ dropLeases w i ls → l ∈ ls := by
  simp only [dropLeases, List.mem_filter]; exact fun h => h.1

theorem base_resched {s : State} (h : Base s) (w i : Nat) (d : Bool) : Base (resched s w i d) := by
  unfold resched
  split
  · exact h
  · apply base_mapRows h
    · intro r; split <;> rfl
    · intro r; split <;> exact Nat.le_refl _
    · intro r _; split <;> rfl
    · intro l hl; exact h.leaseLt l (mem_dropLeases hl)

theorem base_reschedRaw {s : State} (h : Base s) (i : Nat) (d : Bool) : Base (reschedRaw s i d) := by
  unfold reschedRaw
  apply base_mapRows h (ls := s.leases)
  · intro r; split <;> rfl
  · intro r; split <;> exact Nat.le_refl _
  · intro r _; split <;> rfl
  · exact h.leaseLt

theorem base_extendRaw {s : State} (h : Base s) (i : Nat) : Base (extendRaw s i) := by
  unfold extendRaw
  apply base_mapRows h (ls := s.leases) (c := s.clock)
  · intro r; split <;> rfl
  · intro r; split <;> exact Nat.le_refl _
  · intro r _; split <;> rfl
  · exact h.leaseLt

theorem base_mature {s : State} (h : Base s) (i : Nat) : Base (mature s i) := by
  have := base_mapRows h (fun r => if r.id == i then { r with deliverable := true } else r) s.leases s.clock
    (by intro r; split <;> rfl) (by intro r; split <;> exact Nat.le_refl _)
    (by intro r _; split <;> rfl) h.leaseLt
  exact this

theorem base_expire {s : State} (h : Base s) (i : Nat) : Base (expire s i) := by
  unfold expire
  apply base_mapRows h (c := s.clock)
  · intro r; split <;> rfl
  · intro r; split <;> exact Nat.le_refl _
  · intro r _; split <;> rfl
  · intro l hl
    simp only [List.mem_map] at hl
    obtain ⟨l0, hl0, rfl⟩ := hl
    have := h.leaseLt l0 hl0
    split <;> simpa using this

theorem base_ackRow {s : State} (h : Base s) (w i : Nat) : Base (ackRow s w i) := by
  obtain ⟨h1, h2, h3, h4, h5, h6, h7, h8⟩ := h
  constructor <;> simp only [ackRow, List.mem_filter] <;> first | assumption | skip
  · intro r hr; exact h1 r hr.1
  · exact h2.filter _
  · intro l hl; exact h6 l (mem_dropLeases hl)
  · intro x hx r hr; exact h7 x hx r hr.1
  · intro x hx r hr; exact h8 x hx r hr.1

theorem base_moveToDlq {s : State} (h : Base s) (i : Nat) : Base (moveToDlq s i) := by
  unfold moveToDlq
  split
  · exact h
  · obtain ⟨h1, h2, h3, h4, h5, h6, h7, h8⟩ := h
    constructor <;> simp only [List.mem_filter, List.mem_append, List.mem_singleton, List.pairwise_append] <;>
      first | assumption | skip
    · intro r hr; exact h1 r hr.1
    · exact h2.filter _
    · rintro d (hd | rfl)
      · exact Nat.lt_succ_of_lt (h3 d hd)
      · exact Nat.lt_succ_self _
    · refine ⟨h4, by simp, ?_⟩
      intro a ha b hb
      subst hb
      exact Nat.ne_of_lt (h3 a ha)
    · intro x hx r hr; exact h7 x hx r hr.1
    · intro x hx r hr; exact h8 x hx r hr.1

theorem base_replay {s : State} (h : Base s) (d : Nat) : Base (replay s d) := by
  unfold replay
  split
  · exact h
  · obtain ⟨h1, h2, h3, h4, h5, h6, h7, h8⟩ := h
    constructor <;> simp only [List.mem_filter, List.mem_append, List.mem_singleton, List.pairwise_append] <;>
      first | assumption | skip
    · rintro r (hr | rfl)
      · exact Nat.lt_succ_of_lt (h1 r hr)
      · exact Nat.lt_succ_self _
    · refine ⟨h2, by simp, ?_⟩
      intro a ha b hb
      subst hb
      exact Nat.ne_of_lt (h1 a ha)
    · intro x hx; exact h3 x hx.1
    · exact h4.filter _
    · intro x hx; exact Nat.lt_succ_of_lt (h5 x hx)
    · intro l hl; exact Nat.lt_succ_of_lt (h6 l hl)
    · rintro x hx r (hr | rfl) hi
      · exact h7 x hx r hr hi
      · have := h5 x hx; simp at hi; omega
    · rintro x hx r (hr | rfl) hi hv
      · exact h8 x hx r hr hi hv
      · have := h5 x hx; simp at hi; omega

theorem matched_mem {s : State} {x : Sel} {r : Row} (h : matched s x = some r) :
    r ∈ s.rows ∧ r.id = x.id ∧ r.version = x.version := by
  have := find?_mem_key _ _ _ h
  simpa using this

theorem selOf_mem {s : State} {w : Nat} {x : Sel} (h : selOf s w = some x) : x ∈ s.sels ∧ x.w = w := by
  have := find?_mem_key _ _ _ h
  simpa using this

theorem base_claimRows {s : State} (h : Base s) (i v : Nat) : Base { s with rows := claimRows s.rows i v } := by
  have := base_mapRows h (fun r => if r.id == i && r.version == v
      then { r with lock := .held, attempts := r.attempts + 1, version := r.version + 1 } else r) s.leases s.clock
    (by intro r; split <;> rfl) (by intro r; split <;> simp)
    (by intro r; split <;> simp) h.leaseLt
  exact this

theorem base_addLease {s : State} (h : Base s) (l : Lease) (hl : l.id < s.nextId) (ts : List Tok) :
    Base { s with leases := l :: s.leases, toks := ts } := by
  obtain ⟨h1, h2, h3, h4, h5, h6, h7, h8⟩ := h
  constructor <;> simp only [List.mem_cons] <;> first | assumption | skip
  rintro l' (rfl | hl')
  · exact hl
  · exact h6 l' hl'

theorem base_claimSel {s : State} (h : Base s) (w : Nat) (c : Bool) : Base (claimSel s w c) := by
  unfold claimSel
  split
  · exact h
  · rename_i x hx
    have h0 := base_dropSel h w
    dsimp only
    split
    · exact h0
    · rename_i r hr
      obtain ⟨hm, _, _⟩ := matched_mem hr
      have h1 := base_claimRows h0 x.id x.version
      split
      · refine base_addLease (s := { ({ ({ s with sels := dropSels w s.sels } : State) with
            rows := claimRows s.rows x.id x.version } : State) with leases := dropLeases w r.id s.leases }) ?_ _ (h.idLt r hm) _
        obtain ⟨g1, g2, g3, g4, g5, g6, g7, g8⟩ := h1
        exact ⟨g1, g2, g3, g4, g5, fun l hl => g6 l (mem_dropLeases hl), g7, g8⟩
      · split
        · exact base_moveToDlq h1 r.id
        · exact h1

theorem base_applyPrim {s : State} (h : Base s) (p : Prim) : Base (applyPrim s p) := by
  cases p <;> simp only [applyPrim]
  · exact base_pushRow h _ _ _
  · exact base_setSel h _
  · exact base_dropSel h _
  · exact base_claimSel h _ _
  · exact base_ackRow h _ _
  · exact base_resched h _ _ _
  · exact base_reschedRaw h _ _
  · exact base_extendRaw h _
  · exact base_expire h _
  · exact base_mature h _
  · exact base_moveToDlq h _
  · exact base_replay h _
  · exact base_kill h

theorem base_applyPrims {s : State} (h : Base s) (ps : List Prim) : Base (applyPrims s ps) := by
  induction ps generalizing s with
  | nil => exact h
  | cons p ps ih => exact ih (base_applyPrim h p)

theorem base_next {s : State} (h : Base s) (op : Op) : Base (next s op) := base_applyPrims h _

theorem base_run {s : State} (h : Base s) (ops : List Op) : Base (run s ops) := by
  induction ops generalizing s with
  | nil => exact h
  | cons o os ih => exact ih (base_next h o)


/-! ### conservation: every pushed payload is in exactly one place -/

def expected (n t : Nat) : Nat := if t < n then 1 else 0

def Cons (s : State) : Prop := ∀ t, places s t = expected s.nextTag t

theorem cons_init (m : Nat) : Cons (init m) := by
  intro t; simp [places, queueTags, dlqTags, init, expected]

theorem map_tag_map (f : Row → Row) (hf : ∀ r, (f r).tag = r.tag) (l : List Row) :
    (l.map f).map (·.tag) = l.map (·.tag) := by
  simp [List.map_map, Function.comp_def, hf]

/-- only `rows` is rewritten, tags kept -/
theorem cons_mapRows {s s' : State} (h : Cons s) (f : Row → Row) (hf : ∀ r, (f r).tag = r.tag)
    (h1 : s'.rows = s.rows.map f) (h2 : s'.dlq = s.dlq) (h3 : s'.acked = s.acked) (h4 : s'.nextTag = s.nextTag) :
    Cons s' := by
  intro t
  have := h t
  simp only [places, queueTags, dlqTags, h1, h2, h3, h4, map_tag_map f hf] at *
  exact this

theorem cons_sameRows {s s' : State} (h : Cons s)
    (h1 : s'.rows = s.rows) (h2 : s'.dlq = s.dlq) (h3 : s'.acked = s.acked) (h4 : s'.nextTag = s.nextTag) :
    Cons s' := by
  intro t
  have := h t
  simp only [places, queueTags, dlqTags, h1, h2, h3, h4] at *
  exact this

theorem cons_pushRow {s : State} (h : Cons s) (m b : Nat) (d : Bool) : Cons (pushRow s m b d) := by
  intro t
  have := h t
  simp only [places, queueTags, dlqTags, pushRow, List.map_append, List.count_append, List.map_cons, List.map_nil,
    List.count_cons, List.count_nil] at *
  unfold expected at *
  by_cases e : s.nextTag = t
  · subst e; simp at this ⊢; omega
  · by_cases lt : t < s.nextTag
    · have h2 : t < s.nextTag + 1 := by omega
      have e' : (s.nextTag == t) = false := by simp [e]
      simp only [e', lt, h2, if_true] at *
      simpa using this
    · have h2 : ¬ t < s.nextTag + 1 := by omega
      have e' : (s.nextTag == t) = false := by simp [e]
      simp only [e', lt, h2, if_false] at *
      simpa using this

theorem cons_ackRow {s : State} (h : Cons s) (w i : Nat) : Cons (ackRow s w i) := by
  intro t
  have := h t
  have sp := count_map_filter_split (fun r : Row => r.tag) (fun r => r.id == i) s.rows t
  simp only [places, queueTags, dlqTags, ackRow, List.count_append] at *
  have e : (fun r : Row => r.id != i) = (fun r => !(r.id == i)) := by funext r; simp [bne]
  rw [e]
  omega

theorem cons_moveToDlq {s : State} (hb : Base s) (h : Cons s) (i : Nat) : Cons (moveToDlq s i) := by
  unfold moveToDlq
  split
  · exact h
  · rename_i r hr
    obtain ⟨hm, hi⟩ := find?_mem_key _ _ _ hr
    have hi' : r.id = i := by simpa using hi
    intro t
    have := h t
    have rm := count_remove_key (fun r : Row => r.id) (fun r => r.tag) s.rows hb.idNodup r hm t
    simp only [places, queueTags, dlqTags, List.map_append, List.count_append, List.map_cons, List.map_nil,
      List.count_cons, List.count_nil, hi'] at *
    simp only [beq_iff_eq] at *
    omega

theorem cons_replay {s : State} (hb : Base s) (h : Cons s) (d : Nat) : Cons (replay s d) := by
  unfold replay
  split
  · exact h
  · rename_i x hx
    obtain ⟨hm, hi⟩ := find?_mem_key _ _ _ hx
    have hi' : x.did = d := by simpa using hi
    intro t
    have := h t
    have rm := count_remove_key (fun r : DRow => r.did) (fun r => r.tag) s.dlq hb.didNodup x hm t
    simp only [places, queueTags, dlqTags, List.map_append, List.count_append, List.map_cons, List.map_nil,
      List.count_cons, List.count_nil, hi'] at *
    simp only [beq_iff_eq] at *
    omega

theorem claimRows_tag (rows : List Row) (i v : Nat) : (claimRows rows i v).map (·.tag) = rows.map (·.tag) := by
  unfold claimRows
  apply map_tag_map
  intro r; split <;> rfl

theorem cons_claimSel {s : State} (hb : Base s) (h : Cons s) (w : Nat) (c : Bool) : Cons (claimSel s w c) := by
  unfold claimSel
  split
  · exact h
  · rename_i x hx
    dsimp only
    split
    · exact cons_sameRows h rfl rfl rfl rfl
    · rename_i r hr
      have hb1 := base_claimRows (base_dropSel hb w) x.id x.version
      have h1 : Cons { ({ s with sels := dropSels w s.sels } : State) with
          rows := claimRows s.rows x.id x.version } := by
        intro t
        have := h t
        simp only [places, queueTags, dlqTags, claimRows_tag] at *
        exact this
      split
      · exact cons_sameRows h1 rfl rfl rfl rfl
      · split
        · exact cons_moveToDlq hb1 h1 r.id
        · exact h1

theorem cons_applyPrim {s : State} (hb : Base s) (h : Cons s) (p : Prim) : Cons (applyPrim s p) := by
  cases p <;> simp only [applyPrim]
  · exact cons_pushRow h _ _ _
  · unfold setSel; split <;> exact cons_sameRows h rfl rfl rfl rfl
  · exact cons_sameRows h rfl rfl rfl rfl
  · exact cons_claimSel hb h _ _
  · exact cons_ackRow h _ _
  · unfold resched; split
    · exact h
    · exact cons_mapRows h _ (by intro r; split <;> rfl) rfl rfl rfl rfl
  · exact cons_mapRows h _ (by intro r; split <;> rfl) rfl rfl rfl rfl
  · exact cons_mapRows h _ (by intro r; split <;> rfl) rfl rfl rfl rfl
  · exact cons_mapRows h _ (by intro r; split <;> rfl) rfl rfl rfl rfl
  · exact cons_mapRows h _ (by intro r; split <;> rfl) rfl rfl rfl rfl
  · exact cons_moveToDlq hb h _
  · exact cons_replay hb h _
  · exact cons_sameRows h rfl rfl rfl rfl

theorem cons_applyPrims {s : State} (hb : Base s) (h : Cons s) (ps : List Prim) : Cons (applyPrims s ps) := by
  induction ps generalizing s with
  | nil => exact h
  | cons p ps ih => exact ih (base_applyPrim hb p) (cons_applyPrim hb h p)

theorem cons_run {s : State} (hb : Base s) (h : Cons s) (ops : List Op) : Cons (run s ops) := by
  induction ops generalizing s with
  | nil => exact h
  | cons o os ih => exact ih (base_next hb o) (cons_applyPrims hb h _)


/-! ### exclusivity (holds after every op sequence that uses Messages handed out by poll_one) -/

structure Excl (s : State) : Prop where
  heldOfLive : ∀ l ∈ s.leases, l.live = true → ∀ r ∈ s.rows, r.id = l.id → r.lock = .held ∧ r.version = l.ver
  selStale : ∀ x ∈ s.sels, ∀ l ∈ s.leases, l.live = true → l.id = x.id →
              ∀ r ∈ s.rows, r.id = x.id → x.version < r.version
  oneLive : s.leases.Pairwise (fun a b => ¬ (a.live = true ∧ b.live = true ∧ a.id = b.id))
  uniqWI : s.leases.Pairwise (fun a b => ¬ (a.w = b.w ∧ a.id = b.id))
  leaseTok : ∀ l ∈ s.leases, (⟨l.w, l.id, l.ver⟩ : Tok) ∈ s.toks
  tokLe : ∀ t ∈ s.toks, ∀ r ∈ s.rows, r.id = t.id → t.ver ≤ r.version
  tokLt : ∀ t ∈ s.toks, t.id < s.nextId
  tokUniq : ∀ a ∈ s.toks, ∀ b ∈ s.toks, a.id = b.id → a.ver = b.ver → a.w = b.w

theorem excl_init (m : Nat) : Excl (init m) := by
  constructor <;> simp [init]

theorem pairwise_mem_ne {α} {R : α → α → Prop} (hs : ∀ a b, R a b → R b a) :
    ∀ (l : List α), l.Pairwise R → ∀ a ∈ l, ∀ b ∈ l, a ≠ b → R a b
  | [], _, a, ha, _, _, _ => by simp at ha
  | c :: l, h, a, ha, b, hb, ne => by
    rw [List.pairwise_cons] at h
    rcases List.mem_cons.mp ha with rfl | ha' <;> rcases List.mem_cons.mp hb with rfl | hb'
    · exact absurd rfl ne
    · exact h.1 b hb'
    · exact hs _ _ (h.1 a ha')
    · exact pairwise_mem_ne hs l h.2 a ha' b hb' ne

theorem tokOf_mem {s : State} {w i v : Nat} (h : tokOf s w i = some v) : (⟨w, i, v⟩ : Tok) ∈ s.toks := by
  simp only [tokOf, Option.map_eq_some_iff] at h
  obtain ⟨t, ht, rfl⟩ := h
  obtain ⟨hm, hp⟩ := find?_mem_key _ _ _ ht
  simp only [Bool.and_eq_true, beq_iff_eq] at hp
  cases t; simp_all

theorem excl_pushRow {s : State} (hb : Base s) (h : Excl s) (m b : Nat) (d : Bool) : Excl (pushRow s m b d) := by
  obtain ⟨e1, e2, e3, e4, e5, e6, e7, e8⟩ := h
  have l6 := hb.leaseLt
  have l5 := hb.selLt
  constructor <;> simp only [pushRow, List.mem_append, List.mem_singleton] <;> first | assumption | skip
  · rintro l hl hv r (hr | rfl) hi
    · exact e1 l hl hv r hr hi
    · have := l6 l hl; simp at hi; omega
  · rintro x hx l hl hv hi r (hr | rfl) hri
    · exact e2 x hx l hl hv hi r hr hri
    · have := l5 x hx; simp at hri; omega
  · rintro t ht r (hr | rfl) hi
    · exact e6 t ht r hr hi
    · have := e7 t ht; simp at hi; omega
  · intro t ht; exact Nat.lt_succ_of_lt (e7 t ht)

theorem excl_dropSel {s : State} (h : Excl s) (w : Nat) : Excl { s with sels := dropSels w s.sels } := by
  obtain ⟨e1, e2, e3, e4, e5, e6, e7, e8⟩ := h
  exact ⟨e1, fun x hx => e2 x (mem_dropSels hx), e3, e4, e5, e6, e7, e8⟩

theorem excl_setSel {s : State} (h : Excl s) (w : Nat) : Excl (setSel s w) := by
  unfold setSel
  split
  · exact excl_dropSel h w
  · rename_i r hr
    obtain ⟨hm, he⟩ := candidate_mem hr
    obtain ⟨e1, e2, e3, e4, e5, e6, e7, e8⟩ := h
    refine ⟨e1, ?_, e3, e4, e5, e6, e7, e8⟩
    simp only [List.mem_cons]
    rintro x (rfl | hx) l hl hv hi r' hr' hri
    · have := (e1 l hl hv r hm hi.symm).1
      simp [eligible, this] at he
    · exact e2 x (mem_dropSels hx) l hl hv hi r' hr' hri

theorem excl_kill {s : State} : Excl (kill s) := by
  constructor <;> simp [kill]

/-- rows only lose elements, leases are filtered, sels only lose elements -/
theorem excl_shrink {s s' : State} (h : Excl s) (p : Lease → Bool)
    (hr : ∀ r ∈ s'.rows, r ∈ s.rows) (hs : ∀ x ∈ s'.sels, x ∈ s.sels) (hl : s'.leases = s.leases.filter p)
    (ht : s'.toks = s.toks) (hn : s'.nextId = s.nextId) :
    Excl s' := by
  obtain ⟨e1, e2, e3, e4, e5, e6, e7, e8⟩ := h
  constructor
  · intro l hl' hv r hr' hi
    rw [hl] at hl'
    exact e1 l (List.mem_filter.mp hl').1 hv r (hr r hr') hi
  · intro x hx l hl' hv hi r hr' hri
    rw [hl] at hl'
    exact e2 x (hs x hx) l (List.mem_filter.mp hl').1 hv hi r (hr r hr') hri
  · rw [hl]; exact e3.filter _
  · rw [hl]; exact e4.filter _
  · intro l hl'; rw [hl] at hl'; rw [ht]; exact e5 l (List.mem_filter.mp hl').1
  · intro t ht' r hr' hi; rw [ht] at ht'; exact e6 t ht' r (hr r hr') hi
  · intro t ht'; rw [ht] at ht'; rw [hn]; exact e7 t ht'
  · rw [ht]; exact e8

theorem filter_true_eq {α} (l : List α) : l.filter (fun _ => true) = l := by
  induction l <;> simp_all

theorem excl_ackRow {s : State} (h : Excl s) (w i : Nat) : Excl (ackRow s w i) :=
  excl_shrink h (fun l => !(l.w == w && l.id == i)) (fun r hr => (List.mem_filter.mp hr).1) (fun _ hx => hx) rfl rfl rfl

theorem excl_moveToDlq {s : State} (h : Excl s) (i : Nat) : Excl (moveToDlq s i) := by
  unfold moveToDlq
  split
  · exact h
  · exact excl_shrink h (fun _ => true) (fun r hr => (List.mem_filter.mp hr).1) (fun _ hx => hx)
      (filter_true_eq _).symm rfl rfl

theorem excl_replay {s : State} (hb : Base s) (h : Excl s) (d : Nat) : Excl (replay s d) := by
  unfold replay
  split
  · exact h
  · obtain ⟨e1, e2, e3, e4, e5, e6, e7, e8⟩ := h
    have l6 := hb.leaseLt
    have l5 := hb.selLt
    constructor <;> simp only [List.mem_append, List.mem_singleton] <;> first | assumption | skip
    · rintro l hl hv r (hr | rfl) hi
      · exact e1 l hl hv r hr hi
      · have := l6 l hl; simp at hi; omega
    · rintro x hx l hl hv hi r (hr | rfl) hri
      · exact e2 x hx l hl hv hi r hr hri
      · have := l5 x hx; simp at hri; omega
    · rintro t ht r (hr | rfl) hi
      · exact e6 t ht r hr hi
      · have := e7 t ht; simp at hi; omega
    · intro t ht; exact Nat.lt_succ_of_lt (e7 t ht)

/-- rows rewritten by a function that keeps id, lock and version -/
theorem excl_mapRowsKeep {s : State} (h : Excl s) (f : Row → Row)
    (hid : ∀ r, (f r).id = r.id) (hlock : ∀ r, (f r).lock = r.lock) (hv : ∀ r, (f r).version = r.version) :
    Excl { s with rows := s.rows.map f } := by
  obtain ⟨e1, e2, e3, e4, e5, e6, e7, e8⟩ := h
  constructor <;> simp only [List.mem_map] <;> first | assumption | skip
  · rintro l hl hlv r' ⟨r, hr, rfl⟩ hi
    rw [hid] at hi; rw [hlock, hv]; exact e1 l hl hlv r hr hi
  · rintro x hx l hl hlv hi r' ⟨r, hr, rfl⟩ hri
    rw [hid] at hri; rw [hv]; exact e2 x hx l hl hlv hi r hr hri
  · rintro t ht r' ⟨r, hr, rfl⟩ hi
    rw [hid] at hi; rw [hv]; exact e6 t ht r hr hi

theorem excl_mature {s : State} (h : Excl s) (i : Nat) : Excl (mature s i) := by
  unfold mature
  apply excl_mapRowsKeep h <;> intro r <;> split <;> rfl

theorem excl_expire {s : State} (h : Excl s) (i : Nat) : Excl (expire s i) := by
  obtain ⟨e1, e2, e3, e4, e5, e6, e7, e8⟩ := h
  constructor <;> simp only [expire, List.mem_map, List.pairwise_map] <;> first | assumption | skip
  · rintro l' ⟨l, hl, rfl⟩ hlv r' ⟨r, hr, rfl⟩ hi
    by_cases hli : l.id = i
    · simp [hli] at hlv
    · have hlv' : l.live = true := by simpa [hli] using hlv
      have hi' : r.id = l.id := by
        revert hi; split <;> split <;> simp
      have hne : ¬ r.id = i := fun e => hli (by omega)
      simp [hne]
      simpa [hli] using e1 l hl hlv' r hr hi'
  · rintro x hx l' ⟨l, hl, rfl⟩ hlv hi r' ⟨r, hr, rfl⟩ hri
    by_cases hli : l.id = i
    · simp [hli] at hlv
    · have hlv' : l.live = true := by simpa [hli] using hlv
      have hi' : l.id = x.id := by simpa [hli] using hi
      have hri' : r.id = x.id := by revert hri; split <;> simp
      have := e2 x hx l hl hlv' hi' r hr hri'
      split <;> simpa using this
  · refine e3.imp ?_
    intro a b hab
    by_cases ha : a.id = i <;> by_cases hb' : b.id = i <;> simp [ha, hb'] <;> intro h1 h2 <;> try exact fun e => hab ⟨h1, h2, e⟩
  · refine e4.imp ?_
    intro a b hab
    split <;> split <;> simpa using hab
  · rintro l' ⟨l, hl, rfl⟩
    have := e5 l hl
    split <;> simpa using this
  · rintro t ht r' ⟨r, hr, rfl⟩ hi
    have hi' : r.id = t.id := by revert hi; split <;> simp
    have := e6 t ht r hr hi'
    split <;> simpa using this

theorem oneLive_sym (a b : Lease) : ¬ (a.live = true ∧ b.live = true ∧ a.id = b.id) →
    ¬ (b.live = true ∧ a.live = true ∧ b.id = a.id) := fun h ⟨x, y, z⟩ => h ⟨y, x, z.symm⟩

/-- **the repaired `reschedule`**: guarded by the caller's claim token it can only clear the caller's own lock -/
theorem excl_resched {s : State} (h : Excl s) (w i : Nat) (d : Bool) : Excl (resched s w i d) := by
  unfold resched
  split
  · exact h
  · rename_i v hv
    have htok := tokOf_mem hv
    obtain ⟨e1, e2, e3, e4, e5, e6, e7, e8⟩ := h
    constructor <;> simp only [List.mem_map] <;> first | assumption | skip
    · rintro l hl hlv r' ⟨r, hr, rfl⟩ hi
      have hl' := mem_dropLeases hl
      have hnot : ¬ (l.w = w ∧ l.id = i) := by
        have := (List.mem_filter.mp hl).2
        intro ⟨a, b⟩
        simp [a, b] at this
      by_cases hc : r.id = i ∧ r.version = v
      · exfalso
        have hli : l.id = i := by simp [hc.1, hc.2] at hi; omega
        have := (e1 l hl' hlv r hr (by omega)).2
        have hw : l.w = w := e8 ⟨l.w, l.id, l.ver⟩ (e5 l hl') ⟨w, i, v⟩ htok hli (by show l.ver = v; omega)
        exact hnot ⟨hw, hli⟩
      · have hb : (r.id == i && r.version == v) = false := by
          simp only [Bool.and_eq_false_iff, beq_eq_false_iff_ne, ne_eq]
          by_cases h1 : r.id = i
          · right; exact fun e => hc ⟨h1, e⟩
          · left; exact h1
        simp only [hb] at hi ⊢
        exact e1 l hl' hlv r hr hi
    · rintro x hx l hl hlv hi r' ⟨r, hr, rfl⟩ hri
      have hri' : r.id = x.id := by revert hri; split <;> simp
      have := e2 x hx l (mem_dropLeases hl) hlv hi r hr hri'
      split <;> simpa using this
    · exact e3.filter _
    · exact e4.filter _
    · intro l hl; exact e5 l (mem_dropLeases hl)
    · rintro t ht r' ⟨r, hr, rfl⟩ hi
      have hi' : r.id = t.id := by revert hi; split <;> simp
      have := e6 t ht r hr hi'
      split <;> simpa using this

theorem mem_claimRows {rows : List Row} {i v : Nat} {r' : Row} (h : r' ∈ claimRows rows i v) :
    ∃ r ∈ rows, r'.id = r.id ∧ r.version ≤ r'.version ∧
      ((r.id = i ∧ r.version = v ∧ r'.lock = .held ∧ r'.version = r.version + 1) ∨
        (¬ (r.id = i ∧ r.version = v) ∧ r' = r)) := by
  simp only [claimRows, List.mem_map] at h
  obtain ⟨r, hr, rfl⟩ := h
  refine ⟨r, hr, ?_⟩
  split
  · rename_i hc
    simp only [Bool.and_eq_true, beq_iff_eq] at hc
    exact ⟨rfl, by simp, Or.inl ⟨hc.1, hc.2, rfl, rfl⟩⟩
  · rename_i hc
    simp only [Bool.and_eq_true, beq_iff_eq] at hc
    exact ⟨rfl, Nat.le_refl _, Or.inr ⟨hc, rfl⟩⟩

theorem mem_dropToks {w i : Nat} {ts : List Tok} {t : Tok} : t ∈ dropToks w i ts → t ∈ ts ∧ ¬ (t.w = w ∧ t.id = i) := by
  simp only [dropToks, List.mem_filter]
  intro ⟨h1, h2⟩
  refine ⟨h1, ?_⟩
  intro ⟨a, b⟩
  simp [a, b] at h2

theorem excl_claimSel {s : State} (hb : Base s) (h : Excl s) (w : Nat) (c : Bool) : Excl (claimSel s w c) := by
  unfold claimSel
  split
  · exact h
  · rename_i x hx
    obtain ⟨hxs, _⟩ := selOf_mem hx
    dsimp only
    split
    · exact excl_dropSel h w
    · rename_i r hr
      obtain ⟨hm, hrid, hrv⟩ := matched_mem hr
      have L0 : ∀ l ∈ s.leases, l.live = true → l.id ≠ x.id := by
        intro l hl hlv e
        have := h.selStale x hxs l hl hlv e r hm hrid
        omega
      have hu := unique_of_pairwise (fun r : Row => r.id) s.rows hb.idNodup
      obtain ⟨e1, e2, e3, e4, e5, e6, e7, e8⟩ := h
      -- the state after the claim UPDATE (no lease handed out yet)
      have h1 : Excl { ({ s with sels := dropSels w s.sels } : State) with rows := claimRows s.rows x.id x.version } := by
        refine ⟨?_, ?_, e3, e4, e5, ?_, e7, e8⟩
        · intro l hl hlv r' hr' hi
          obtain ⟨r0, hr0, hid, _, hc | ⟨_, rfl⟩⟩ := mem_claimRows hr'
          · exact absurd (by omega) (L0 l hl hlv)
          · exact e1 l hl hlv r' hr0 hi
        · intro x' hx' l hl hlv hi r' hr' hri
          obtain ⟨r0, hr0, hid, hver, _⟩ := mem_claimRows hr'
          have := e2 x' (mem_dropSels hx') l hl hlv hi r0 hr0 (by omega)
          omega
        · intro t ht r' hr' hi
          obtain ⟨r0, hr0, hid, hver, _⟩ := mem_claimRows hr'
          have := e6 t ht r0 hr0 (by omega)
          omega
      split
      · -- a lease and a claim token are handed out
        obtain ⟨f1, f2, f3, f4, f5, f6, f7, f8⟩ := h1
        -- the claimed row now has version r.version + 1
        have hnew : ∀ r' ∈ claimRows s.rows x.id x.version, r'.id = r.id → r'.lock = .held ∧ r'.version = r.version + 1 := by
          intro r' hr' hi
          obtain ⟨r0, hr0, hid, _, hc | ⟨hn, rfl⟩⟩ := mem_claimRows hr'
          · have : r0 = r := hu r0 hr0 r hm (by omega)
            subst this; exact ⟨hc.2.2.1, hc.2.2.2⟩
          · have : r' = r := hu r' hr0 r hm hi
            subst this; exact absurd ⟨hrid, hrv⟩ hn
        constructor <;> simp only [List.mem_cons, List.pairwise_cons]
        · rintro l (rfl | hl) hlv r' hr' hi
          · exact hnew r' hr' hi
          · exact f1 l (mem_dropLeases hl) hlv r' hr' hi
        · rintro x' hx' l (rfl | hl) hlv hi r' hr' hri
          · have hv := (hnew r' hr' (by simp at hi; omega)).2
            have := hb.selVer x' (mem_dropSels hx') r hm (by simp at hi; omega)
            omega
          · exact f2 x' hx' l (mem_dropLeases hl) hlv hi r' hr' hri
        · refine ⟨?_, f3.filter _⟩
          intro l hl ⟨_, hlv, e⟩
          exact L0 l (mem_dropLeases hl) hlv (by omega)
        · refine ⟨?_, f4.filter _⟩
          intro l hl ⟨ew, ei⟩
          have := (List.mem_filter.mp hl).2
          simp [← ew, ← ei] at this
        · rintro l (rfl | hl)
          · left; rfl
          · right
            have hin := f5 l (mem_dropLeases hl)
            have hnot := (List.mem_filter.mp hl).2
            simp only [dropToks, List.mem_filter]
            exact ⟨hin, hnot⟩
        · rintro t (rfl | ht) r' hr' hi
          · exact Nat.le_of_eq (hnew r' hr' hi).2.symm
          · exact f6 t (mem_dropToks ht).1 r' hr' hi
        · rintro t (rfl | ht)
          · exact hb.idLt r hm
          · exact f7 t (mem_dropToks ht).1
        · rintro a (rfl | ha) b (rfl | hb') hid hver
          · rfl
          · exfalso
            have := e6 b (mem_dropToks hb').1 r hm (by simp at hid; omega)
            simp at hver; omega
          · exfalso
            have := e6 a (mem_dropToks ha).1 r hm (by simp at hid; omega)
            simp at hver; omega
          · exact f8 a (mem_dropToks ha).1 b (mem_dropToks hb').1 hid hver
      · split
        · exact excl_moveToDlq h1 r.id
        · exact h1

/-- primitives of the poll → release protocol (everything except the calls with a token-less Message) -/
def primFree : Prim → Bool
  | .reschedRaw _ _ | .extendRaw _ => false
  | _ => true

theorem excl_applyPrim {s : State} (hb : Base s) (h : Excl s) (p : Prim) (ok : primFree p = true) :
    Excl (applyPrim s p) := by
  cases p <;> simp only [applyPrim]
  · exact excl_pushRow hb h _ _ _
  · exact excl_setSel h _
  · exact excl_dropSel h _
  · exact excl_claimSel hb h _ _
  · exact excl_ackRow h _ _
  · exact excl_resched h _ _ _
  · simp [primFree] at ok
  · simp [primFree] at ok
  · exact excl_expire h _
  · exact excl_mature h _
  · exact excl_moveToDlq h _
  · exact excl_replay hb h _
  · exact excl_kill

theorem excl_applyPrims_free {s : State} (hb : Base s) (h : Excl s) (ps : List Prim)
    (hf : ∀ p ∈ ps, primFree p = true) : Excl (applyPrims s ps) := by
  induction ps generalizing s with
  | nil => exact h
  | cons p ps ih =>
    have hp := hf p (by simp)
    exact ih (base_applyPrim hb p) (excl_applyPrim hb h p hp) (fun q hq => hf q (by simp [hq]))

theorem applyPrims_append (s : State) (ps qs : List Prim) :
    applyPrims s (ps ++ qs) = applyPrims (applyPrims s ps) qs := by
  simp [applyPrims, List.foldl_append]

theorem primsOf_free (s : State) (a : Act) (b : Option Nat) (h : isRawAct a = false) :
    ∀ p ∈ primsOf s a b, primFree p = true := by
  intro p hp
  cases a <;> simp only [primsOf] at hp
  case rescheduleRaw i d => simp [isRawAct] at h
  case extendRaw i => simp [isRawAct] at h
  case extend w i => simp at hp
  case sweep =>
    simp only [List.mem_map] at hp
    obtain ⟨i, _, rfl⟩ := hp
    rfl
  all_goals (try split at hp) <;> (try split at hp) <;> simp at hp <;>
    first
    | (subst hp; rfl)
    | (rcases hp with h | h <;> (subst h; rfl))
    | (obtain ⟨_, h⟩ := hp; subst h; rfl)

theorem excl_next {s : State} (hb : Base s) (h : Excl s) (op : Op) (ok : isRaw op = false) :
    Excl (next s op) := by
  cases op with
  | act a => exact excl_applyPrims_free hb h _ (primsOf_free s a none ok)
  | crash a k =>
    simp only [next, opPrims, applyPrims_append]
    exact excl_kill

theorem excl_run {s : State} (hb : Base s) (h : Excl s) (ops : List Op) (ok : ∀ op ∈ ops, isRaw op = false) :
    Excl (run s ops) := by
  induction ops generalizing s with
  | nil => exact h
  | cons o os ih =>
    exact ih (base_next hb o) (excl_next hb h o (ok o (by simp))) (fun q hq => ok q (by simp [hq]))

end Stab.Queue
