/-
  The driver invariant (G2) behind C05 for the plain workload class: AND-join DAGs (requisites listed before the
  stage), every stage with at least one task, no OR-split / stageEnabled / failPipeline=False, task results
  succeed / fail terminally / fail-and-continue / raise / fail transiently (with retries) / answer RUNNING (polling).

  `Live c s` = queue bookkeeping (`Plumb`) ∧ (workflow final ∨ `Pre` (StartWorkflow pending) ∨ `Core`), where `Core` says:
    * every RUNNING stage has exactly ONE token message in the queue (StartTask / RunTask / CompleteTask of its
      current task, or its CompleteStage) matching its task statuses (`Shape`, `TokOK`), a NOT_STARTED or completed
      stage has none;
    * a stage that left NOT_STARTED has only continuable prerequisites;
    * a NOT_STARTED stage whose prerequisites are all continuable has a StartStage message queued;
    * a TERMINAL stage, or all stages continuable, implies a CompleteWorkflow message queued;
    * a queued CancelStage refers to a completed stage.
  `live_step`: every acknowledged delivery of ANY pending message preserves `Live` (one lemma per message kind);
  `live_quiescent_final`: `Live` + empty queue ⇒ the workflow status is final.
-/
import Stab.Lemmas.EngineLive
import Stab.Lemmas.EngineFrozen
namespace Stab.Engine
open Stab

/-! ### the plain workload class -/

def plainOutcome : Outcome → Bool
  | .succ | .terminal | .failedContinue | .permanent | .transient | .running => true
  | _ => false

structure PlainStage (sc : StageCfg) : Prop where
  join : sc.join = .and
  enabled : sc.enabled = none
  failp : sc.failp = true
  split : sc.split = []
  tasks : sc.tasks ≠ []
  outcomes : ∀ script ∈ sc.tasks, ∀ o ∈ script, plainOutcome o = true

structure PlainCfg (c : Cfg) : Prop where
  stages : ∀ sc ∈ c.stages, PlainStage sc
  dag : ∀ i, ∀ u ∈ c.reqs i, u < i

theorem plain_noJump (c : Cfg) (h : PlainCfg c) : NoJumpCfg c := by
  intro sc hsc script hs o ho t hj
  have := (h.stages sc hsc).outcomes script hs o ho
  subst hj
  simp [plainOutcome] at this

theorem plain_stage (c : Cfg) (h : PlainCfg c) (i : Nat) (hi : i < c.n) : PlainStage (c.stage i) := by
  apply h.stages
  simp only [Cfg.stage, Cfg.n] at *
  rw [List.getD_eq_getElem?_getD, List.getElem?_eq_getElem hi]
  exact List.getElem_mem hi

theorem outcomeAt_plain (c : Cfg) (h : PlainCfg c) (i t n : Nat) (hi : i < c.n) : plainOutcome (outcomeAt (c.stage i) t n) = true := by
  unfold outcomeAt
  simp only []
  have hp := plain_stage c h i hi
  cases hs : (c.stage i).tasks[t]? with
  | none => simp [List.getD_eq_getElem?_getD, hs, plainOutcome]
  | some script =>
    simp only [List.getD_eq_getElem?_getD, hs, Option.getD_some]
    have hmem : script ∈ (c.stage i).tasks := List.mem_of_getElem? hs
    cases hx : script[min (n - 1) (script.length - 1)]? with
    | none => simp [plainOutcome]
    | some o =>
      simp only [Option.getD_some]
      exact hp.outcomes script hmem o (List.mem_of_getElem? hx)

end Stab.Engine

namespace Stab.Engine
open Stab

/-! ### invariants -/

def isTok (i : Nat) : Msg → Bool
  | .startTask j _ | .runTask j _ | .completeTask j _ _ | .completeStage j => j == i
  | _ => false

def doneSt (st : Status) : Bool := st == .succeeded || st == .failedContinue || st == .terminal

def stOK (st : Status) : Bool :=
  st == .notStarted || st == .running || st == .succeeded || st == .failedContinue || st == .terminal

structure Shape (ts : List TaskSt) (k : Nat) : Prop where
  le : k ≤ ts.length
  before : ∀ t, t < k → doneSt (ts.getD t default).status = true
  after : ∀ t, k < t → t < ts.length → (ts.getD t default).status = .notStarted

inductive TokOK (i : Nat) (ts : List TaskSt) (k : Nat) : Msg → Prop
  | st : k < ts.length → (ts.getD k default).status = .notStarted → TokOK i ts k (.startTask i k)
  | rt : k < ts.length → (ts.getD k default).status = .running → TokOK i ts k (.runTask i k)
  | ct (x : Status) : k < ts.length → (ts.getD k default).status = .running → doneSt x = true →
      TokOK i ts k (.completeTask i k x)
  | cs : k = ts.length → TokOK i ts k (.completeStage i)

def MsgPlain (c : Cfg) : Msg → Prop
  | .startStage i _ => i < c.n
  | .startTask i _ => i < c.n
  | .runTask i _ => i < c.n
  | .completeTask i _ st => i < c.n ∧ doneSt st = true
  | .completeStage i => i < c.n
  | .cancelStage i => i < c.n
  | .completeWorkflow _ => True
  | .cancelWorkflow => True      -- a cancel request that has not been handled yet
  | _ => False

structure StageInv (c : Cfg) (s : State) (i : Nat) : Prop where
  ntasks : (s.stage i).tasks.length = (c.stage i).tasks.length
  nobypass : (s.stage i).jumpBypass = false
  status : stOK (s.stage i).status = true
  idle : (s.stage i).status = .notStarted →
    (∀ x ∈ s.queue, isTok i x.msg = false) ∧ ∀ t, ((s.stage i).tasks.getD t default).status = .notStarted
  busy : (s.stage i).status = .running →
    ∃ k w, Shape (s.stage i).tasks k ∧ TokOK i (s.stage i).tasks k w.msg ∧ w ∈ s.queue ∧
      ∀ x ∈ s.queue, isTok i x.msg = true → x = w
  fin : (s.stage i).status.isComplete = true → ∀ x ∈ s.queue, isTok i x.msg = false
  ready : (s.stage i).status ≠ .notStarted → ∀ u ∈ c.reqs i, (s.stage u).status.isContinuable = true

structure Core (c : Cfg) (s : State) : Prop where
  len : s.stages.length = c.n
  nc : s.canceled = false
  running : s.wfStatus = .running
  stages : ∀ i, i < c.n → StageInv c s i
  msgs : ∀ x ∈ s.queue, MsgPlain c x.msg
  trig : ∀ i, i < c.n → (s.stage i).status = .notStarted →
    (∀ u ∈ c.reqs i, (s.stage u).status.isContinuable = true) → ∃ x ∈ s.queue, ∃ r, x.msg = .startStage i r
  halt : (∃ i, i < c.n ∧ (s.stage i).status = .terminal) → ∃ x ∈ s.queue, ∃ r, x.msg = .completeWorkflow r
  alldone : (∀ i, i < c.n → (s.stage i).status.isContinuable = true) → ∃ x ∈ s.queue, ∃ r, x.msg = .completeWorkflow r
  xs : ∀ x ∈ s.queue, ∀ i, x.msg = .cancelStage i → (s.stage i).status.isComplete = true

/-- before StartWorkflow has been handled -/
structure Pre (c : Cfg) (s : State) : Prop where
  len : s.stages.length = c.n
  nc : s.canceled = false
  wf : s.wfStatus = .notStarted
  queue : ∃ x ∈ s.queue, x.msg = .startWorkflow ∧ (∀ y ∈ s.queue, y.msg = .startWorkflow → y = x) ∧
    ∀ y ∈ s.queue, y = x ∨ y.msg = .cancelWorkflow
  pristine : ∀ i, i < c.n → (s.stage i).status = .notStarted ∧ (s.stage i).jumpBypass = false ∧
    (s.stage i).tasks.length = (c.stage i).tasks.length ∧ ∀ t, ((s.stage i).tasks.getD t default).status = .notStarted

/-- the driver invariant -/
structure Live (c : Cfg) (s : State) : Prop where
  plumb : Plumb s
  cases : s.wfStatus.isComplete = true ∨ Pre c s ∨ Core c s

/-- **Quiescence in a `Live` state means the workflow is final.** -/
theorem live_quiescent_final (c : Cfg) (hc : PlainCfg c) (s : State) (h : Live c s) (hq : s.queue = []) :
    s.wfStatus.isComplete = true := by
  rcases h.cases with h1 | h1 | h1
  · exact h1
  · obtain ⟨x, hx, _⟩ := h1.queue
    rw [hq] at hx; cases hx
  · exfalso
    have noRow : ∀ x, x ∈ s.queue → False := by intro x hx; rw [hq] at hx; cases hx
    -- no stage is RUNNING
    have hnr : ∀ i, i < c.n → (s.stage i).status ≠ .running := by
      intro i hi hr
      obtain ⟨k, w, _, _, hw, _⟩ := (h1.stages i hi).busy hr
      exact noRow w hw
    -- no stage is TERMINAL
    have hnt : ∀ i, i < c.n → (s.stage i).status ≠ .terminal := by
      intro i hi ht
      obtain ⟨x, hx, _⟩ := h1.halt ⟨i, hi, ht⟩
      exact noRow x hx
    -- hence every stage is NOT_STARTED or continuable
    have hcls : ∀ i, i < c.n → (s.stage i).status = .notStarted ∨ (s.stage i).status.isContinuable = true := by
      intro i hi
      have := (h1.stages i hi).status
      have h2 := hnr i hi
      have h3 := hnt i hi
      revert this h2 h3
      cases (s.stage i).status <;> simp [stOK, Status.isContinuable]
    -- the least NOT_STARTED stage would have been triggered
    have hall : ∀ n, ∀ i, i < n → i < c.n → (s.stage i).status.isContinuable = true := by
      intro n
      induction n with
      | zero => intro i hi; omega
      | succ n ih =>
        intro i hi hin
        rcases hcls i hin with hns | hcont
        · exfalso
          have hreq : ∀ u ∈ c.reqs i, (s.stage u).status.isContinuable = true := by
            intro u hu
            have hlt := hc.dag i u hu
            exact ih u (by omega) (by omega)
          obtain ⟨x, hx, _⟩ := h1.trig i hin hns hreq
          exact noRow x hx
        · exact hcont
    obtain ⟨x, hx, _⟩ := h1.alldone (fun i hi => hall (i + 1) i (by omega) hi)
    exact noRow x hx

end Stab.Engine

namespace Stab.Engine
open Stab

/-! ### generic facts about the state after an acknowledged delivery -/

theorem mkRows_mem_iff (n : Nat) (ps : List (Msg × Nat)) (x : Row) :
    x ∈ mkRows n ps → (x.msg, x.attempts) ∈ ps := by
  induction ps generalizing n with
  | nil => intro h; cases h
  | cons p ps ih =>
    obtain ⟨m, a⟩ := p
    intro h
    simp only [mkRows, List.mem_cons] at h
    rcases h with rfl | h
    · simp
    · exact List.mem_cons_of_mem _ (ih (n + 1) h)

theorem mkRows_exists (n : Nat) (ps : List (Msg × Nat)) (m : Msg) (a : Nat) (h : (m, a) ∈ ps) :
    ∃ x ∈ mkRows n ps, x.msg = m := by
  induction ps generalizing n with
  | nil => cases h
  | cons p ps ih =>
    obtain ⟨m', a'⟩ := p
    simp only [List.mem_cons, Prod.mk.injEq] at h
    rcases h with ⟨rfl, rfl⟩ | h
    · exact ⟨{ id := n, msg := m, attempts := a }, by simp [mkRows], rfl⟩
    · obtain ⟨x, hx, hm⟩ := ih (n + 1) h
      exact ⟨x, by simp [mkRows, hx], hm⟩

/-- two rows of the queue with the same id are the same row -/
theorem nodup_ids_inj (l : List Row) (hnd : (l.map (·.id)).Nodup) (x y : Row) (hx : x ∈ l) (hy : y ∈ l) (h : x.id = y.id) : x = y := by
  induction l with
  | nil => cases hx
  | cons z zs ih =>
    simp only [List.map_cons, List.nodup_cons, List.mem_map, not_exists, not_and] at hnd
    simp only [List.mem_cons] at hx hy
    rcases hx with rfl | hx <;> rcases hy with rfl | hy
    · rfl
    · exact absurd h.symm (hnd.1 y hy)
    · exact absurd h (hnd.1 x hx)
    · exact ih hnd.2 hx hy

theorem row_eq_of_id (s : State) (hp : Plumb s) (x y : Row) (hx : x ∈ s.queue) (hy : y ∈ s.queue) (h : x.id = y.id) : x = y :=
  nodup_ids_inj s.queue hp.ids x y hx hy h

structure Facts (c : Cfg) (s : State) (r : Row) (s' : State) : Prop where
  /-- the effects of the handler, on the state it read -/
  keep : ∀ x ∈ s.queue, x ≠ r → x ∈ s'.queue
  pushed : ∀ m a, (m, a) ∈ pushesOf (handle c s { r with attempts := r.attempts + 1 }).1.flatten → ∃ x ∈ s'.queue, x.msg = m
  old : ∀ x ∈ s'.queue, (x ∈ s.queue ∧ x ≠ r) ∨
    ((x.msg, x.attempts) ∈ pushesOf (handle c s { r with attempts := r.attempts + 1 }).1.flatten ∧ x ∉ s.queue)
  gone : r ∉ s'.queue
  core : sameCore s' (applyTxn s (handle c s { r with attempts := r.attempts + 1 }).1.flatten)
  rows : s'.queue = s.queue.filter (fun x => x.id != r.id) ++
    mkRows s.nextId (pushesOf (handle c s { r with attempts := r.attempts + 1 }).1.flatten)

theorem facts_of_shape (c : Cfg) (s : State) (r : Row) (s' : State) (hp : Plumb s) (hmem : r ∈ s.queue)
    (h : DeliverShape c s r.id r s') : Facts c s r s' := by
  have hnew := mkRows_ids s.nextId (pushesOf (handle c s { r with attempts := r.attempts + 1 }).1.flatten)
  refine ⟨?_, ?_, ?_, ?_, h.core, h.queue⟩
  · intro x hx hne
    rw [h.queue]
    apply List.mem_append_left
    rw [List.mem_filter]
    refine ⟨hx, ?_⟩
    simp only [bne_iff_ne, ne_eq]
    intro hid
    exact hne (row_eq_of_id s hp x r hx hmem hid)
  · intro m a hma
    obtain ⟨x, hx, hm⟩ := mkRows_exists s.nextId _ m a hma
    exact ⟨x, by rw [h.queue]; exact List.mem_append_right _ hx, hm⟩
  · intro x hx
    rw [h.queue] at hx
    rcases List.mem_append.mp hx with h1 | h1
    · left
      obtain ⟨h2, h3⟩ := List.mem_filter.mp h1
      refine ⟨h2, ?_⟩
      intro he; subst he; simp at h3
    · right
      refine ⟨mkRows_mem_iff _ _ x h1, ?_⟩
      intro hxq
      have := hp.fresh x hxq
      have := (hnew x h1).1
      omega
  · intro hr
    rw [h.queue] at hr
    rcases List.mem_append.mp hr with h1 | h1
    · have := (List.mem_filter.mp h1).2; simp at this
    · have := hp.fresh r hmem
      have := (hnew r h1).1
      omega

end Stab.Engine

namespace Stab.Engine
open Stab

theorem tokOK_isTok (i : Nat) (ts : List TaskSt) (k : Nat) (m : Msg) (h : TokOK i ts k m) : isTok i m = true := by
  cases h <;> simp [isTok]

/-- a stage whose row is untouched, none of whose tokens is consumed or created, keeps its invariant -/
theorem stageInv_frame (c : Cfg) (s : State) (r : Row) (s' : State) (j : Nat) (hf : Facts c s r s')
    (hinv : StageInv c s j) (hst : s'.stage j = s.stage j) (hr : isTok j r.msg = false)
    (hpush : ∀ m a, (m, a) ∈ pushesOf (handle c s { r with attempts := r.attempts + 1 }).1.flatten → isTok j m = false)
    (hready : (s.stage j).status ≠ .notStarted → ∀ u ∈ c.reqs j, (s'.stage u).status.isContinuable = true) :
    StageInv c s' j := by
  have hold : ∀ x ∈ s'.queue, isTok j x.msg = true → x ∈ s.queue ∧ x ≠ r := by
    intro x hx htok
    rcases hf.old x hx with h1 | ⟨h1, _⟩
    · exact h1
    · have := hpush _ _ h1; rw [this] at htok; cases htok
  refine ⟨by rw [hst]; exact hinv.ntasks, by rw [hst]; exact hinv.nobypass, by rw [hst]; exact hinv.status, ?_, ?_, ?_, ?_⟩
  · intro hns
    rw [hst] at hns ⊢
    obtain ⟨h1, h2⟩ := hinv.idle hns
    refine ⟨?_, h2⟩
    intro x hx
    cases htok : isTok j x.msg with
    | false => rfl
    | true => have := (hold x hx htok).1; rw [h1 x this] at htok; cases htok
  · intro hrun
    rw [hst] at hrun ⊢
    obtain ⟨k, w, hsh, htk, hw, huniq⟩ := hinv.busy hrun
    have hwr : w ≠ r := by
      intro he; subst he
      have := tokOK_isTok j _ k _ htk
      rw [hr] at this; cases this
    refine ⟨k, w, hsh, htk, hf.keep w hw hwr, ?_⟩
    intro x hx htok
    exact huniq x (hold x hx htok).1 htok
  · intro hcomp
    rw [hst] at hcomp
    intro x hx
    cases htok : isTok j x.msg with
    | false => rfl
    | true => have := (hold x hx htok).1; rw [hinv.fin hcomp x this] at htok; cases htok
  · intro hns
    rw [hst] at hns
    exact hready hns

/-- a witness row other than the handled one persists -/
theorem witness_keep (c : Cfg) (s : State) (r : Row) (s' : State) (hf : Facts c s r s') (x : Row) (hx : x ∈ s.queue)
    (hne : x.msg ≠ r.msg) : x ∈ s'.queue :=
  hf.keep x hx (fun he => hne (by rw [he]))

end Stab.Engine

namespace Stab.Engine
open Stab

theorem stage_of_core {a b : State} (h : sameCore a b) (j : Nat) : a.stage j = b.stage j := by
  simp [State.stage, h.1]

def noSetStage (l : List Eff) : Prop := ∀ e ∈ l, ∀ i n, e ≠ Eff.setStage i n
def noSetWf (l : List Eff) : Prop := ∀ e ∈ l, ∀ st, e ≠ Eff.setWf st
def noSetCanceled (l : List Eff) : Prop := ∀ e ∈ l, e ≠ Eff.setCanceled

theorem applyTxn_stage_quiet (s : State) (l : List Eff) (j : Nat) (h : noSetStage l) : (applyTxn s l).stage j = s.stage j := by
  induction l generalizing s with
  | nil => rfl
  | cons e es ih =>
    have h1 : (applyEff s e).stage j = s.stage j := applyEff_other_stage s e j (h e (List.mem_cons_self ..))
    have := ih (applyEff s e) (fun x hx => h x (List.mem_cons_of_mem _ hx))
    simp only [applyTxn, List.foldl] at this ⊢
    rw [this, h1]

theorem applyTxn_len (s : State) (l : List Eff) : (applyTxn s l).stages.length = s.stages.length := by simp

theorem applyTxn_wf_quiet (s : State) (l : List Eff) (h : noSetWf l) : (applyTxn s l).wfStatus = s.wfStatus := by
  induction l generalizing s with
  | nil => rfl
  | cons e es ih =>
    have h1 : (applyEff s e).wfStatus = s.wfStatus := by
      cases e with
      | setWf st => exact absurd rfl (h _ (List.mem_cons_self ..) st)
      | setStage i n => simp only [applyEff]; split <;> rfl
      | mark id => simp only [applyEff]; split <;> rfl
      | _ => rfl
    have := ih (applyEff s e) (fun x hx => h x (List.mem_cons_of_mem _ hx))
    simp only [applyTxn, List.foldl] at this ⊢
    rw [this, h1]

theorem applyTxn_canceled_quiet (s : State) (l : List Eff) (h : noSetCanceled l) : (applyTxn s l).canceled = s.canceled := by
  induction l generalizing s with
  | nil => rfl
  | cons e es ih =>
    have h1 : (applyEff s e).canceled = s.canceled := by
      cases e with
      | setCanceled => exact absurd rfl (h _ (List.mem_cons_self ..))
      | setStage i n => simp only [applyEff]; split <;> rfl
      | mark id => simp only [applyEff]; split <;> rfl
      | _ => rfl
    have := ih (applyEff s e) (fun x hx => h x (List.mem_cons_of_mem _ hx))
    simp only [applyTxn, List.foldl] at this ⊢
    rw [this, h1]

theorem applyTxn_setStage_then_quiet (s : State) (i : Nat) (a : StageSt) (l : List Eff) (j : Nat) (h : noSetStage l) :
    (applyTxn s (.setStage i a :: l)).stage j =
      if i = j ∧ i < s.stages.length then { a with version := (s.stage i).version + 1 } else s.stage j := by
  have := applyTxn_stage_quiet (applyEff s (.setStage i a)) l j h
  simp only [applyTxn, List.foldl] at this ⊢
  rw [this, applyEff_setStage_stage]

end Stab.Engine

namespace Stab.Engine
open Stab

theorem getD_setTask (ts : List TaskSt) (k t : Nat) (f : TaskSt → TaskSt) :
    (setTask ts k f).getD t default = if t = k ∧ k < ts.length then f (ts.getD k default) else ts.getD t default := by
  simp only [setTask, List.getD_eq_getElem?_getD]
  by_cases htk : t = k
  · subst htk
    by_cases hlt : t < ts.length
    · simp [hlt]
    · simp [hlt]
  · simp [htk, List.getElem?_set_ne (Ne.symm htk)]

theorem length_setTask (ts : List TaskSt) (k : Nat) (f : TaskSt → TaskSt) : (setTask ts k f).length = ts.length := by
  simp [setTask]

/-- the handled row is the unique token of its RUNNING stage -/
theorem handled_is_token (c : Cfg) (s : State) (i : Nat) (r : Row) (hinv : StageInv c s i) (hr : r ∈ s.queue)
    (htok : isTok i r.msg = true) :
    (s.stage i).status = .running ∧ ∃ k, Shape (s.stage i).tasks k ∧ TokOK i (s.stage i).tasks k r.msg ∧
      ∀ x ∈ s.queue, isTok i x.msg = true → x = r := by
  have hst := hinv.status
  by_cases hrun : (s.stage i).status = .running
  · obtain ⟨k, w, hsh, htk, hw, huniq⟩ := hinv.busy hrun
    have : r = w := huniq r hr htok
    subst this
    exact ⟨hrun, k, hsh, htk, huniq⟩
  · exfalso
    by_cases hns : (s.stage i).status = .notStarted
    · have := (hinv.idle hns).1 r hr
      rw [this] at htok; cases htok
    · have hcomp : (s.stage i).status.isComplete = true := by
        revert hst hrun hns
        cases (s.stage i).status <;> simp [stOK, Status.isComplete]
      have := hinv.fin hcomp r hr
      rw [this] at htok; cases htok

end Stab.Engine

namespace Stab.Engine
open Stab

theorem isTok_unique (i j : Nat) (m : Msg) (h1 : isTok i m = true) (h2 : isTok j m = true) : i = j := by
  cases m <;> simp_all [isTok]

/-- the only new row when the handler pushes exactly one message -/
theorem new_row_unique (c : Cfg) (s : State) (r : Row) (s' : State) (hf : Facts c s r s') (m : Msg) (a : Nat)
    (hp : pushesOf (handle c s { r with attempts := r.attempts + 1 }).1.flatten = [(m, a)]) :
    ({ id := s.nextId, msg := m, attempts := a } : Row) ∈ s'.queue ∧
    ∀ y ∈ s'.queue, y ∉ s.queue → y = { id := s.nextId, msg := m, attempts := a } := by
  have hrows := hf.rows
  rw [hp] at hrows
  simp only [mkRows] at hrows
  refine ⟨by rw [hrows]; simp, ?_⟩
  intro y hy hny
  rw [hrows] at hy
  rcases List.mem_append.mp hy with h1 | h1
  · exact absurd (List.mem_filter.mp h1).1 hny
  · simpa using h1

theorem core_token_step (c : Cfg) (hc : PlainCfg c) (s : State) (r : Row) (s' : State) (i : Nat)
    (h : Core c s) (hi : i < c.n) (hr : r ∈ s.queue) (htok : isTok i r.msg = true) (hf : Facts c s r s')
    (st' : StageSt) (m : Msg) (a : Nat)
    (hpush : pushesOf (handle c s { r with attempts := r.attempts + 1 }).1.flatten = [(m, a)])
    (hwf : noSetWf (handle c s { r with attempts := r.attempts + 1 }).1.flatten)
    (hcan : noSetCanceled (handle c s { r with attempts := r.attempts + 1 }).1.flatten)
    (hstage : ∀ j, (applyTxn s (handle c s { r with attempts := r.attempts + 1 }).1.flatten).stage j =
      if i = j then st' else s.stage j)
    (hrun : st'.status = .running) (hbyp : st'.jumpBypass = false) (hlen : st'.tasks.length = (s.stage i).tasks.length)
    (hnew : ∃ k', Shape st'.tasks k' ∧ TokOK i st'.tasks k' m) (hplain : MsgPlain c m) : Core c s' := by
  obtain ⟨hrunning, k, hsh, htk, huniq⟩ := handled_is_token c s i r (h.stages i hi) hr htok
  have hstg : ∀ j, s'.stage j = if i = j then st' else s.stage j := by
    intro j; rw [stage_of_core hf.core j]; exact hstage j
  have hstg_i : s'.stage i = st' := by rw [hstg i]; simp
  have hstg_ne : ∀ j, j ≠ i → s'.stage j = s.stage j := by
    intro j hj; rw [hstg j]; simp [Ne.symm hj]
  obtain ⟨hnewmem, hnewuniq⟩ := new_row_unique c s r s' hf m a hpush
  obtain ⟨k', hsh', htk'⟩ := hnew
  have htokm : isTok i m = true := tokOK_isTok i _ k' m htk'
  have hpushes : ∀ m' a', (m', a') ∈ pushesOf (handle c s { r with attempts := r.attempts + 1 }).1.flatten → m' = m := by
    intro m' a' hm; rw [hpush] at hm; simp at hm; exact hm.1
  -- i is not a requisite of any stage that already left NOT_STARTED
  have hnotreq : ∀ j, j < c.n → (s.stage j).status ≠ .notStarted → i ∉ c.reqs j := by
    intro j hj hns hmem
    have := (h.stages j hj).ready hns i hmem
    rw [hrunning] at this; cases this
  refine ⟨?_, ?_, ?_, ?_, ?_, ?_, ?_, ?_, ?_⟩
  · rw [hf.core.1, applyTxn_len]; exact h.len
  · rw [hf.core.2.2, applyTxn_canceled_quiet _ _ hcan]; exact h.nc
  · rw [hf.core.2.1, applyTxn_wf_quiet _ _ hwf]; exact h.running
  · intro j hj
    by_cases hji : j = i
    · subst hji
      refine ⟨by rw [hstg_i, hlen]; exact (h.stages j hj).ntasks, by rw [hstg_i]; exact hbyp,
        by rw [hstg_i, hrun]; rfl, ?_, ?_, ?_, ?_⟩
      · intro hns; rw [hstg_i, hrun] at hns; cases hns
      · intro _
        rw [hstg_i]
        refine ⟨k', _, hsh', htk', hnewmem, ?_⟩
        intro y hy hty
        by_cases hyq : y ∈ s.queue
        · exfalso
          have : y = r := huniq y hyq hty
          subst this
          exact hf.gone hy
        · exact hnewuniq y hy hyq
      · intro hcomp; rw [hstg_i, hrun] at hcomp; cases hcomp
      · intro _ u hu
        have hlt := hc.dag j u hu
        rw [hstg_ne u (by omega)]
        exact (h.stages j hj).ready (by rw [hrunning]; simp) u hu
    · apply stageInv_frame c s r s' j hf (h.stages j hj) (hstg_ne j hji)
      · cases hx : isTok j r.msg with
        | false => rfl
        | true => exact absurd (isTok_unique i j _ htok hx).symm hji
      · intro m' a' hm
        rw [hpushes m' a' hm]
        cases hx : isTok j m with
        | false => rfl
        | true => exact absurd (isTok_unique i j _ htokm hx).symm hji
      · intro hns u hu
        have hui : u ≠ i := fun he => hnotreq j hj hns (he ▸ hu)
        rw [hstg_ne u hui]
        exact (h.stages j hj).ready hns u hu
  · intro x hx
    rcases hf.old x hx with h1 | ⟨h1, _⟩
    · exact h.msgs x h1.1
    · rw [hpushes _ _ h1]; exact hplain
  · intro j hj hns hreq
    have hji : j ≠ i := by
      intro he; subst he; rw [hstg_i, hrun] at hns; cases hns
    rw [hstg_ne j hji] at hns
    have hreq' : ∀ u ∈ c.reqs j, (s.stage u).status.isContinuable = true := by
      intro u hu
      have := hreq u hu
      by_cases hui : u = i
      · subst hui; rw [hstg_i, hrun] at this; cases this
      · rwa [hstg_ne u hui] at this
    obtain ⟨x, hx, r0, hm⟩ := h.trig j hj hns hreq'
    refine ⟨x, witness_keep c s r s' hf x hx ?_, r0, hm⟩
    intro he; rw [hm] at he; rw [← he] at htok; simp [isTok] at htok
  · intro ⟨j, hj, hterm⟩
    have hji : j ≠ i := by
      intro he; subst he; rw [hstg_i, hrun] at hterm; cases hterm
    rw [hstg_ne j hji] at hterm
    obtain ⟨x, hx, r0, hm⟩ := h.halt ⟨j, hj, hterm⟩
    refine ⟨x, witness_keep c s r s' hf x hx ?_, r0, hm⟩
    intro he; rw [hm] at he; rw [← he] at htok; simp [isTok] at htok
  · intro hall
    have := hall i hi
    rw [hstg_i, hrun] at this; cases this
  · intro x hx j hm
    rcases hf.old x hx with h1 | ⟨h1, _⟩
    · have hcomp := h.xs x h1.1 j hm
      have hji : j ≠ i := by
        intro he; subst he; rw [hrunning] at hcomp; cases hcomp
      rw [hstg_ne j hji]; exact hcomp
    · have := hpushes _ _ h1
      rw [hm] at this; rw [← this] at htokm; simp [isTok] at htokm

end Stab.Engine

namespace Stab.Engine
open Stab

theorem noSetStage_of_all (l : List Eff) (h : l.all (fun e => match e with | .setStage _ _ => false | _ => true) = true) : noSetStage l := by
  intro e he i n heq
  subst heq
  have := List.all_eq_true.mp h _ he
  simp at this

theorem noSetWf_of_all (l : List Eff) (h : l.all (fun e => match e with | .setWf _ => false | _ => true) = true) : noSetWf l := by
  intro e he st heq
  subst heq
  have := List.all_eq_true.mp h _ he
  simp at this

theorem noSetCanceled_of_all (l : List Eff) (h : l.all (fun e => match e with | .setCanceled => false | _ => true) = true) : noSetCanceled l := by
  intro e he heq
  subst heq
  have := List.all_eq_true.mp h _ he
  simp at this

theorem core_startTask (c : Cfg) (hc : PlainCfg c) (s : State) (r : Row) (s' : State) (i t : Nat)
    (h : Core c s) (hr : r ∈ s.queue) (hm : r.msg = .startTask i t) (hf : Facts c s r s') : Core c s' := by
  have hi : i < c.n := by have := h.msgs r hr; rw [hm] at this; exact this
  have htok : isTok i r.msg = true := by rw [hm]; simp [isTok]
  obtain ⟨hrunning, k, hsh, htk, huniq⟩ := handled_is_token c s i r (h.stages i hi) hr htok
  rw [hm] at htk
  cases htk with
  | st hk hns =>
    have hlen := h.len
    have hilt : i < s.stages.length := by rw [hlen]; exact hi
    have hns' : (((s.stage i).tasks)[t]?.getD default).status = .notStarted := by
      simpa [List.getD_eq_getElem?_getD] using hns
    have heffs : (handle c s { r with attempts := r.attempts + 1 }).1.flatten =
        [.setStage i { s.stage i with tasks := setTask (s.stage i).tasks t (fun _ => { status := .running, started := true }) },
         .mark r.id, .push (.runTask i t)] := by
      simp [handle, hm, hStartTask, hns']
    apply core_token_step c hc s r s' i h hi hr htok hf
      { s.stage i with tasks := setTask (s.stage i).tasks t (fun _ => { status := .running, started := true }),
                       version := (s.stage i).version + 1 }
      (.runTask i t) 0
    · rw [heffs]; simp [pushesOf]
    · rw [heffs]; exact noSetWf_of_all _ (by simp)
    · rw [heffs]; exact noSetCanceled_of_all _ (by simp)
    · intro j
      rw [heffs, applyTxn_setStage_then_quiet _ _ _ _ _ (noSetStage_of_all _ (by simp))]
      by_cases hij : i = j
      · subst hij; simp [hilt]
      · simp [hij]
    · exact hrunning
    · exact (h.stages i hi).nobypass
    · simp [length_setTask]
    · refine ⟨t, ⟨by simp [length_setTask]; exact hsh.le, ?_, ?_⟩, ?_⟩
      · intro x hx
        simp only [getD_setTask]
        have : ¬ (x = t ∧ t < (s.stage i).tasks.length) := by omega
        simp only [this, ↓reduceIte]
        exact hsh.before x hx
      · intro x hx hxl
        simp only [getD_setTask]
        have : ¬ (x = t ∧ t < (s.stage i).tasks.length) := by omega
        simp only [this, ↓reduceIte]
        simp only [length_setTask] at hxl
        exact hsh.after x hx hxl
      · apply TokOK.rt
        · simp [length_setTask]; exact hk
        · rw [getD_setTask]; simp [hk]
    · exact hi

end Stab.Engine

namespace Stab.Engine
open Stab

theorem core_completeTask (c : Cfg) (hc : PlainCfg c) (s : State) (r : Row) (s' : State) (i t : Nat) (x : Status)
    (h : Core c s) (hr : r ∈ s.queue) (hm : r.msg = .completeTask i t x) (hf : Facts c s r s') : Core c s' := by
  have hi : i < c.n := by have := h.msgs r hr; rw [hm] at this; exact this.1
  have htok : isTok i r.msg = true := by rw [hm]; simp [isTok]
  obtain ⟨hrunning, k, hsh, htk, huniq⟩ := handled_is_token c s i r (h.stages i hi) hr htok
  rw [hm] at htk
  cases htk with
  | ct _ hk hrun hdone =>
    have hilt : i < s.stages.length := by rw [h.len]; exact hi
    have hrun' : (((s.stage i).tasks)[t]?.getD default).status = .running := by
      simpa [List.getD_eq_getElem?_getD] using hrun
    have hnr : (x == Status.redirect) = false := by
      revert hdone; cases x <;> simp [doneSt]
    -- the stage row written by CompleteTask
    generalize hst1 : ({ s.stage i with tasks := setTask (s.stage i).tasks t (fun y => { y with status := x }) } : StageSt) = st1
    have hshape : Shape st1.tasks (t + 1) := by
      subst hst1
      refine ⟨by simp [length_setTask]; exact hk, ?_, ?_⟩
      · intro y hy
        simp only [getD_setTask]
        by_cases hyt : y = t
        · subst hyt; simp [hk, hdone]
        · have : ¬ (y = t ∧ t < (s.stage i).tasks.length) := by omega
          simp only [this, ↓reduceIte]
          exact hsh.before y (by omega)
      · intro y hy hyl
        simp only [getD_setTask]
        have : ¬ (y = t ∧ t < (s.stage i).tasks.length) := by omega
        simp only [this, ↓reduceIte]
        simp only [length_setTask] at hyl
        exact hsh.after y (by omega) hyl
    by_cases hnext : t + 1 < (s.stage i).tasks.length
    · have heffs : (handle c s { r with attempts := r.attempts + 1 }).1.flatten =
          [.setStage i st1, .mark r.id, .push (.startTask i (t + 1))] := by
        subst hst1
        simp [handle, hm, hCompleteTask, hrun', hnr, hnext]
      apply core_token_step c hc s r s' i h hi hr htok hf { st1 with version := (s.stage i).version + 1 } (.startTask i (t + 1)) 0
      · rw [heffs]; simp [pushesOf]
      · rw [heffs]; exact noSetWf_of_all _ (by simp)
      · rw [heffs]; exact noSetCanceled_of_all _ (by simp)
      · intro j
        rw [heffs, applyTxn_setStage_then_quiet _ _ _ _ _ (noSetStage_of_all _ (by simp))]
        by_cases hij : i = j
        · subst hij; simp [hilt]
        · simp [hij]
      · subst hst1; exact hrunning
      · subst hst1; exact (h.stages i hi).nobypass
      · subst hst1; simp [length_setTask]
      · refine ⟨t + 1, hshape, ?_⟩
        apply TokOK.st
        · subst hst1; simp [length_setTask]; exact hnext
        · have key : (st1.tasks.getD (t + 1) default).status = Status.notStarted := by
            subst hst1
            show ((setTask (s.stage i).tasks t (fun y => { y with status := x })).getD (t + 1) default).status = Status.notStarted
            rw [getD_setTask]
            have hne : ¬ (t + 1 = t ∧ t < (s.stage i).tasks.length) := by omega
            simp only [hne, ↓reduceIte]
            exact hsh.after (t + 1) (by omega) hnext
          exact key
      · exact hi
    · have heffs : (handle c s { r with attempts := r.attempts + 1 }).1.flatten =
          [.setStage i st1, .mark r.id, .push (.completeStage i)] := by
        subst hst1
        simp [handle, hm, hCompleteTask, hrun', hnr, hnext]
      apply core_token_step c hc s r s' i h hi hr htok hf { st1 with version := (s.stage i).version + 1 } (.completeStage i) 0
      · rw [heffs]; simp [pushesOf]
      · rw [heffs]; exact noSetWf_of_all _ (by simp)
      · rw [heffs]; exact noSetCanceled_of_all _ (by simp)
      · intro j
        rw [heffs, applyTxn_setStage_then_quiet _ _ _ _ _ (noSetStage_of_all _ (by simp))]
        by_cases hij : i = j
        · subst hij; simp [hilt]
        · simp [hij]
      · subst hst1; exact hrunning
      · subst hst1; exact (h.stages i hi).nobypass
      · subst hst1; simp [length_setTask]
      · refine ⟨t + 1, hshape, ?_⟩
        apply TokOK.cs
        subst hst1; simp [length_setTask]; omega
      · exact hi

end Stab.Engine

namespace Stab.Engine
open Stab

theorem failureStatus_done (sc : StageCfg) (hf : sc.failp = true) : doneSt (failureStatus sc .terminal) = true := by
  unfold failureStatus
  split
  · rfl
  · simp [hf, doneSt]

/-- what the commit phase of RunTask does for a plain outcome: one push (the next token), at most one write of the
    stage row that keeps status, tasks and bypass flag -/
theorem runTaskCommit_shape (c : Cfg) (st : StageSt) (id i t att n : Nat) (oc : Outcome)
    (hpo : plainOutcome oc = true) (hfp : (c.stage i).failp = true) :
    ∃ st' m a,
      pushesOf (runTaskCommit c st id i t att n oc).flatten = [(m, a)] ∧
      noSetWf (runTaskCommit c st id i t att n oc).flatten ∧
      noSetCanceled (runTaskCommit c st id i t att n oc).flatten ∧
      (∀ (s : State) (j : Nat), s.stage i = st → i < s.stages.length →
        (applyTxn s (runTaskCommit c st id i t att n oc).flatten).stage j = if i = j then st' else s.stage j) ∧
      st'.status = st.status ∧ st'.jumpBypass = st.jumpBypass ∧ st'.tasks = st.tasks ∧
      (m = .runTask i t ∨ ∃ x, m = .completeTask i t x ∧ doneSt x = true) := by
  have hfs := failureStatus_done (c.stage i) hfp
  -- the two generic shapes
  have withWrite : ∀ (st2 : StageSt) (m : Msg) (a : Nat) (l : List Eff),
      l = [.setStage i st2, .mark id, (if a = 0 then .push m else .pushA m a)] →
      st2.status = st.status → st2.jumpBypass = st.jumpBypass → st2.tasks = st.tasks →
      (m = .runTask i t ∨ ∃ x, m = .completeTask i t x ∧ doneSt x = true) →
      ∃ st' m a, pushesOf l = [(m, a)] ∧ noSetWf l ∧ noSetCanceled l ∧
        (∀ (s : State) (j : Nat), s.stage i = st → i < s.stages.length →
          (applyTxn s l).stage j = if i = j then st' else s.stage j) ∧
        st'.status = st.status ∧ st'.jumpBypass = st.jumpBypass ∧ st'.tasks = st.tasks ∧
        (m = .runTask i t ∨ ∃ x, m = .completeTask i t x ∧ doneSt x = true) := by
    intro st2 m a l hl h1 h2 h3 h4
    refine ⟨{ st2 with version := st.version + 1 }, m, a, ?_, ?_, ?_, ?_, h1, h2, h3, h4⟩
    · subst hl; split <;> simp_all [pushesOf]
    · subst hl; apply noSetWf_of_all; split <;> simp
    · subst hl; apply noSetCanceled_of_all; split <;> simp
    · intro s j hs hlt
      subst hl
      rw [applyTxn_setStage_then_quiet _ _ _ _ _ (noSetStage_of_all _ (by split <;> simp))]
      by_cases hij : i = j
      · subst hij; simp [hlt, hs]
      · simp [hij]
  cases oc with
  | succ =>
    exact withWrite { st with outputs := KV.set st.outputs i n } (.completeTask i t .succeeded) 0 _ (by simp [runTaskCommit, processResult]) rfl rfl rfl
      (Or.inr ⟨_, rfl, by simp [doneSt]⟩)
  | terminal =>
    exact withWrite st (.completeTask i t (failureStatus (c.stage i) .terminal)) 0 _ (by simp [runTaskCommit, processResult]) rfl rfl rfl
      (Or.inr ⟨_, rfl, hfs⟩)
  | failedContinue =>
    exact withWrite st (.completeTask i t .failedContinue) 0 _ (by simp [runTaskCommit, processResult]) rfl rfl rfl
      (Or.inr ⟨_, rfl, by simp [doneSt]⟩)
  | permanent =>
    exact withWrite { st with hasEx := true } (.completeTask i t (failureStatus (c.stage i) .terminal)) 0 _ (by simp [runTaskCommit, processResult]) rfl rfl rfl
      (Or.inr ⟨_, rfl, hfs⟩)
  | running =>
    exact withWrite st (.runTask i t) 0 _ (by simp [runTaskCommit, processResult]) rfl rfl rfl (Or.inl rfl)
  | transient =>
    simp only [runTaskCommit]
    split
    · -- retry: no stage write
      refine ⟨st, .runTask i t, att - 1 + 1, by simp [pushesOf], noSetWf_of_all _ (by simp), noSetCanceled_of_all _ (by simp), ?_, rfl, rfl, rfl, Or.inl rfl⟩
      intro s j hs _
      rw [applyTxn_stage_quiet _ _ _ (noSetStage_of_all _ (by simp))]
      by_cases hij : i = j
      · subst hij; simp [hs]
      · simp [hij]
    · exact withWrite { st with hasEx := true } (.completeTask i t (failureStatus (c.stage i) .terminal)) 0 _ (by simp) rfl rfl rfl (Or.inr ⟨_, rfl, hfs⟩)
  | stopped => simp [plainOutcome] at hpo
  | canceled => simp [plainOutcome] at hpo
  | skipped => simp [plainOutcome] at hpo
  | redirect => simp [plainOutcome] at hpo
  | suspend => simp [plainOutcome] at hpo
  | jump tgt => simp [plainOutcome] at hpo

end Stab.Engine

namespace Stab.Engine
open Stab

theorem core_runTask (c : Cfg) (hc : PlainCfg c) (s : State) (r : Row) (s' : State) (i t : Nat)
    (h : Core c s) (hr : r ∈ s.queue) (hm : r.msg = .runTask i t) (hf : Facts c s r s') : Core c s' := by
  have hi : i < c.n := by have := h.msgs r hr; rw [hm] at this; exact this
  have htok : isTok i r.msg = true := by rw [hm]; simp [isTok]
  obtain ⟨hrunning, k, hsh, htk, huniq⟩ := handled_is_token c s i r (h.stages i hi) hr htok
  rw [hm] at htk
  cases htk with
  | rt hk hrun =>
    have hilt : i < s.stages.length := by rw [h.len]; exact hi
    have hrun' : (((s.stage i).tasks)[t]?.getD default).status = .running := by
      simpa [List.getD_eq_getElem?_getD] using hrun
    have hguard : runTaskGuard s r.id i t = none := by
      simp [runTaskGuard, hrun', h.nc, h.running, Status.isComplete]
    have hplain := plain_stage c hc i hi
    obtain ⟨st', m, a, h1, h2, h3, h4, h5, h6, h7, h8⟩ :=
      runTaskCommit_shape c (s.stage i) r.id i t (r.attempts + 1) (getCount s (i, t) + 1)
        (outcomeAt (c.stage i) t (getCount s (i, t) + 1)) (outcomeAt_plain c hc i t _ hi) hplain.failp
    have heffs : (handle c s { r with attempts := r.attempts + 1 }).1.flatten =
        (runTaskCommit c (s.stage i) r.id i t (r.attempts + 1) (getCount s (i, t) + 1)
          (outcomeAt (c.stage i) t (getCount s (i, t) + 1))).flatten := by
      simp [handle, hm, hRunTask, hguard]
    apply core_token_step c hc s r s' i h hi hr htok hf st' m a
    · rw [heffs]; exact h1
    · rw [heffs]; exact h2
    · rw [heffs]; exact h3
    · intro j; rw [heffs]; exact h4 s j rfl hilt
    · rw [h5]; exact hrunning
    · rw [h6]; exact (h.stages i hi).nobypass
    · rw [h7]
    · refine ⟨t, by rw [h7]; exact hsh, ?_⟩
      rcases h8 with rfl | ⟨x, rfl, hx⟩
      · exact TokOK.rt (by rw [h7]; exact hk) (by rw [h7]; exact hrun)
      · exact TokOK.ct x (by rw [h7]; exact hk) (by rw [h7]; exact hrun) hx
    · rcases h8 with rfl | ⟨x, rfl, hx⟩
      · exact hi
      · exact ⟨hi, hx⟩

end Stab.Engine

namespace Stab.Engine
open Stab

/-- a delivery that writes no row and pushes at most CompleteWorkflow messages -/
theorem core_quiet_step (c : Cfg) (s : State) (r : Row) (s' : State) (h : Core c s) (hf : Facts c s r s')
    (hss : noSetStage (handle c s { r with attempts := r.attempts + 1 }).1.flatten)
    (hwf : noSetWf (handle c s { r with attempts := r.attempts + 1 }).1.flatten)
    (hcan : noSetCanceled (handle c s { r with attempts := r.attempts + 1 }).1.flatten)
    (hpush : ∀ m a, (m, a) ∈ pushesOf (handle c s { r with attempts := r.attempts + 1 }).1.flatten → ∃ k, m = .completeWorkflow k)
    (hnotok : ∀ j, isTok j r.msg = false)
    (htrig : ∀ i k, r.msg = .startStage i k → (s.stage i).status = .notStarted →
      ¬ (∀ u ∈ c.reqs i, (s.stage u).status.isContinuable = true))
    (hcw : ∀ k, r.msg = .completeWorkflow k →
      ∃ m a, (m, a) ∈ pushesOf (handle c s { r with attempts := r.attempts + 1 }).1.flatten) : Core c s' := by
  have hstg : ∀ j, s'.stage j = s.stage j := by
    intro j; rw [stage_of_core hf.core j, applyTxn_stage_quiet _ _ _ hss]
  have hpushtok : ∀ j m a, (m, a) ∈ pushesOf (handle c s { r with attempts := r.attempts + 1 }).1.flatten → isTok j m = false := by
    intro j m a hm
    obtain ⟨k, rfl⟩ := hpush m a hm
    rfl
  have cwWitness : (∃ x ∈ s.queue, ∃ k, x.msg = .completeWorkflow k) → ∃ x ∈ s'.queue, ∃ k, x.msg = .completeWorkflow k := by
    intro ⟨x, hx, k, hm⟩
    by_cases hxr : x = r
    · subst hxr
      obtain ⟨m, a, hma⟩ := hcw k hm
      obtain ⟨k', rfl⟩ := hpush m a hma
      obtain ⟨y, hy, hym⟩ := hf.pushed _ _ hma
      exact ⟨y, hy, k', hym⟩
    · exact ⟨x, hf.keep x hx hxr, k, hm⟩
  refine ⟨?_, ?_, ?_, ?_, ?_, ?_, ?_, ?_, ?_⟩
  · rw [hf.core.1, applyTxn_len]; exact h.len
  · rw [hf.core.2.2, applyTxn_canceled_quiet _ _ hcan]; exact h.nc
  · rw [hf.core.2.1, applyTxn_wf_quiet _ _ hwf]; exact h.running
  · intro j hj
    apply stageInv_frame c s r s' j hf (h.stages j hj) (hstg j) (hnotok j) (hpushtok j)
    intro hns u hu
    rw [hstg u]; exact (h.stages j hj).ready hns u hu
  · intro x hx
    rcases hf.old x hx with h1 | ⟨h1, _⟩
    · exact h.msgs x h1.1
    · obtain ⟨k, hk⟩ := hpush _ _ h1
      rw [hk]; trivial
  · intro j hj hns hreq
    rw [hstg j] at hns
    have hreq' : ∀ u ∈ c.reqs j, (s.stage u).status.isContinuable = true := by
      intro u hu; have := hreq u hu; rwa [hstg u] at this
    obtain ⟨x, hx, k, hm⟩ := h.trig j hj hns hreq'
    by_cases hxr : x = r
    · subst hxr; exact absurd hreq' (htrig j k hm hns)
    · exact ⟨x, hf.keep x hx hxr, k, hm⟩
  · intro ⟨j, hj, hterm⟩
    rw [hstg j] at hterm
    exact cwWitness (h.halt ⟨j, hj, hterm⟩)
  · intro hall
    exact cwWitness (h.alldone (fun j hj => by have := hall j hj; rwa [hstg j] at this))
  · intro x hx j hm
    rcases hf.old x hx with h1 | ⟨h1, _⟩
    · rw [hstg j]; exact h.xs x h1.1 j hm
    · obtain ⟨k, hk⟩ := hpush _ _ h1
      rw [hm] at hk; cases hk

end Stab.Engine

namespace Stab.Engine
open Stab

theorem core_cancelStage (c : Cfg) (s : State) (r : Row) (s' : State) (i : Nat)
    (h : Core c s) (hr : r ∈ s.queue) (hm : r.msg = .cancelStage i) (hf : Facts c s r s') : Core c s' := by
  have hcomp := h.xs r hr i hm
  have heffs : (handle c s { r with attempts := r.attempts + 1 }).1.flatten = [] := by
    simp [handle, hm, hCancelStage, hcomp]
  apply core_quiet_step c s r s' h hf
  · rw [heffs]; intro e he; cases he
  · rw [heffs]; intro e he; cases he
  · rw [heffs]; intro e he; cases he
  · rw [heffs]; intro m a hma; cases hma
  · intro j; rw [hm]; rfl
  · intro i' k hm'; rw [hm] at hm'; cases hm'
  · intro k hm'; rw [hm] at hm'; cases hm'

/-- stage statuses seen through the list `s.stages` -/
theorem mem_stages_status (c : Cfg) (s : State) (h : Core c s) (st : StageSt) (hst : st ∈ s.stages) :
    ∃ j, j < c.n ∧ s.stage j = st := by
  obtain ⟨j, hj, hget⟩ := List.getElem_of_mem hst
  refine ⟨j, by rw [← h.len]; exact hj, ?_⟩
  simp [State.stage, List.getD_eq_getElem?_getD, List.getElem?_eq_getElem hj, hget]

theorem stage_mem_stages (c : Cfg) (s : State) (h : Core c s) (j : Nat) (hj : j < c.n) : s.stage j ∈ s.stages := by
  have hlt : j < s.stages.length := by rw [h.len]; exact hj
  simp only [State.stage, List.getD_eq_getElem?_getD, List.getElem?_eq_getElem hlt, Option.getD_some]
  exact List.getElem_mem hlt

theorem core_not_waiting (c : Cfg) (s : State) (h : Core c s) : explicitlyWaiting s = false := by
  unfold explicitlyWaiting
  rw [Bool.eq_false_iff]
  intro hany
  rw [List.any_eq_true] at hany
  obtain ⟨st, hst, hw⟩ := hany
  obtain ⟨j, hj, rfl⟩ := mem_stages_status c s h st hst
  have := (h.stages j hj).status
  revert this hw
  cases (s.stage j).status <;> simp [stOK]

theorem core_finalStatus (c : Cfg) (s : State) (h : Core c s) (k : Nat) (st : Status)
    (hfs : finalStatus c s k = some st) : st = .succeeded ∨ st = .terminal := by
  unfold finalStatus at hfs
  simp only [] at hfs
  split at hfs
  · cases hfs; exact Or.inl rfl
  · split at hfs
    · cases hfs; exact Or.inr rfl
    · split at hfs
      · rename_i hc
        exfalso
        rw [List.contains_iff_mem, List.mem_map] at hc
        obtain ⟨x, hx, hxs⟩ := hc
        obtain ⟨j, hj, rfl⟩ := mem_stages_status c s h x hx
        have := (h.stages j hj).status
        rw [hxs] at this; simp [stOK] at this
      · split at hfs
        · cases hfs; exact Or.inl rfl
        · split at hfs
          · cases hfs
          · split at hfs
            · cases hfs; exact Or.inr rfl
            · cases hfs

theorem core_completeWorkflow (c : Cfg) (s : State) (r : Row) (s' : State) (k : Nat)
    (h : Core c s) (hr : r ∈ s.queue) (hm : r.msg = .completeWorkflow k) (hf : Facts c s r s') :
    s'.wfStatus.isComplete = true ∨ Core c s' := by
  have hnc : s.wfStatus.isComplete = false := by rw [h.running]; rfl
  cases hfs : finalStatus c s k with
  | some st =>
    left
    have hst := core_finalStatus c s h k st hfs
    have hleg : Status.canTransition s.wfStatus st = true := by
      rw [h.running]; rcases hst with rfl | rfl <;> decide
    have heffs : (handle c s { r with attempts := r.attempts + 1 }).1.flatten =
        [.setWf st, .mark r.id] ++ (if st != .succeeded then (List.range c.n).filter (fun i => (s.stage i).status == .running) else []).map (fun i => Eff.push (.cancelStage i)) := by
      simp [handle, hm, hCompleteWorkflow, hnc, hfs, hleg, h.nc]
    rw [hf.core.2.1, heffs]
    have : ∀ (l : List Eff) (s0 : State), noSetWf l → (applyTxn s0 (.setWf st :: l)).wfStatus = st := by
      intro l s0 hl
      have := applyTxn_wf_quiet (applyEff s0 (.setWf st)) l hl
      simp only [applyTxn, List.foldl] at this ⊢
      rw [this]; rfl
    rw [List.cons_append, this]
    · rcases hst with rfl | rfl <;> rfl
    · intro e he st0 heq
      subst heq
      simp only [List.cons_append, List.nil_append, List.mem_cons, List.mem_map] at he
      rcases he with he | ⟨_, _, he⟩ <;> cases he
  | none =>
    right
    have hw := core_not_waiting c s h
    have heffs : (handle c s { r with attempts := r.attempts + 1 }).1.flatten = [.push (.completeWorkflow (k + 1))] := by
      simp [handle, hm, hCompleteWorkflow, hnc, hfs, hw]
    apply core_quiet_step c s r s' h hf
    · rw [heffs]; exact noSetStage_of_all _ (by simp)
    · rw [heffs]; exact noSetWf_of_all _ (by simp)
    · rw [heffs]; exact noSetCanceled_of_all _ (by simp)
    · rw [heffs]; intro m a hma; simp [pushesOf] at hma; exact ⟨k + 1, hma.1⟩
    · intro j; rw [hm]; rfl
    · intro i' k' hm'; rw [hm] at hm'; cases hm'
    · intro k' _; rw [heffs]; exact ⟨.completeWorkflow (k + 1), 0, by simp [pushesOf]⟩

end Stab.Engine

namespace Stab.Engine
open Stab

theorem andJoin_skip (ups : List Ready.Up) (h : ∃ u ∈ ups, u.status.isHalt = true) : (Ready.andJoin ups).phase = .skip := by
  unfold Ready.andJoin
  obtain ⟨u, hu, hh⟩ := h
  have : (ups.filter (·.status.isHalt)) ≠ [] := by
    intro he
    have hm : u ∈ ups.filter (·.status.isHalt) := by simp [List.mem_filter, hu, hh]
    rw [he] at hm; cases hm
  simp [this]

theorem andJoin_ready (ups : List Ready.Up) (h1 : ∀ u ∈ ups, u.status.isHalt = false)
    (h2 : ∀ u ∈ ups, u.status.isContinuable = true) : (Ready.andJoin ups).phase = .ready := by
  unfold Ready.andJoin
  have e1 : ups.filter (·.status.isHalt) = [] := by
    rw [List.filter_eq_nil_iff]; intro u hu; simp [h1 u hu]
  have e2 : ups.filter (fun u => !u.status.isContinuable) = [] := by
    rw [List.filter_eq_nil_iff]; intro u hu; simp [h2 u hu]
  simp [e1, e2]

theorem andJoin_notReady (ups : List Ready.Up) (h1 : ∀ u ∈ ups, u.status.isHalt = false)
    (h2 : ∃ u ∈ ups, u.status.isContinuable = false) :
    (Ready.andJoin ups).phase = .notReady ∧ (Ready.andJoin ups).active.isEmpty = false := by
  unfold Ready.andJoin
  have e1 : ups.filter (·.status.isHalt) = [] := by
    rw [List.filter_eq_nil_iff]; intro u hu; simp [h1 u hu]
  obtain ⟨u, hu, hnc⟩ := h2
  have e2 : ups.filter (fun u => !u.status.isContinuable) ≠ [] := by
    intro he
    have hm : u ∈ ups.filter (fun u => !u.status.isContinuable) := by simp [List.mem_filter, hu, hnc]
    rw [he] at hm; cases hm
  simp only [e1, List.map_nil, List.isEmpty_nil, Bool.not_true, Bool.false_eq_true, ↓reduceIte]
  have e3 : (ups.filter (fun u => !u.status.isContinuable)).isEmpty = false := by
    cases hq : ups.filter (fun u => !u.status.isContinuable) with
    | nil => exact absurd hq e2
    | cons a as => rfl
  simp only [e3, Bool.false_eq_true, ↓reduceIte]
  split
  · rename_i hne
    refine ⟨rfl, ?_⟩
    simp only [Bool.not_eq_true'] at hne
    cases hq : (List.filter (fun x => x.status.isActive) (ups.filter (fun u => !u.status.isContinuable))) with
    | nil => rw [hq] at hne; simp at hne
    | cons a as => simp
  · refine ⟨rfl, ?_⟩
    cases hq : ups.filter (fun u => !u.status.isContinuable) with
    | nil => exact absurd hq e2
    | cons a as => simp

theorem ready_cases (c : Cfg) (hc : PlainCfg c) (s : State) (h : Core c s) (i : Nat) (hi : i < c.n) :
    ((Ready.evaluate (readyIn c s i false)).phase = .ready ∧ ∀ u ∈ c.reqs i, (s.stage u).status.isContinuable = true) ∨
    ((Ready.evaluate (readyIn c s i false)).phase = .skip ∧ ∃ u ∈ c.reqs i, (s.stage u).status.isContinuable = false) ∨
    ((Ready.evaluate (readyIn c s i false)).phase = .notReady ∧ (∃ u ∈ c.reqs i, (s.stage u).status.isContinuable = false) ∧
      (Ready.evaluate (readyIn c s i false)).active.isEmpty = false ∧
      (c.reqs i).any (fun u => (s.stage u).status.isActive) = true) := by
  have hj := (plain_stage c hc i hi).join
  by_cases hemp : (c.reqs i) = []
  · left
    refine ⟨?_, by simp [hemp]⟩
    simp [Ready.evaluate, readyIn, hemp]
  · have hne : ((c.reqs i).map (fun u => ({ ref := u, status := (s.stage u).status } : Ready.Up))).isEmpty = false := by
      cases hq : c.reqs i with
      | nil => exact absurd hq hemp
      | cons a as => rfl
    have heval : Ready.evaluate (readyIn c s i false) =
        Ready.andJoin ((c.reqs i).map (fun u => ({ ref := u, status := (s.stage u).status } : Ready.Up))) := by
      simp [Ready.evaluate, readyIn, hne, hj]
    rw [heval]
    by_cases hhalt : ∃ u ∈ c.reqs i, (s.stage u).status.isHalt = true
    · right; left
      obtain ⟨u, hu, hh⟩ := hhalt
      refine ⟨andJoin_skip _ ⟨_, List.mem_map.mpr ⟨u, hu, rfl⟩, hh⟩, u, hu, ?_⟩
      revert hh; cases (s.stage u).status <;> simp [Status.isHalt, Status.isContinuable]
    · have hnh : ∀ u ∈ c.reqs i, (s.stage u).status.isHalt = false := by
        intro u hu
        cases hx : (s.stage u).status.isHalt with
        | false => rfl
        | true => exact absurd ⟨u, hu, hx⟩ hhalt
      have hnh' : ∀ x ∈ (c.reqs i).map (fun u => ({ ref := u, status := (s.stage u).status } : Ready.Up)), x.status.isHalt = false := by
        intro x hx
        obtain ⟨u, hu, rfl⟩ := List.mem_map.mp hx
        exact hnh u hu
      by_cases hall : ∀ u ∈ c.reqs i, (s.stage u).status.isContinuable = true
      · left
        refine ⟨andJoin_ready _ hnh' ?_, hall⟩
        intro x hx
        obtain ⟨u, hu, rfl⟩ := List.mem_map.mp hx
        exact hall u hu
      · right; right
        have hex : ∃ u ∈ c.reqs i, (s.stage u).status.isContinuable = false := by
          apply Classical.byContradiction
          intro hno
          apply hall
          intro u hu
          cases hx : (s.stage u).status.isContinuable with
          | true => rfl
          | false => exact absurd ⟨u, hu, hx⟩ hno
        obtain ⟨u, hu, hnc⟩ := hex
        have hun : u < c.n := by have := hc.dag i u hu; omega
        have hact : (s.stage u).status.isActive = true := by
          have h1 := (h.stages u hun).status
          have h2 := hnh u hu
          revert h1 h2 hnc
          cases (s.stage u).status <;> simp [stOK, Status.isHalt, Status.isContinuable, Status.isActive]
        obtain ⟨p1, p2⟩ := andJoin_notReady _ hnh' ⟨_, List.mem_map.mpr ⟨u, hu, rfl⟩, hnc⟩
        refine ⟨p1, ⟨u, hu, hnc⟩, p2, ?_⟩
        rw [List.any_eq_true]
        exact ⟨u, hu, hact⟩

end Stab.Engine

namespace Stab.Engine
open Stab

theorem applyTxn_two_setStage (s : State) (i : Nat) (a b : StageSt) (l : List Eff) (j : Nat) (h : noSetStage l)
    (hlt : i < s.stages.length) :
    (applyTxn s (.setStage i a :: .setStage i b :: l)).stage j =
      if i = j then { b with version := (s.stage i).version + 1 + 1 } else s.stage j := by
  have h1 := applyTxn_setStage_then_quiet (applyEff s (.setStage i a)) i b l j h
  simp only [applyTxn, List.foldl] at h1 ⊢
  rw [h1]
  have hl : (applyEff s (.setStage i a)).stages.length = s.stages.length := by simp
  rw [hl]
  by_cases hij : i = j
  · subst hij
    simp only [hlt, and_self, ↓reduceIte]
    rw [applyEff_setStage_stage]
    simp [hlt]
  · simp only [hij, false_and, ↓reduceIte]
    rw [applyEff_setStage_stage]
    simp [hij]

theorem core_startStage (c : Cfg) (hc : PlainCfg c) (s : State) (r : Row) (s' : State) (i k : Nat)
    (h : Core c s) (hr : r ∈ s.queue) (hm : r.msg = .startStage i k) (hf : Facts c s r s') : Core c s' := by
  have hi : i < c.n := by have := h.msgs r hr; rw [hm] at this; exact this
  have hplain := plain_stage c hc i hi
  have hinv := h.stages i hi
  have hnc : s.wfStatus.isComplete = false := by rw [h.running]; rfl
  have hbyp := hinv.nobypass
  have htasks : (s.stage i).tasks.isEmpty = false := by
    have h1 := hinv.ntasks
    have h2 := hplain.tasks
    cases hq : (s.stage i).tasks with
    | nil => rw [hq] at h1; simp at h1; exact absurd (List.eq_nil_of_length_eq_zero h1.symm) h2
    | cons a as => rfl
  have hnotok : ∀ j, isTok j r.msg = false := by intro j; rw [hm]; rfl
  -- the quiet outcomes
  have quiet : ∀ (l : List Eff), (handle c s { r with attempts := r.attempts + 1 }).1.flatten = l →
      (l = [] ∨ l = [.push (.completeWorkflow 0)]) →
      ((s.stage i).status = .notStarted → ¬ (∀ u ∈ c.reqs i, (s.stage u).status.isContinuable = true)) → Core c s' := by
    intro l hl hcase hnt
    apply core_quiet_step c s r s' h hf
    · rw [hl]; rcases hcase with rfl | rfl
      · intro e he; cases he
      · exact noSetStage_of_all _ (by simp)
    · rw [hl]; rcases hcase with rfl | rfl
      · intro e he; cases he
      · exact noSetWf_of_all _ (by simp)
    · rw [hl]; rcases hcase with rfl | rfl
      · intro e he; cases he
      · exact noSetCanceled_of_all _ (by simp)
    · rw [hl]; rcases hcase with rfl | rfl
      · intro m a hma; cases hma
      · intro m a hma; simp [pushesOf] at hma; exact ⟨0, hma.1⟩
    · exact hnotok
    · intro i' k' hm' hns
      rw [hm] at hm'; cases hm'
      exact hnt hns
    · intro k' hm'; rw [hm] at hm'; cases hm'
  by_cases hns : (s.stage i).status = .notStarted
  · rcases ready_cases c hc s h i hi with ⟨hph, hall⟩ | ⟨hph, hex⟩ | ⟨hph, hex, hact, hany⟩
    · -- READY: claim + plan
      have hilt : i < s.stages.length := by rw [h.len]; exact hi
      have hfired : ((c.stage i).join == JoinType.discriminator || (c.stage i).join == JoinType.nOfM) = false := by
        rw [hplain.join]; rfl
      generalize hclaimed : ({ s.stage i with status := .running, startSet := true } : StageSt) = claimed
      generalize hplanned : ({ claimed with joinFired := claimed.joinFired || false, data := plannedData c s i claimed.data } : StageSt) = planned
      have heffs : (handle c s { r with attempts := r.attempts + 1 }).1.flatten =
          [.setStage i claimed, .setStage i planned, .mark r.id, .push (.startTask i 0)] := by
        subst hplanned; subst hclaimed
        simp [handle, hm, hStartStage, hStartStageCore, startIfReady, h.nc, hnc, hns, hbyp, hph, hplain.enabled, hfired, htasks]
      have hpl_status : planned.status = .running := by subst hplanned; subst hclaimed; rfl
      have hpl_tasks : planned.tasks = (s.stage i).tasks := by subst hplanned; subst hclaimed; rfl
      have hpl_byp : planned.jumpBypass = false := by subst hplanned; subst hclaimed; exact hbyp
      have hstg : ∀ j, s'.stage j = if i = j then { planned with version := (s.stage i).version + 1 + 1 } else s.stage j := by
        intro j
        rw [stage_of_core hf.core j, heffs, applyTxn_two_setStage _ _ _ _ _ _ (noSetStage_of_all _ (by simp)) hilt]
      have hstg_i : s'.stage i = { planned with version := (s.stage i).version + 1 + 1 } := by rw [hstg i]; simp
      have hstg_ne : ∀ j, j ≠ i → s'.stage j = s.stage j := by intro j hj; rw [hstg j]; simp [Ne.symm hj]
      have hpush : pushesOf (handle c s { r with attempts := r.attempts + 1 }).1.flatten = [(.startTask i 0, 0)] := by
        rw [heffs]; simp [pushesOf]
      obtain ⟨hnewmem, hnewuniq⟩ := new_row_unique c s r s' hf _ _ hpush
      have hpushes : ∀ m' a', (m', a') ∈ pushesOf (handle c s { r with attempts := r.attempts + 1 }).1.flatten → m' = .startTask i 0 := by
        intro m' a' hm'; rw [hpush] at hm'; simp at hm'; exact hm'.1
      obtain ⟨hidle_tok, hidle_tasks⟩ := hinv.idle hns
      have hnotreq : ∀ j, j < c.n → (s.stage j).status ≠ .notStarted → i ∉ c.reqs j := by
        intro j hj hnsj hmem
        have := (h.stages j hj).ready hnsj i hmem
        rw [hns] at this; cases this
      refine ⟨?_, ?_, ?_, ?_, ?_, ?_, ?_, ?_, ?_⟩
      · rw [hf.core.1, applyTxn_len]; exact h.len
      · rw [hf.core.2.2, heffs, applyTxn_canceled_quiet _ _ (noSetCanceled_of_all _ (by simp))]; exact h.nc
      · rw [hf.core.2.1, heffs, applyTxn_wf_quiet _ _ (noSetWf_of_all _ (by simp))]; exact h.running
      · intro j hj
        by_cases hji : j = i
        · subst hji
          refine ⟨by rw [hstg_i]; simp only [hpl_tasks]; exact hinv.ntasks, by rw [hstg_i]; exact hpl_byp,
            by rw [hstg_i]; simp only [hpl_status]; rfl, ?_, ?_, ?_, ?_⟩
          · intro hx; rw [hstg_i] at hx; simp only [hpl_status] at hx; cases hx
          · intro _
            rw [hstg_i]
            refine ⟨0, _, ⟨by simp, by intro t ht; omega, ?_⟩, ?_, hnewmem, ?_⟩
            · intro t _ _
              simp only [hpl_tasks]
              exact hidle_tasks t
            · apply TokOK.st
              · simp only [hpl_tasks]
                cases hq : (s.stage j).tasks with
                | nil => rw [hq] at htasks; simp at htasks
                | cons a as => simp
              · simp only [hpl_tasks]; exact hidle_tasks 0
            · intro y hy hty
              by_cases hyq : y ∈ s.queue
              · rw [hidle_tok y hyq] at hty; cases hty
              · exact hnewuniq y hy hyq
          · intro hx; rw [hstg_i] at hx; simp only [hpl_status] at hx; cases hx
          · intro _ u hu
            have hlt := hc.dag j u hu
            rw [hstg_ne u (by omega)]
            exact hall u hu
        · apply stageInv_frame c s r s' j hf (h.stages j hj) (hstg_ne j hji) (hnotok j)
          · intro m' a' hm'
            rw [hpushes m' a' hm']
            simp only [isTok, beq_eq_false_iff_ne, ne_eq]
            exact fun he => hji he.symm
          · intro hnsj u hu
            have hui : u ≠ i := fun he => hnotreq j hj hnsj (he ▸ hu)
            rw [hstg_ne u hui]
            exact (h.stages j hj).ready hnsj u hu
      · intro x hx
        rcases hf.old x hx with h1 | ⟨h1, _⟩
        · exact h.msgs x h1.1
        · rw [hpushes _ _ h1]; exact hi
      · intro j hj hnsj hreq
        have hji : j ≠ i := by
          intro he; subst he; rw [hstg_i] at hnsj; simp only [hpl_status] at hnsj; cases hnsj
        rw [hstg_ne j hji] at hnsj
        have hreq' : ∀ u ∈ c.reqs j, (s.stage u).status.isContinuable = true := by
          intro u hu
          have := hreq u hu
          by_cases hui : u = i
          · subst hui; rw [hstg_i] at this; simp only [hpl_status] at this; cases this
          · rwa [hstg_ne u hui] at this
        obtain ⟨x, hx, r0, hmx⟩ := h.trig j hj hnsj hreq'
        refine ⟨x, witness_keep c s r s' hf x hx ?_, r0, hmx⟩
        intro he; rw [hmx, hm] at he; cases he; exact hji rfl
      · intro ⟨j, hj, hterm⟩
        have hji : j ≠ i := by
          intro he; subst he; rw [hstg_i] at hterm; simp only [hpl_status] at hterm; cases hterm
        rw [hstg_ne j hji] at hterm
        obtain ⟨x, hx, r0, hmx⟩ := h.halt ⟨j, hj, hterm⟩
        refine ⟨x, witness_keep c s r s' hf x hx ?_, r0, hmx⟩
        intro he; rw [hmx, hm] at he; cases he
      · intro hallc
        have := hallc i hi
        rw [hstg_i] at this; simp only [hpl_status] at this; cases this
      · intro x hx j hmx
        rcases hf.old x hx with h1 | ⟨h1, _⟩
        · have hcomp := h.xs x h1.1 j hmx
          have hji : j ≠ i := by
            intro he; subst he; rw [hns] at hcomp; cases hcomp
          rw [hstg_ne j hji]; exact hcomp
        · have := hpushes _ _ h1
          rw [hmx] at this; cases this
    · -- SKIP: a halted upstream; CompleteWorkflow is pushed
      apply quiet [.push (.completeWorkflow 0)]
      · simp [handle, hm, hStartStage, hStartStageCore, h.nc, hnc, hns, hbyp, hph]
      · exact Or.inr rfl
      · intro _ hall
        obtain ⟨u, hu, hnc'⟩ := hex
        rw [hall u hu] at hnc'; cases hnc'
    · -- NOT_READY with an active upstream: the message is dropped, the upstream will trigger again
      apply quiet []
      · simp [handle, hm, hStartStage, hStartStageCore, h.nc, hnc, hns, hbyp, hph, hact, hany]
      · exact Or.inl rfl
      · intro _ hall
        obtain ⟨u, hu, hnc'⟩ := hex
        rw [hall u hu] at hnc'; cases hnc'
  · -- the stage already left NOT_STARTED: stale StartStage
    have hnsb : ((s.stage i).status != Status.notStarted) = true := by simpa using hns
    rcases ready_cases c hc s h i hi with ⟨hph, _⟩ | ⟨hph, _⟩ | ⟨hph, _, _, _⟩
    · apply quiet []
      · simp [handle, hm, hStartStage, hStartStageCore, startIfReady, h.nc, hnc, hns, hbyp, hph, htasks, hnsb]
      · exact Or.inl rfl
      · intro hx; exact absurd hx hns
    · apply quiet [.push (.completeWorkflow 0)]
      · simp [handle, hm, hStartStage, hStartStageCore, h.nc, hnc, hns, hbyp, hph]
      · exact Or.inr rfl
      · intro hx; exact absurd hx hns
    · apply quiet []
      · simp [handle, hm, hStartStage, hStartStageCore, h.nc, hnc, hns, hbyp, hph, hnsb]
      · exact Or.inl rfl
      · intro hx; exact absurd hx hns

end Stab.Engine

namespace Stab.Engine
open Stab

theorem mem_down (c : Cfg) (i d : Nat) : d ∈ c.down i ↔ d < c.n ∧ i ∈ c.reqs d := by
  simp [Cfg.down, List.mem_filter]

theorem determineStatus_done (sc : StageCfg) (ts : List Status) (hne : ts ≠ []) (hall : ∀ x ∈ ts, doneSt x = true)
    (hfp : sc.failp = true) :
    determineStatus sc .running ts = .succeeded ∨ determineStatus sc .running ts = .failedContinue ∨
      determineStatus sc .running ts = .terminal := by
  have hemp : ts.isEmpty = false := by cases ts with
    | nil => exact absurd rfl hne
    | cons a as => rfl
  have notin : ∀ y : Status, doneSt y = false → ts.contains y = false := by
    intro y hy
    rw [Bool.eq_false_iff]
    intro hc
    rw [List.contains_iff_mem] at hc
    rw [hall y hc] at hy; cases hy
  have hany : ts.any (fun s => s == .notStarted || s == .running) = false := by
    rw [Bool.eq_false_iff]
    intro hc
    rw [List.any_eq_true] at hc
    obtain ⟨y, hy, hyy⟩ := hc
    have := hall y hy
    revert this hyy; cases y <;> simp [doneSt]
  unfold determineStatus
  simp only [hemp, Bool.false_eq_true, ↓reduceIte]
  by_cases hterm : ts.contains .terminal = true
  · simp only [hterm, ↓reduceIte]
    have := failureStatus_done sc hfp
    revert this
    cases failureStatus sc .terminal <;> simp [doneSt]
  · have hterm' : ts.contains .terminal = false := by simpa using hterm
    simp only [hterm', Bool.false_eq_true, ↓reduceIte, notin .stopped rfl, notin .canceled rfl, notin .paused rfl,
      notin .buffered rfl, notin .suspended rfl, hany]
    have hall2 : ts.all (fun s => s == .succeeded || s == .skipped || s == .failedContinue) = true := by
      rw [List.all_eq_true]
      intro y hy
      have h1 := hall y hy
      have h2 : y ≠ .terminal := by
        intro he; subst he
        have : ts.contains Status.terminal = true := by rw [List.contains_iff_mem]; exact hy
        rw [hterm'] at this; cases this
      revert h1 h2; cases y <;> simp [doneSt]
    simp only [hall2, ↓reduceIte]
    split
    · right; left; rfl
    · left; rfl

end Stab.Engine

namespace Stab.Engine
open Stab

theorem joinTracking_plain (c : Cfg) (hc : PlainCfg c) (s : State) (i : Nat) : joinTracking c s i = [] := by
  unfold joinTracking
  rw [List.filterMap_eq_nil_iff]
  intro d hd
  have hdn := ((mem_down c i d).mp hd).1
  have hj := (plain_stage c hc d hdn).join
  simp [hj]

theorem splitCont_plain (c : Cfg) (hc : PlainCfg c) (i : Nat) (hi : i < c.n) :
    splitCont (c.stage i) (c.down i) =
      if (c.down i).isEmpty then [.push (.completeWorkflow 0)] else (c.down i).map (fun d => Eff.push (.startStage d 0)) := by
  have hs := (plain_stage c hc i hi).split
  unfold splitCont splitPartition
  simp [hs]

theorem pushesOf_map_push (l : List Nat) (f : Nat → Msg) : pushesOf (l.map (fun d => Eff.push (f d))) = l.map (fun d => (f d, 0)) := by
  induction l with
  | nil => rfl
  | cons a as ih => simp [pushesOf, ih]

theorem core_completeStage (c : Cfg) (hc : PlainCfg c) (s : State) (r : Row) (s' : State) (i : Nat)
    (h : Core c s) (hr : r ∈ s.queue) (hm : r.msg = .completeStage i) (hf : Facts c s r s') : Core c s' := by
  have hi : i < c.n := by have := h.msgs r hr; rw [hm] at this; exact this
  have hplain := plain_stage c hc i hi
  have htok : isTok i r.msg = true := by rw [hm]; simp [isTok]
  obtain ⟨hrunning, k, hsh, htk, huniq⟩ := handled_is_token c s i r (h.stages i hi) hr htok
  have hinv := h.stages i hi
  have hilt : i < s.stages.length := by rw [h.len]; exact hi
  rw [hm] at htk
  cases htk with
  | cs hk =>
    -- every task has a recorded result
    have htsne : (s.stage i).tasks.map (·.status) ≠ [] := by
      intro he
      have h1 : (s.stage i).tasks = [] := by simpa using he
      have h2 := hinv.ntasks
      rw [h1] at h2
      exact hplain.tasks (List.eq_nil_of_length_eq_zero h2.symm)
    have htsdone : ∀ x ∈ (s.stage i).tasks.map (·.status), doneSt x = true := by
      intro x hx
      obtain ⟨tk, htk', rfl⟩ := List.mem_map.mp hx
      obtain ⟨t, ht, hget⟩ := List.getElem_of_mem htk'
      have := hsh.before t (by omega)
      simpa [List.getD_eq_getElem?_getD, List.getElem?_eq_getElem ht, hget] using this
    generalize hR : determineStatus (c.stage i) .running ((s.stage i).tasks.map (·.status)) = R at *
    have hRcases := determineStatus_done (c.stage i) _ htsne htsdone hplain.failp
    rw [hR] at hRcases
    have hRnr : (R == Status.running) = false := by rcases hRcases with rfl | rfl | rfl <;> rfl
    have hRleg : Status.canTransition .running R = true := by rcases hRcases with rfl | rfl | rfl <;> decide
    have hRdone : stOK R = true := by rcases hRcases with rfl | rfl | rfl <;> rfl
    have hRcomp : R.isComplete = true := by rcases hRcases with rfl | rfl | rfl <;> rfl
    have hnotreq : ∀ j, j < c.n → (s.stage j).status ≠ .notStarted → i ∉ c.reqs j := by
      intro j hj hnsj hmem
      have := (h.stages j hj).ready hnsj i hmem
      rw [hrunning] at this; cases this
    have hnotok_r : ∀ j, j ≠ i → isTok j r.msg = false := by
      intro j hj; rw [hm]; simp [isTok]; exact fun he => hj he.symm
    -- common part of the proof once the new stage row and the pushes are known
    have finish : ∀ (pushes : List Msg),
        (∀ j, s'.stage j = if i = j then { s.stage i with status := R, version := (s.stage i).version + 1 } else s.stage j) →
        s'.wfStatus = .running → s'.canceled = false → s'.stages.length = c.n →
        (∀ m a, (m, a) ∈ pushesOf (handle c s { r with attempts := r.attempts + 1 }).1.flatten → m ∈ pushes) →
        (∀ m ∈ pushes, ∃ x ∈ s'.queue, x.msg = m) →
        (∀ m ∈ pushes, (∃ d, d ∈ c.down i ∧ m = .startStage d 0) ∨ m = .completeWorkflow 0 ∨ (m = .cancelStage i)) →
        -- what the pushes guarantee
        (R.isContinuable = true → ∀ d ∈ c.down i, Msg.startStage d 0 ∈ pushes) →
        (R.isContinuable = true → (c.down i) = [] → Msg.completeWorkflow 0 ∈ pushes) →
        (R = .terminal → Msg.completeWorkflow 0 ∈ pushes) →
        (Msg.cancelStage i ∈ pushes → R = .terminal) → Core c s' := by
      intro pushes hstg hwf' hcan' hlen' hpin hpex hpkind hpdown hpleaf hpterm hpxs
      have hstg_i : s'.stage i = { s.stage i with status := R, version := (s.stage i).version + 1 } := by rw [hstg i]; simp
      have hstg_ne : ∀ j, j ≠ i → s'.stage j = s.stage j := by intro j hj; rw [hstg j]; simp [Ne.symm hj]
      have hpush_notok : ∀ j m a, (m, a) ∈ pushesOf (handle c s { r with attempts := r.attempts + 1 }).1.flatten → isTok j m = false := by
        intro j m a hma
        rcases hpkind m (hpin m a hma) with ⟨d, _, rfl⟩ | rfl | rfl <;> rfl
      refine ⟨hlen', hcan', hwf', ?_, ?_, ?_, ?_, ?_, ?_⟩
      · intro j hj
        by_cases hji : j = i
        · subst hji
          refine ⟨by rw [hstg_i]; exact hinv.ntasks, by rw [hstg_i]; exact hinv.nobypass, by rw [hstg_i]; exact hRdone, ?_, ?_, ?_, ?_⟩
          · intro hx; rw [hstg_i] at hx; simp only at hx; rw [hx] at hRcomp; cases hRcomp
          · intro hx; rw [hstg_i] at hx; simp only at hx; rw [hx] at hRnr; cases hRnr
          · intro _ y hy
            cases hty : isTok j y.msg with
            | false => rfl
            | true =>
              exfalso
              rcases hf.old y hy with h1 | ⟨h1, _⟩
              · exact h1.2 (huniq y h1.1 hty)
              · rw [hpush_notok j _ _ h1] at hty; cases hty
          · intro _ u hu
            have hlt := hc.dag j u hu
            rw [hstg_ne u (by omega)]
            exact hinv.ready (by rw [hrunning]; simp) u hu
        · apply stageInv_frame c s r s' j hf (h.stages j hj) (hstg_ne j hji) (hnotok_r j hji) (hpush_notok j)
          intro hnsj u hu
          have hui : u ≠ i := fun he => hnotreq j hj hnsj (he ▸ hu)
          rw [hstg_ne u hui]
          exact (h.stages j hj).ready hnsj u hu
      · intro x hx
        rcases hf.old x hx with h1 | ⟨h1, _⟩
        · exact h.msgs x h1.1
        · rcases hpkind _ (hpin _ _ h1) with ⟨d, hd, he⟩ | he | he
          · rw [he]; exact ((mem_down c i d).mp hd).1
          · rw [he]; trivial
          · rw [he]; exact hi
      · intro j hj hnsj hreq
        have hji : j ≠ i := by
          intro he; subst he; rw [hstg_i] at hnsj; simp only at hnsj; rw [hnsj] at hRcomp; cases hRcomp
        rw [hstg_ne j hji] at hnsj
        by_cases hij : i ∈ c.reqs j
        · -- a downstream stage: its StartStage was pushed (the completing status is continuable, by the premise)
          have hRc : R.isContinuable = true := by
            have := hreq i hij; rw [hstg_i] at this; exact this
          have hd : j ∈ c.down i := (mem_down c i j).mpr ⟨hj, hij⟩
          obtain ⟨x, hx, hmx⟩ := hpex _ (hpdown hRc j hd)
          exact ⟨x, hx, 0, hmx⟩
        · have hreq' : ∀ u ∈ c.reqs j, (s.stage u).status.isContinuable = true := by
            intro u hu
            have := hreq u hu
            have hui : u ≠ i := fun he => hij (he ▸ hu)
            rwa [hstg_ne u hui] at this
          obtain ⟨x, hx, r0, hmx⟩ := h.trig j hj hnsj hreq'
          refine ⟨x, witness_keep c s r s' hf x hx ?_, r0, hmx⟩
          intro he; rw [hmx, hm] at he; cases he
      · intro ⟨j, hj, hterm⟩
        by_cases hji : j = i
        · subst hji
          rw [hstg_i] at hterm
          obtain ⟨x, hx, hmx⟩ := hpex _ (hpterm hterm)
          exact ⟨x, hx, 0, hmx⟩
        · rw [hstg_ne j hji] at hterm
          obtain ⟨x, hx, r0, hmx⟩ := h.halt ⟨j, hj, hterm⟩
          refine ⟨x, witness_keep c s r s' hf x hx ?_, r0, hmx⟩
          intro he; rw [hmx, hm] at he; cases he
      · intro hallc
        have hRc : R.isContinuable = true := by have := hallc i hi; rw [hstg_i] at this; exact this
        cases hdn : c.down i with
        | nil =>
          obtain ⟨x, hx, hmx⟩ := hpex _ (hpleaf hRc hdn)
          exact ⟨x, hx, 0, hmx⟩
        | cons d ds =>
          exfalso
          have hd : d ∈ c.down i := by rw [hdn]; exact List.mem_cons_self ..
          obtain ⟨hdn', hid⟩ := (mem_down c i d).mp hd
          have hdi : d ≠ i := by have := hc.dag d i hid; omega
          have := hallc d hdn'
          rw [hstg_ne d hdi] at this
          have hdns : (s.stage d).status ≠ .notStarted := by
            intro he; rw [he] at this; cases this
          exact hnotreq d hdn' hdns hid
      · intro x hx j hmx
        rcases hf.old x hx with h1 | ⟨h1, _⟩
        · have hcomp := h.xs x h1.1 j hmx
          have hji : j ≠ i := by intro he; subst he; rw [hrunning] at hcomp; cases hcomp
          rw [hstg_ne j hji]; exact hcomp
        · have hin := hpin _ _ h1
          rw [hmx] at hin
          rcases hpkind _ hin with ⟨d, _, he⟩ | he | he
          · cases he
          · cases he
          · cases he
            rw [hstg_i]; exact hRcomp
    -- the two branches of the handler
    have hst_eq : ∀ (l : List Eff), noSetStage l → ∀ j,
        (applyTxn s (.setStage i { s.stage i with status := R } :: l)).stage j =
          if i = j then { s.stage i with status := R, version := (s.stage i).version + 1 } else s.stage j := by
      intro l hl j
      rw [applyTxn_setStage_then_quiet _ _ _ _ _ hl]
      by_cases hij : i = j
      · subst hij; simp [hilt]
      · simp [hij]
    by_cases hsucc : (R == Status.succeeded || R == Status.failedContinue || R == Status.skipped) = true
    · -- success-like completion
      have hRc : R.isContinuable = true := by
        rcases hRcases with rfl | rfl | rfl <;> simp_all [Status.isContinuable]
      have hRnt : R ≠ .terminal := by intro he; subst he; simp at hsucc
      have heffs : (handle c s { r with attempts := r.attempts + 1 }).1.flatten =
          .setStage i { s.stage i with status := R } :: .mark r.id ::
            (if (c.down i).isEmpty then [.push (.completeWorkflow 0)] else (c.down i).map (fun d => Eff.push (.startStage d 0))) := by
        simp [handle, hm, hCompleteStage, hrunning, hR, hRnr, hRleg, hsucc, joinTracking_plain c hc, splitCont_plain c hc i hi]
      have hquiet : noSetStage (Eff.mark r.id ::
            (if (c.down i).isEmpty then [Eff.push (.completeWorkflow 0)] else (c.down i).map (fun d => Eff.push (.startStage d 0)))) := by
        intro e he i' n' heq; subst heq
        simp only [List.mem_cons] at he
        rcases he with he | he
        · cases he
        · split at he
          · simp at he
          · simp at he
      have hpushes : pushesOf (handle c s { r with attempts := r.attempts + 1 }).1.flatten =
          if (c.down i).isEmpty then [(.completeWorkflow 0, 0)] else (c.down i).map (fun d => (Msg.startStage d 0, 0)) := by
        rw [heffs]; simp only [pushesOf]
        split
        · simp [pushesOf]
        · exact pushesOf_map_push _ _
      apply finish (if (c.down i).isEmpty then [.completeWorkflow 0] else (c.down i).map (fun d => Msg.startStage d 0))
      · intro j; rw [stage_of_core hf.core j, heffs]; exact hst_eq _ hquiet j
      · rw [hf.core.2.1, heffs, applyTxn_wf_quiet]; exact h.running
        intro e he st0 heq; subst heq
        simp only [List.mem_cons] at he
        rcases he with he | he | he
        · cases he
        · cases he
        · split at he <;> simp at he
      · rw [hf.core.2.2, heffs, applyTxn_canceled_quiet]; exact h.nc
        intro e he heq; subst heq
        simp only [List.mem_cons] at he
        rcases he with he | he | he
        · cases he
        · cases he
        · split at he <;> simp at he
      · rw [hf.core.1, applyTxn_len]; exact h.len
      · intro m a hma
        rw [hpushes] at hma
        split at hma
        · rename_i hde; simp only [hde, ↓reduceIte]; simp at hma; simp [hma.1]
        · rename_i hde; simp only [hde, ↓reduceIte]
          simp only [List.mem_map, Prod.mk.injEq] at hma
          obtain ⟨d, hd, rfl, _⟩ := hma
          exact List.mem_map.mpr ⟨d, hd, rfl⟩
      · intro m hmm
        apply hf.pushed m 0
        rw [hpushes]
        split at hmm
        · rename_i hde; simp only [hde, ↓reduceIte]; simp at hmm; simp [hmm]
        · rename_i hde; simp only [hde, ↓reduceIte]
          obtain ⟨d, hd, rfl⟩ := List.mem_map.mp hmm
          exact List.mem_map.mpr ⟨d, hd, rfl⟩
      · intro m hmm
        split at hmm
        · simp at hmm; exact Or.inr (Or.inl hmm)
        · obtain ⟨d, hd, rfl⟩ := List.mem_map.mp hmm
          exact Or.inl ⟨d, hd, rfl⟩
      · intro _ d hd
        have hne : (c.down i).isEmpty = false := by
          cases hq : c.down i with
          | nil => rw [hq] at hd; cases hd
          | cons a as => rfl
        simp only [hne, Bool.false_eq_true, ↓reduceIte]
        exact List.mem_map.mpr ⟨d, hd, rfl⟩
      · intro _ hdn; simp [hdn]
      · intro he; exact absurd he hRnt
      · intro hmem
        exfalso
        split at hmem
        · simp at hmem
        · obtain ⟨d, _, he⟩ := List.mem_map.mp hmem; cases he
    · -- the stage fails: CancelStage + CompleteWorkflow
      have hRt : R = .terminal := by
        rcases hRcases with rfl | rfl | rfl <;> simp_all
      have heffs : (handle c s { r with attempts := r.attempts + 1 }).1.flatten =
          [.setStage i { s.stage i with status := R }, .push (.cancelStage i), .push (.completeWorkflow 0)] := by
        simp [handle, hm, hCompleteStage, hrunning, hR, hRnr, hRleg, hsucc]
      have hpushes : pushesOf (handle c s { r with attempts := r.attempts + 1 }).1.flatten =
          [(.cancelStage i, 0), (.completeWorkflow 0, 0)] := by rw [heffs]; simp [pushesOf]
      apply finish [.cancelStage i, .completeWorkflow 0]
      · intro j; rw [stage_of_core hf.core j, heffs]; exact hst_eq _ (noSetStage_of_all _ (by simp)) j
      · rw [hf.core.2.1, heffs, applyTxn_wf_quiet _ _ (noSetWf_of_all _ (by simp))]; exact h.running
      · rw [hf.core.2.2, heffs, applyTxn_canceled_quiet _ _ (noSetCanceled_of_all _ (by simp))]; exact h.nc
      · rw [hf.core.1, applyTxn_len]; exact h.len
      · intro m a hma; rw [hpushes] at hma; simp at hma; rcases hma with ⟨rfl, _⟩ | ⟨rfl, _⟩ <;> simp
      · intro m hmm
        apply hf.pushed m 0
        rw [hpushes]; simp at hmm; rcases hmm with rfl | rfl <;> simp
      · intro m hmm; simp at hmm; rcases hmm with rfl | rfl
        · exact Or.inr (Or.inr rfl)
        · exact Or.inr (Or.inl rfl)
      · intro hRc; rw [hRt] at hRc; cases hRc
      · intro hRc; rw [hRt] at hRc; cases hRc
      · intro _; simp
      · intro _; exact hRt

end Stab.Engine

namespace Stab.Engine
open Stab

theorem pre_startWorkflow (c : Cfg) (s : State) (r : Row) (s' : State)
    (h : Pre c s) (hr : r ∈ s.queue) (hm : r.msg = .startWorkflow) (hf : Facts c s r s') :
    s'.wfStatus.isComplete = true ∨ Core c s' := by
  obtain ⟨x, hxq, hxm, hxuniq, hxothers⟩ := h.queue
  have hrx : r = x := hxuniq r hr hm
  subst hrx
  by_cases hinit : ((List.range c.n).filter (fun i => (c.reqs i).isEmpty)).isEmpty = true
  · left
    have heffs : (handle c s { r with attempts := r.attempts + 1 }).1.flatten = [.setWf .terminal, .mark r.id] := by
      simp [handle, hxm, hStartWorkflow, h.wf, h.nc, hinit]
    rw [hf.core.2.1, heffs]
    have := applyTxn_wf_quiet (applyEff s (.setWf .terminal)) [.mark r.id] (noSetWf_of_all _ (by simp))
    simp only [applyTxn, List.foldl] at this ⊢
    rw [this]; rfl
  · right
    have hinit' : ((List.range c.n).filter (fun i => (c.reqs i).isEmpty)).isEmpty = false := by simpa using hinit
    have heffs : (handle c s { r with attempts := r.attempts + 1 }).1.flatten =
        .setWf .running :: .mark r.id :: ((List.range c.n).filter (fun i => (c.reqs i).isEmpty)).map (fun i => Eff.push (.startStage i 0)) := by
      simp [handle, hxm, hStartWorkflow, h.wf, h.nc, hinit']
    have hss : noSetStage (handle c s { r with attempts := r.attempts + 1 }).1.flatten := by
      rw [heffs]; intro e he i n heq; subst heq
      simp only [List.mem_cons, List.mem_map] at he
      rcases he with he | he | ⟨_, _, he⟩ <;> cases he
    have hstg : ∀ j, s'.stage j = s.stage j := by
      intro j; rw [stage_of_core hf.core j, applyTxn_stage_quiet _ _ _ hss]
    have hpushes : pushesOf (handle c s { r with attempts := r.attempts + 1 }).1.flatten =
        ((List.range c.n).filter (fun i => (c.reqs i).isEmpty)).map (fun i => (Msg.startStage i 0, 0)) := by
      rw [heffs]; simp only [pushesOf]; exact pushesOf_map_push _ _
    have hnewmsg : ∀ y ∈ s'.queue, y.msg = .cancelWorkflow ∨ ∃ j, j < c.n ∧ (c.reqs j) = [] ∧ y.msg = .startStage j 0 := by
      intro y hy
      rcases hf.old y hy with h1 | ⟨h1, _⟩
      · left
        rcases hxothers y h1.1 with h2 | h2
        · exact absurd h2 h1.2
        · exact h2
      · right
        rw [hpushes] at h1
        simp only [List.mem_map, List.mem_filter, List.mem_range, Prod.mk.injEq] at h1
        obtain ⟨j, ⟨hj, hre⟩, hmj, _⟩ := h1
        exact ⟨j, hj, by simpa using hre, hmj.symm⟩
    have hwf' : s'.wfStatus = .running := by
      rw [hf.core.2.1, heffs]
      have := applyTxn_wf_quiet (applyEff s (.setWf .running)) (.mark r.id :: ((List.range c.n).filter (fun i => (c.reqs i).isEmpty)).map (fun i => Eff.push (.startStage i 0))) (by
        intro e he st heq; subst heq
        simp only [List.mem_cons, List.mem_map] at he
        rcases he with he | ⟨_, _, he⟩ <;> cases he)
      simp only [applyTxn, List.foldl] at this ⊢
      rw [this]; rfl
    refine ⟨?_, ?_, hwf', ?_, ?_, ?_, ?_, ?_, ?_⟩
    · rw [hf.core.1, applyTxn_len]; exact h.len
    · rw [hf.core.2.2, heffs, applyTxn_canceled_quiet]; exact h.nc
      intro e he heq; subst heq
      simp only [List.mem_cons, List.mem_map] at he
      rcases he with he | he | ⟨_, _, he⟩ <;> cases he
    · intro j hj
      obtain ⟨p1, p2, p3, p4⟩ := h.pristine j hj
      refine ⟨by rw [hstg j]; exact p3, by rw [hstg j]; exact p2, by rw [hstg j, p1]; rfl, ?_, ?_, ?_, ?_⟩
      · intro _
        refine ⟨?_, by rw [hstg j]; exact p4⟩
        intro y hy
        rcases hnewmsg y hy with hmy | ⟨j', _, _, hmy⟩ <;> (rw [hmy]; rfl)
      · intro hx; rw [hstg j, p1] at hx; cases hx
      · intro hx; rw [hstg j, p1] at hx; cases hx
      · intro hx; rw [hstg j, p1] at hx; exact absurd rfl hx
    · intro y hy
      rcases hnewmsg y hy with hmy | ⟨j', hj', _, hmy⟩
      · rw [hmy]; trivial
      · rw [hmy]; exact hj'
    · intro j hj _ hreq
      have hre : c.reqs j = [] := by
        cases hq' : c.reqs j with
        | nil => rfl
        | cons u us =>
          exfalso
          have hu : u ∈ c.reqs j := by rw [hq']; exact List.mem_cons_self ..
          have := hreq u hu
          have hun : u < c.n := by
            -- u is a requisite; requisites of plain configs precede the stage, but here only the status matters:
            -- an out-of-range stage index reads the default (NOT_STARTED) row
            by_cases hlt : u < c.n
            · exact hlt
            · exfalso
              have hd : s'.stage u = default := by
                simp only [State.stage, List.getD_eq_getElem?_getD]
                have : s'.stages.length ≤ u := by
                  rw [hf.core.1, applyTxn_len, h.len]; omega
                rw [List.getElem?_eq_none this]; rfl
              rw [hd] at this; cases this
          rw [hstg u, (h.pristine u hun).1] at this; cases this
      have hin : (Msg.startStage j 0, 0) ∈ pushesOf (handle c s { r with attempts := r.attempts + 1 }).1.flatten := by
        rw [hpushes]
        simp only [List.mem_map, List.mem_filter, List.mem_range]
        exact ⟨j, ⟨hj, by simp [hre]⟩, rfl⟩
      obtain ⟨y, hy, hmy⟩ := hf.pushed (.startStage j 0) 0 hin
      exact ⟨y, hy, 0, hmy⟩
    · intro ⟨j, hj, hterm⟩
      rw [hstg j, (h.pristine j hj).1] at hterm; cases hterm
    · intro hall
      exfalso
      cases hq' : (List.range c.n).filter (fun i => (c.reqs i).isEmpty) with
      | nil => rw [hq'] at hinit'; simp at hinit'
      | cons j js =>
        have hj : j ∈ (List.range c.n).filter (fun i => (c.reqs i).isEmpty) := by rw [hq']; exact List.mem_cons_self ..
        have hjn : j < c.n := by simpa using (List.mem_filter.mp hj).1
        have := hall j hjn
        rw [hstg j, (h.pristine j hjn).1] at this; cases this
    · intro y hy j hmy
      rcases hnewmsg y hy with hmy' | ⟨j', _, _, hmy'⟩ <;> (rw [hmy] at hmy'; cases hmy')

end Stab.Engine

namespace Stab.Engine
open Stab

/-- in a `Live` state no delivery makes the handler raise (only CompleteWorkflow can, on an illegal final transition) -/
theorem live_no_raise (c : Cfg) (s : State) (h : Live c s) (r : Row) (hr : r ∈ s.queue) :
    raises c s { r with attempts := r.attempts + 1 } = false := by
  unfold raises
  split
  · rename_i k hm
    unfold completeWorkflowRaises
    rcases h.cases with h1 | h1 | h1
    · simp [h1]
    · obtain ⟨x, _, hxm, _, hxothers⟩ := h1.queue
      simp only at hm
      rcases hxothers r hr with h2 | h2
      · subst h2; rw [hxm] at hm; cases hm
      · rw [h2] at hm; cases hm
    · have hnc : s.wfStatus.isComplete = false := by rw [h1.running]; rfl
      simp only [hnc, Bool.not_false, Bool.true_and]
      cases hfs : finalStatus c s k with
      | none => rfl
      | some st =>
        have := core_finalStatus c s h1 k st hfs
        rw [h1.running]
        rcases this with rfl | rfl <;> rfl
  · rfl

theorem applyTxn_canceled_iff (s : State) (l : List Eff) :
    (applyTxn s l).canceled = true ↔ s.canceled = true ∨ Eff.setCanceled ∈ l := by
  induction l generalizing s with
  | nil => simp [applyTxn]
  | cons e es ih =>
    have := ih (applyEff s e)
    simp only [applyTxn, List.foldl] at this ⊢
    rw [this]
    cases e with
    | setCanceled => simp [applyEff]
    | setStage i n =>
      have : (applyEff s (.setStage i n)).canceled = s.canceled := by simp only [applyEff]; split <;> rfl
      rw [this]; simp
    | mark id =>
      have : (applyEff s (.mark id)).canceled = s.canceled := by simp only [applyEff]; split <;> rfl
      rw [this]; simp
    | setWf st => simp [applyEff]
    | push m => simp [applyEff]
    | pushA m a => simp [applyEff]

/-- handling an unhandled cancel request in a workflow that is not final sets the cancel flag -/
theorem cancelWorkflow_sets_flag (c : Cfg) (s : State) (r : Row) (s' : State) (hm : r.msg = .cancelWorkflow)
    (hnc : s.wfStatus.isComplete = false)
    (hcore : sameCore s' (applyTxn s (handle c s { r with attempts := r.attempts + 1 }).1.flatten)) : s'.canceled = true := by
  rw [hcore.2.2, applyTxn_canceled_iff]
  right
  simp [handle, hm, hCancelWorkflow, hnc]

/-- **The driver invariant is preserved by every acknowledged delivery** — until a cancel request is accepted (from
    then on `CancInv`, `Lemmas/EngineCancel.lean`, takes over). -/
theorem live_step (c : Cfg) (hc : PlainCfg c) (s : State) (hg : Good s) (h : Live c s) (id : Nat) :
    (step c s (.deliver id)).canceled = true ∨ Live c (step c s (.deliver id)) := by
  cases hfind : s.queue.find? (fun x => x.id == id) with
  | none => right; simp only [step, hfind]; exact h
  | some r =>
    obtain ⟨hmem, hid⟩ := find_mem hfind
    subst hid
    have hun := h.plumb.unproc r hmem
    have hnr := live_no_raise c s h r hmem
    have hshape := deliver_shape c s r.id r hfind hun (h.plumb.fresh r hmem) hnr
    have hf := facts_of_shape c s r _ h.plumb hmem hshape
    have hpl := deliver_plumb c s r.id h.plumb
    rcases h.cases with h1 | h1 | h1
    · -- a final workflow status is final
      right
      refine ⟨hpl, Or.inl ?_⟩
      have := step_stable (wfFinal_stable _ h1) c (plain_noJump c hc) s (.deliver r.id) hg rfl
      rw [this]; exact h1
    · obtain ⟨x, _, hxm, _, hxothers⟩ := h1.queue
      rcases hxothers r hmem with h2 | h2
      · subst h2
        right
        refine ⟨hpl, ?_⟩
        rcases pre_startWorkflow c s r _ h1 hmem hxm hf with h2 | h2
        · exact Or.inl h2
        · exact Or.inr (Or.inr h2)
      · left
        exact cancelWorkflow_sets_flag c s r _ h2 (by rw [h1.wf]; rfl) hf.core
    · have hmp := h1.msgs r hmem
      cases hm : r.msg with
      | startStage i k => exact Or.inr ⟨hpl, Or.inr (Or.inr (core_startStage c hc s r _ i k h1 hmem hm hf))⟩
      | startTask i t => exact Or.inr ⟨hpl, Or.inr (Or.inr (core_startTask c hc s r _ i t h1 hmem hm hf))⟩
      | runTask i t => exact Or.inr ⟨hpl, Or.inr (Or.inr (core_runTask c hc s r _ i t h1 hmem hm hf))⟩
      | completeTask i t x => exact Or.inr ⟨hpl, Or.inr (Or.inr (core_completeTask c hc s r _ i t x h1 hmem hm hf))⟩
      | completeStage i => exact Or.inr ⟨hpl, Or.inr (Or.inr (core_completeStage c hc s r _ i h1 hmem hm hf))⟩
      | cancelStage i => exact Or.inr ⟨hpl, Or.inr (Or.inr (core_cancelStage c s r _ i h1 hmem hm hf))⟩
      | completeWorkflow k =>
        rcases core_completeWorkflow c s r _ k h1 hmem hm hf with h2 | h2
        · exact Or.inr ⟨hpl, Or.inl h2⟩
        · exact Or.inr ⟨hpl, Or.inr (Or.inr h2)⟩
      | cancelWorkflow => exact Or.inl (cancelWorkflow_sets_flag c s r _ hm (by rw [h1.running]; rfl) hf.core)
      | startWorkflow => rw [hm] at hmp; cases hmp
      | skipStage i => rw [hm] at hmp; cases hmp
      | jumpToStage a b => rw [hm] at hmp; cases hmp
      | signalStage i p => rw [hm] at hmp; cases hmp

end Stab.Engine

namespace Stab.Engine
open Stab

theorem start_live (c : Cfg) : Live c (start c) := by
  refine ⟨start_plumb c, Or.inr (Or.inl ?_)⟩
  refine ⟨?_, rfl, rfl, ⟨{ id := 1, msg := .startWorkflow }, by simp [start, applyEff, initState], rfl, ?_, ?_⟩, ?_⟩
  · simp [start, applyEff, initState, Cfg.n]
  · intro y hy _; simpa [start, applyEff, initState] using hy
  · intro y hy; left; simpa [start, applyEff, initState] using hy
  · intro i hi
    have hlt : i < c.stages.length := hi
    have hst : (start c).stage i = { tasks := (c.stage i).tasks.map (fun _ => ({} : TaskSt)) } := by
      simp [start, applyEff, initState, State.stage, Cfg.stage, List.getD_eq_getElem?_getD, hlt]
    rw [hst]
    refine ⟨rfl, rfl, by simp, ?_⟩
    intro t
    simp only [List.getD_eq_getElem?_getD, List.getElem?_map]
    cases (c.stage i).tasks[t]? <;> rfl

/-- an operation list that only delivers (and acknowledges) pending messages -/
def DeliverOnly (ops : List Op) : Prop := ∀ op ∈ ops, ∃ id, op = .deliver id

end Stab.Engine
