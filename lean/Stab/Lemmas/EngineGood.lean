/-
  Run-level invariant for jump-free workflows: queue messages are OK and every audit row is legal.
-/
import Stab.Lemmas.EngineQueueOK

namespace Stab.Engine
open Stab

theorem handle_legal (c : Cfg) (s : State) (row : Row) (h : MsgOK row.msg) :
    EffAll LegalEff s (handle c s row).1.flatten := by
  unfold handle
  cases hm : row.msg with
  | startWorkflow => exact hStartWorkflow_legal ..
  | startStage i r => exact hStartStage_legal ..
  | startTask i t => exact hStartTask_legal c ..
  | runTask i t => exact hRunTask_legal ..
  | completeTask i t st => rw [hm] at h; exact hCompleteTask_legal c _ _ _ _ _ h
  | completeStage i => exact hCompleteStage_legal ..
  | skipStage i => exact hSkipStage_legal ..
  | cancelStage i => exact hCancelStage_legal c ..
  | completeWorkflow r => exact hCompleteWorkflow_legal ..
  | cancelWorkflow => exact hCancelWorkflow_legal ..
  | jumpToStage a b => rw [hm] at h; exact absurd h (by simp [MsgOK])
  | signalStage i p => exact hSignalStage_legal c ..

theorem handle_ok (c : Cfg) (hc : NoJumpCfg c) (s : State) (row : Row) (h : MsgOK row.msg) :
    EffsOK (handle c s row).1.flatten := by
  unfold handle
  cases hm : row.msg with
  | startWorkflow => exact hStartWorkflow_ok _ _ _
  | startStage i r => exact hStartStage_ok _ _ _ _ _
  | startTask i t => exact hStartTask_ok c _ _ _ _
  | runTask i t => exact hRunTask_ok _ hc _ _ _ _ _
  | completeTask i t st => exact hCompleteTask_ok c _ _ _ _ _
  | completeStage i => exact hCompleteStage_ok _ _ _ _
  | skipStage i => exact hSkipStage_ok _ _ _ _
  | cancelStage i => exact hCancelStage_ok c _ _ _
  | completeWorkflow r => exact hCompleteWorkflow_ok _ _ _ _
  | cancelWorkflow => exact hCancelWorkflow_ok _ _ _
  | jumpToStage a b => rw [hm] at h; exact absurd h (by simp [MsgOK])
  | signalStage i p => exact hSignalStage_ok c _ _ _ _

/-- queue messages OK ∧ audit rows legal -/
structure Good (s : State) : Prop where
  queue : ∀ r ∈ s.queue, MsgOK r.msg
  audit : ∀ r ∈ s.audit, LegalRow r

theorem applyEff_queue (s : State) (e : Eff) (he : EffOK e) (hq : ∀ r ∈ s.queue, MsgOK r.msg) :
    ∀ r ∈ (applyEff s e).queue, MsgOK r.msg := by
  cases e with
  | push m =>
    intro r hr
    simp only [applyEff, List.mem_append, List.mem_singleton] at hr
    rcases hr with h | h
    · exact hq r h
    · subst h; exact he
  | pushA m a =>
    intro r hr
    simp only [applyEff, List.mem_append, List.mem_singleton] at hr
    rcases hr with h | h
    · exact hq r h
    · subst h; exact he
  | setStage i new => simp only [applyEff]; split <;> simpa using hq
  | setWf st => simpa [applyEff] using hq
  | setCanceled => simpa [applyEff] using hq
  | mark id => simp only [applyEff]; split <;> simpa using hq

theorem applyTxn_good (s : State) (l : List Eff) (hs : Good s) (hok : EffsOK l) (hl : EffAll LegalEff s l) :
    Good (applyTxn s l) := by
  induction l generalizing s with
  | nil => simpa [applyTxn] using hs
  | cons e es ih =>
    obtain ⟨he, hes⟩ := hl
    have hok' := (effsOK_cons e es).mp hok
    simp only [applyTxn, List.foldl]
    apply ih
    · refine ⟨applyEff_queue s e hok'.1 hs.queue, ?_⟩
      intro r hr
      rw [applyEff_audit, List.mem_append] at hr
      rcases hr with h | h
      · exact hs.audit r h
      · exact he r h
    · exact hok'.2
    · exact hes

theorem good_of_same (s s' : State) (hq : ∀ r ∈ s'.queue, ∃ r0 ∈ s.queue, r.msg = r0.msg) (ha : s'.audit = s.audit)
    (h : Good s) : Good s' := by
  refine ⟨?_, by rw [ha]; exact h.audit⟩
  intro r hr
  obtain ⟨r0, h0, he⟩ := hq r hr
  rw [he]; exact h.queue r0 h0

theorem claimRow_good (s : State) (id : Nat) (h : Good s) : Good (claimRow s id) := by
  refine good_of_same s (claimRow s id) ?_ rfl h
  intro r hr
  simp only [claimRow, List.mem_map] at hr
  obtain ⟨r0, h0, rfl⟩ := hr
  exact ⟨r0, h0, by split <;> rfl⟩

theorem ackRow_good (s : State) (id : Nat) (h : Good s) : Good (ackRow s id) := by
  refine good_of_same s (ackRow s id) ?_ rfl h
  intro r hr
  simp only [ackRow, List.mem_filter] at hr
  exact ⟨r, hr.1, rfl⟩

theorem recordExec_good (c : Cfg) (s : State) (row : Row) (h : Good s) : Good (recordExec c s row) := by
  unfold recordExec
  split
  · exact ⟨by simpa [bumpCount] using h.queue, by simpa [bumpCount] using h.audit⟩
  · exact h

theorem effAll_take (P : State → Eff → Prop) (s : State) (ts : List Txn) (k : Nat) (h : EffAll P s ts.flatten) :
    EffAll P s (ts.take k).flatten := by
  have : ts.flatten = (ts.take k).flatten ++ (ts.drop k).flatten := by
    rw [← List.flatten_append, List.take_append_drop]
  rw [this, EffAll_append] at h
  exact h.1

theorem effsOK_take (ts : List Txn) (k : Nat) (h : EffsOK ts.flatten) : EffsOK (ts.take k).flatten := by
  have : ts.flatten = (ts.take k).flatten ++ (ts.drop k).flatten := by
    rw [← List.flatten_append, List.take_append_drop]
  rw [this, effsOK_append] at h
  exact h.1

/-- `LegalEff` only reads the stage rows and the workflow status -/
theorem legalEff_congr (a b : State) (e : Eff) (h1 : a.stages = b.stages) (h2 : a.wfStatus = b.wfStatus) :
    LegalEff a e → LegalEff b e := by
  intro hle
  cases e <;> simp_all [LegalEff, effRows, State.stage]

theorem applyEff_congr (a b : State) (e : Eff) (h1 : a.stages = b.stages) (h2 : a.wfStatus = b.wfStatus) :
    (applyEff a e).stages = (applyEff b e).stages ∧ (applyEff a e).wfStatus = (applyEff b e).wfStatus := by
  cases e <;> simp only [applyEff, State.stage, h1, h2] <;> (repeat' split) <;> simp_all

theorem effAll_congr (a b : State) (l : List Eff) (h1 : a.stages = b.stages) (h2 : a.wfStatus = b.wfStatus) :
    EffAll LegalEff a l → EffAll LegalEff b l := by
  induction l generalizing a b with
  | nil => intro; trivial
  | cons e es ih =>
    intro ⟨he, hes⟩
    obtain ⟨h3, h4⟩ := applyEff_congr a b e h1 h2
    exact ⟨legalEff_congr a b e h1 h2 he, ih _ _ h3 h4 hes⟩

theorem afterHandle_good (c : Cfg) (hc : NoJumpCfg c) (s : State) (row : Row) (k : Option Nat)
    (hm : MsgOK row.msg) (h : Good s) : Good (afterHandle c s row k) := by
  unfold afterHandle
  simp only []
  rw [applyTxns_eq_flatten]
  have hl := handle_legal c s row hm
  have hok := handle_ok c hc s row hm
  -- the state the transactions are applied to differs from `s` only in ledger / counters
  generalize hs2 : (if ((handle c s row).2 && k == some 0) = true then
      { (if (handle c s row).2 = true then recordExec c s row else s) with execCount := s.execCount }
    else if (handle c s row).2 = true then recordExec c s row else s) = s2
  have hs2q : s2.queue = s.queue ∧ s2.audit = s.audit ∧ s2.stages = s.stages ∧ s2.wfStatus = s.wfStatus := by
    subst hs2
    have hr : (recordExec c s row).queue = s.queue ∧ (recordExec c s row).audit = s.audit ∧
        (recordExec c s row).stages = s.stages ∧ (recordExec c s row).wfStatus = s.wfStatus := by
      unfold recordExec; split <;> simp [bumpCount]
    repeat' split
    all_goals simp [hr]
  obtain ⟨q1, q2, q3, q4⟩ := hs2q
  have hg2 : Good s2 := ⟨by rw [q1]; exact h.queue, by rw [q2]; exact h.audit⟩
  cases k with
  | none => exact applyTxn_good s2 _ hg2 hok (effAll_congr s s2 _ q3.symm q4.symm hl)
  | some k =>
    exact applyTxn_good s2 _ hg2 (effsOK_take _ k hok) (effAll_congr s s2 _ q3.symm q4.symm (effAll_take _ s _ k hl))

theorem deliverRow_good (c : Cfg) (hc : NoJumpCfg c) (s : State) (row0 : Row) (ack : Bool) (k : Option Nat)
    (hmem : row0 ∈ s.queue) (h : Good s) : Good (deliverRow c s row0 ack k) := by
  have hm : MsgOK row0.msg := h.queue row0 hmem
  have h1 := claimRow_good s row0.id h
  have h3 := afterHandle_good c hc (claimRow s row0.id) { row0 with attempts := row0.attempts + 1 } k hm h1
  have hmark : ∀ s' : State, Good s' → Good (applyEff s' (.mark row0.id)) := by
    intro s' hs'
    exact applyTxn_good s' [.mark row0.id] hs' (by intro e he; simp at he; subst he; trivial) ⟨by simp, trivial⟩
  unfold deliverRow
  simp only []
  repeat' split
  all_goals first | exact h1 | exact h3 | exact ackRow_good _ _ h1 | exact hmark _ h3 | exact ackRow_good _ _ (hmark _ h3)

theorem sweepStage_ok (s : State) (i : Nat) (m : Msg) (hm : m ∈ sweepStage s i) : MsgOK m := by
  unfold sweepStage at hm
  simp only [] at hm
  split at hm
  · split at hm
    · simp only [List.mem_map] at hm
      obtain ⟨_, _, rfl⟩ := hm; trivial
    · split at hm
      · split at hm
        · split at hm
          · cases hm
          · simp only [List.mem_singleton] at hm; subst hm; trivial
        · cases hm
      · simp only [List.mem_singleton] at hm; subst hm; trivial
  · simp only [List.mem_singleton] at hm; subst hm; trivial

theorem sweep_ok (c : Cfg) (s : State) : EffsOK ((sweepMsgs c s).map Eff.push) := by
  intro e he
  simp only [List.mem_map] at he
  obtain ⟨m, hm, rfl⟩ := he
  simp only [EffOK]
  unfold sweepMsgs at hm
  simp only [] at hm
  split at hm
  · cases hm
  · split at hm
    · split at hm
      · simp only [List.mem_singleton] at hm; subst hm; trivial
      · cases hm
    · simp only [List.mem_flatMap] at hm
      obtain ⟨i, _, hi⟩ := hm
      exact sweepStage_ok s i m hi

theorem step_good (c : Cfg) (hc : NoJumpCfg c) (s : State) (op : Op) (h : Good s) : Good (step c s op) := by
  cases op with
  | deliver id =>
    simp only [step]; split
    · exact h
    · rename_i row0 hf; exact deliverRow_good c hc s row0 _ _ (List.mem_of_find?_eq_some hf) h
  | deliverNoAck id =>
    simp only [step]; split
    · exact h
    · rename_i row0 hf; exact deliverRow_good c hc s row0 _ _ (List.mem_of_find?_eq_some hf) h
  | crash id k =>
    simp only [step]; split
    · exact h
    · rename_i row0 hf; exact deliverRow_good c hc s row0 _ _ (List.mem_of_find?_eq_some hf) h
  | cancel => exact applyTxn_good s [.push .cancelWorkflow] h (by intro e he; simp at he; subst he; trivial) ⟨by simp, trivial⟩
  | signal i p => exact applyTxn_good s [.push (.signalStage i p)] h (by intro e he; simp at he; subst he; trivial) ⟨by simp, trivial⟩
  | sweep =>
    simp only [step]
    exact applyTxn_good s _ h (sweep_ok c s) (effAll_quietB _ _ (by simp [Eff.quiet, List.all_map, Function.comp_def]))
  | nested id inner =>
    simp only [step]
    split
    · exact h
    · rename_i row0 hf
      have hmem := List.mem_of_find?_eq_some hf
      split
      · -- RunTask: two phases with the second worker's deliveries in between
        rename_i i t hmsg
        have h1 := claimRow_good s row0.id h
        split
        · exact ackRow_good _ _ h1
        · split
          · exact deliverRow_good c hc s row0 _ _ hmem h
          · have h2 := recordExec_good c (claimRow s row0.id) { row0 with attempts := row0.attempts + 1 } h1
            -- inner deliveries preserve Good
            have hfold : ∀ (l : List Nat) (st : State), Good st →
                Good (l.foldl (fun st j =>
                  match st.queue.find? (fun r => r.id == j) with
                  | none => st
                  | some rj => deliverRow c st rj true none) st) := by
              intro l
              induction l with
              | nil => intro st hst; exact hst
              | cons j js ih =>
                intro st hst
                simp only [List.foldl]
                apply ih
                split
                · exact hst
                · rename_i rj hfj
                  exact deliverRow_good c hc st rj _ _ (List.mem_of_find?_eq_some hfj) hst
            have h3 := hfold inner _ h2
            have hmark : ∀ s' : State, Good s' → Good (applyEff s' (.mark row0.id)) := by
              intro s' hs'
              exact applyTxn_good s' [.mark row0.id] hs' (by intro e he; simp at he; subst he; trivial) ⟨by simp, trivial⟩
            apply ackRow_good
            apply hmark
            rw [applyTxns_eq_flatten]
            exact applyTxn_good _ _ h3 (runTaskCommit_ok c hc _ _ _ _ _ _) (runTaskCommit_legal c _ _ _ _ _ _ _)
      · exact deliverRow_good c hc s row0 _ _ hmem h

theorem start_good (c : Cfg) : Good (start c) := by
  refine ⟨?_, ?_⟩
  · intro r hr
    simp [start, applyEff, initState] at hr
    subst hr; trivial
  · intro r hr
    simp [start, applyEff, initState] at hr

theorem run_good (c : Cfg) (hc : NoJumpCfg c) (ops : List Op) : Good (run c ops) := by
  unfold run
  suffices ∀ s, Good s → Good (ops.foldl (step c) s) from this _ (start_good c)
  induction ops with
  | nil => intro s h; exact h
  | cons op ops ih => intro s h; exact ih _ (step_good c hc s op h)

end Stab.Engine
