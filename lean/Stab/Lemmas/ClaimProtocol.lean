/-
  Invariants of the `ClaimProtocol` transition system (used by Props/C04.lean).

  * `Jok`   — what the ghost counters say about the join-stage row (and the upstream rows)
  * `Wtok`  — per worker: the version token it holds is not ahead of the row, and if it is still current then
              the snapshot it carries is still accurate
  * `Own`   — with predefined tasks only the worker that committed NOT_STARTED → RUNNING is ever past the claim
-/
import Stab.Model.ClaimProtocol

namespace Stab.ClaimProtocol
open Stab

/-- token invariant of a single worker relative to the shared rows -/
def Wtok (s : St) : W → Prop
  | .sTasks _ st v _ => v ≤ s.j.version ∧ (v = s.j.version → st = s.j.status) ∧ (st = .running → s.j.status = .running)
  | .sUps st v _ h =>
      v ≤ s.j.version ∧ (v = s.j.version → st = s.j.status ∧ h = s.j.hasTasks) ∧ (st = .running → s.j.status = .running)
  | .sZombie v => v ≤ s.j.version ∧ (v = s.j.version → s.j.hasTasks = false) ∧ s.j.status = .running
  | .sClaim exp v =>
      v ≤ s.j.version ∧ (exp = .running → (v = s.j.version → s.j.hasTasks = false) ∧ s.j.status = .running)
  | .sPlan v => v ≤ s.j.version ∧ (v = s.j.version → s.j.planned = false) ∧ s.j.status = .running
  | .sPlanTxn v => v ≤ s.j.version ∧ (v = s.j.version → s.j.planned = false) ∧ s.j.status = .running
  | .sReplanRow => s.j.status = .running
  | .sReplanTasks st v => v ≤ s.j.version ∧ st = .running ∧ s.j.status = .running
  | .cRow u v => ∀ r : URow, s.ups[u]? = some r → v ≤ r.version ∧ (v = r.version → r.status = Status.running)
  | .cTrack u v _ => ∀ r : URow, s.ups[u]? = some r → v ≤ r.version ∧ (v = r.version → r.status = Status.running)
  | .cTrackTxn u v _ _ _ => ∀ r : URow, s.ups[u]? = some r → v ≤ r.version ∧ (v = r.version → r.status = Status.running)
  | .cTxn u v => ∀ r : URow, s.ups[u]? = some r → v ≤ r.version ∧ (v = r.version → r.status = Status.running)
  | _ => True

structure Jok (s : St) : Prop where
  claims : s.claimCommits = if s.j.status = .notStarted then 0 else 1
  planned_running : s.j.planned = true → s.j.status = .running
  plans : s.planCommits = if s.j.planned = true then 1 else 0
  starts : s.startTasks = s.planCommits
  tasks : s.j.hasTasks = (s.cfg.predefined || s.j.planned)
  fired : s.j.fired = (s.j.planned && s.cfg.fires)
  ups : ∀ (k : Nat) (r : URow), s.ups[k]? = some r → r.pushes = 0 ∨ (r.pushes = 1 ∧ r.status = Status.succeeded)

def Own (s : St) : Prop :=
  s.cfg.predefined = true → ∀ (i : Nat) (w : W), s.ws[i]? = some w → w.postClaim = true → s.claimer = some i ∧ s.j.planned = false

structure Inv (s : St) : Prop where
  jok : Jok s
  tok : ∀ (i : Nat) (w : W), s.ws[i]? = some w → Wtok s w
  own : Own s

/-- how one step may change the shared rows: versions only grow, an unchanged version means an unchanged row,
    RUNNING / planned are stable -/
structure Mono (a b : St) : Prop where
  cfg : b.cfg = a.cfg
  ver : a.j.version ≤ b.j.version
  same : a.j.version = b.j.version → b.j = a.j
  running : a.j.status = .running → b.j.status = .running
  ups : ∀ (k : Nat) (ra : URow), a.ups[k]? = some ra → ∃ rb : URow, b.ups[k]? = some rb ∧ ra.version ≤ rb.version ∧ (ra.version = rb.version → rb = ra)
  upsNone : ∀ k : Nat, a.ups[k]? = none → b.ups[k]? = none

theorem Mono.refl (a : St) : Mono a a :=
  ⟨rfl, Nat.le_refl _, fun _ => rfl, id, fun _ ra h => ⟨ra, h, Nat.le_refl _, fun _ => rfl⟩, fun _ h => h⟩

/-- frame: a worker that does not move keeps its token invariant across any `Mono` change -/
theorem Wtok.mono {a b : St} (m : Mono a b) (w : W) (h : Wtok a w) : Wtok b w := by
  have hv := m.ver
  have hs := m.same
  have hr := m.running
  cases w <;> simp only [Wtok] at h ⊢
  case sTasks exp st v f =>
    refine ⟨by omega, fun e => ?_, fun e => hr (h.2.2 e)⟩
    have : a.j.version = b.j.version := by omega
    rw [hs this]; exact h.2.1 (by omega)
  case sUps st v f hh =>
    refine ⟨by omega, fun e => ?_, fun e => hr (h.2.2 e)⟩
    have : a.j.version = b.j.version := by omega
    rw [hs this]; exact h.2.1 (by omega)
  case sZombie v =>
    refine ⟨by omega, fun e => ?_, hr h.2.2⟩
    have : a.j.version = b.j.version := by omega
    rw [hs this]; exact h.2.1 (by omega)
  case sClaim exp v =>
    refine ⟨by omega, fun e => ⟨fun e2 => ?_, hr (h.2 e).2⟩⟩
    have : a.j.version = b.j.version := by omega
    rw [hs this]; exact (h.2 e).1 (by omega)
  case sPlan v =>
    refine ⟨by omega, fun e => ?_, hr h.2.2⟩
    have : a.j.version = b.j.version := by omega
    rw [hs this]; exact h.2.1 (by omega)
  case sPlanTxn v =>
    refine ⟨by omega, fun e => ?_, hr h.2.2⟩
    have : a.j.version = b.j.version := by omega
    rw [hs this]; exact h.2.1 (by omega)
  case sReplanRow => exact hr h
  case sReplanTasks st v => exact ⟨by omega, h.2.1, hr h.2.2⟩
  case cRow u v =>
    intro r hb
    cases ha : a.ups[u]? with
    | none => rw [m.upsNone u ha] at hb; cases hb
    | some ra =>
      obtain ⟨rb, hb', hle, heq⟩ := m.ups u ra ha
      rw [hb'] at hb; cases hb
      have := h ra ha
      refine ⟨by omega, fun e => ?_⟩
      have e2 : ra.version = r.version := by omega
      rw [heq e2]; exact this.2 (by omega)
  case cTrack u v t =>
    intro r hb
    cases ha : a.ups[u]? with
    | none => rw [m.upsNone u ha] at hb; cases hb
    | some ra =>
      obtain ⟨rb, hb', hle, heq⟩ := m.ups u ra ha
      rw [hb'] at hb; cases hb
      have := h ra ha
      refine ⟨by omega, fun e => ?_⟩
      have e2 : ra.version = r.version := by omega
      rw [heq e2]; exact this.2 (by omega)
  case cTrackTxn u v jst jv t =>
    intro r hb
    cases ha : a.ups[u]? with
    | none => rw [m.upsNone u ha] at hb; cases hb
    | some ra =>
      obtain ⟨rb, hb', hle, heq⟩ := m.ups u ra ha
      rw [hb'] at hb; cases hb
      have := h ra ha
      refine ⟨by omega, fun e => ?_⟩
      have e2 : ra.version = r.version := by omega
      rw [heq e2]; exact this.2 (by omega)
  case cTxn u v =>
    intro r hb
    cases ha : a.ups[u]? with
    | none => rw [m.upsNone u ha] at hb; cases hb
    | some ra =>
      obtain ⟨rb, hb', hle, heq⟩ := m.ups u ra ha
      rw [hb'] at hb; cases hb
      have := h ra ha
      refine ⟨by omega, fun e => ?_⟩
      have e2 : ra.version = r.version := by omega
      rw [heq e2]; exact this.2 (by omega)
  all_goals trivial

set_option linter.unusedSimpArgs false

theorem Wtok_ws (x : St) (l : List W) (w : W) : Wtok { x with ws := l } w ↔ Wtok x w := by
  cases w <;> exact Iff.rfl

theorem stepW_ws (s : St) (i : Nat) (w : W) : (stepW s i w).1.ws = s.ws := by
  cases w <;> simp only [stepW] <;> (repeat' split) <;> rfl

theorem stepW_cfg (s : St) (i : Nat) (w : W) : (stepW s i w).1.cfg = s.cfg := by
  cases w <;> simp only [stepW] <;> (repeat' split) <;> rfl

theorem stepW_mono (s : St) (i : Nat) (w : W) : Mono s (stepW s i w).1 := by
  cases w <;> simp only [stepW] <;> (repeat' split) <;> first | exact Mono.refl _ | skip
  all_goals
    refine ⟨rfl, ?_, ?_, ?_, ?_, ?_⟩ <;> simp [bumpJ] <;> try grind

theorem stepW_jok {s : St} (hj : Jok s) (i : Nat) (w : W) (hw : Wtok s w) : Jok (stepW s i w).1 := by
  obtain ⟨h1, h2, h3, h4, h5, h6, h7⟩ := hj
  cases w <;> simp only [stepW] <;> (repeat' split) <;> first | exact ⟨h1, h2, h3, h4, h5, h6, h7⟩ | skip
  all_goals
    simp only [Wtok] at hw
    constructor <;> simp [bumpJ] <;> try grind

theorem stepW_tok {s : St} (hj : Jok s) (i : Nat) (w : W) (hw : Wtok s w)
    (hown : s.cfg.predefined = true → w.postClaim = true → s.j.planned = false) :
    Wtok (stepW s i w).1 (stepW s i w).2 := by
  obtain ⟨h1, h2, h3, h4, h5, h6, h7⟩ := hj
  cases w <;> simp only [stepW, decideStart] <;> (repeat' split) <;> simp only [Wtok] at hw ⊢ <;>
    simp [bumpJ, W.postClaim] at * <;> try grind

theorem postClaim_running {s : St} {w : W} (h : Wtok s w) (hp : w.postClaim = true) : s.j.status = .running := by
  cases w <;> simp [W.postClaim, Wtok] at * <;> grind

theorem step_own_aux {s : St} (hj : Jok s) (i : Nat) (w : W) (htw : Wtok s w) (hp : s.cfg.predefined = true)
    (hoi : w.postClaim = true → s.claimer = some i ∧ s.j.planned = false)
    (hoth : ∀ (k : Nat) (u : W), k ≠ i → s.ws[k]? = some u → u.postClaim = true →
        s.claimer = some k ∧ s.j.planned = false ∧ s.j.status = .running)
    (k : Nat) (u : W) (hk : (s.ws.set i (stepW s i w).2)[k]? = some u) (hpc : u.postClaim = true) :
    (stepW s i w).1.claimer = some k ∧ (stepW s i w).1.j.planned = false := by
  obtain ⟨h1, h2, h3, h4, h5, h6, h7⟩ := hj
  rw [List.getElem?_set] at hk
  by_cases hik : i = k
  · subst hik
    simp only [if_true] at hk
    split at hk
    · cases hk
      revert hpc
      cases w <;> simp only [stepW, decideStart] <;> (repeat' split) <;> simp only [Wtok] at htw <;>
        simp [bumpJ, W.postClaim] at * <;> grind
    · cases hk
  · simp only [hik, if_false] at hk
    have := hoth k u (Ne.symm hik) hk hpc
    cases w <;> simp only [stepW, decideStart] <;> (repeat' split) <;> simp only [Wtok] at htw <;>
      simp [bumpJ, W.postClaim] at * <;> grind

/-- the step function unfolded at an existing worker -/
theorem step_some {s : St} {i : Nat} {w : W} (hw : s.ws[i]? = some w) :
    step s i = { (stepW s i w).1 with ws := s.ws.set i (stepW s i w).2 } := by
  simp only [step, hw, stepW_ws]

theorem step_none {s : St} {i : Nat} (hw : s.ws[i]? = none) : step s i = s := by
  simp only [step, hw]

theorem step_inv {s : St} (h : Inv s) (i : Nat) : Inv (step s i) := by
  cases hw : s.ws[i]? with
  | none => rw [step_none hw]; exact h
  | some w =>
    rw [step_some hw]
    have htw := h.tok i w hw
    have hj' := stepW_jok h.jok i w htw
    refine ⟨⟨hj'.claims, hj'.planned_running, hj'.plans, hj'.starts, hj'.tasks, hj'.fired, hj'.ups⟩, ?_, ?_⟩
    · intro k u hk
      rw [Wtok_ws]
      simp only [List.getElem?_set] at hk
      by_cases hik : i = k
      · subst hik
        simp only [if_true] at hk
        split at hk
        · cases hk
          exact stepW_tok h.jok i w htw (fun hp hc => (h.own hp i w hw hc).2)
        · cases hk
      · simp only [hik, if_false] at hk
        exact Wtok.mono (stepW_mono s i w) u (h.tok k u hk)
    · intro hp k u hk hpc
      have hp' : s.cfg.predefined = true := by rw [← stepW_cfg s i w]; exact hp
      exact step_own_aux h.jok i w htw hp' (fun hc => h.own hp' i w hw hc)
        (fun k u _ hku hc => ⟨(h.own hp' k u hku hc).1, (h.own hp' k u hku hc).2, postClaim_running (h.tok k u hku) hc⟩)
        k u hk hpc

theorem run_inv {s : St} (h : Inv s) (sched : List Nat) : Inv (run s sched) := by
  induction sched generalizing s with
  | nil => exact h
  | cons i rest ih => exact ih (step_inv h i)

/-- every initial state: j NOT_STARTED at version 0, ghost counters 0, no upstream StartStage pushed yet,
    all workers at their initial program counter -/
theorem init_inv (c : Cfg) (ups : List URow) (ws : List W)
    (hups : ∀ u ∈ ups, u.pushes = 0) (hws : ∀ w ∈ ws, w.isInitial = true) : Inv (init c ups ws) := by
  refine ⟨⟨rfl, by simp [init], rfl, rfl, by simp [init], by simp [init], ?_⟩, ?_, ?_⟩
  · intro k r hk
    exact Or.inl (hups r (List.mem_of_getElem? hk))
  · intro i w hw
    have := hws w (List.mem_of_getElem? hw)
    cases w <;> simp [W.isInitial] at this <;> simp [Wtok]
  · intro _ i w hw hc
    have := hws w (List.mem_of_getElem? hw)
    cases w <;> simp [W.isInitial, W.postClaim] at this hc

/-! ### liveness invariants -/

theorem step_cfg (s : St) (i : Nat) : (step s i).cfg = s.cfg := by
  cases hw : s.ws[i]? with
  | none => rw [step_none hw]
  | some w => rw [step_some hw]; exact stepW_cfg s i w

theorem run_cfg (s : St) (sched : List Nat) : (run s sched).cfg = s.cfg := by
  induction sched generalizing s with
  | nil => rfl
  | cons i rest ih => exact (ih (step s i)).trans (step_cfg s i)

theorem getElem?_set_self' {l : List W} {i : Nat} {w a : W} (h : l[i]? = some w) : (l.set i a)[i]? = some a := by
  grind

theorem getElem?_set_ne' {l : List W} {i k : Nat} {a : W} (h : k ≠ i) : (l.set i a)[k]? = l[k]? := by
  grind

theorem any_inFlight {l : List W} {k : Nat} {u : W} (hk : l[k]? = some u) (hu : u.inFlight = true) :
    l.any W.inFlight = true :=
  List.any_eq_true.mpr ⟨u, List.mem_of_getElem? hk, hu⟩

/-- a StartStage handler on its way to (re)try the NOT_STARTED → RUNNING claim -/
def claimPending : W → Bool
  | .sClaim exp _ => exp = .notStarted
  | .sRow (some exp) => exp = .notStarted
  | .sTasks (some exp) st _ _ => exp = .notStarted && st = .notStarted
  | _ => false

/-- with the fix: an unclaimed stage that somebody went for still has a claimant on its way, and a claimed but
    unplanned stage still has a holder of the claim on its way -/
structure Live (s : St) : Prop where
  l1 : s.attempted = true → s.j.status = .notStarted → ∃ (i : Nat) (w : W), s.ws[i]? = some w ∧ claimPending w = true
  l2 : s.j.status = .running → s.j.planned = false → ∃ (i : Nat) (w : W), s.ws[i]? = some w ∧ w.postClaim = true

theorem stepW_l1 {s : St} (hj : Jok s) (hfix : s.cfg.fix = true) (i : Nat) (w : W) (hw : Wtok s w)
    (ha : (stepW s i w).1.attempted = true) (hs : (stepW s i w).1.j.status = .notStarted) :
    claimPending (stepW s i w).2 = true ∨ (s.attempted = true ∧ s.j.status = .notStarted ∧ claimPending w = false) := by
  obtain ⟨h1, h2, h3, h4, h5, h6, h7⟩ := hj
  revert ha hs
  cases w <;> simp only [stepW, decideStart] <;> (repeat' split) <;> simp only [Wtok] at hw <;>
    simp [bumpJ, claimPending, hfix] at * <;> grind

theorem stepW_l2 {s : St} (hj : Jok s) (hfix : s.cfg.fix = true) (i : Nat) (w : W) (hw : Wtok s w)
    (hs : (stepW s i w).1.j.status = .running) (hp : (stepW s i w).1.j.planned = false) :
    (stepW s i w).2.postClaim = true ∨ (s.j.status = .running ∧ s.j.planned = false ∧ w.postClaim = false) := by
  obtain ⟨h1, h2, h3, h4, h5, h6, h7⟩ := hj
  revert hs hp
  cases w <;> simp only [stepW, decideStart] <;> (repeat' split) <;> simp only [Wtok] at hw <;>
    simp [bumpJ, W.postClaim, hfix] at * <;> grind

theorem step_live {s : St} (h : Inv s) (hfix : s.cfg.fix = true) (hl : Live s) (i : Nat) : Live (step s i) := by
  cases hw : s.ws[i]? with
  | none => rw [step_none hw]; exact hl
  | some w =>
    rw [step_some hw]
    constructor
    · intro ha hs
      rcases stepW_l1 h.jok hfix i w (h.tok i w hw) ha hs with hp | ⟨ha0, hs0, hnp⟩
      · exact ⟨i, _, getElem?_set_self' hw, hp⟩
      · obtain ⟨k, u, hk, hpu⟩ := hl.l1 ha0 hs0
        have hne : k ≠ i := by
          intro e; subst e; rw [hw] at hk; cases hk; rw [hpu] at hnp; cases hnp
        exact ⟨k, u, (getElem?_set_ne' hne).trans hk, hpu⟩
    · intro hs hp
      rcases stepW_l2 h.jok hfix i w (h.tok i w hw) hs hp with hq | ⟨hs0, hp0, hnp⟩
      · exact ⟨i, _, getElem?_set_self' hw, hq⟩
      · obtain ⟨k, u, hk, hpu⟩ := hl.l2 hs0 hp0
        have hne : k ≠ i := by
          intro e; subst e; rw [hw] at hk; cases hk; rw [hpu] at hnp; cases hnp
        exact ⟨k, u, (getElem?_set_ne' hne).trans hk, hpu⟩

theorem run_live {s : St} (h : Inv s) (hfix : s.cfg.fix = true) (hl : Live s) (sched : List Nat) :
    Live (run s sched) := by
  induction sched generalizing s with
  | nil => exact hl
  | cons i rest ih => exact ih (step_inv h i) (by rw [step_cfg]; exact hfix) (step_live h hfix hl i)

theorem init_live (c : Cfg) (ups : List URow) (ws : List W) : Live (init c ups ws) :=
  ⟨fun ha => by simp [init] at ha, fun hs => by simp [init] at hs⟩

/-- version token of a handler that saw the row NOT_STARTED and has not claimed yet -/
def preTok : W → Option Nat
  | .sTasks _ st v _ => if st = .notStarted then some v else none
  | .sUps st v _ _ => if st = .notStarted then some v else none
  | .sClaim exp v => if exp = .notStarted then some v else none
  | _ => none

def isClaimNs : W → Bool
  | .sClaim exp _ => exp = .notStarted
  | _ => false

/-- version token of a handler that holds the claim and is about to commit its plan -/
def planTok : W → Option Nat
  | .sPlan v => some v
  | .sPlanTxn v => some v
  | _ => none

theorem preTok_inFlight {w : W} {v : Nat} (h : preTok w = some v) : w.inFlight = true := by
  cases w <;> simp [preTok, W.inFlight] at *

theorem planTok_inFlight {w : W} {v : Nat} (h : planTok w = some v) : w.inFlight = true := by
  cases w <;> simp [planTok, W.inFlight] at *

/-- as long as no non-claim write hit the row while a StartStage handler was in flight (`disturbed = false`):
    every NOT_STARTED snapshot is current, somebody who went for the claim is at the claim with a current token,
    and a claimed, unplanned row has a planner with a current token -/
structure Calm (s : St) : Prop where
  u0 : s.disturbed = false → s.j.status = .notStarted →
        ∀ (i : Nat) (w : W) (v : Nat), s.ws[i]? = some w → preTok w = some v → v = s.j.version
  u1 : s.attempted = true → s.j.status = .notStarted → s.disturbed = false →
        ∃ (i : Nat) (w : W), s.ws[i]? = some w ∧ isClaimNs w = true
  u2 : s.j.status = .running → s.j.planned = false → s.disturbed = false →
        ∃ (i : Nat) (w : W), s.ws[i]? = some w ∧ planTok w = some s.j.version

theorem stepW_u0_self {s : St} (i : Nat) (w : W)
    (hu0 : s.disturbed = false → s.j.status = .notStarted → ∀ v, preTok w = some v → v = s.j.version)
    (hd : (stepW s i w).1.disturbed = false) (hs : (stepW s i w).1.j.status = .notStarted)
    (v : Nat) (hv : preTok (stepW s i w).2 = some v) : v = (stepW s i w).1.j.version := by
  revert hd hs hv
  cases w <;> simp only [stepW, decideStart] <;> (repeat' split) <;> simp [bumpJ, preTok] at * <;> grind

theorem stepW_u0_other {s : St} (i : Nat) (w : W) (hw : Wtok s w) (hfl : s.ws.any W.inFlight = true)
    (hd : (stepW s i w).1.disturbed = false) (hs : (stepW s i w).1.j.status = .notStarted) :
    s.disturbed = false ∧ s.j.status = .notStarted ∧ (stepW s i w).1.j.version = s.j.version := by
  revert hd hs
  cases w <;> simp only [stepW, decideStart] <;> (repeat' split) <;> simp only [Wtok] at hw <;>
    simp [bumpJ, hfl] at * <;> grind

theorem stepW_u1 {s : St} (hj : Jok s) (i : Nat) (w : W) (hw : Wtok s w)
    (hu0 : s.disturbed = false → s.j.status = .notStarted → ∀ v, preTok w = some v → v = s.j.version)
    (ha : (stepW s i w).1.attempted = true) (hs : (stepW s i w).1.j.status = .notStarted)
    (hd : (stepW s i w).1.disturbed = false) :
    isClaimNs (stepW s i w).2 = true ∨
      (s.attempted = true ∧ s.j.status = .notStarted ∧ s.disturbed = false ∧ isClaimNs w = false) := by
  obtain ⟨h1, h2, h3, h4, h5, h6, h7⟩ := hj
  revert ha hs hd
  cases w <;> simp only [stepW, decideStart] <;> (repeat' split) <;> simp only [Wtok] at hw <;>
    simp [bumpJ, isClaimNs, preTok] at * <;> grind

theorem stepW_u2 {s : St} (hj : Jok s) (i : Nat) (w : W) (hw : Wtok s w)
    (hs : (stepW s i w).1.j.status = .running) (hp : (stepW s i w).1.j.planned = false)
    (hd : (stepW s i w).1.disturbed = false) :
    planTok (stepW s i w).2 = some (stepW s i w).1.j.version ∨
      (s.j.status = .running ∧ s.j.planned = false ∧ s.disturbed = false ∧ planTok w ≠ some s.j.version ∧
        ((stepW s i w).1.j.version = s.j.version ∨ s.ws.any W.inFlight = false)) := by
  obtain ⟨h1, h2, h3, h4, h5, h6, h7⟩ := hj
  revert hs hp hd
  cases w <;> simp only [stepW, decideStart] <;> (repeat' split) <;> simp only [Wtok] at hw <;>
    simp [bumpJ, planTok] at * <;> grind

theorem step_calm {s : St} (h : Inv s) (hc : Calm s) (i : Nat) : Calm (step s i) := by
  cases hw : s.ws[i]? with
  | none => rw [step_none hw]; exact hc
  | some w =>
    rw [step_some hw]
    have htw := h.tok i w hw
    have hu0 : s.disturbed = false → s.j.status = .notStarted → ∀ v, preTok w = some v → v = s.j.version :=
      fun hd hs v hv => hc.u0 hd hs i w v hw hv
    refine ⟨?_, ?_, ?_⟩
    · intro hd hs k u v hk hv
      by_cases hki : k = i
      · subst hki
        rw [getElem?_set_self' hw] at hk; cases hk
        exact stepW_u0_self k w hu0 hd hs v hv
      · rw [getElem?_set_ne' hki] at hk
        obtain ⟨hd0, hs0, hver⟩ := stepW_u0_other i w htw (any_inFlight hk (preTok_inFlight hv)) hd hs
        show v = (stepW s i w).1.j.version
        rw [hver]; exact hc.u0 hd0 hs0 k u v hk hv
    · intro ha hs hd
      rcases stepW_u1 h.jok i w htw hu0 ha hs hd with hp | ⟨ha0, hs0, hd0, hnp⟩
      · exact ⟨i, _, getElem?_set_self' hw, hp⟩
      · obtain ⟨k, u, hk, hpu⟩ := hc.u1 ha0 hs0 hd0
        have hne : k ≠ i := by
          intro e; subst e; rw [hw] at hk; cases hk; rw [hpu] at hnp; cases hnp
        exact ⟨k, u, (getElem?_set_ne' hne).trans hk, hpu⟩
    · intro hs hp hd
      rcases stepW_u2 h.jok i w htw hs hp hd with hq | ⟨hs0, hp0, hd0, hnt, hver⟩
      · exact ⟨i, _, getElem?_set_self' hw, hq⟩
      · obtain ⟨k, u, hk, hpu⟩ := hc.u2 hs0 hp0 hd0
        have hne : k ≠ i := by
          intro e; subst e; rw [hw] at hk; cases hk; exact hnt hpu
        have hver' : (stepW s i w).1.j.version = s.j.version := by
          rcases hver with e | e
          · exact e
          · rw [any_inFlight hk (planTok_inFlight hpu)] at e; cases e
        refine ⟨k, u, (getElem?_set_ne' hne).trans hk, ?_⟩
        show planTok u = some (stepW s i w).1.j.version
        rw [hver']; exact hpu

theorem run_calm {s : St} (h : Inv s) (hc : Calm s) (sched : List Nat) : Calm (run s sched) := by
  induction sched generalizing s with
  | nil => exact hc
  | cons i rest ih => exact ih (step_inv h i) (step_calm h hc i)

theorem init_calm (c : Cfg) (ups : List URow) (ws : List W) (hws : ∀ w ∈ ws, w.isInitial = true) :
    Calm (init c ups ws) := by
  refine ⟨?_, fun ha => by simp [init] at ha, fun hs => by simp [init] at hs⟩
  intro _ _ i w v hw hv
  have := hws w (List.mem_of_getElem? hw)
  cases w <;> simp [W.isInitial, preTok] at this hv

/-- a finished worker is neither on its way to a claim nor holding one -/
theorem done_not_pending {w : W} (h : w.isDone = true) :
    claimPending w = false ∧ w.postClaim = false ∧ isClaimNs w = false ∧ planTok w = none := by
  cases w <;> simp [W.isDone, claimPending, W.postClaim, isClaimNs, planTok] at *

theorem allDone_get {s : St} (h : allDone s = true) {i : Nat} {w : W} (hw : s.ws[i]? = some w) : w.isDone = true :=
  List.all_eq_true.mp h w (List.mem_of_getElem? hw)

end Stab.ClaimProtocol
