/-
  Further facts about the queue model: version monotonicity per row id (claim exclusivity) and the sweep.
-/
import Stab.Lemmas.Queue

namespace Stab.Queue

/-! ### versions of a row id only grow; ids are never reused -/

/-- every row carrying id `i` (if any) has a version above `v`, and `i` has already been allocated -/
def VerGt (i v : Nat) (s : State) : Prop := i < s.nextId ∧ ∀ r ∈ s.rows, r.id = i → v < r.version

theorem verGt_mapRows {i v : Nat} {s s' : State} (h : VerGt i v s) (f : Row → Row)
    (hid : ∀ r, (f r).id = r.id) (hv : ∀ r, r.version ≤ (f r).version)
    (h1 : s'.rows = s.rows.map f) (h2 : s'.nextId = s.nextId) : VerGt i v s' := by
  refine ⟨by rw [h2]; exact h.1, ?_⟩
  rw [h1]
  simp only [List.mem_map]
  rintro r' ⟨r, hr, rfl⟩ hi
  rw [hid] at hi
  exact Nat.lt_of_lt_of_le (h.2 r hr hi) (hv r)

theorem verGt_subRows {i v : Nat} {s s' : State} (h : VerGt i v s)
    (h1 : ∀ r ∈ s'.rows, r ∈ s.rows) (h2 : s'.nextId = s.nextId) : VerGt i v s' :=
  ⟨by rw [h2]; exact h.1, fun r hr hi => h.2 r (h1 r hr) hi⟩

theorem verGt_moveToDlq {i v : Nat} {s : State} (h : VerGt i v s) (j : Nat) : VerGt i v (moveToDlq s j) := by
  unfold moveToDlq
  split
  · exact h
  · exact verGt_subRows h (fun r hr => (List.mem_filter.mp hr).1) rfl

theorem verGt_applyPrim {i v : Nat} {s : State} (h : VerGt i v s) (p : Prim) : VerGt i v (applyPrim s p) := by
  cases p <;> simp only [applyPrim]
  case pushRow m b d =>
    refine ⟨Nat.lt_succ_of_lt h.1, ?_⟩
    simp only [pushRow, List.mem_append, List.mem_singleton]
    rintro r (hr | rfl) hi
    · exact h.2 r hr hi
    · have := h.1; simp at hi; omega
  case setSel w => unfold setSel; split <;> exact verGt_subRows h (fun _ hr => hr) rfl
  case dropSel w => exact verGt_subRows h (fun _ hr => hr) rfl
  case claimSel w c =>
    unfold claimSel
    split
    · exact h
    · dsimp only
      split
      · exact verGt_subRows h (fun _ hr => hr) rfl
      · rename_i x _ _ r _
        have h1 : VerGt i v { ({ s with sels := dropSels w s.sels } : State) with
            rows := claimRows s.rows x.id x.version } :=
          verGt_mapRows h _ (by intro r; split <;> rfl) (by intro r; split <;> simp) rfl rfl
        split
        · exact verGt_subRows h1 (fun _ hr => hr) rfl
        · split
          · exact verGt_moveToDlq h1 _
          · exact h1
  case ackRow w j => exact verGt_subRows h (fun r hr => (List.mem_filter.mp hr).1) rfl
  case resched w j d =>
    unfold resched
    split
    · exact h
    · exact verGt_mapRows h _ (by intro r; split <;> rfl) (by intro r; split <;> exact Nat.le_refl _) rfl rfl
  case reschedRaw j d =>
    exact verGt_mapRows h _ (by intro r; split <;> rfl) (by intro r; split <;> exact Nat.le_refl _) rfl rfl
  case extendRaw j =>
    exact verGt_mapRows h _ (by intro r; split <;> rfl) (by intro r; split <;> exact Nat.le_refl _) rfl rfl
  case expire j =>
    exact verGt_mapRows h _ (by intro r; split <;> rfl) (by intro r; split <;> exact Nat.le_refl _) rfl rfl
  case mature j =>
    exact verGt_mapRows h _ (by intro r; split <;> rfl) (by intro r; split <;> exact Nat.le_refl _) rfl rfl
  case moveToDlq j => exact verGt_moveToDlq h j
  case replay d =>
    unfold replay
    split
    · exact h
    · refine ⟨Nat.lt_succ_of_lt h.1, ?_⟩
      simp only [List.mem_append, List.mem_singleton]
      rintro r (hr | rfl) hi
      · exact h.2 r hr hi
      · have := h.1; simp at hi; omega
  case kill => exact verGt_subRows h (fun _ hr => hr) rfl

theorem verGt_applyPrims {i v : Nat} {s : State} (h : VerGt i v s) (ps : List Prim) :
    VerGt i v (applyPrims s ps) := by
  induction ps generalizing s with
  | nil => exact h
  | cons p ps ih => exact ih (verGt_applyPrim h p)

theorem verGt_run {i v : Nat} {s : State} (h : VerGt i v s) (ops : List Op) : VerGt i v (run s ops) := by
  induction ops generalizing s with
  | nil => exact h
  | cons o os ih => exact ih (verGt_applyPrims h _)

/-- a successful claim pushes the row's version above the version it was claimed at -/
theorem verGt_after_claim {s : State} (hb : Base s) {w : Nat} {x : Sel} {r : Row}
    (hx : selOf s w = some x) (hr : matched s x = some r) :
    VerGt x.id x.version (next s (.act (.pollClaim w))) := by
  obtain ⟨hm, hrid, hrv⟩ := matched_mem hr
  have hu := unique_of_pairwise (fun r : Row => r.id) s.rows hb.idNodup
  have key : VerGt x.id x.version { ({ s with sels := dropSels w s.sels } : State) with
      rows := claimRows s.rows x.id x.version } := by
    refine ⟨by rw [← hrid]; exact hb.idLt r hm, ?_⟩
    intro r' hr' hi
    obtain ⟨r0, hr0, hid, hver, hc | ⟨hn, rfl⟩⟩ := mem_claimRows hr'
    · omega
    · have : r' = r := hu r' hr0 r hm (by omega)
      subst this
      exact absurd ⟨hrid, hrv⟩ hn
  show VerGt x.id x.version (applyPrim s (.claimSel w true))
  simp only [applyPrim, claimSel, hx, hr]
  split
  · exact verGt_subRows key (fun _ h => h) rfl
  · split
    · exact verGt_moveToDlq key _
    · exact key

/-! ### the sweep -/

theorem moveToDlq_rows (s : State) (i : Nat) : (moveToDlq s i).rows = s.rows.filter (fun r => r.id != i) := by
  unfold moveToDlq
  split
  · rename_i h
    symm
    apply List.filter_eq_self.mpr
    intro r hr
    have := List.find?_eq_none.mp h r hr
    simpa using this
  · rfl

theorem moveToDlq_dlq_mono (s : State) (i : Nat) : ∀ d ∈ s.dlq, d ∈ (moveToDlq s i).dlq := by
  intro d hd
  unfold moveToDlq
  split
  · exact hd
  · simp [hd]

theorem moveToDlq_moves {s : State} {r : Row} (hr : r ∈ s.rows) (hb : Base s) :
    ∃ d ∈ (moveToDlq s r.id).dlq, d.tag = r.tag ∧ d.origId = r.id ∧ d.attempts = r.attempts ∧ d.bad = r.bad := by
  have hu := unique_of_pairwise (fun r : Row => r.id) s.rows hb.idNodup
  unfold moveToDlq
  split
  · rename_i h
    have := List.find?_eq_none.mp h r hr
    simp at this
  · rename_i r0 h0
    obtain ⟨hm0, hi0⟩ := find?_mem_key _ _ _ h0
    have : r0 = r := hu r0 hm0 r hr (by simpa using hi0)
    subst this
    exact ⟨⟨s.nextDid, r0.id, r0.tag, r0.bad, r0.attempts⟩, by simp, rfl, rfl, rfl, rfl⟩

/-- after moving the ids `ids` one by one: exactly those rows are gone, and each is in the DLQ -/
theorem sweep_spec : ∀ (ids : List Nat) (s : State), Base s →
    (applyPrims s (ids.map Prim.moveToDlq)).rows = s.rows.filter (fun r => !ids.contains r.id) ∧
    (∀ d ∈ s.dlq, d ∈ (applyPrims s (ids.map Prim.moveToDlq)).dlq) ∧
    (∀ r ∈ s.rows, r.id ∈ ids → ∃ d ∈ (applyPrims s (ids.map Prim.moveToDlq)).dlq,
        d.tag = r.tag ∧ d.origId = r.id ∧ d.attempts = r.attempts ∧ d.bad = r.bad)
  | [], s, _ => by
    simp only [List.map_nil, applyPrims, List.foldl_nil, List.contains_nil, Bool.not_false]
    exact ⟨(filter_true_eq _).symm, fun d hd => hd, fun r _ h => by simp at h⟩
  | i :: ids, s, hb => by
    have hb' := base_moveToDlq hb i
    obtain ⟨ih1, ih2, ih3⟩ := sweep_spec ids (moveToDlq s i) hb'
    simp only [List.map_cons, applyPrims, List.foldl_cons, applyPrim] at *
    refine ⟨?_, ?_, ?_⟩
    · rw [ih1, moveToDlq_rows, List.filter_filter]
      congr 1
      funext r
      by_cases h : r.id = i <;> simp [List.contains_cons, h]
    · intro d hd
      exact ih2 d (moveToDlq_dlq_mono s i d hd)
    · intro r hr hmem
      by_cases h : r.id = i
      · obtain ⟨d, hd, hp⟩ := moveToDlq_moves hr hb
        rw [h] at hd
        exact ⟨d, ih2 d hd, hp⟩
      · have hmem' : r.id ∈ ids := by
          rcases List.mem_cons.mp hmem with e | e
          · exact absurd e h
          · exact e
        have hr' : r ∈ (moveToDlq s i).rows := by
          rw [moveToDlq_rows]; simp [hr, h]
        exact ih3 r hr' hmem'


/-! ### pairwise exclusivity as a count -/

theorem liveOn_le_one : ∀ (ls : List Lease) (i : Nat),
    ls.Pairwise (fun a b => ¬ (a.live = true ∧ b.live = true ∧ a.id = b.id)) →
    (ls.filter (fun l => l.live && l.id == i)).length ≤ 1
  | [], _, _ => by simp
  | l :: ls, i, h => by
    rw [List.pairwise_cons] at h
    have ih := liveOn_le_one ls i h.2
    by_cases c : (l.live && l.id == i) = true
    · have : ls.filter (fun l => l.live && l.id == i) = [] := by
        apply List.filter_eq_nil_iff.mpr
        intro b hb hc
        simp only [Bool.and_eq_true, beq_iff_eq] at c hc
        exact h.1 b hb ⟨c.1, hc.1, by omega⟩
      simp [List.filter_cons, c, this]
    · simp only [List.filter_cons, c]
      exact ih

/-- eligibility after the two "time passes" steps -/
theorem eligible_after_mature_expire {s : State} {r : Row} (hr : r ∈ s.rows) (ha : r.attempts < s.maxAttempts) :
    ∃ r' ∈ (expire (mature s r.id) r.id).rows, r'.id = r.id ∧ r'.tag = r.tag ∧
      eligible s.maxAttempts r' = true := by
  let r1 : Row := { r with deliverable := true }
  let r2 : Row := if r1.lock == .held then { r1 with lock := .lapsed } else r1
  refine ⟨r2, ?_, ?_⟩
  · simp only [expire, mature, List.map_map, List.mem_map]
    refine ⟨r, hr, ?_⟩
    simp [Function.comp, r1, r2]
  · cases hl : r.lock <;> simp [r1, r2, eligible, ha, hl]

theorem candidate_some_of_eligible {s : State} {r : Row} (hr : r ∈ s.rows) (he : eligible s.maxAttempts r = true) :
    ∃ r', candidate s = some r' := by
  cases hc : candidate s with
  | some r' => exact ⟨r', rfl⟩
  | none =>
    have := pick_none _ hc
    have hm : r ∈ s.rows.filter (eligible s.maxAttempts) := List.mem_filter.mpr ⟨hr, he⟩
    rw [this] at hm
    simp at hm

end Stab.Queue
