/-
  Helper lemmas for C19: the message round trip for an arbitrary dataclass spec satisfying `registryOk`.
-/
import Stab.Model.Codec

namespace Stab.Codec

theorem status_ofName_name (s : Status) : Status.ofName? s.name = some s := by cases s <;> decide
theorem status_name_ne_empty (s : Status) : (s.name != "") = true := by cases s <;> decide
theorem phase_ofName_name (p : Phase) : Phase.ofName? p.name = some p := by cases p <;> decide

/-- the canonical encoding of a (conforming) value -/
def encC : PyVal → J
  | .json j => j
  | .time iso => .str iso
  | .status s => .str s.name
  | .phase p => .str p.name
  | .enumValue _ => .null

theorem encodeWith_canonical (kd : Kind) (v : PyVal) (h : conforms kd v = true) :
    encodeWith canonicalShape v = some (encC v) := by
  cases v with
  | json j => simp [encodeWith, canonicalShape, encC]
  | time i => simp [encodeWith, canonicalShape, encC]
  | status s => simp [encodeWith, canonicalShape, encC]
  | phase p => simp [encodeWith, canonicalShape, encC]
  | enumValue t => cases kd <;> simp [conforms] at h

/-- what `convert` makes of an encoded conforming value -/
def decoded (kd : Kind) (v : PyVal) : PyVal :=
  match kd with
  | .datetime => .json (encC v)
  | _ => v

/-- the naming discipline of one field (the conversions are keyed by NAME) -/
def fieldOk (f : String × Kind) : Bool :=
  match f.2 with
  | .status => f.1 == "status"
  | .optStatus => f.1 == "original_status"
  | .phase => f.1 == "phase"
  | .datetime => popped.contains f.1
  | .plain => f.1 != "status" && f.1 != "original_status" && f.1 != "phase"

theorem popped_not_converted (k : String) (h : popped.contains k = true) :
    k ≠ "status" ∧ k ≠ "original_status" ∧ k ≠ "phase" := by
  simp only [popped, List.contains_cons, List.contains_nil, Bool.or_false, Bool.or_eq_true, beq_iff_eq] at h
  rcases h with rfl | rfl | rfl | rfl <;> decide

theorem convert_enc (f : String × Kind) (v : PyVal) (hf : fieldOk f = true) (hv : conforms f.2 v = true) :
    convert f.1 (encC v) = some (decoded f.2 v) := by
  obtain ⟨k, kd⟩ := f
  cases kd with
  | plain =>
    simp only [fieldOk, Bool.and_eq_true, bne_iff_ne, ne_eq] at hf
    obtain ⟨⟨h1, h2⟩, h3⟩ := hf
    cases v <;> simp [conforms] at hv
    simp [convert, h1, h2, h3, decoded, encC]
  | status =>
    simp only [fieldOk, beq_iff_eq] at hf
    subst hf
    cases v <;> simp [conforms] at hv
    simp [convert, decoded, encC, status_ofName_name]
  | optStatus =>
    simp only [fieldOk, beq_iff_eq] at hf
    subst hf
    cases v with
    | status s =>
      have := status_name_ne_empty s
      simp [convert, decoded, encC, status_ofName_name, J.truthy, this]
    | json j =>
      cases j <;> simp [conforms] at hv
      simp [convert, decoded, encC, J.truthy]
    | phase p => simp [conforms] at hv
    | time i => simp [conforms] at hv
    | enumValue t => simp [conforms] at hv
  | phase =>
    simp only [fieldOk, beq_iff_eq] at hf
    subst hf
    cases v <;> simp [conforms] at hv
    simp [convert, decoded, encC, phase_ofName_name]
  | datetime =>
    simp only [fieldOk] at hf
    obtain ⟨h1, h2, h3⟩ := popped_not_converted k hf
    cases v <;> simp [conforms] at hv
    simp [convert, h1, h2, h3, decoded, encC]

variable (vals : String → PyVal)

/-- the instance of `spec` holding `vals f` in field `f` -/
def inst (spec : List (String × Kind)) : Fields := spec.map (fun f => (f.1, vals f.1))

theorem serialize_inst (spec : List (String × Kind))
    (h : ∀ f ∈ spec, isPrivate f.1 = false ∧ conforms f.2 (vals f.1) = true) :
    serializeWith canonicalShape (inst vals spec) = some (spec.map (fun f => (f.1, encC (vals f.1)))) := by
  induction spec with
  | nil => rfl
  | cons f spec ih =>
    have hf := h f List.mem_cons_self
    have ih' := ih (fun g hg => h g (List.mem_cons_of_mem _ hg))
    simp only [inst, List.map_cons] at ih' ⊢
    simp only [serializeWith, hf.1, Bool.and_false, Bool.false_eq_true, if_false,
      encodeWith_canonical f.2 _ hf.2, ih']

theorem convertAll_enc (spec : List (String × Kind))
    (h : ∀ f ∈ spec, fieldOk f = true ∧ conforms f.2 (vals f.1) = true) :
    convertAll (spec.map (fun f => (f.1, encC (vals f.1))))
      = some (spec.map (fun f => (f.1, decoded f.2 (vals f.1)))) := by
  induction spec with
  | nil => rfl
  | cons f spec ih =>
    have hf := h f List.mem_cons_self
    have ih' := ih (fun g hg => h g (List.mem_cons_of_mem _ hg))
    simp only [List.map_cons, convertAll, convert_enc f _ hf.1 hf.2, ih']

theorem lookup_map_filter {β} (spec : List (String × Kind)) (p : String → Bool) (g : String × Kind → β)
    (hnd : (spec.map (·.1)).Nodup) (f : String × Kind) (hf : f ∈ spec) :
    lookup f.1 ((spec.filter (fun x => p x.1)).map (fun x => (x.1, g x)))
      = if p f.1 then some (g f) else none := by
  induction spec with
  | nil => cases hf
  | cons x spec ih =>
    simp only [List.map_cons, List.nodup_cons] at hnd
    rcases List.mem_cons.mp hf with rfl | hf'
    · by_cases hp : p f.1 = true
      · simp [hp, lookup]
      · have hp' : p f.1 = false := by simpa using hp
        simp only [List.filter_cons, hp', Bool.false_eq_true, if_false]
        -- f.1 does not occur in the rest
        have : ∀ l : List (String × Kind), (∀ y ∈ l, y.1 ≠ f.1) →
            lookup f.1 ((l.filter (fun x => p x.1)).map (fun x => (x.1, g x))) = none := by
          intro l hl
          induction l with
          | nil => rfl
          | cons y l ihl =>
            have hy := hl y List.mem_cons_self
            have := ihl (fun z hz => hl z (List.mem_cons_of_mem _ hz))
            by_cases hpy : p y.1 = true
            · simp [hpy, lookup, hy, this]
            · simp [hpy, this]
        exact this spec (fun y hy heq => hnd.1 (List.mem_map.mpr ⟨y, hy, heq⟩))
    · have hne : x.1 ≠ f.1 := fun heq => hnd.1 (List.mem_map.mpr ⟨f, hf', heq.symm⟩)
      by_cases hpx : p x.1 = true
      · simp [hpx, lookup, hne, ih hnd.2 hf']
      · simp [hpx, ih hnd.2 hf']

/-- **the round trip** for one dataclass -/
theorem roundtrip (spec : List (String × Kind)) (dflt : String → PyVal) (hok : registryOk spec = true)
    (hv : ∀ f ∈ spec, conforms f.2 (vals f.1) = true) :
    (serializeWith canonicalShape (inst vals spec)).bind (deserialize spec dflt)
      = some (expected dflt (inst vals spec)) := by
  simp only [registryOk, Bool.and_eq_true, decide_eq_true_eq, List.all_eq_true, Bool.not_eq_true'] at hok
  obtain ⟨⟨hnd, hpriv⟩, hname⟩ := hok
  have hfo : ∀ f ∈ spec, fieldOk f = true := by
    intro f hf
    have := hname f hf
    simp only [fieldOk]
    cases hk : f.2 <;> simp only [hk] at this ⊢ <;> exact this
  rw [serialize_inst vals spec (fun f hf => ⟨hpriv f hf, hv f hf⟩)]
  simp only [Option.bind_some, deserialize]
  rw [convertAll_enc vals spec (fun f hf => ⟨hfo f hf, hv f hf⟩)]
  simp only [construct]
  have hfilter : (spec.map (fun f => (f.1, decoded f.2 (vals f.1)))).filter (fun e => !popped.contains e.1)
      = (spec.filter (fun x => !popped.contains x.1)).map (fun x => (x.1, decoded x.2 (vals x.1))) := by
    rw [List.filter_map]
    rfl
  rw [hfilter]
  have hall : ((spec.filter (fun x => !popped.contains x.1)).map (fun x => (x.1, decoded x.2 (vals x.1)))).all
      (fun e => spec.any (fun f => f.1 == e.1)) = true := by
    simp only [List.all_eq_true, List.mem_map, List.mem_filter, List.any_eq_true, beq_iff_eq]
    rintro e ⟨x, ⟨hx, _⟩, rfl⟩
    exact ⟨x, hx, rfl⟩
  rw [if_pos hall]
  congr 1
  simp only [expected, inst, List.map_map]
  apply List.map_congr_left
  intro f hf
  simp only [Function.comp]
  rw [lookup_map_filter spec (fun k => !popped.contains k) (fun x => decoded x.2 (vals x.1)) hnd f hf]
  by_cases hp : popped.contains f.1 = true
  · rw [hp]
    simp
  · have hp' : popped.contains f.1 = false := by simpa using hp
    rw [hp']
    simp only [Bool.not_false, if_true, Option.getD_some, Bool.false_eq_true, if_false]
    -- not popped ⇒ not a datetime field ⇒ decoded = the value itself
    cases hk : f.2 with
    | datetime =>
      have h1 := hfo f hf
      simp only [fieldOk, hk] at h1
      rw [h1] at hp'
      cases hp'
    | plain => simp [decoded]
    | status => simp [decoded]
    | optStatus => simp [decoded]
    | phase => simp [decoded]

/-! ### rows -/

theorem lookup_applyUpdate_of_not_mem (set : List String) (new old : Row) (c : String) (h : c ∉ set) :
    lookup c (applyUpdate set new old) = lookup c old := by
  induction old with
  | nil => rfl
  | cons e old ih =>
    have step : applyUpdate set new (e :: old)
        = (if set.contains e.1 then (e.1, (lookup e.1 new).getD e.2) else e) :: applyUpdate set new old := rfl
    rw [step]
    cases hs : set.contains e.1 with
    | true =>
      have hne : e.1 ≠ c := by
        intro heq
        subst heq
        exact h (by simpa using hs)
      simp only [if_true, lookup, hne, if_false, ih]
    | false =>
      simp only [Bool.false_eq_true, if_false]
      obtain ⟨k, v⟩ := e
      simp only [lookup, ih]

theorem eq_of_id_eq {l : List (Nat × String)} (h : l.Pairwise (fun a b => a.1 < b.1))
    {a b : Nat × String} (ha : a ∈ l) (hb : b ∈ l) (hab : a.1 = b.1) : a = b := by
  induction l with
  | nil => cases ha
  | cons x l ih =>
    obtain ⟨hx, hl⟩ := List.pairwise_cons.mp h
    rcases List.mem_cons.mp ha with rfl | ha' <;> rcases List.mem_cons.mp hb with rfl | hb'
    · rfl
    · have := hx b hb'; omega
    · have := hx a ha'; omega
    · exact ih hl ha' hb'

end Stab.Codec
