/-
  Helper lemmas for the `SignalRace` model (Props/C18, section "race"): unfolding of the step iterator, "a finished
  worker does not move", and the closed form of "deliver the pending RunTasks one at a time" (`quiesce`).
-/
import Stab.Model.SignalRace

namespace Stab.SignalRace

theorem iter_zero {α : Type} (f : α → α) (x : α) : iter f 0 x = x := rfl
theorem iter_succ {α : Type} (f : α → α) (k : Nat) (x : α) : iter f (k + 1) x = iter f k (f x) := rfl
/-- `bound` micro-steps = five explicit ones (the longest tail of a worker after one conflict) and eleven more -/
theorem iter_bound {α : Type} (f : α → α) (x : α) : iter f bound x = iter f 11 (f (f (f (f (f x))))) := rfl

theorem iter_sig_done (v : Variant) (p : Bool) (s : Stage) (r : SigOut) (rb : Nat) :
    ∀ n, iter (sigStep v p) n (s, .done r rb) = (s, .done r rb) := by
  intro n
  induction n with
  | zero => rfl
  | succ n ih => simp [iter, sigStep, ih]

theorem iter_start_done (v : Variant) (s : Stage) (r : StartOut) (rb : Nat) :
    ∀ n, iter (startStep v) n (s, .done r rb) = (s, .done r rb) := by
  intro n
  induction n with
  | zero => rfl
  | succ n ih => simp [iter, startStep, ih]

theorem iter_run_done (K : Nat) (s : Stage) (r : RunOut) (rb : Nat) :
    ∀ n, iter (runStep K) n (s, .done r rb) = (s, .done r rb) := by
  intro n
  induction n with
  | zero => rfl
  | succ n ih => simp [iter, runStep, ih]

/-- one pending RunTask delivered to a RUNNING stage, nobody else running -/
theorem runAtomic_running (K : Nat) (s : Stage) (hs : s.status = .running) :
    runAtomic K s =
      if s.execs + 1 ≤ K then
        if 0 < s.buffered then
          { s with queued := s.queued - 1 + 1, execs := s.execs + 1, buffered := s.buffered - 1, version := s.version + 1,
                   consumed := s.consumed + 1 }
        else { s with queued := s.queued - 1, execs := s.execs + 1, status := .suspended, version := s.version + 1 }
      else { s with queued := s.queued - 1, execs := s.execs + 1, status := .finished, version := s.version + 1 } := by
  obtain ⟨st, ver, buf, q, e, res, con, drp, pl⟩ := s
  simp only at hs
  subst hs
  by_cases h1 : e + 1 ≤ K <;> by_cases h2 : 0 < buf <;>
    simp [runAtomic, iter_bound, iter_succ, iter_zero, maxRetries, runStep, SignalRace.cas, load, h1, h2]
  all_goals omega

theorem quiesce_idle (K n : Nat) (s : Stage) (h : s.queued = 0) : quiesce K n s = s := by
  cases n <;> simp [quiesce, h]

/-- Closed form of the drain: from "RUNNING, one RunTask pending, `b` signals in the mailbox, `e ≤ K` executions so far",
    every delivery that suspends again consumes one mailbox entry, until the task stops suspending (`K ≤ e + b`:
    finished after execution `K + 1`, `e + b - K` signals left over) or the mailbox is empty (SUSPENDED, nothing buffered,
    nothing queued).  Throughout, executions = 1 + signals applied. -/
theorem quiesce_spec (K : Nat) : ∀ (b n : Nat) (s : Stage), s.status = .running → s.queued = 1 → s.buffered = b → s.execs ≤ K →
    s.execs + s.queued = 1 + s.resumed + s.consumed → b + 1 ≤ n →
    (quiesce K n s).queued = 0 ∧ (quiesce K n s).execs = 1 + (quiesce K n s).resumed + (quiesce K n s).consumed ∧
    (if K ≤ s.execs + b then
       (quiesce K n s).status = .finished ∧ (quiesce K n s).execs = K + 1 ∧ (quiesce K n s).buffered = s.execs + b - K
     else (quiesce K n s).status = .suspended ∧ (quiesce K n s).execs = s.execs + b + 1 ∧ (quiesce K n s).buffered = 0) := by
  intro b
  induction b with
  | zero =>
    intro n s hs hq hb he hinv hn
    obtain ⟨n, rfl⟩ : ∃ n', n = n' + 1 := ⟨n - 1, by omega⟩
    have hq0 : ¬ s.queued = 0 := by omega
    rw [quiesce, if_neg hq0, runAtomic_running K s hs]
    by_cases h1 : s.execs + 1 ≤ K
    · have : ¬ K ≤ s.execs + 0 := by omega
      rw [if_pos h1, if_neg (by omega), quiesce_idle _ _ _ (by simp; omega), if_neg this]
      simp; omega
    · have : K ≤ s.execs + 0 := by omega
      rw [if_neg h1, quiesce_idle _ _ _ (by simp; omega), if_pos this]
      simp; omega
  | succ b ih =>
    intro n s hs hq hb he hinv hn
    obtain ⟨n, rfl⟩ : ∃ n', n = n' + 1 := ⟨n - 1, by omega⟩
    have hq0 : ¬ s.queued = 0 := by omega
    rw [quiesce, if_neg hq0, runAtomic_running K s hs]
    by_cases h1 : s.execs + 1 ≤ K
    · rw [if_pos h1, if_pos (by omega)]
      generalize hs' : ({ s with queued := s.queued - 1 + 1, execs := s.execs + 1, buffered := s.buffered - 1,
                                 version := s.version + 1, consumed := s.consumed + 1 } : Stage) = s'
      have e1 : s'.status = .running := by rw [← hs']; exact hs
      have e2 : s'.queued = 1 := by rw [← hs']; simp; omega
      have e3 : s'.buffered = b := by rw [← hs']; simp; omega
      have e4 : s'.execs = s.execs + 1 := by rw [← hs']
      have e5 : s'.resumed = s.resumed := by rw [← hs']
      have e6 : s'.consumed = s.consumed + 1 := by rw [← hs']
      have := ih n s' e1 e2 e3 (by omega) (by omega) (by omega)
      refine ⟨this.1, this.2.1, ?_⟩
      have h3 := this.2.2
      rw [e4] at h3
      by_cases h4 : K ≤ s.execs + (b + 1)
      · rw [if_pos (by omega)] at h3
        rw [if_pos h4]
        refine ⟨h3.1, h3.2.1, ?_⟩
        rw [h3.2.2]; omega
      · rw [if_neg (by omega)] at h3
        rw [if_neg h4]
        refine ⟨h3.1, ?_, h3.2.2⟩
        rw [h3.2.1]; omega
    · have : K ≤ s.execs + (b + 1) := by omega
      rw [if_neg h1, quiesce_idle _ _ _ (by simp; omega), if_pos this]
      simp; omega

/-! ### equation lemmas: one micro-step on a program counter in constructor form (used instead of unfolding the step
    functions, so that a condition `simp` cannot decide stays a small stuck term) -/

theorem startStep_start (v : Variant) (s : Stage) :
    startStep v (s, .start) = if s.status = .notStarted then (s, .loaded 0 0 (load s)) else (s, .done .ignored 0) := rfl
theorem startStep_loaded (v : Variant) (s : Stage) (r rb : Nat) (o : Snap) :
    startStep v (s, .loaded r rb o) =
      if s.version = o.version ∧ s.status = .notStarted then
        ({ s with status := .running, buffered := o.buffered, version := s.version + 1 },
         .claimed 0 rb { o with status := .running, version := o.version + 1 } o.buffered)
      else (s, .claimMissed r (rb + 1)) := rfl
theorem startStep_claimMissed (v : Variant) (s : Stage) (r rb : Nat) :
    startStep v (s, .claimMissed r rb) =
      if s.status = .notStarted then
        if claimRetryLimit ≤ r then (s, .done .requeued rb) else (s, .loaded (r + 1) rb (load s))
      else (s, .done .duplicate rb) := rfl
theorem startStep_claimed (v : Variant) (s : Stage) (a rb : Nat) (o : Snap) (c : Nat) :
    startStep v (s, .claimed a rb o c) =
      if s.version = o.version then
        ({ s with status := o.status, buffered := o.buffered, version := s.version + 1, queued := s.queued + 1,
                  planned := s.planned + 1 }, .done .started rb)
      else (s, .planMissed a (rb + 1) o c) := rfl
theorem startStep_planMissed (v : Variant) (s : Stage) (a rb : Nat) (o : Snap) (c : Nat) :
    startStep v (s, .planMissed a rb o c) =
      if s.status = .running then
        if claimRetryLimit < a + 1 then (s, .done .raised rb)
        else
          (s, .claimed (a + 1) rb { o with buffered := (match v with
              | .staleMailboxWins => if o.buffered = 0 then s.buffered else o.buffered
              | _ => if s.buffered = c then o.buffered else s.buffered), version := s.version } s.buffered)
      else (s, .done .takenOver rb) := rfl
theorem startStep_done (v : Variant) (s : Stage) (r : StartOut) (rb : Nat) :
    startStep v (s, .done r rb) = (s, .done r rb) := rfl


theorem sigStep_start (v : Variant) (p : Bool) (s : Stage) (f rb : Nat) :
    sigStep v p (s, .start f rb) = (s, .loaded f rb (load s)) := rfl
theorem sigStep_loaded_cas (p : Bool) (s : Stage) (f rb : Nat) (o : Snap) :
    sigStep .cas p (s, .loaded f rb o) =
      if o.status = .suspended then
        match SignalRace.cas s { guard := o.version, status := .running, buffered := o.buffered, push := 1, resumed := 1 } with
        | some s' => (s', .done .delivered rb)
        | none => (s, sigConflict f rb)
      else if p then
        match SignalRace.cas s { guard := o.version, status := o.status, buffered := o.buffered + 1 } with
        | some s' => (s', .done .buffered rb)
        | none => (s, sigConflict f rb)
      else ({ s with dropped := s.dropped + 1 }, .done .dropped rb) := by
  cases p <;> rfl
theorem sigStep_loaded_stale (p : Bool) (s : Stage) (f rb : Nat) (o : Snap) :
    sigStep .staleMailboxWins p (s, .loaded f rb o) = sigStep .cas p (s, .loaded f rb o) := by
  cases p <;> rfl
theorem sigStep_done (v : Variant) (p : Bool) (s : Stage) (r : SigOut) (rb : Nat) :
    sigStep v p (s, .done r rb) = (s, .done r rb) := rfl

theorem add_two_ne_self (n : Nat) : (n + 1 + 1 = n) = False := by simp; omega
theorem self_ne_add_two (n : Nat) : (n = n + 1 + 1) = False := by simp; omega

end Stab.SignalRace
