/-
  Helper lemmas for C16, part 3: the built-in reducers under permutations of the branch list.
-/
import Stab.Lemmas.MergePlan

namespace Stab.Merge

def sumInts (l : List Int) : Int := l.foldr (· + ·) 0

theorem sumInts_perm {l l' : List Int} (h : l.Perm l') : sumInts l = sumInts l' := by
  induction h with
  | nil => rfl
  | cons x _ ih => simp only [sumInts, List.foldr_cons] at ih ⊢; rw [ih]
  | swap x y l => simp only [sumInts, List.foldr_cons]; omega
  | trans _ _ ih1 ih2 => exact ih1.trans ih2

theorem optFold_perm {α} (f : α → α → α) (hc : ∀ a b, f a b = f b a)
    (hl : ∀ a b c, f a (f b c) = f b (f a c)) {l l' : List α} (h : l.Perm l') :
    optFold f l = optFold f l' := by
  induction h with
  | nil => rfl
  | cons x _ ih => simp only [optFold, ih]
  | swap x y l =>
    simp only [optFold]
    cases optFold f l with
    | none => simp [hc]
    | some z => simp [hl]
  | trans _ _ ih1 ih2 => exact ih1.trans ih2

theorem smax_comm (a b : String) : smax a b = smax b a := by
  unfold smax
  by_cases h1 : a < b <;> by_cases h2 : b < a <;> simp [h1, h2]
  · exact absurd (String.lt_trans h1 h2) (String.lt_irrefl a)
  · exact String.le_antisymm (String.not_lt.mp h1) (String.not_lt.mp h2) |>.symm

theorem smax_left_comm (a b c : String) : smax a (smax b c) = smax b (smax a c) := by
  unfold smax
  grind [String.lt_trans, String.lt_irrefl, String.not_lt, String.le_antisymm]

theorem smin_comm (a b : String) : smin a b = smin b a := by
  unfold smin
  by_cases h1 : a < b <;> by_cases h2 : b < a <;> simp [h1, h2]
  · exact absurd (String.lt_trans h1 h2) (String.lt_irrefl a)
  · exact String.le_antisymm (String.not_lt.mp h2) (String.not_lt.mp h1)

theorem smin_left_comm (a b c : String) : smin a (smin b c) = smin b (smin a c) := by
  unfold smin
  grind [String.lt_trans, String.lt_irrefl, String.not_lt, String.le_antisymm]

theorem rSum_perm {vs vs' : List Value} (h : vs.Perm vs') : rSum vs = rSum vs' := by
  unfold rSum
  rw [h.all_eq]
  have := sumInts_perm (h.filterMap Value.int?)
  simp only [sumInts] at this
  rw [this]

theorem extBody_perm (fi : Int → Int → Int) (fs : String → String → String)
    (hic : ∀ a b, fi a b = fi b a) (hil : ∀ a b c, fi a (fi b c) = fi b (fi a c))
    (hsc : ∀ a b, fs a b = fs b a) (hsl : ∀ a b c, fs a (fs b c) = fs b (fs a c))
    {xs xs' : List Value} (h : xs.Perm xs') : extBody fi fs xs = extBody fi fs xs' := by
  unfold extBody
  rw [h.all_eq (f := Value.isInt), h.all_eq (f := Value.isStr), h.all_eq (f := Value.isAtom),
    optFold_perm fi hic hil (h.filterMap Value.int?), optFold_perm fs hsc hsl (h.filterMap Value.str?)]

theorem rExtremum_perm (fi : Int → Int → Int) (fs : String → String → String)
    (hic : ∀ a b, fi a b = fi b a) (hil : ∀ a b c, fi a (fi b c) = fi b (fi a c))
    (hsc : ∀ a b, fs a b = fs b a) (hsl : ∀ a b c, fs a (fs b c) = fs b (fs a c))
    {vs vs' : List Value} (h : vs.Perm vs') : rExtremum fi fs vs = rExtremum fi fs vs' := by
  unfold rExtremum
  have hp := h.filter (fun v => !v.isNone)
  generalize vs.filter (fun v => !v.isNone) = xs at hp
  generalize vs'.filter (fun v => !v.isNone) = xs' at hp
  match xs, xs', hp with
  | [], xs', hp => rw [hp.nil_eq]
  | [x], xs', hp => rw [List.perm_singleton.mp hp.symm]
  | x :: y :: t, xs', hp =>
    have hl := hp.length_eq
    match xs', hp, hl with
    | [], _, hl => simp at hl
    | [_], _, hl => simp at hl
    | x' :: y' :: t', hp, _ => exact extBody_perm fi fs hic hil hsc hsl hp

theorem rMax_perm {vs vs' : List Value} (h : vs.Perm vs') : rMax vs = rMax vs' :=
  rExtremum_perm max smax (by intros; omega) (by intros; omega) smax_comm smax_left_comm h

theorem rMin_perm {vs vs' : List Value} (h : vs.Perm vs') : rMin vs = rMin vs' :=
  rExtremum_perm min smin (by intros; omega) (by intros; omega) smin_comm smin_left_comm h

theorem branchValues_perm {bs bs' : List Outs} (h : bs.Perm bs') (k : String) :
    (branchValues bs k).Perm (branchValues bs' k) :=
  h.filterMap _

/-! #### `_merge` -/

/-- the last entry of a key (what `update` makes visible) -/
def lastOf {α} (d : Dict α) (k : String) : Option α := get? d.reverse k

theorem get?_update {α} (acc d : Dict α) (k : String) :
    get? (update acc d) k = (lastOf d k).or (get? acc k) := by
  induction d generalizing acc with
  | nil => simp [update, lastOf, get?]
  | cons e d ih =>
    have : update acc (e :: d) = update (set acc e.1 e.2) d := by simp [update]
    rw [this, ih, get?_set]
    simp only [lastOf, List.reverse_cons, get?_append]
    obtain ⟨k0, v0⟩ := e
    cases get? d.reverse k with
    | some v => simp
    | none => by_cases h : k0 = k <;> simp [get?, h]

/-- what one branch value contributes to key `k` of the `_merge` result -/
def mergeContrib (k : String) : Value → Option Atom
  | .dict d => lastOf d k
  | _ => none

def lookupStep (k : String) (o : Option Atom) (v : Value) : Option Atom := (mergeContrib k v).or o

def mergeLookup (k : String) (o : Option Atom) (vs : List Value) : Option Atom :=
  vs.foldl (lookupStep k) o

theorem rMergeDict_get?_aux (vs : List Value) (acc : Dict Atom) (k : String) :
    get? (vs.foldl mergeStep acc) k = vs.foldl (lookupStep k) (get? acc k) := by
  induction vs generalizing acc with
  | nil => rfl
  | cons v vs ih =>
    simp only [List.foldl_cons]
    rw [ih]
    cases v with
    | atom a => rfl
    | list l => rfl
    | dict d => simp [mergeStep, lookupStep, mergeContrib, get?_update]

theorem rMergeDict_get? (vs : List Value) (k : String) :
    get? (rMergeDict vs) k = mergeLookup k none vs := by
  have := rMergeDict_get?_aux vs [] k
  simpa [rMergeDict, get?, mergeLookup] using this

theorem mergeLookup_perm (k : String) {vs vs' : List Value} (h : vs.Perm vs')
    (hd : vs.Pairwise (fun v w => mergeContrib k v = none ∨ mergeContrib k w = none)) :
    ∀ o, mergeLookup k o vs = mergeLookup k o vs' := by
  induction h with
  | nil => intro o; rfl
  | cons x _ ih =>
    intro o
    simp only [mergeLookup, List.foldl_cons]
    exact ih (List.pairwise_cons.mp hd).2 _
  | swap x y l =>
    intro o
    simp only [mergeLookup, List.foldl_cons]
    have hxy := (List.pairwise_cons.mp hd).1 x (by simp)
    congr 1
    simp only [lookupStep]
    rcases hxy with h | h <;> cases hx : mergeContrib k x <;> cases hy : mergeContrib k y <;> simp_all
  | trans h1 _ ih1 ih2 =>
    intro o
    have hsymm : ∀ {v w : Value}, (mergeContrib k v = none ∨ mergeContrib k w = none) →
        (mergeContrib k w = none ∨ mergeContrib k v = none) := fun h => h.symm
    rw [ih1 hd o, ih2 ((h1.pairwise_iff hsymm).mp hd) o]

/-! #### `apply_output_reducers` under a permutation of the branches -/

/-- reducers whose result does not depend on the order of the branches -/
def symmetricNames : List String := ["sum", "max", "min"]

theorem builtin_symmetric_perm {name : String} (hn : name ∈ symmetricNames)
    {r : List Value → Except RErr Value} (hr : builtin name = some r)
    {vs vs' : List Value} (h : vs.Perm vs') : r vs = r vs' := by
  simp only [symmetricNames, List.mem_cons, List.not_mem_nil, or_false] at hn
  rcases hn with rfl | rfl | rfl
  · simp only [builtin, Option.some.injEq] at hr; subst hr; exact rSum_perm h
  · simp only [builtin, Option.some.injEq] at hr; subst hr; exact rMax_perm h
  · simp only [builtin, Option.some.injEq] at hr; subst hr; exact rMin_perm h

theorem applyFrom_perm (rs : Dict String) (hs : ∀ e ∈ rs, e.2 ∈ symmetricNames)
    {bs bs' : List Outs} (h : bs.Perm bs') : ∀ res, applyFrom bs res rs = applyFrom bs' res rs := by
  induction rs with
  | nil => intro res; rfl
  | cons e rs ih =>
    intro res
    have ih' := ih (fun e' he' => hs e' (List.mem_cons_of_mem _ he'))
    have hv := branchValues_perm h e.1
    have hemp : (branchValues bs e.1).isEmpty = (branchValues bs' e.1).isEmpty := by
      have := hv.length_eq
      cases h1 : branchValues bs e.1 <;> cases h2 : branchValues bs' e.1 <;> simp_all
    simp only [applyFrom]
    cases hb : builtin e.2 with
    | none => rfl
    | some r =>
      simp only [hemp, builtin_symmetric_perm (hs e List.mem_cons_self) hb hv]
      cases (branchValues bs' e.1).isEmpty with
      | true => simp [ih']
      | false =>
        simp only [Bool.false_eq_true, if_false]
        cases r (branchValues bs' e.1) with
        | ok v => exact ih' _
        | error x => rfl

/-! ### small facts used by the C16 statements -/

/-- every value of a list of list-values is `Value.list _` -/
theorem all_lists (vs : List Value) (h : ∀ v ∈ vs, v.isList = true) :
    ∃ ls : List (List Atom), vs = ls.map Value.list := by
  induction vs with
  | nil => exact ⟨[], rfl⟩
  | cons v vs ih =>
    obtain ⟨ls, hls⟩ := ih (fun v' hv' => h v' (List.mem_cons_of_mem _ hv'))
    cases v with
    | list l => exact ⟨l :: ls, by simp [hls]⟩
    | atom a => have := h (.atom a) List.mem_cons_self; simp [Value.isList] at this
    | dict d => have := h (.dict d) List.mem_cons_self; simp [Value.isList] at this

theorem applyFrom_keys (bs : List Outs) (rs : Dict String) :
    ∀ res out, applyFrom bs res rs = .ok out → ∀ k, (get? out k).isSome = true →
      (get? res k).isSome = true ∨ branchValues bs k ≠ [] := by
  induction rs with
  | nil =>
    intro res out h k hk
    simp only [applyFrom, Except.ok.injEq] at h
    subst h; exact Or.inl hk
  | cons e rs ih =>
    intro res out h k hk
    simp only [applyFrom] at h
    cases hb : builtin e.2 with
    | none => simp [hb] at h
    | some r =>
      simp only [hb] at h
      by_cases hemp : (branchValues bs e.1).isEmpty = true
      · simp only [hemp, if_true] at h
        exact ih res out h k hk
      · simp only [hemp, Bool.false_eq_true, if_false] at h
        cases hr : r (branchValues bs e.1) with
        | error x => simp [hr] at h
        | ok v =>
          simp only [hr] at h
          rcases ih _ out h k hk with h1 | h1
          · rw [get?_set] at h1
            by_cases hek : e.1 = k
            · subst hek
              right
              intro hnil
              simp [hnil] at hemp
            · simp only [hek, if_false] at h1
              exact Or.inl h1
          · exact Or.inr h1

theorem update_keys {α} (acc d : Dict α) (k : String) :
    (get? (update acc d) k).isSome = true → (get? acc k).isSome = true ∨ (get? d k).isSome = true := by
  induction d generalizing acc with
  | nil => intro h; exact Or.inl (by simpa [update] using h)
  | cons e d ih =>
    intro h
    have : update acc (e :: d) = update (set acc e.1 e.2) d := by simp [update]
    rw [this] at h
    obtain ⟨k0, v0⟩ := e
    rcases ih _ h with h1 | h1
    · rw [get?_set] at h1
      by_cases hk : k0 = k
      · subst hk; right; simp [get?]
      · simp only [hk, if_false] at h1; exact Or.inl h1
    · right
      by_cases hk : k0 = k
      · subst hk; simp [get?]
      · simpa [get?, hk] using h1

end Stab.Merge
