/-
  Helper lemmas for Props/C09: the byte/bit arithmetic of the bloom filter, well-formedness of the bit
  array, monotonicity of `mark_seen`, and the case analysis of `Dedup.step`.
-/
import Stab.Model.Dedup

namespace Stab.Props.C09
open Stab Stab.Dedup

/-! ### one byte -/

theorem and_two_pow_ne (b i : Nat) : (b &&& 2 ^ i != 0) = b.testBit i := by
  cases h : b.testBit i with
  | false =>
    have : b &&& 2 ^ i = 0 := by
      apply Nat.eq_of_testBit_eq
      intro j
      simp only [Nat.testBit_and, Nat.testBit_two_pow, Nat.zero_testBit]
      by_cases hij : i = j
      · subst hij; simp [h]
      · simp [hij]
    simp [this]
  | true =>
    have : b &&& 2 ^ i ≠ 0 := by
      intro hz
      have := congrArg (fun x => x.testBit i) hz
      simp [Nat.testBit_and, h] at this
    simp [this]

theorem getBit_eq (b i : Nat) : getBit b i = b.testBit i := by
  unfold getBit
  rw [Nat.one_shiftLeft]; exact and_two_pow_ne b i

/-- `byte |= 1 << i` makes `byte & (1 << i)` non-zero -/
theorem get_set_same (b i : Nat) : getBit (setBit b i) i = true := by
  rw [getBit_eq]; unfold setBit; simp [Nat.testBit_or, Nat.one_shiftLeft]

/-- `byte |= 1 << i` never clears another bit -/
theorem get_set_mono (b i j : Nat) (h : getBit b j = true) : getBit (setBit b i) j = true := by
  rw [getBit_eq] at *; unfold setBit; simp [Nat.testBit_or, h]

/-! ### the byte array -/

def getPosBytes (bytes : List Nat) (p : Nat) : Option Bool := (bytes[p / 8]?).map (fun byte => getBit byte (p % 8))

theorem getPos_eq (b : Bloom) (p : Nat) : b.getPos p = getPosBytes b.bytes p := rfl

theorem setPos_length (bytes : List Nat) (p : Nat) : (setPosBytes bytes p).length = bytes.length := by
  unfold setPosBytes
  split <;> simp

theorem setPos_same (bytes : List Nat) (p : Nat) (h : p / 8 < bytes.length) :
    getPosBytes (setPosBytes bytes p) p = some true := by
  unfold setPosBytes getPosBytes
  have hb : bytes[p / 8]? = some bytes[p / 8] := List.getElem?_eq_getElem h
  simp only [hb]
  simp [h, get_set_same]

theorem setPos_mono (bytes : List Nat) (p q : Nat) (h : getPosBytes bytes q = some true) :
    getPosBytes (setPosBytes bytes p) q = some true := by
  unfold setPosBytes
  cases hb : bytes[p / 8]? with
  | none => simpa using h
  | some byte =>
    simp only
    unfold getPosBytes at *
    by_cases hq : p / 8 = q / 8
    · have hlt : p / 8 < bytes.length := by
        cases hl : bytes[p / 8]? with
        | none => rw [hl] at hb; cases hb
        | some _ => exact (List.getElem?_eq_some_iff.mp hl).1
      rw [← hq] at h ⊢
      rw [hb] at h
      simp only [Option.map_some, Option.some.injEq] at h
      simp [hlt, get_set_mono _ _ _ h]
    · simpa [List.getElem?_set, hq] using h

theorem setAll_length (bytes : List Nat) (ps : List Nat) : (setAll bytes ps).length = bytes.length := by
  unfold setAll
  induction ps generalizing bytes with
  | nil => rfl
  | cons p ps ih => simp only [List.foldl_cons]; rw [ih, setPos_length]

theorem setAll_mono (bytes : List Nat) (ps : List Nat) (q : Nat) (h : getPosBytes bytes q = some true) :
    getPosBytes (setAll bytes ps) q = some true := by
  unfold setAll
  induction ps generalizing bytes with
  | nil => simpa using h
  | cons p ps ih => simp only [List.foldl_cons]; exact ih _ (setPos_mono _ _ _ h)

theorem setAll_sets (bytes : List Nat) (ps : List Nat) (q : Nat) (hq : q ∈ ps) (hr : ∀ p ∈ ps, p / 8 < bytes.length) :
    getPosBytes (setAll bytes ps) q = some true := by
  unfold setAll
  induction ps generalizing bytes with
  | nil => cases hq
  | cons p ps ih =>
    simp only [List.foldl_cons]
    rcases List.mem_cons.mp hq with h | h
    · subst h
      exact setAll_mono _ _ _ (setPos_same _ _ (hr q (List.mem_cons_self ..)))
    · apply ih _ h
      intro p' hp'
      rw [setPos_length]
      exact hr p' (List.mem_cons_of_mem _ hp')

/-- a position reduced `% size` indexes a byte of the `ceil(size / 8)`-byte array -/
theorem pos_in_range (size p : Nat) (h : 0 < size) : (p % size) / 8 < nbytes size := by
  have := Nat.mod_lt p h
  unfold nbytes
  omega

/-! ### the filter -/

/-- the bit array has the constructor's length and the filter has at least one bit -/
def WF (b : Bloom) : Prop := b.bytes.length = nbytes b.size ∧ 0 < b.size

theorem wf_fresh (size : Nat) (h : 0 < size) : WF (Bloom.fresh size) := by
  unfold WF Bloom.fresh; simp [h]

theorem wf_mark (pos : Id → List Nat) (b : Bloom) (id : Id) (h : WF b) : WF (b.markSeen pos id) := by
  unfold WF Bloom.markSeen at *; simp only [setAll_length]; exact h

theorem wf_reset (b : Bloom) (h : WF b) : WF b.reset := by
  unfold WF Bloom.reset at *; simp [h.2]

theorem mark_size (pos : Id → List Nat) (b : Bloom) (id : Id) : (b.markSeen pos id).size = b.size := rfl

theorem foldMark_size (pos : Id → List Nat) (b : Bloom) (ids : List Id) :
    (ids.foldl (Bloom.markSeen pos) b).size = b.size := by
  induction ids generalizing b with
  | nil => rfl
  | cons i ids ih => simp only [List.foldl_cons]; rw [ih, mark_size]

theorem wf_foldMark (pos : Id → List Nat) (b : Bloom) (ids : List Id) (h : WF b) :
    WF (ids.foldl (Bloom.markSeen pos) b) := by
  induction ids generalizing b with
  | nil => exact h
  | cons i ids ih => simp only [List.foldl_cons]; exact ih _ (wf_mark pos b i h)

theorem wf_hydrate (pos : Id → List Nat) (b : Bloom) (ids : List Id) (h : WF b) : WF (b.hydrate pos ids) := by
  have := wf_foldMark pos b ids h
  unfold WF Bloom.hydrate at *; exact this

theorem maybeSeen_iff (pos : Id → List Nat) (b : Bloom) (id : Id) :
    b.maybeSeen pos id = true ↔ ∀ p ∈ positions pos b.size id, getPosBytes b.bytes p = some true := by
  unfold Bloom.maybeSeen
  simp [List.all_eq_true, getPos_eq]

/-- after `mark_seen(id)`, `maybe_seen(id)` — all k positions, byte and bit index included -/
theorem mark_then_seen (pos : Id → List Nat) (b : Bloom) (id : Id) (h : WF b) :
    (b.markSeen pos id).maybeSeen pos id = true := by
  rw [maybeSeen_iff]
  intro p hp
  simp only [Bloom.markSeen] at hp ⊢
  apply setAll_sets _ _ _ hp
  intro q hq
  unfold positions at hq
  obtain ⟨x, _, rfl⟩ := List.mem_map.mp hq
  rw [h.1]
  exact pos_in_range _ _ h.2

/-- `mark_seen` never turns a positive into a negative -/
theorem mark_mono (pos : Id → List Nat) (b : Bloom) (id id' : Id) (h : b.maybeSeen pos id' = true) :
    (b.markSeen pos id).maybeSeen pos id' = true := by
  rw [maybeSeen_iff] at *
  intro p hp
  simp only [Bloom.markSeen] at hp ⊢
  exact setAll_mono _ _ _ (h p hp)

theorem foldMark_mono (pos : Id → List Nat) (b : Bloom) (ids : List Id) (id' : Id) (h : b.maybeSeen pos id' = true) :
    (ids.foldl (Bloom.markSeen pos) b).maybeSeen pos id' = true := by
  induction ids generalizing b with
  | nil => exact h
  | cons i ids ih => simp only [List.foldl_cons]; exact ih _ (mark_mono pos b i id' h)

theorem foldMark_seen (pos : Id → List Nat) (b : Bloom) (ids : List Id) (id : Id) (hw : WF b) (hm : id ∈ ids) :
    (ids.foldl (Bloom.markSeen pos) b).maybeSeen pos id = true := by
  induction ids generalizing b with
  | nil => cases hm
  | cons i ids ih =>
    simp only [List.foldl_cons]
    rcases List.mem_cons.mp hm with h | h
    · subst h; exact foldMark_mono pos _ ids id (mark_then_seen pos b id hw)
    · exact ih _ (wf_mark pos b i hw) h

theorem maybeSeen_auth_irrelevant (pos : Id → List Nat) (b : Bloom) (a : Bool) (id : Id) :
    ({ b with auth := a } : Bloom).maybeSeen pos id = b.maybeSeen pos id := rfl

theorem hydrate_seen (pos : Id → List Nat) (b : Bloom) (ids : List Id) (id : Id) (hw : WF b) (hm : id ∈ ids) :
    (b.hydrate pos ids).maybeSeen pos id = true := by
  unfold Bloom.hydrate
  rw [maybeSeen_auth_irrelevant]
  exact foldMark_seen pos b ids id hw hm

theorem hydrate_mono (pos : Id → List Nat) (b : Bloom) (ids : List Id) (id' : Id) (h : b.maybeSeen pos id' = true) :
    (b.hydrate pos ids).maybeSeen pos id' = true := by
  unfold Bloom.hydrate
  rw [maybeSeen_auth_irrelevant]
  exact foldMark_mono pos b ids id' h

/-! ### filter op sequences (the driver's `bloom` protocol) -/

/-- the filter after a sequence of filter ops -/
def bfold (pos : Id → List Nat) (b : Bloom) (ops : List BOp) : Bloom :=
  ops.foldl (fun b op => (bstep pos b op).1) b

/-- ids marked or hydrated since the last reset -/
def sinceReset (ops : List BOp) : List Id :=
  ops.foldl (fun acc op => match op with
    | .mark i => i :: acc
    | .hyd l => l ++ acc
    | .reset => []
    | _ => acc) []

/-! ### the processor -/

theorem wf_hydrateFromStore (pos : Id → List Nat) (cap : Nat) (st : List Id) (b : Bloom) (h : WF b) :
    WF (hydrateFromStore pos cap st b) := by
  unfold hydrateFromStore
  split
  · exact h
  · exact wf_hydrate pos b st h

theorem wf_rotate (pos : Id → List Nat) (cap : Nat) (st : List Id) (b : Bloom) (h : WF b) :
    WF (rotateBloom pos cap st b) := wf_hydrateFromStore pos cap st _ (wf_reset b h)

theorem mem_storeAdd (st : List Id) (id x : Id) : x ∈ storeAdd st id ↔ x ∈ st ∨ x = id := by
  unfold storeAdd
  split
  · rename_i h
    have : id ∈ st := by simpa using h
    constructor
    · exact Or.inl
    · rintro (h | h)
      · exact h
      · subst h; exact this
  · simp

/-- the op does not delete the processed record of `id`: a purge that does not name it, or a retention sweep
    at a moment when the record is not older than the sweep's max age -/
def spares (s : State) (op : Op) (id : Id) : Bool :=
  match op with
  | .cleanup ids => !ids.contains id
  | .sweep maxAge => !expired s maxAge id
  | _ => true

/-- "`id` is processed and the duplicate check will find it": the id is in processed_messages, the filter is
    well-formed, and — only relevant when negatives are trusted — an authoritative filter tests positive for it -/
def Committed (pos : Id → List Nat) (c : Cfg) (s : State) (id : Id) : Prop :=
  id ∈ s.store ∧ WF s.bloom ∧ (c.trust = true → s.bloom.auth = true → s.bloom.maybeSeen pos id = true)

theorem skips_of_committed (pos : Id → List Nat) (c : Cfg) (s : State) (id : Id) (h : Committed pos c s id) :
    skips pos c s id = true := by
  obtain ⟨hm, _, hs⟩ := h
  unfold skips consultsStore
  have hc : s.store.contains id = true := by simpa using hm
  rw [hc, Bool.and_true]
  cases ht : c.trust with
  | false => simp
  | true =>
    cases ha : s.bloom.auth with
    | false => simp
    | true => simp [hs ht ha]

/-- the filter after the rotation check of `_handle_message` -/
def afterRotationCheck (pos : Id → List Nat) (c : Cfg) (s : State) : Bloom :=
  if s.bloom.shouldReset then rotateBloom pos c.cap s.store s.bloom else s.bloom

theorem handleMsg_run (pos : Id → List Nat) (c : Cfg) (s : State) (i : Id) (o : Outcome)
    (hk : skips pos c s i = false) :
    handleMsg pos c s i o =
      (match o with
       | .raiseBefore => ({ s with bloom := onRaise pos c (afterRotationCheck pos c s) i, runs := i :: s.runs }, Obs.ran)
       | .commitRaise => ({ s with bloom := onRaise pos c (afterRotationCheck pos c s) i, store := storeAdd s.store i,
                                   runs := i :: s.runs, stamp := stampAdd s i }, Obs.ran)
       | .commitReturn | .plainReturn =>
         ({ s with bloom := (afterRotationCheck pos c s).markSeen pos i, store := storeAdd s.store i,
                   runs := i :: s.runs, stamp := stampAdd s i }, Obs.ran)) := by
  simp only [handleMsg, hk, afterRotationCheck]
  cases o <;> rfl

theorem handleMsg_skip (pos : Id → List Nat) (c : Cfg) (s : State) (i : Id) (o : Outcome)
    (hk : skips pos c s i = true) : handleMsg pos c s i o = (s, Obs.skipped) := by
  simp only [handleMsg, hk, if_true]

theorem step_handle (pos : Id → List Nat) (c : Cfg) (s : State) (i : Id) (o : Outcome) (aged : Bool) :
    step pos c s (.handle i o aged) = handleMsg pos c (ageState s aged) i o := rfl

theorem age_store (s : State) (a : Bool) : (ageState s a).store = s.store := by unfold ageState; split <;> rfl
theorem age_runs (s : State) (a : Bool) : (ageState s a).runs = s.runs := by unfold ageState; split <;> rfl
theorem age_wf (s : State) (a : Bool) (h : WF s.bloom) : WF (ageState s a).bloom := by
  unfold ageState; split <;> exact h
theorem age_auth (s : State) (a : Bool) : (ageState s a).bloom.auth = s.bloom.auth := by unfold ageState; split <;> rfl
theorem age_seen (pos : Id → List Nat) (s : State) (a : Bool) (id : Id) :
    (ageState s a).bloom.maybeSeen pos id = s.bloom.maybeSeen pos id := by unfold ageState; split <;> rfl
theorem age_runCount (s : State) (a : Bool) (id : Id) : runCount (ageState s a) id = runCount s id := by
  unfold runCount; rw [age_runs]

theorem wf_afterRotationCheck (pos : Id → List Nat) (c : Cfg) (s : State) (hw : WF s.bloom) :
    WF (afterRotationCheck pos c s) := by
  unfold afterRotationCheck
  split
  · exact wf_rotate pos c.cap s.store s.bloom hw
  · exact hw

theorem hydrateFromStore_seen (pos : Id → List Nat) (cap : Nat) (st : List Id) (b : Bloom) (id : Id)
    (hw : WF b) (hna : b.auth = false) (hm : id ∈ st) (ha : (hydrateFromStore pos cap st b).auth = true) :
    (hydrateFromStore pos cap st b).maybeSeen pos id = true := by
  unfold hydrateFromStore at ha ⊢
  by_cases hl : st.length > cap
  · simp only [hl, if_true] at ha; rw [hna] at ha; cases ha
  · simp only [hl, if_false]
    exact hydrate_seen pos b st id hw hm

theorem afterRotationCheck_seen (pos : Id → List Nat) (c : Cfg) (s : State) (id : Id)
    (h : Committed pos c s id) (ht : c.trust = true) (ha : (afterRotationCheck pos c s).auth = true) :
    (afterRotationCheck pos c s).maybeSeen pos id = true := by
  obtain ⟨hm, hw, hs⟩ := h
  unfold afterRotationCheck at ha ⊢
  split
  · rename_i hr
    simp only [hr, if_true] at ha
    exact hydrateFromStore_seen pos c.cap s.store _ id (wf_reset _ hw) rfl hm ha
  · rename_i hr
    simp only [hr] at ha
    exact hs ht ha

theorem committed_age (pos : Id → List Nat) (c : Cfg) (s : State) (a : Bool) (id : Id) (h : Committed pos c s id) :
    Committed pos c (ageState s a) id := by
  obtain ⟨hm, hw, hs⟩ := h
  refine ⟨by rw [age_store]; exact hm, age_wf s a hw, ?_⟩
  rw [age_auth, age_seen]; exact hs

/-- a delivery whose handling committed (own commit or the processor's mark) leaves the id processed;
    so does a delivery that was skipped (it was skipped BECAUSE the id is processed) -/
theorem handled_is_committed (pos : Id → List Nat) (c : Cfg) (s : State) (id : Id) (o : Outcome) (aged : Bool)
    (ho : o ≠ .raiseBefore) : id ∈ (step pos c s (.handle id o aged)).1.store := by
  rw [step_handle]
  cases hk : skips pos c (ageState s aged) id with
  | true =>
    rw [handleMsg_skip pos c _ id o hk]
    unfold skips at hk
    simp only [Bool.and_eq_true] at hk
    simpa using hk.2
  | false =>
    rw [handleMsg_run pos c _ id o hk]
    cases o with
    | raiseBefore => exact absurd rfl ho
    | commitRaise => exact (mem_storeAdd _ _ _).mpr (Or.inr rfl)
    | commitReturn => exact (mem_storeAdd _ _ _).mpr (Or.inr rfl)
    | plainReturn => exact (mem_storeAdd _ _ _).mpr (Or.inr rfl)

theorem wf_onRaise (pos : Id → List Nat) (c : Cfg) (b : Bloom) (i : Id) (h : WF b) : WF (onRaise pos c b i) := by
  unfold onRaise; split
  · exact wf_mark pos b i h
  · exact h

theorem onRaise_auth (pos : Id → List Nat) (c : Cfg) (b : Bloom) (i : Id) : (onRaise pos c b i).auth = b.auth := by
  unfold onRaise; split <;> rfl

theorem onRaise_mono (pos : Id → List Nat) (c : Cfg) (b : Bloom) (i id : Id) (h : b.maybeSeen pos id = true) :
    (onRaise pos c b i).maybeSeen pos id = true := by
  unfold onRaise; split
  · exact mark_mono pos b i id h
  · exact h

theorem wf_handleMsg (pos : Id → List Nat) (c : Cfg) (s : State) (i : Id) (o : Outcome) (hw : WF s.bloom) :
    WF (handleMsg pos c s i o).1.bloom := by
  cases hk : skips pos c s i with
  | true => rw [handleMsg_skip pos c s i o hk]; exact hw
  | false =>
    rw [handleMsg_run pos c s i o hk]
    have := wf_afterRotationCheck pos c s hw
    cases o <;> first | exact wf_onRaise pos c _ i this | exact wf_mark pos _ i this

theorem wf_step (pos : Id → List Nat) (c : Cfg) (hsz : 0 < c.size) (s : State) (op : Op) (hw : WF s.bloom) :
    WF (step pos c s op).1.bloom := by
  cases op with
  | handle i o aged => rw [step_handle]; exact wf_handleMsg pos c _ i o (age_wf s aged hw)
  | restart => exact wf_hydrateFromStore pos c.cap s.store _ (wf_fresh c.size hsz)
  | rotate => exact wf_rotate pos c.cap s.store s.bloom hw
  | peerMarks i => exact hw
  | cleanup ids => exact hw
  | tick n => exact hw
  | sweep h => exact hw

theorem wf_run (pos : Id → List Nat) (c : Cfg) (hsz : 0 < c.size) (s : State) (ops : List Op) (hw : WF s.bloom) :
    WF (run pos c s ops).bloom := by
  induction ops generalizing s with
  | nil => exact hw
  | cons op ops ih => exact ih _ (wf_step pos c hsz s op hw)

theorem runCount_cons_ne (runs : List Id) (i id : Id) (h : i ≠ id) :
    ((i :: runs).filter (· == id)).length = (runs.filter (· == id)).length := by
  have : (i == id) = false := by simpa using h
  simp [this]

theorem handleMsg_keeps (pos : Id → List Nat) (c : Cfg) (s : State) (i : Id) (o : Outcome) (id : Id)
    (h : Committed pos c s id) :
    runCount (handleMsg pos c s i o).1 id = runCount s id ∧ Committed pos c (handleMsg pos c s i o).1 id := by
  have hskip := skips_of_committed pos c s id h
  have hw' := wf_handleMsg pos c s i o h.2.1
  obtain ⟨hm, hw, hs⟩ := h
  cases hk : skips pos c s i with
  | true => rw [handleMsg_skip pos c s i o hk]; exact ⟨rfl, hm, hw, hs⟩
  | false =>
    have hne : i ≠ id := by intro h; subst h; rw [hskip] at hk; cases hk
    have hwf := hw'
    rw [handleMsg_run pos c s i o hk] at hwf ⊢
    have hseen := afterRotationCheck_seen pos c s id ⟨hm, hw, hs⟩
    cases o with
    | raiseBefore =>
      exact ⟨runCount_cons_ne _ _ _ hne, hm, hwf,
        fun ht ha => onRaise_mono pos c _ i id (hseen ht (by rw [onRaise_auth] at ha; exact ha))⟩
    | commitRaise =>
      exact ⟨runCount_cons_ne _ _ _ hne, (mem_storeAdd _ _ _).mpr (Or.inl hm), hwf,
        fun ht ha => onRaise_mono pos c _ i id (hseen ht (by rw [onRaise_auth] at ha; exact ha))⟩
    | commitReturn =>
      exact ⟨runCount_cons_ne _ _ _ hne, (mem_storeAdd _ _ _).mpr (Or.inl hm), hwf,
        fun ht ha => mark_mono pos _ i id (hseen ht ha)⟩
    | plainReturn =>
      exact ⟨runCount_cons_ne _ _ _ hne, (mem_storeAdd _ _ _).mpr (Or.inl hm), hwf,
        fun ht ha => mark_mono pos _ i id (hseen ht ha)⟩

/-- one step on a state where `id` is committed: the handler is not dispatched for `id`, and `id` stays committed
    (every op, any other message, any outcome; only deleting the record of `id` itself is excluded) -/
theorem step_keeps (pos : Id → List Nat) (c : Cfg) (hsz : 0 < c.size) (s : State) (op : Op) (id : Id)
    (h : Committed pos c s id) (hc : spares s op id = true) :
    runCount (step pos c s op).1 id = runCount s id ∧ Committed pos c (step pos c s op).1 id := by
  have hw' := wf_step pos c hsz s op h.2.1
  cases op with
  | handle i o aged =>
    rw [step_handle]
    have := handleMsg_keeps pos c (ageState s aged) i o id (committed_age pos c s aged id h)
    rw [age_runCount] at this
    exact this
  | restart =>
    obtain ⟨hm, hw, hs⟩ := h
    refine ⟨rfl, hm, hw', fun _ ha => ?_⟩
    exact hydrateFromStore_seen pos c.cap s.store _ id (wf_fresh c.size hsz) rfl hm ha
  | rotate =>
    obtain ⟨hm, hw, hs⟩ := h
    refine ⟨rfl, hm, hw', fun _ ha => ?_⟩
    exact hydrateFromStore_seen pos c.cap s.store _ id (wf_reset _ hw) rfl hm ha
  | peerMarks i =>
    obtain ⟨hm, hw, hs⟩ := h
    exact ⟨rfl, (mem_storeAdd _ _ _).mpr (Or.inl hm), hw, hs⟩
  | cleanup ids =>
    obtain ⟨hm, hw, hs⟩ := h
    have : ids.contains id = false := by simpa [spares] using hc
    refine ⟨rfl, ?_, hw, hs⟩
    simp only [step, List.mem_filter]
    exact ⟨hm, by simpa using this⟩
  | tick n =>
    obtain ⟨hm, hw, hs⟩ := h
    exact ⟨rfl, hm, hw, hs⟩
  | sweep maxAge =>
    obtain ⟨hm, hw, hs⟩ := h
    have : expired s maxAge id = false := by simpa [spares] using hc
    refine ⟨rfl, ?_, hw, hs⟩
    simp only [step, List.mem_filter]
    exact ⟨hm, by simp [this]⟩

/-- "the record of `id` survives the whole history": evaluated op by op in the state each op meets -/
def Spared (pos : Id → List Nat) (c : Cfg) (s : State) (id : Id) : List Op → Prop
  | [] => True
  | op :: ops => spares s op id = true ∧ Spared pos c (step pos c s op).1 id ops

instance decSpared (pos : Id → List Nat) (c : Cfg) : (s : State) → (id : Id) → (ops : List Op) → Decidable (Spared pos c s id ops)
  | _, _, [] => isTrue trivial
  | s, id, op :: ops =>
    have := decSpared pos c (step pos c s op).1 id ops
    inferInstanceAs (Decidable (spares s op id = true ∧ Spared pos c (step pos c s op).1 id ops))

end Stab.Props.C09
