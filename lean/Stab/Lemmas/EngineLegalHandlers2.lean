/-
  Legality of StartStage, RunTask (both phases) and CompleteStage, in any state.
-/
import Stab.Lemmas.EngineLegalHandlers

namespace Stab.Engine
open Stab

macro "quiet_tac2" : tactic =>
  `(tactic| (simp [Eff.quiet, List.all_map, Function.comp_def, List.all_append]))

theorem effRows_oob (s : State) (i : Nat) (new : StageSt) (h : s.stages.length ≤ i) :
    effRows s (.setStage i new) = [] := by
  simp [effRows, h]

/-- two consecutive writes of the same stage: the second is judged against what the first left -/
theorem effAll_two_writes (s : State) (i : Nat) (a b : StageSt) (l : List Eff)
    (ha : LegalEff s (.setStage i a))
    (hb : Status.canTransition a.status b.status = true) (htb : b.tasks = a.tasks)
    (hl : l.all Eff.quiet = true) :
    EffAll LegalEff s (.setStage i a :: .setStage i b :: l) := by
  refine ⟨ha, ?_, effAll_quietB _ _ hl⟩
  by_cases hlt : i < s.stages.length
  · apply legalEff_setStage_tasks_same
    · rw [applyEff_setStage_stage]; simp [hlt, hb]
    · rw [applyEff_setStage_stage]; simp [hlt, htb]
  · exact legalEff_other _ _ (effRows_oob _ _ _ (by simpa using Nat.le_of_not_lt hlt))

theorem startIfReady_legal (c : Cfg) (s : State) (id i : Nat) (bypass : Bool) :
    EffAll LegalEff s (startIfReady c s id i bypass).flatten := by
  unfold startIfReady
  simp only []
  split
  · trivial
  · rename_i h
    split
    · exact effAll_quietB _ _ (by quiet_tac2)
    · simp only [List.flatten_cons, List.flatten_nil, List.append_nil, List.cons_append, List.nil_append]
      have hst : (s.stage i).status = .notStarted ∨ (s.stage i).status = .running := by
        by_cases h1 : (s.stage i).status = .notStarted
        · exact Or.inl h1
        · right
          simp only [Bool.and_eq_true, bne_iff_ne, ne_eq, Bool.not_eq_true', not_and, Bool.not_eq_false] at h
          have := h (by simpa using h1)
          simp only [Bool.and_eq_true, beq_iff_eq] at this
          exact this.1
      apply effAll_two_writes
      · apply legalEff_setStage_tasks_same
        · rcases hst with h1 | h1 <;> split <;> simp_all [Status.canTransition, Status.validNext] <;> split <;> simp_all
        · split <;> split <;> rfl
      · simp [canTransition_refl]
      · rfl
      · quiet_tac2

theorem hStartStage_legal (c : Cfg) (s : State) (id i retry : Nat) :
    EffAll LegalEff s (hStartStage c s id i retry).flatten := by
  unfold hStartStage
  split
  · split
    · exact effAll_quietB _ _ (by quiet_tac2)
    · trivial
  unfold hStartStageCore
  simp only []
  split
  · exact startIfReady_legal ..
  · exact effAll_quietB _ _ (by quiet_tac2)
  · split
    · trivial
    · split
      · trivial
      · split
        · split
          · rename_i hc
            simp only [List.flatten_cons, List.flatten_nil, List.append_nil]
            exact effAll_write_then_quietB _ _ _ (legalEff_setStage_tasks_same s i _ hc rfl) (by quiet_tac2)
          · simp only [List.flatten_cons, List.flatten_nil, List.append_nil]
            exact effAll_write_then_quietB _ _ _ (legalEff_setStage_tasks_same s i _ (canTransition_refl _) rfl) (by quiet_tac2)
        · exact effAll_quietB _ _ (by quiet_tac2)

theorem legal_same_status (s : State) (i : Nat) (st' : StageSt)
    (h1 : st'.status = (s.stage i).status) (h2 : st'.tasks = (s.stage i).tasks) : LegalEff s (.setStage i st') :=
  legalEff_other _ _ (effRows_same s i st' h1 h2)

theorem processResult_legal (c : Cfg) (s : State) (id i t n : Nat) (oc : Outcome) :
    EffAll LegalEff s (processResult c (s.stage i) id i t n oc).flatten := by
  unfold processResult
  simp only []
  cases oc <;> simp only [List.flatten_cons, List.flatten_nil, List.append_nil]
  case suspend =>
    split
    · exact effAll_quietB _ _ (by quiet_tac2)
    · rename_i h
      simp only [Bool.or_eq_true, bne_iff_ne, ne_eq, not_or, Decidable.not_not] at h
      obtain ⟨hs, ht⟩ := h
      split
      · simp only [List.flatten_cons, List.flatten_nil, List.append_nil]
        refine effAll_write_then_quietB _ _ _ ?_ (by quiet_tac2)
        exact legal_setTask s i t _ (fun x => { x with status := .running }) (by simp [hs, canTransition_refl]) rfl
          (by show Status.canTransition (((s.stage i).tasks).getD t default).status Status.running = true; rw [ht]; decide)
      · simp only [List.flatten_cons, List.flatten_nil, List.append_nil]
        refine effAll_write_then_quietB _ _ _ ?_ (by quiet_tac2)
        exact legal_setTask s i t _ (fun x => { x with status := .suspended }) (by simp [hs, Status.canTransition, Status.validNext]) rfl
          (by show Status.canTransition (((s.stage i).tasks).getD t default).status Status.suspended = true; rw [ht]; decide)
  case transient => trivial
  all_goals exact effAll_write_then_quietB _ _ _ (legal_same_status s i _ rfl rfl) (by quiet_tac2)

theorem runTaskGuard_quiet (s : State) (id i t : Nat) (txns : List Txn) (h : runTaskGuard s id i t = some txns) :
    txns.flatten.all Eff.quiet = true := by
  unfold runTaskGuard at h
  simp only [] at h
  (repeat' split at h) <;> simp at h <;> subst h <;> simp [Eff.quiet]

theorem runTaskCommit_legal (c : Cfg) (s : State) (id i t a n : Nat) (oc : Outcome) :
    EffAll LegalEff s (runTaskCommit c (s.stage i) id i t a n oc).flatten := by
  unfold runTaskCommit
  split
  · simp only []
    split
    · exact effAll_quietB _ _ (by quiet_tac2)
    · simp only [List.flatten_cons, List.flatten_nil, List.append_nil]
      exact effAll_write_then_quietB _ _ _ (legal_same_status s i _ rfl rfl) (by quiet_tac2)
  · exact processResult_legal ..

theorem hRunTask_legal (c : Cfg) (s : State) (id i t a : Nat) :
    EffAll LegalEff s (hRunTask c s id i t a).1.flatten := by
  unfold hRunTask
  split
  · rename_i txns hg
    exact effAll_quietB _ _ (runTaskGuard_quiet s id i t txns hg)
  · exact runTaskCommit_legal ..

end Stab.Engine
