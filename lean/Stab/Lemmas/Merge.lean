/-
  Helper lemmas for C16 (`Stab.Merge`): association-list dictionaries, the per-key view of the merge
  loops, `appendNew`, ancestors / linear extensions.
-/
import Stab.Model.Merge

namespace Stab.Merge

/-- induction from the right end of a list -/
theorem snoc_induction {α} {P : List α → Prop} (hnil : P [])
    (hsnoc : ∀ l x, P l → P (l ++ [x])) : ∀ l, P l := by
  intro l
  have : ∀ n (l : List α), l.length = n → P l := by
    intro n
    induction n with
    | zero => intro l hl; rw [List.eq_nil_of_length_eq_zero hl]; exact hnil
    | succ n ih =>
      intro l hl
      rcases List.eq_nil_or_concat l with rfl | ⟨l', b, rfl⟩
      · exact hnil
      · rw [List.concat_eq_append] at hl ⊢
        exact hsnoc l' b (ih l' (by simpa using hl))
  exact this l.length l rfl

/-! ### dictionaries -/

theorem get?_set {α} (m : Dict α) (k k' : String) (v : α) :
    get? (set m k v) k' = if k = k' then some v else get? m k' := by
  induction m with
  | nil => simp [set, get?]
  | cons e m ih =>
    obtain ⟨k0, v0⟩ := e
    by_cases h0 : k0 = k
    · subst h0
      by_cases h1 : k0 = k' <;> simp [set, get?, h1]
    · by_cases h1 : k = k'
      · subst h1
        simp [set, get?, h0, ih]
      · by_cases h2 : k0 = k'
        · subst h2
          simp [set, get?, h0, h1]
        · simp [set, get?, h0, h1, h2, ih]

theorem get?_eq_none_iff {α} (m : Dict α) (k : String) : get? m k = none ↔ ∀ v, (k, v) ∉ m := by
  induction m with
  | nil => simp [get?]
  | cons e m ih =>
    obtain ⟨k0, v0⟩ := e
    by_cases h : k0 = k
    · subst h
      simp only [get?, if_true]
      constructor
      · intro h; cases h
      · intro h; exact absurd (List.mem_cons_self) (h v0)
    · simp only [get?, h, if_false, ih, List.mem_cons, not_or]
      constructor
      · intro hh v
        refine ⟨?_, hh v⟩
        intro heq
        injection heq with h1 _
        exact h h1.symm
      · intro hh v
        exact (hh v).2

theorem get?_mem {α} (m : Dict α) (k : String) (v : α) : get? m k = some v → (k, v) ∈ m := by
  induction m with
  | nil => simp [get?]
  | cons e m ih =>
    obtain ⟨k0, v0⟩ := e
    by_cases h : k0 = k
    · subst h
      simp only [get?, if_true]
      intro hh
      injection hh with hh
      subst hh
      exact List.mem_cons_self
    · simp only [get?, h, if_false]
      intro hh
      exact List.mem_cons_of_mem _ (ih hh)

/-- values a dict-as-list holds for one key, in order (a real dict holds at most one) -/
def valsOf (outs : Outs) (k : String) : List Value := (outs.filter (fun e => e.1 = k)).map (·.2)

theorem valsOf_of_nodup (outs : Outs) (k : String) (h : (outs.map (·.1)).Nodup) :
    valsOf outs k = (get? outs k).toList := by
  induction outs with
  | nil => simp [valsOf, get?]
  | cons e m ih =>
    obtain ⟨k0, v0⟩ := e
    simp only [List.map_cons, List.nodup_cons] at h
    by_cases h0 : k0 = k
    · subst h0
      have : get? m k0 = none := by
        rw [get?_eq_none_iff]
        intro v hv
        exact h.1 (List.mem_map.mpr ⟨(k0, v), hv, rfl⟩)
      have ih' := ih h.2
      simp only [valsOf] at ih' ⊢
      simp [get?, ih', this]
    · have ih' := ih h.2
      simp only [valsOf] at ih' ⊢
      simp [get?, h0, ih']

/-- the per-key fold both merge loops perform -/
def foldVals (o : Option Value) (vs : List Value) : Option Value :=
  vs.foldl (fun o v => some (combine o v)) o

theorem foldVals_append (o : Option Value) (a b : List Value) :
    foldVals o (a ++ b) = foldVals (foldVals o a) b := by
  simp [foldVals, List.foldl_append]

theorem mergeOuts_get? (acc outs : Outs) (k : String) :
    get? (mergeOuts acc outs) k = foldVals (get? acc k) (valsOf outs k) := by
  induction outs generalizing acc with
  | nil => simp [mergeOuts, valsOf, foldVals]
  | cons e m ih =>
    obtain ⟨k0, v0⟩ := e
    have : mergeOuts acc ((k0, v0) :: m) = mergeOuts (set acc k0 (combine (get? acc k0) v0)) m := by
      simp [mergeOuts]
    rw [this, ih]
    by_cases h : k0 = k
    · subst h
      simp [valsOf, get?_set, foldVals]
    · simp [valsOf, get?_set, h]

/-- all values the stages of `order` hold for key `k`, in merge order -/
def vals (O : Nat → Outs) (order : List Nat) (k : String) : List Value :=
  order.flatMap (fun a => valsOf (O a) k)

theorem mergeFrom_get? (O : Nat → Outs) (acc : Outs) (order : List Nat) (k : String) :
    get? (mergeFrom O acc order) k = foldVals (get? acc k) (vals O order k) := by
  induction order generalizing acc with
  | nil => simp [mergeFrom, vals, foldVals]
  | cons a rest ih =>
    have : mergeFrom O acc (a :: rest) = mergeFrom O (mergeOuts acc (O a)) rest := by
      simp [mergeFrom]
    rw [this, ih, mergeOuts_get?]
    simp [vals, foldVals_append]

theorem mergeOrder_get? (O : Nat → Outs) (order : List Nat) (k : String) :
    get? (mergeOrder O order) k = foldVals none (vals O order k) := by
  simp [mergeOrder, mergeFrom_get?, get?]

/-! ### `appendNew` and list accumulation -/

theorem appendNew_spec (e n : List Atom) :
    ∃ t, appendNew e n = e ++ t ∧ t.Nodup ∧ (∀ y ∈ t, y ∉ e ∧ y ∈ n) ∧ (∀ y ∈ n, y ∈ e ∨ y ∈ t) := by
  induction n generalizing e with
  | nil => exact ⟨[], by simp [appendNew]⟩
  | cons x xs ih =>
    by_cases hx : x ∈ e
    · obtain ⟨t, h1, h2, h3, h4⟩ := ih e
      refine ⟨t, by simp [appendNew, hx, h1], h2, ?_, ?_⟩
      · intro y hy
        exact ⟨(h3 y hy).1, List.mem_cons_of_mem _ (h3 y hy).2⟩
      · intro y hy
        rcases List.mem_cons.mp hy with rfl | hy
        · exact Or.inl hx
        · exact h4 y hy
    · obtain ⟨t, h1, h2, h3, h4⟩ := ih (e ++ [x])
      refine ⟨x :: t, by simp [appendNew, hx, h1], ?_, ?_, ?_⟩
      · refine List.nodup_cons.mpr ⟨?_, h2⟩
        intro hxt
        exact (h3 x hxt).1 (by simp)
      · intro y hy
        rcases List.mem_cons.mp hy with rfl | hy
        · exact ⟨hx, List.mem_cons_self⟩
        · refine ⟨?_, List.mem_cons_of_mem _ (h3 y hy).2⟩
          intro hye
          exact (h3 y hy).1 (by simp [hye])
      · intro y hy
        rcases List.mem_cons.mp hy with rfl | hy
        · exact Or.inr List.mem_cons_self
        · rcases h4 y hy with h | h
          · rcases List.mem_append.mp h with h | h
            · exact Or.inl h
            · simp at h
              subst h
              exact Or.inr List.mem_cons_self
          · exact Or.inr (List.mem_cons_of_mem _ h)

/-- the accumulation of a sequence of list values onto a first list -/
def accum (e : List Atom) (ls : List (List Atom)) : List Atom := ls.foldl appendNew e

theorem accum_spec (e : List Atom) (ls : List (List Atom)) :
    ∃ t, accum e ls = e ++ t ∧ t.Nodup ∧ (∀ y ∈ t, y ∉ e ∧ ∃ l ∈ ls, y ∈ l)
      ∧ (∀ l ∈ ls, ∀ y ∈ l, y ∈ e ∨ y ∈ t) := by
  induction ls generalizing e with
  | nil => exact ⟨[], by simp [accum]⟩
  | cons l ls ih =>
    obtain ⟨t1, a1, a2, a3, a4⟩ := appendNew_spec e l
    obtain ⟨t2, b1, b2, b3, b4⟩ := ih (appendNew e l)
    refine ⟨t1 ++ t2, ?_, ?_, ?_, ?_⟩
    · have : accum e (l :: ls) = accum (appendNew e l) ls := by simp [accum]
      rw [this, b1, a1, List.append_assoc]
    · refine List.nodup_append.mpr ⟨a2, b2, ?_⟩
      intro x hx1 y hy2 hxy
      subst hxy
      exact (b3 x hy2).1 (by rw [a1]; exact List.mem_append_right _ hx1)
    · intro y hy
      rcases List.mem_append.mp hy with h | h
      · exact ⟨(a3 y h).1, l, List.mem_cons_self, (a3 y h).2⟩
      · obtain ⟨h1, l', hl', hyl'⟩ := b3 y h
        refine ⟨?_, l', List.mem_cons_of_mem _ hl', hyl'⟩
        intro hye
        exact h1 (by rw [a1]; exact List.mem_append_left _ hye)
    · intro l' hl' y hy
      rcases List.mem_cons.mp hl' with rfl | hl'
      · rcases a4 y hy with h | h
        · exact Or.inl h
        · exact Or.inr (List.mem_append_left _ h)
      · rcases b4 l' hl' y hy with h | h
        · rw [a1] at h
          rcases List.mem_append.mp h with h | h
          · exact Or.inl h
          · exact Or.inr (List.mem_append_left _ h)
        · exact Or.inr (List.mem_append_right _ h)

theorem foldVals_lists (e : List Atom) (ls : List (List Atom)) :
    foldVals (some (.list e)) (ls.map Value.list) = some (.list (accum e ls)) := by
  induction ls generalizing e with
  | nil => simp [foldVals, accum]
  | cons l ls ih =>
    have : foldVals (some (.list e)) ((l :: ls).map Value.list)
        = foldVals (some (.list (appendNew e l))) (ls.map Value.list) := by
      simp [foldVals, combine]
    rw [this, ih]
    simp [accum]

theorem foldVals_eq_none (o : Option Value) (vs : List Value) :
    foldVals o vs = none ↔ o = none ∧ vs = [] := by
  cases vs with
  | nil => simp [foldVals]
  | cons v vs =>
    have : ∀ (w : Value) (l : List Value), foldVals (some w) l ≠ none := by
      intro w l
      induction l generalizing w with
      | nil => simp [foldVals]
      | cons x l ih => simpa [foldVals] using ih (combine (some w) x)
    simp only [reduceCtorEq, and_false, iff_false]
    simpa [foldVals] using this (combine o v) vs

theorem foldVals_snoc (o : Option Value) (vs : List Value) (v : Value) :
    foldVals o (vs ++ [v]) = some (combine (foldVals o vs) v) := by
  simp [foldVals, List.foldl_append]

theorem combine_nonlist (o : Option Value) (v : Value) (h : v.isList = false) : combine o v = v := by
  cases v with
  | list l => simp [Value.isList] at h
  | atom a => cases o with
    | none => rfl
    | some w => cases w <;> rfl
  | dict d => cases o with
    | none => rfl
    | some w => cases w <;> rfl

theorem mem_vals (O : Nat → Outs) (order : List Nat) (k : String) (v : Value) :
    v ∈ vals O order k ↔ ∃ a ∈ order, (k, v) ∈ O a := by
  simp only [vals, valsOf, List.mem_flatMap, List.mem_map, List.mem_filter, decide_eq_true_eq]
  constructor
  · rintro ⟨a, ha, ⟨k', v'⟩, ⟨hm, hk⟩, hv⟩
    simp only at hk hv
    subst hk hv
    exact ⟨a, ha, hm⟩
  · rintro ⟨a, ha, hm⟩
    exact ⟨a, ha, (k, v), ⟨hm, rfl⟩, rfl⟩

theorem vals_append (O : Nat → Outs) (l1 l2 : List Nat) (k : String) :
    vals O (l1 ++ l2) k = vals O l1 k ++ vals O l2 k := by
  simp [vals]

theorem vals_eq_nil_of_no_producer (O : Nat → Outs) (l : List Nat) (k : String)
    (h : ∀ a ∈ l, get? (O a) k = none) : vals O l k = [] := by
  apply List.eq_nil_iff_forall_not_mem.mpr
  intro v hv
  obtain ⟨a, ha, hm⟩ := (mem_vals O l k v).mp hv
  exact ((get?_eq_none_iff (O a) k).mp (h a ha)) v hm

/-! ### ancestors and linear extensions -/

/-- `a` is a transitive requisite of `s` -/
inductive Anc (R : Nat → List Nat) (s : Nat) : Nat → Prop
  | direct {a} : a ∈ R s → Anc R s a
  | step {c a} : Anc R s c → a ∈ R c → Anc R s a

/-- `order` is a linear extension of the ancestor sub-DAG of `s`: exactly the ancestors, once each,
    every stage after all of its requisites.  This is all the Kahn pass guarantees. -/
structure LinExt (R : Nat → List Nat) (s : Nat) (order : List Nat) : Prop where
  nodup : order.Nodup
  mem : ∀ a, a ∈ order ↔ Anc R s a
  before : ∀ l1 a l2, order = l1 ++ a :: l2 → ∀ b ∈ R a, b ∈ l1

theorem Anc.trans {R : Nat → List Nat} {s p q : Nat} (h1 : Anc R s p) (h2 : Anc R p q) : Anc R s q := by
  induction h2 with
  | direct h => exact Anc.step h1 h
  | step _ h ih => exact Anc.step ih h

/-- in a linear extension every TRANSITIVE ancestor of a member precedes it -/
theorem LinExt.anc_before {R : Nat → List Nat} {s : Nat} {order : List Nat} (h : LinExt R s order)
    {p q : Nat} (hq : Anc R p q) : ∀ l1 l2, order = l1 ++ p :: l2 → q ∈ l1 := by
  induction hq with
  | direct hd => intro l1 l2 e; exact h.before l1 p l2 e _ hd
  | @step c a _ hac ih =>
    intro l1 l2 e
    have hc : c ∈ l1 := ih l1 l2 e
    obtain ⟨m1, m2, rfl⟩ := List.append_of_mem hc
    have e' : order = m1 ++ c :: (m2 ++ p :: l2) := by simp [e]
    have := h.before m1 c _ e' a hac
    exact List.mem_append_left _ this

theorem reqsBefore_iff (R : Nat → List Nat) (seen rest : List Nat) :
    reqsBefore R seen rest = true ↔ ∀ l1 a l2, rest = l1 ++ a :: l2 → ∀ b ∈ R a, b ∈ seen ++ l1 := by
  induction rest generalizing seen with
  | nil =>
    simp only [reqsBefore, true_iff]
    intro l1 a l2 e
    cases l1 <;> simp at e
  | cons x rest ih =>
    simp only [reqsBefore, Bool.and_eq_true, List.all_eq_true, List.contains_iff_mem, ih]
    constructor
    · rintro ⟨h1, h2⟩ l1 a l2 e b hb
      cases l1 with
      | nil =>
        simp only [List.nil_append, List.cons.injEq] at e
        obtain ⟨rfl, rfl⟩ := e
        simpa using h1 b hb
      | cons y l1 =>
        simp only [List.cons_append, List.cons.injEq] at e
        obtain ⟨rfl, rfl⟩ := e
        have := h2 l1 a l2 rfl b hb
        simpa [List.append_assoc] using this
    · intro h
      refine ⟨?_, ?_⟩
      · intro b hb
        simpa using h [] x rest rfl b hb
      · intro l1 a l2 e b hb
        have := h (x :: l1) a l2 (by simp [e]) b hb
        simpa [List.append_assoc] using this

theorem isLinExt_iff (R : Nat → List Nat) (s : Nat) (order : List Nat) :
    isLinExt R s order = true ↔ LinExt R s order := by
  constructor
  · intro h
    simp only [isLinExt, Bool.and_eq_true, decide_eq_true_eq, Bool.not_eq_true', List.all_eq_true,
      List.any_eq_true, List.contains_eq_mem, decide_eq_false_iff_not] at h
    obtain ⟨⟨⟨⟨hnd, _hs⟩, hreq⟩, hbef⟩, hneed⟩ := h
    have hbef' := (reqsBefore_iff R [] order).mp hbef
    simp only [List.nil_append] at hbef'
    refine ⟨hnd, ?_, hbef'⟩
    intro a
    constructor
    · -- every member is needed by `s` or by a later member, all of which are ancestors
      have key : ∀ n l1 l2, order = l1 ++ l2 → l2.length = n → ∀ a ∈ l2, Anc R s a := by
        intro n
        induction n with
        | zero =>
          intro l1 l2 _ hl a ha
          have : l2 = [] := List.eq_nil_of_length_eq_zero hl
          simp [this] at ha
        | succ n ih =>
          intro l1 l2 e hl a ha
          cases l2 with
          | nil => simp at hl
          | cons x l2' =>
            have e' : order = (l1 ++ [x]) ++ l2' := by simp [e]
            have ih' := ih (l1 ++ [x]) l2' e' (by simpa using hl)
            rcases List.mem_cons.mp ha with rfl | ha
            · obtain ⟨c, hc, hac⟩ := hneed a (by simp [e])
              rcases List.mem_cons.mp hc with rfl | hc
              · exact Anc.direct hac
              · rw [e] at hc
                rcases List.mem_append.mp hc with hc | hc
                · -- `c` before `a` although it requires `a`: impossible
                  obtain ⟨y1, y2, rfl⟩ := List.append_of_mem hc
                  have e2 : order = y1 ++ c :: (y2 ++ a :: l2') := by simp [e]
                  have hay1 : a ∈ y1 := hbef' y1 c _ e2 a hac
                  rw [e2] at hnd
                  have := (List.nodup_append.mp hnd).2.2 a hay1 a (by simp)
                  exact absurd rfl this
                · rcases List.mem_cons.mp hc with rfl | hc
                  · have hal1 : c ∈ l1 := hbef' l1 c l2' e c hac
                    rw [e] at hnd
                    have := (List.nodup_append.mp hnd).2.2 c hal1 c (by simp)
                    exact absurd rfl this
                  · exact Anc.step (ih' c hc) hac
            · exact ih' a ha
      intro ha
      exact key order.length [] order (by simp) rfl a ha
    · intro ha
      induction ha with
      | direct hd => exact hreq _ hd
      | @step c a _ hac ih =>
        obtain ⟨m1, m2, e⟩ := List.append_of_mem ih
        have := hbef' m1 c m2 e a hac
        rw [e]
        exact List.mem_append_left _ this
  · intro h
    simp only [isLinExt, Bool.and_eq_true, decide_eq_true_eq, Bool.not_eq_true', List.all_eq_true,
      List.any_eq_true, List.contains_eq_mem, decide_eq_false_iff_not]
    refine ⟨⟨⟨⟨h.nodup, ?_⟩, ?_⟩, ?_⟩, ?_⟩
    · intro hs
      obtain ⟨l1, l2, e⟩ := List.append_of_mem hs
      have hss : Anc R s s := (h.mem s).mp hs
      have : s ∈ l1 := h.anc_before hss l1 l2 e
      have hnd := h.nodup
      rw [e] at hnd
      exact absurd rfl ((List.nodup_append.mp hnd).2.2 s this s (by simp))
    · intro b hb
      exact (h.mem b).mpr (Anc.direct hb)
    · rw [reqsBefore_iff]
      simpa using h.before
    · intro a ha
      cases (h.mem a).mp ha with
      | direct hd => exact ⟨s, by simp, hd⟩
      | @step c _ hc hac => exact ⟨c, List.mem_cons_of_mem _ ((h.mem c).mpr hc), hac⟩

end Stab.Merge
