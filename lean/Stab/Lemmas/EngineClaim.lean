/-
  Which handlers can move a stage from NOT_STARTED to RUNNING (used by Props/C02, C03).
-/
import Stab.Lemmas.EngineGood

namespace Stab.Engine
open Stab

/-- effect `e` (of a handler that read state `s`) claims stage `i`: NOT_STARTED in `s`, RUNNING afterwards -/
def Claims (s : State) (i : Nat) (e : Eff) : Prop :=
  ∃ new, e = .setStage i new ∧ (s.stage i).status = .notStarted ∧ new.status = .running

/-- **Only StartStage claims.**  If any effect of any handler turns a NOT_STARTED stage RUNNING, the handled
    message is `StartStage i` for that very stage and `evaluate_readiness` said READY on the durable upstream
    statuses the handler read (or the jump-bypass flag was set on the stage). -/
theorem only_startStage_claims (c : Cfg) (s : State) (row : Row) (i : Nat) (e : Eff)
    (he : e ∈ (handle c s row).1.flatten) (hc : Claims s i e) :
    ∃ r, row.msg = .startStage i r ∧
      (Ready.evaluate (readyIn c s i (s.stage i).jumpBypass)).phase = .ready := by
  obtain ⟨new, rfl, hns, hrun⟩ := hc
  unfold handle at he
  cases hm : row.msg with
  | startWorkflow =>
    simp only [hm, hStartWorkflow] at he
    (repeat' split at he) <;> simp at he
  | startStage j r =>
    simp only [hm, hStartStage] at he
    split at he
    · split at he
      · simp at he
      · simp at he
    simp only [hStartStageCore] at he
    split at he
    · rename_i hready
      -- READY branch: startIfReady
      simp only [startIfReady] at he
      (repeat' split at he) <;> simp at he
      all_goals (try (rcases he with he | he))
      all_goals (try (obtain ⟨rfl, rfl⟩ := he))
      all_goals (try exact ⟨r, rfl, hready⟩)
      all_goals simp_all
    · simp at he
    · (repeat' split at he) <;> simp at he
      all_goals (try (obtain ⟨rfl, rfl⟩ := he))
      all_goals simp_all
  | startTask j t =>
    simp only [hm, hStartTask] at he
    (repeat' split at he) <;> simp at he
    obtain ⟨rfl, rfl⟩ := he
    simp_all
  | runTask j t =>
    simp only [hm, hRunTask] at he
    split at he
    · rename_i txns hg
      unfold runTaskGuard at hg
      simp only [] at hg
      (repeat' split at hg) <;> simp at hg <;> subst hg <;> simp at he
    · unfold runTaskCommit processResult at he
      simp only [] at he
      (repeat' split at he) <;> simp at he
      all_goals (try (obtain ⟨rfl, rfl⟩ := he))
      all_goals simp_all
  | completeTask j t st =>
    simp only [hm, hCompleteTask] at he
    (repeat' split at he) <;> simp at he
    all_goals (obtain ⟨rfl, rfl⟩ := he; simp_all)
  | completeStage j =>
    simp only [hm, hCompleteStage] at he
    (repeat' split at he) <;> simp at he
    all_goals (try (obtain ⟨rfl, rfl⟩ := he))
    all_goals (try simp_all)
    all_goals (
      rcases he with ⟨l, hl, hmem⟩ | ⟨rfl, _⟩
      · have := joinTracking_preserving c s j (.setStage i new) (List.mem_flatten.mpr ⟨l, hl, hmem⟩)
        rw [this.1, hns] at hrun; cases hrun
      · simp_all)
  | skipStage j =>
    simp only [hm, hSkipStage] at he
    (repeat' split at he) <;> simp at he
    all_goals (try (rcases he with he | he))
    all_goals (try (obtain ⟨rfl, rfl⟩ := he))
    all_goals simp_all
  | cancelStage j =>
    simp only [hm, hCancelStage] at he
    (repeat' split at he) <;> simp at he
    obtain ⟨rfl, rfl⟩ := he
    simp_all
  | completeWorkflow r =>
    simp only [hm, hCompleteWorkflow] at he
    (repeat' split at he) <;> simp at he
  | cancelWorkflow =>
    simp only [hm, hCancelWorkflow] at he
    (repeat' split at he) <;> simp at he
  | jumpToStage a b =>
    simp only [hm, hJumpToStage] at he
    (repeat' split at he) <;> simp at he
    all_goals (try (obtain ⟨rfl, rfl⟩ := he; simp_all))
    all_goals (exfalso; simp only [resetForRetry] at he; grind)
  | signalStage j p =>
    simp only [hm, hSignalStage] at he
    (repeat' split at he) <;> simp at he
    all_goals (obtain ⟨rfl, rfl⟩ := he)
    all_goals simp_all


/-- **Only a JumpToStage sets the jump-bypass flag, and only on its target.** -/
theorem only_jump_sets_bypass (c : Cfg) (s : State) (row : Row) (j : Nat) (e : Eff)
    (he : e ∈ (handle c s row).1.flatten)
    (hb : ∃ new, e = .setStage j new ∧ (s.stage j).jumpBypass = false ∧ new.jumpBypass = true) :
    ∃ a, row.msg = .jumpToStage a j := by
  obtain ⟨new, rfl, hold, hnew⟩ := hb
  unfold handle at he
  cases hm : row.msg with
  | startWorkflow =>
    simp only [hm, hStartWorkflow] at he
    (repeat' split at he) <;> simp at he
  | startStage i r =>
    simp only [hm, hStartStage, hStartStageCore, startIfReady] at he
    (repeat' split at he) <;> simp at he
    all_goals (try (rcases he with he | he))
    all_goals (try (obtain ⟨rfl, rfl⟩ := he))
    all_goals (try (repeat' split at hnew))
    all_goals simp_all
  | startTask i t =>
    simp only [hm, hStartTask] at he
    (repeat' split at he) <;> simp at he
    obtain ⟨rfl, rfl⟩ := he
    simp_all
  | runTask i t =>
    simp only [hm, hRunTask] at he
    split at he
    · rename_i txns hg
      unfold runTaskGuard at hg
      simp only [] at hg
      (repeat' split at hg) <;> simp at hg <;> subst hg <;> simp at he
    · unfold runTaskCommit processResult at he
      simp only [] at he
      (repeat' split at he) <;> simp at he
      all_goals (try (obtain ⟨rfl, rfl⟩ := he))
      all_goals simp_all
  | completeTask i t st =>
    simp only [hm, hCompleteTask] at he
    (repeat' split at he) <;> simp at he
    all_goals (obtain ⟨rfl, rfl⟩ := he; simp_all)
  | completeStage i =>
    simp only [hm, hCompleteStage] at he
    (repeat' split at he) <;> simp at he
    all_goals (try (obtain ⟨rfl, rfl⟩ := he))
    all_goals (try simp_all)
    all_goals (
      rcases he with ⟨l, hl, hmem⟩ | ⟨rfl, _⟩
      · simp only [joinTracking, List.mem_filterMap] at hl
        obtain ⟨d, _, hd⟩ := hl
        (repeat' split at hd) <;> simp at hd
        subst hd
        simp at hmem
        obtain ⟨rfl, rfl⟩ := hmem
        simp_all
      · simp_all)
  | skipStage i =>
    simp only [hm, hSkipStage] at he
    (repeat' split at he) <;> simp at he
    all_goals (try (rcases he with he | he))
    all_goals (try (obtain ⟨rfl, rfl⟩ := he))
    all_goals simp_all
  | cancelStage i =>
    simp only [hm, hCancelStage] at he
    (repeat' split at he) <;> simp at he
    obtain ⟨rfl, rfl⟩ := he
    simp_all
  | completeWorkflow r =>
    simp only [hm, hCompleteWorkflow] at he
    (repeat' split at he) <;> simp at he
  | cancelWorkflow =>
    simp only [hm, hCancelWorkflow] at he
    (repeat' split at he) <;> simp at he
  | jumpToStage a b =>
    simp only [hm, hJumpToStage] at he
    (repeat' split at he) <;> simp at he
    all_goals (try (obtain ⟨rfl, rfl⟩ := he; simp_all))
    all_goals (simp only [resetForRetry] at he; grind)
  | signalStage i p =>
    simp only [hm, hSignalStage] at he
    (repeat' split at he) <;> simp at he
    all_goals (obtain ⟨rfl, rfl⟩ := he)
    all_goals simp_all

end Stab.Engine
