/-
  Helper lemmas for C16, part 2: `_plan_stage` (`planCore`), the jump-loop context (`planCtx`/`rearm`),
  reducers under permutations of the branch list.
-/
import Stab.Lemmas.Merge

namespace Stab.Merge

/-! ### dictionaries, continued -/

def keys {α} (d : Dict α) : List String := d.map (·.1)

theorem hasKey_iff_mem_keys {α} (m : Dict α) (k : String) : hasKey m k = true ↔ k ∈ keys m := by
  induction m with
  | nil => simp [hasKey, get?, keys]
  | cons e m ih =>
    obtain ⟨k0, v0⟩ := e
    by_cases h : k0 = k
    · subst h; simp [hasKey, get?, keys]
    · have : k ≠ k0 := fun hh => h hh.symm
      simp only [hasKey, keys] at ih
      simp [hasKey, get?, keys, h, this, ih]

theorem get?_isSome_iff_mem_keys {α} (m : Dict α) (k : String) : (get? m k).isSome = true ↔ k ∈ keys m :=
  hasKey_iff_mem_keys m k

theorem get?_eq_none_iff_not_mem_keys {α} (m : Dict α) (k : String) : get? m k = none ↔ k ∉ keys m := by
  rw [← hasKey_iff_mem_keys]
  simp [hasKey]

theorem keys_set {α} (m : Dict α) (k : String) (v : α) :
    keys (set m k v) = if k ∈ keys m then keys m else keys m ++ [k] := by
  induction m with
  | nil => simp [set, keys]
  | cons e m ih =>
    obtain ⟨k0, v0⟩ := e
    by_cases h : k0 = k
    · subst h; simp [set, keys]
    · have hne : k ≠ k0 := fun hh => h hh.symm
      simp only [keys] at ih
      by_cases hm : k ∈ List.map (fun x => x.1) m
      · simp [set, keys, h, hne, ih, hm]
      · simp [set, keys, h, hne, ih, hm]

theorem nodup_keys_set {α} (m : Dict α) (k : String) (v : α) (h : (keys m).Nodup) :
    (keys (set m k v)).Nodup := by
  rw [keys_set]
  by_cases hm : k ∈ keys m
  · simp [hm, h]
  · simp only [hm, if_false]
    refine List.nodup_append.mpr ⟨h, by simp, ?_⟩
    intro a ha b hb hab
    simp at hb
    subst hb; subst hab
    exact hm ha

theorem nodup_keys_mergeOuts (acc outs : Outs) (h : (keys acc).Nodup) : (keys (mergeOuts acc outs)).Nodup := by
  induction outs generalizing acc with
  | nil => simpa [mergeOuts] using h
  | cons e m ih =>
    have : mergeOuts acc (e :: m) = mergeOuts (set acc e.1 (combine (get? acc e.1) e.2)) m := by
      simp [mergeOuts]
    rw [this]
    exact ih _ (nodup_keys_set _ _ _ h)

theorem get?_erase {α} (m : Dict α) (k k' : String) :
    get? (erase m k) k' = if k = k' then none else get? m k' := by
  induction m with
  | nil => simp [erase, get?]
  | cons e m ih =>
    obtain ⟨k0, v0⟩ := e
    simp only [erase] at ih
    by_cases h0 : k0 = k
    · subst h0
      by_cases h1 : k0 = k'
      · subst h1; simpa [erase, get?] using ih
      · simpa [erase, get?, h1] using ih
    · by_cases h1 : k = k'
      · subst h1
        simpa [erase, get?, h0, List.filter_cons] using ih
      · by_cases h2 : k0 = k'
        · subst h2; simp [erase, get?, h0, h1]
        · simpa [erase, get?, h0, h1, h2, List.filter_cons] using ih

theorem nodup_keys_erase {α} (m : Dict α) (k : String) (h : (keys m).Nodup) : (keys (erase m k)).Nodup := by
  simp only [keys, erase] at *
  exact (List.Nodup.sublist (List.Sublist.map _ List.filter_sublist) h)

theorem get?_eraseAll {α} (ks : List String) (m : Dict α) (k : String) :
    get? (ks.foldl (fun c x => erase c x) m) k = if k ∈ ks then none else get? m k := by
  induction ks generalizing m with
  | nil => simp
  | cons x ks ih =>
    simp only [List.foldl_cons, ih, get?_erase, List.mem_cons]
    by_cases h1 : k ∈ ks
    · simp [h1]
    · by_cases h2 : x = k
      · subst h2; simp
      · have : ¬ k = x := fun hh => h2 hh.symm
        simp [h1, h2, this]

theorem nodup_keys_eraseAll {α} (ks : List String) (m : Dict α) (h : (keys m).Nodup) :
    (keys (ks.foldl (fun c x => erase c x) m)).Nodup := by
  induction ks generalizing m with
  | nil => simpa using h
  | cons x ks ih => exact ih _ (nodup_keys_erase m x h)

theorem get?_restore (ol : Dict (List Atom)) (c : Outs) (k : String) :
    get? (ol.foldr (fun e c => set c e.1 (.list e.2)) c) k
      = match get? ol k with
        | some l => some (.list l)
        | none => get? c k := by
  induction ol with
  | nil => simp [get?]
  | cons e ol ih =>
    obtain ⟨k0, l0⟩ := e
    simp only [List.foldr_cons, get?_set, ih]
    by_cases h : k0 = k
    · subst h; simp [get?]
    · simp [get?, h]

theorem nodup_keys_restore (ol : Dict (List Atom)) (c : Outs) (h : (keys c).Nodup) :
    (keys (ol.foldr (fun e c => set c e.1 (.list e.2)) c)).Nodup := by
  induction ol with
  | nil => simpa using h
  | cons e ol ih => exact nodup_keys_set _ _ _ ih

theorem get?_append {α} (a b : Dict α) (k : String) :
    get? (a ++ b) k = match get? a k with
      | some v => some v
      | none => get? b k := by
  induction a with
  | nil => simp [get?]
  | cons e a ih =>
    obtain ⟨k0, v0⟩ := e
    by_cases h : k0 = k
    · subst h; simp [get?]
    · simp [get?, h, ih]

/-! ### `planCore` -/

theorem valsOf_filter_rk (rk : List String) (own : Outs) (k : String) :
    valsOf (own.filter (fun e => !rk.contains e.1)) k = if k ∈ rk then [] else valsOf own k := by
  simp only [valsOf, List.filter_filter]
  by_cases h : k ∈ rk
  · simp only [h, if_true, List.map_eq_nil_iff, List.filter_eq_nil_iff]
    intro e _
    by_cases he : e.1 = k
    · simp [he, h]
    · simp [he]
  · simp only [h, if_false]
    congr 1
    apply List.filter_congr
    intro e _
    by_cases he : e.1 = k
    · simp [he, h]
    · simp [he]

theorem planCore_get? (rk : List String) (anc own : Outs) (k : String) :
    get? (planCore rk anc own) k = if k ∈ rk then get? anc k else foldVals (get? anc k) (valsOf own k) := by
  rw [planCore, mergeOuts_get?, valsOf_filter_rk]
  by_cases h : k ∈ rk <;> simp [h, foldVals]

theorem planCore_get?_of_nodup (rk : List String) (anc own : Outs) (k : String) (hown : (keys own).Nodup) :
    get? (planCore rk anc own) k
      = if k ∈ rk then get? anc k else
        match get? own k with
        | none => get? anc k
        | some v => some (combine (get? anc k) v) := by
  rw [planCore_get?, valsOf_of_nodup _ _ hown]
  by_cases h : k ∈ rk
  · simp [h]
  · cases get? own k <;> simp [h, foldVals]

/-! ### the jump-loop context -/

/-- specification of `ownListsOf` for one key: the first qualifying entry of the context -/
def ownSpec (rk : List String) (anc : Outs) : Outs → String → Option (List Atom)
  | [], _ => none
  | e :: ctx, k =>
    match e.2, get? anc e.1 with
    | .list l, some (.list _) =>
      if e.1 = k ∧ ¬ rk.contains e.1 then some l else ownSpec rk anc ctx k
    | _, _ => ownSpec rk anc ctx k

theorem ownListsOf_get? (rk : List String) (anc : Outs) (old : Dict (List Atom)) (ctx : Outs) (k : String) :
    get? (ownListsOf rk anc old ctx) k
      = match get? old k with
        | some l => some l
        | none => ownSpec rk anc ctx k := by
  induction ctx generalizing old with
  | nil => simp only [ownListsOf, List.foldl_nil, ownSpec]; cases get? old k <;> rfl
  | cons e ctx ih =>
    obtain ⟨k0, v0⟩ := e
    have step : ownListsOf rk anc old ((k0, v0) :: ctx)
        = ownListsOf rk anc (match v0, get? anc k0 with
            | .list l, some (.list _) => if rk.contains k0 || hasKey old k0 then old else old ++ [(k0, l)]
            | _, _ => old) ctx := rfl
    rw [step, ih]
    cases v0 with
    | atom a => simp [ownSpec]
    | dict d => simp [ownSpec]
    | list l =>
      cases hanc : get? anc k0 with
      | none => simp [ownSpec, hanc]
      | some w =>
        cases w with
        | atom a => simp [ownSpec, hanc]
        | dict d => simp [ownSpec, hanc]
        | list e' =>
          simp only [ownSpec, hanc]
          simp only [List.contains_eq_mem, decide_eq_true_eq, Bool.or_eq_true]
          by_cases hrk : k0 ∈ rk
          · simp [hrk]
          · simp only [hrk, false_or, not_false_eq_true, and_true]
            by_cases hk : hasKey old k0 = true
            · simp only [hk, if_true]
              by_cases h0 : k0 = k
              · subst h0
                simp only [hasKey, Option.isSome_iff_exists] at hk
                obtain ⟨l', hl'⟩ := hk
                simp [hl']
              · simp [h0]
            · simp only [hk, Bool.false_eq_true, if_false, get?_append]
              by_cases h0 : k0 = k
              · subst h0
                have : get? old k0 = none := by
                  simpa [hasKey] using hk
                simp [this, get?]
              · cases get? old k <;> simp [get?, h0]

theorem ownSpec_of_nodup (rk : List String) (anc ctx : Outs) (k : String) (h : (keys ctx).Nodup) :
    ownSpec rk anc ctx k
      = match get? ctx k, get? anc k with
        | some (.list l), some (.list _) => if k ∈ rk then none else some l
        | _, _ => none := by
  induction ctx with
  | nil => simp [ownSpec, get?]
  | cons e ctx ih =>
    obtain ⟨k0, v0⟩ := e
    simp only [keys, List.map_cons, List.nodup_cons] at h
    have ih' := ih h.2
    by_cases h0 : k0 = k
    · subst h0
      have hnone : get? ctx k0 = none := (get?_eq_none_iff_not_mem_keys ctx k0).mpr h.1
      simp only [hnone] at ih'
      cases v0 with
      | atom a => simp [ownSpec, get?, ih']
      | dict d => simp [ownSpec, get?, ih']
      | list l =>
        cases hanc : get? anc k0 with
        | none => simp [ownSpec, get?, hanc, ih']
        | some w =>
          cases w with
          | atom a => simp [ownSpec, get?, hanc, ih']
          | dict d => simp [ownSpec, get?, hanc, ih']
          | list e' =>
            by_cases hrk : k0 ∈ rk <;> simp [ownSpec, get?, hanc, ih', hrk]
    · have : ownSpec rk anc ((k0, v0) :: ctx) k = ownSpec rk anc ctx k := by
        cases v0 with
        | atom a => simp [ownSpec]
        | dict d => simp [ownSpec]
        | list l =>
          cases hanc : get? anc k0 with
          | none => simp [ownSpec, hanc]
          | some w => cases w <;> simp [ownSpec, hanc, h0]
      rw [this, ih']
      simp [get?, h0]

/-- what a re-armed stage's stored context must satisfy for the next plan to be "fresh" -/
structure Inv (rk : List String) (own : Outs) (s : SCtx) : Prop where
  hyd : s.hydrated = []
  ol : s.ownLists = []
  nd : (keys s.ctx).Nodup
  same : ∀ k, k ∉ rk → get? s.ctx k = get? own k

theorem mem_hydrated (anc ctx : Outs) (k : String) :
    k ∈ (anc.map (·.1)).filter (fun k => !hasKey ctx k && !([] : List String).contains k)
      ↔ (get? anc k).isSome = true ∧ get? ctx k = none := by
  have h1 := get?_isSome_iff_mem_keys anc k
  simp only [keys] at h1
  simp only [List.mem_filter, List.contains_nil, Bool.not_false, Bool.and_true, Bool.not_eq_true', hasKey,
    Option.isSome_eq_false_iff, Option.isNone_iff_eq_none, h1]

/-- one trip round the loop (plan, run, re-arm) restores the stage's original context on every key that
    is not reducer-controlled -/
theorem rearm_plan_inv (rk : List String) (own anc : Outs) (s : SCtx) (h : Inv rk own s)
    (hanc : (keys anc).Nodup) :
    Inv rk own (rearm .fixed (planCtx .fixed rk anc s)) := by
  obtain ⟨hyd, ol, nd, same⟩ := h
  refine ⟨rfl, rfl, ?_, ?_⟩
  · simp only [rearm, planCtx]
    apply nodup_keys_restore
    apply nodup_keys_eraseAll
    exact nodup_keys_mergeOuts _ _ hanc
  · intro k hk
    rw [← same k hk]
    simp only [rearm, planCtx, hyd, ol, List.nil_append]
    rw [get?_restore, get?_eraseAll, ownListsOf_get?, ownSpec_of_nodup _ _ _ _ nd,
      planCore_get?_of_nodup _ _ _ _ nd]
    simp only [mem_hydrated, get?, hk, if_false]
    cases hc : get? s.ctx k with
    | none =>
      cases ha : get? anc k with
      | none => simp
      | some w => simp
    | some v =>
      cases v with
      | atom a =>
        cases ha : get? anc k with
        | none => simp [combine]
        | some w => cases w <;> simp [combine]
      | dict d =>
        cases ha : get? anc k with
        | none => simp [combine]
        | some w => cases w <;> simp [combine]
      | list l =>
        cases ha : get? anc k with
        | none => simp [combine]
        | some w => cases w <;> simp [combine]

/-- the planned context of a re-armed stage, key by key -/
theorem planCtx_fixed_get? (rk : List String) (own anc : Outs) (s : SCtx) (h : Inv rk own s)
    (hown : (keys own).Nodup) (k : String) :
    get? (planCtx .fixed rk anc s).ctx k = get? (planCore rk anc own) k := by
  simp only [planCtx]
  rw [planCore_get?_of_nodup _ _ _ _ h.nd, planCore_get?_of_nodup _ _ _ _ hown]
  by_cases hk : k ∈ rk
  · simp [hk]
  · simp [hk, h.same k hk]

theorem loopSeen_fixed (rk : List String) (own : Outs) (hown : (keys own).Nodup) (iters : List Outs)
    (hanc : ∀ anc ∈ iters, (keys anc).Nodup) (k : String) :
    ∀ s, Inv rk own s →
      (loopSeen .fixed rk s iters).map (fun c => get? c k) = iters.map (fun anc => get? (planCore rk anc own) k) := by
  induction iters with
  | nil => intro s _; simp [loopSeen]
  | cons anc rest ih =>
    intro s hs
    simp only [loopSeen, List.map_cons]
    rw [planCtx_fixed_get? rk own anc s hs hown k]
    rw [ih (fun a ha => hanc a (List.mem_cons_of_mem _ ha)) _
      (rearm_plan_inv rk own anc s hs (hanc anc List.mem_cons_self))]

end Stab.Merge
