/-
  Basic facts about the engine model's effect interpreter: which effects touch which part of the state.
-/
import Stab.Model.Engine

namespace Stab.Engine

/-- the continuation of a completing stage consists of pushes only -/
theorem mem_splitCont (sc : StageCfg) (down : List Nat) (e : Eff) (h : e ∈ splitCont sc down) : ∃ m, e = .push m := by
  unfold splitCont at h
  split at h
  · simp only [List.mem_singleton] at h; exact ⟨_, h⟩
  · simp only [List.mem_append, List.mem_map] at h
    rcases h with ⟨d, _, rfl⟩ | ⟨d, _, rfl⟩ <;> exact ⟨_, rfl⟩

@[simp] theorem setStage_not_mem_splitCont (sc : StageCfg) (down : List Nat) (i : Nat) (new : StageSt) :
    (Eff.setStage i new ∈ splitCont sc down) = False := by
  apply eq_false
  intro h
  obtain ⟨m, hm⟩ := mem_splitCont sc down _ h
  cases hm

@[simp] theorem mark_not_mem_splitCont (sc : StageCfg) (down : List Nat) (id : Nat) :
    (Eff.mark id ∈ splitCont sc down) = False := by
  apply eq_false
  intro h
  obtain ⟨m, hm⟩ := mem_splitCont sc down _ h
  cases hm

@[simp] theorem applyEff_ledger (s : State) (e : Eff) : (applyEff s e).ledger = s.ledger := by
  cases e <;> simp only [applyEff] <;> (try split) <;> rfl

@[simp] theorem applyEff_execCount (s : State) (e : Eff) : (applyEff s e).execCount = s.execCount := by
  cases e <;> simp only [applyEff] <;> (try split) <;> rfl

theorem applyEff_canceled_mono (s : State) (e : Eff) (h : s.canceled = true) : (applyEff s e).canceled = true := by
  cases e <;> simp only [applyEff] <;> (try split) <;> simp [h]

@[simp] theorem applyTxn_ledger (s : State) (t : Txn) : (applyTxn s t).ledger = s.ledger := by
  unfold applyTxn
  induction t generalizing s with
  | nil => rfl
  | cons e es ih => simp [List.foldl, ih]

theorem applyTxn_canceled_mono (s : State) (t : Txn) (h : s.canceled = true) : (applyTxn s t).canceled = true := by
  unfold applyTxn
  induction t generalizing s with
  | nil => simpa using h
  | cons e es ih => simp only [List.foldl]; exact ih _ (applyEff_canceled_mono s e h)

@[simp] theorem applyTxns_ledger (s : State) (ts : List Txn) : (applyTxns s ts).ledger = s.ledger := by
  unfold applyTxns
  induction ts generalizing s with
  | nil => rfl
  | cons t ts ih => simp [List.foldl, ih]

theorem applyTxns_canceled_mono (s : State) (ts : List Txn) (h : s.canceled = true) :
    (applyTxns s ts).canceled = true := by
  unfold applyTxns
  induction ts generalizing s with
  | nil => simpa using h
  | cons t ts ih => simp only [List.foldl]; exact ih _ (applyTxn_canceled_mono s t h)

@[simp] theorem claimRow_ledger (s : State) (id : Nat) : (claimRow s id).ledger = s.ledger := rfl
@[simp] theorem claimRow_canceled (s : State) (id : Nat) : (claimRow s id).canceled = s.canceled := rfl
@[simp] theorem claimRow_stages (s : State) (id : Nat) : (claimRow s id).stages = s.stages := rfl
@[simp] theorem claimRow_wfStatus (s : State) (id : Nat) : (claimRow s id).wfStatus = s.wfStatus := rfl
@[simp] theorem claimRow_processed (s : State) (id : Nat) : (claimRow s id).processed = s.processed := rfl
@[simp] theorem claimRow_audit (s : State) (id : Nat) : (claimRow s id).audit = s.audit := rfl
@[simp] theorem ackRow_ledger (s : State) (id : Nat) : (ackRow s id).ledger = s.ledger := rfl
@[simp] theorem ackRow_canceled (s : State) (id : Nat) : (ackRow s id).canceled = s.canceled := rfl
@[simp] theorem ackRow_stages (s : State) (id : Nat) : (ackRow s id).stages = s.stages := rfl

theorem runTaskGuard_of_canceled (s : State) (id i t : Nat) (h : s.canceled = true) :
    (runTaskGuard s id i t).isSome = true := by
  unfold runTaskGuard
  simp only [h]
  split <;> simp

/-- a canceled workflow's RunTask never executes the task -/
theorem handle_not_ran_of_canceled (c : Cfg) (s : State) (row : Row) (h : s.canceled = true) :
    (handle c s row).2 = false := by
  unfold handle
  cases hm : row.msg <;> simp only []
  rename_i i t
  unfold hRunTask
  have := runTaskGuard_of_canceled s row.id i t h
  cases hg : runTaskGuard s row.id i t with
  | some txns => rfl
  | none => rw [hg] at this; cases this

theorem recordExec_canceled (c : Cfg) (s : State) (row : Row) : (recordExec c s row).canceled = s.canceled := by
  unfold recordExec; split <;> simp [bumpCount]

theorem afterHandle_ledger_of_canceled (c : Cfg) (s : State) (row : Row) (k : Option Nat) (h : s.canceled = true) :
    (afterHandle c s row k).ledger = s.ledger := by
  simp [afterHandle, handle_not_ran_of_canceled c s row h]

theorem afterHandle_canceled_mono (c : Cfg) (s : State) (row : Row) (k : Option Nat) (h : s.canceled = true) :
    (afterHandle c s row k).canceled = true := by
  unfold afterHandle
  apply applyTxns_canceled_mono
  simp [handle_not_ran_of_canceled c s row h, h]

theorem deliverRow_ledger_of_canceled (c : Cfg) (s : State) (row0 : Row) (ack : Bool) (k : Option Nat)
    (h : s.canceled = true) : (deliverRow c s row0 ack k).ledger = s.ledger := by
  have h1 : (claimRow s row0.id).canceled = true := by simpa using h
  have h3 := afterHandle_ledger_of_canceled c _ { row0 with attempts := row0.attempts + 1 } k h1
  unfold deliverRow
  simp only []
  repeat' split
  all_goals simp [h3]

theorem deliverRow_canceled_mono (c : Cfg) (s : State) (row0 : Row) (ack : Bool) (k : Option Nat)
    (h : s.canceled = true) : (deliverRow c s row0 ack k).canceled = true := by
  have h1 : (claimRow s row0.id).canceled = true := by simpa using h
  have h3 := afterHandle_canceled_mono c _ { row0 with attempts := row0.attempts + 1 } k h1
  have h4 := applyEff_canceled_mono _ (.mark row0.id) h3
  unfold deliverRow
  simp only []
  repeat' split
  all_goals simp [h, h3, h4]


/-- with the cancel flag set, the nested delivery of a RunTask degenerates to an ordinary delivery -/
theorem step_nested_of_canceled (c : Cfg) (s : State) (id : Nat) (inner : List Nat) (h : s.canceled = true) :
    step c s (.nested id inner) = step c s (.deliver id) := by
  simp only [step]
  split
  · rfl
  · rename_i row0 hf
    split
    · rename_i i t hmsg
      have hg := runTaskGuard_of_canceled (claimRow s row0.id) row0.id i t (by simpa using h)
      cases hgg : runTaskGuard (claimRow s row0.id) row0.id i t with
      | none => rw [hgg] at hg; cases hg
      | some txns =>
        simp only []
        split
        · unfold deliverRow; simp_all
        · rfl
    · rfl

/-- join tracking (`_completed_branches` of a downstream join) writes the downstream row with its status unchanged -/
theorem joinTracking_keeps_status (c : Cfg) (s : State) (i : Nat) (txn : Txn) (ht : txn ∈ joinTracking c s i)
    (j : Nat) (st' : StageSt) (he : Eff.setStage j st' ∈ txn) : st'.status = (s.stage j).status := by
  unfold joinTracking at ht
  simp only [List.mem_filterMap] at ht
  obtain ⟨d, _, hd⟩ := ht
  split at hd
  · split at hd
    · cases hd
    · simp only [Option.some.injEq] at hd
      subst hd
      simp only [List.mem_singleton, Eff.setStage.injEq] at he
      obtain ⟨rfl, rfl⟩ := he
      rfl
  · cases hd

end Stab.Engine
