/-
  Invariants of the `Claims` model (used by Props/C11.lean).
-/
import Stab.Model.Claims

namespace Stab.Claims
open Stab

theorem getC_setC_eq (cs : List (Key × Nat)) (k : Key) (v : Nat) : getC (setC cs k v) k = some v := by
  induction cs with
  | nil => simp [setC, getC]
  | cons a rest ih =>
    obtain ⟨k', v'⟩ := a
    simp only [setC]
    split
    · simp [getC]
    · rename_i h; simp [getC, h, ih]

theorem getC_setC_ne (cs : List (Key × Nat)) (k k' : Key) (v : Nat) (h : k' ≠ k) : getC (setC cs k v) k' = getC cs k' := by
  induction cs with
  | nil => simp [setC, getC, Ne.symm h]
  | cons a rest ih =>
    obtain ⟨k2, v2⟩ := a
    simp only [setC]
    split
    · rename_i e; subst e; simp [getC, Ne.symm h]
    · simp only [getC]; split <;> simp_all

theorem getC_mem {cs : List (Key × Nat)} {k : Key} {o : Nat} (h : getC cs k = some o) : (k, o) ∈ cs := by
  induction cs with
  | nil => simp [getC] at h
  | cons a rest ih =>
    obtain ⟨k', v'⟩ := a
    simp only [getC] at h
    split at h
    · rename_i e; cases h; subst e; exact List.mem_cons_self
    · exact List.mem_cons_of_mem _ (ih h)

theorem mem_setC {cs : List (Key × Nat)} {k : Key} {v : Nat} {e : Key × Nat} (h : e ∈ setC cs k v) : e = (k, v) ∨ e ∈ cs := by
  induction cs with
  | nil => simp [setC] at h; exact Or.inl h
  | cons a rest ih =>
    obtain ⟨k', v'⟩ := a
    simp only [setC] at h
    split at h
    · rcases List.mem_cons.mp h with h | h
      · exact Or.inl h
      · exact Or.inr (List.mem_cons_of_mem _ h)
    · rcases List.mem_cons.mp h with h | h
      · exact Or.inr (h ▸ List.mem_cons_self)
      · rcases ih h with h | h
        · exact Or.inl h
        · exact Or.inr (List.mem_cons_of_mem _ h)

/-- filtering the claim table keeps the owner of a key whose (first) row passes the filter -/
theorem getC_filter_keep {cs : List (Key × Nat)} {k : Key} {o : Nat} (p : Key × Nat → Bool)
    (h : getC cs k = some o) (hp : p (k, o) = true) : getC (cs.filter p) k = some o := by
  induction cs with
  | nil => simp [getC] at h
  | cons a rest ih =>
    obtain ⟨k', v'⟩ := a
    simp only [getC] at h
    split at h
    · rename_i e; cases h; subst e
      simp [List.filter, hp, getC]
    · rename_i e
      simp only [List.filter]
      split
      · simp only [getC, e, if_false]; exact ih h
      · exact ih h

/-- `acquire` only ever adds the row (k, i) -/
theorem acquire_mem {s : St} {cs cs' : List (Key × Nat)} {k : Key} {i : Nat} {steal : Bool}
    (h : acquire s cs k i steal = some cs') : ∀ e ∈ cs', e = (k, i) ∨ e ∈ cs := by
  intro e he
  unfold acquire at h
  split at h
  · cases h; exact mem_setC he
  · split at h
    · cases h; exact Or.inr he
    · split at h
      · split at h
        · cases h; exact mem_setC he
        · split at h
          · cases h; exact mem_setC he
          · cases h
      · cases h

/-- what a successful `acquire` guarantees: the key is now owned by `i`, other keys are untouched, and a previous
    different owner was stealable (steal requested and owner row gone / complete / — with the fix — NOT_STARTED) -/
theorem acquire_some {s : St} {cs cs' : List (Key × Nat)} {k : Key} {i : Nat} {steal : Bool}
    (h : acquire s cs k i steal = some cs') :
    getC cs' k = some i ∧ (∀ k', k' ≠ k → getC cs' k' = getC cs k') ∧
    (∀ o, getC cs k = some o → o ≠ i →
      steal = true ∧ (statusOf s o = none ∨ ∃ st, statusOf s o = some st ∧ (st.isComplete = true ∨ (s.fixSteal = true ∧ st = .notStarted)))) := by
  unfold acquire at h
  split at h
  · rename_i hn
    cases h
    exact ⟨getC_setC_eq _ _ _, fun k' hk => getC_setC_ne _ _ _ _ hk, fun o ho => by rw [hn] at ho; cases ho⟩
  · rename_i o ho
    split at h
    · rename_i e; cases h; subst e
      exact ⟨ho, fun _ _ => rfl, fun o' ho' hne => by rw [ho] at ho'; cases ho'; exact absurd rfl hne⟩
    · split at h
      · rename_i hs
        split at h
        · rename_i hst
          cases h
          refine ⟨getC_setC_eq _ _ _, fun k' hk => getC_setC_ne _ _ _ _ hk, fun o' ho' _ => ?_⟩
          rw [ho] at ho'; cases ho'
          exact ⟨hs, Or.inl hst⟩
        · rename_i st hst
          split at h
          · rename_i hc
            cases h
            refine ⟨getC_setC_eq _ _ _, fun k' hk => getC_setC_ne _ _ _ _ hk, fun o' ho' _ => ?_⟩
            rw [ho] at ho'; cases ho'
            refine ⟨hs, Or.inr ⟨st, hst, ?_⟩⟩
            simp at hc
            rcases hc with hc | hc
            · exact Or.inl hc
            · exact Or.inr ⟨hc.1, hc.2⟩
          · cases h
      · cases h

/-- stage statuses the model can reach -/
def okStatus (st : Status) : Prop := st = .notStarted ∨ live st = true ∨ st.isComplete = true

structure Inv (s : St) : Prop where
  /-- mutex_owner_invariant: a live stage with key k owns the claim row of k -/
  owner : ∀ (i : Nat) (g : Stage) (k : Nat), s.stages[i]? = some g → live g.status = true → g.mutex = some k →
      getC s.claims (.mutex k) = some i
  /-- the owner of a mutex claim row carries that key -/
  claimKey : ∀ (k o : Nat), (Key.mutex k, o) ∈ s.claims → ∃ g : Stage, s.stages[o]? = some g ∧ g.mutex = some k
  /-- while the execution is not terminal: every stage of a group that ever started owns the group's claim row -/
  winner : s.wfTerminal = false → ∀ (i : Nat) (g : Stage) (c : Nat), i ∈ s.started → s.stages[i]? = some g → g.group = some c →
      getC s.claims (.choice c) = some i
  stat : ∀ (i : Nat) (g : Stage), s.stages[i]? = some g → okStatus g.status

theorem setStatus_get (s : St) (i : Nat) (st : Status) (j : Nat) :
    (setStatus s i st).stages[j]? =
      if j = i then (s.stages[i]?).map (fun g => { g with status := st }) else s.stages[j]? := by
  unfold setStatus
  cases h : s.stages[i]? with
  | none => by_cases e : j = i <;> simp [e, h]
  | some g =>
    simp only [List.getElem?_set]
    by_cases e : j = i
    · subst e
      have : j < s.stages.length := by
        rcases Nat.lt_or_ge j s.stages.length with hl | hl
        · exact hl
        · rw [List.getElem?_eq_none hl] at h; cases h
      simp [this]
    · simp [e, Ne.symm e]

theorem setStatus_claims (s : St) (i : Nat) (st : Status) : (setStatus s i st).claims = s.claims := by
  unfold setStatus; split <;> rfl
theorem setStatus_started (s : St) (i : Nat) (st : Status) : (setStatus s i st).started = s.started := by
  unfold setStatus; split <;> rfl
theorem setStatus_wf (s : St) (i : Nat) (st : Status) : (setStatus s i st).wfTerminal = s.wfTerminal := by
  unfold setStatus; split <;> rfl
theorem setStatus_fix (s : St) (i : Nat) (st : Status) : (setStatus s i st).fixSteal = s.fixSteal := by
  unfold setStatus; split <;> rfl

/-- changing ONE stage's status keeps the invariant as long as it does not create a live stage out of a non-live one -/
theorem inv_setStatus {s : St} (h : Inv s) (i : Nat) (st : Status) (hok : okStatus st)
    (hlive : live st = true → ∀ g, s.stages[i]? = some g → live g.status = true) : Inv (setStatus s i st) := by
  refine ⟨?_, ?_, ?_, ?_⟩
  · intro j g k hj hl hm
    rw [setStatus_claims]
    rw [setStatus_get] at hj
    split at hj
    · rename_i e; subst e
      cases hg : s.stages[j]? with
      | none => rw [hg] at hj; cases hj
      | some g0 =>
        rw [hg] at hj; simp at hj; subst hj
        exact h.owner j g0 k hg (hlive hl g0 hg) hm
    · exact h.owner j g k hj hl hm
  · intro k o ho
    rw [setStatus_claims] at ho
    obtain ⟨g, hg, hm⟩ := h.claimKey k o ho
    rw [setStatus_get]
    split
    · rename_i e; subst e; rw [hg]; exact ⟨_, rfl, hm⟩
    · exact ⟨g, hg, hm⟩
  · intro hwf j g c hj hg hc
    rw [setStatus_wf] at hwf
    rw [setStatus_claims]
    rw [setStatus_started] at hj
    rw [setStatus_get] at hg
    split at hg
    · rename_i e; subst e
      cases hg0 : s.stages[j]? with
      | none => rw [hg0] at hg; cases hg
      | some g0 =>
        rw [hg0] at hg; simp at hg; subst hg
        exact h.winner hwf j g0 c hj hg0 hc
    · exact h.winner hwf j g c hj hg hc
  · intro j g hj
    rw [setStatus_get] at hj
    split at hj
    · cases hg0 : s.stages[i]? with
      | none => rw [hg0] at hj; cases hj
      | some g0 => rw [hg0] at hj; simp at hj; subst hj; exact hok
    · exact h.stat j g hj

/-- the invariant only looks at stages, claims and the started log -/
theorem inv_congr {s s' : St} (h : Inv s) (h1 : s'.stages = s.stages) (h2 : s'.claims = s.claims) (h3 : s'.started = s.started)
    (h4 : s'.wfTerminal = false → s.wfTerminal = false := by exact id) : Inv s' := by
  refine ⟨?_, ?_, ?_, ?_⟩
  · intro i g k; rw [h1, h2]; exact h.owner i g k
  · intro k o; rw [h1, h2]; exact h.claimKey k o
  · intro hwf i g c; rw [h1, h2, h3]; exact h.winner (h4 hwf) i g c
  · intro i g; rw [h1]; exact h.stat i g

theorem inv_cancelOne {s : St} (h : Inv s) (i : Nat) : Inv (cancelOne s i) := by
  unfold cancelOne
  split
  · exact h
  · split
    · exact h
    · exact inv_setStatus h i .canceled (Or.inr (Or.inr rfl)) (fun hl => by simp [live] at hl)

theorem inv_cancelAll {s : St} (h : Inv s) (l : List Nat) : Inv (cancelAll s l) := by
  induction l generalizing s with
  | nil => exact h
  | cons i rest ih => exact ih (inv_cancelOne h i)

theorem cancelOne_wf (s : St) (i : Nat) : (cancelOne s i).wfTerminal = s.wfTerminal := by
  unfold cancelOne
  split
  · rfl
  · split
    · rfl
    · exact setStatus_wf _ _ _
theorem cancelAll_wf (s : St) (l : List Nat) : (cancelAll s l).wfTerminal = s.wfTerminal := by
  induction l generalizing s with
  | nil => rfl
  | cons i rest ih => exact (ih _).trans (cancelOne_wf s i)
theorem cancelOne_fix (s : St) (i : Nat) : (cancelOne s i).fixSteal = s.fixSteal := by
  unfold cancelOne
  split
  · rfl
  · split
    · rfl
    · exact setStatus_fix _ _ _
theorem cancelAll_fix (s : St) (l : List Nat) : (cancelAll s l).fixSteal = s.fixSteal := by
  induction l generalizing s with
  | nil => rfl
  | cons i rest ih => exact (ih _).trans (cancelOne_fix s i)


def Stealable (s : St) (o : Nat) : Prop :=
  statusOf s o = none ∨ ∃ st, statusOf s o = some st ∧ (st.isComplete = true ∨ (s.fixSteal = true ∧ st = .notStarted))

/-- the claim transaction of stage `i` with mutex `m` / group `gr` succeeded with final claim table `cs2` -/
theorem claimed_of {s : St} {i : Nat} (m gr : Option Nat) {cs1 cs2 : List (Key × Nat)}
    (h1 : (match m with | none => some s.claims | some k => acquire s s.claims (.mutex k) i true) = some cs1)
    (h2 : (match gr with | none => some cs1 | some c => acquire s cs1 (.choice c) i false) = some cs2) :
    (∀ k', getC cs2 (.mutex k') = if m = some k' then some i else getC s.claims (.mutex k')) ∧
    (∀ c', getC cs2 (.choice c') = if gr = some c' then some i else getC s.claims (.choice c')) ∧
    (∀ k o, m = some k → getC s.claims (.mutex k) = some o → o ≠ i → Stealable s o) ∧
    (∀ c o, gr = some c → getC s.claims (.choice c) = some o → o = i) := by
  rcases m with _ | k
  · simp only at h1; cases h1
    rcases gr with _ | c
    · simp only at h2; cases h2
      simp
    · simp only at h2
      obtain ⟨a1, a2, a3⟩ := acquire_some h2
      refine ⟨fun k' => by simpa using a2 (.mutex k') (by simp), fun c' => ?_, by simp, fun c0 o hc ho => ?_⟩
      · by_cases e : c = c'
        · subst e; simp [a1]
        · simp only [Option.some.injEq, e, if_false]; exact a2 _ (by simpa using Ne.symm e)
      · cases hc
        by_cases e : o = i
        · exact e
        · have := (a3 o ho e).1; cases this
  · simp only at h1
    obtain ⟨b1, b2, b3⟩ := acquire_some h1
    rcases gr with _ | c
    · simp only at h2; cases h2
      refine ⟨fun k' => ?_, fun c' => by simpa using b2 (.choice c') (by simp), fun k0 o hk ho hne => ?_, by simp⟩
      · by_cases e : k = k'
        · subst e; simp [b1]
        · simp only [Option.some.injEq, e, if_false]; exact b2 _ (by simpa using Ne.symm e)
      · cases hk; exact (b3 o ho hne).2
    · simp only at h2
      obtain ⟨a1, a2, a3⟩ := acquire_some h2
      refine ⟨fun k' => ?_, fun c' => ?_, fun k0 o hk ho hne => ?_, fun c0 o hc ho => ?_⟩
      · rw [a2 _ (by simp)]
        by_cases e : k = k'
        · subst e; simp [b1]
        · simp only [Option.some.injEq, e, if_false]; exact b2 _ (by simpa using Ne.symm e)
      · by_cases e : c = c'
        · subst e; simp [a1]
        · simp only [Option.some.injEq, e, if_false]
          rw [a2 _ (by simpa using Ne.symm e)]; exact b2 _ (by simp)
      · cases hk; exact (b3 o ho hne).2
      · cases hc
        by_cases e : o = i
        · exact e
        · have h' : getC cs1 (.choice c) = some o := by rw [b2 _ (by simp)]; exact ho
          have := (a3 o h' e).1; cases this
theorem live_not_stealable {s : St} {o : Nat} {g : Stage} (hg : s.stages[o]? = some g) (hl : live g.status = true)
    (hs : Stealable s o) : False := by
  unfold Stealable statusOf at hs
  rw [hg] at hs
  rcases hs with h | ⟨st, h, h2⟩
  · cases h
  · simp at h; subst h
    rcases h2 with h2 | ⟨_, h2⟩
    · revert hl h2; cases g.status <;> simp [live, Status.isComplete]
    · rw [h2] at hl; simp [live] at hl

theorem inv_claimWith {s : St} (h : Inv s) (i : Nat) (mb cc : Bool) : Inv (claimWith s i mb cc).1 := by
  unfold claimWith
  cases hg : s.stages[i]? with
  | none => exact h
  | some g =>
    simp only
    split
    · exact h
    · rename_i hns
      split
      · exact h
      · split
        · exact inv_congr h rfl rfl rfl
        · split
          · exact h
          · rename_i cs1 h1
            split
            · exact inv_congr h rfl rfl rfl
            · rename_i cs2 h2
              obtain ⟨hM, hC, hS, hW⟩ := claimed_of g.mutex g.group h1 h2
              have hns' : g.status = .notStarted := by simpa using hns
              have hi : i < s.stages.length := by
                rcases Nat.lt_or_ge i s.stages.length with hl | hl
                · exact hl
                · rw [List.getElem?_eq_none hl] at hg; cases hg
              have hget : ∀ j, (s.stages.set i { g with status := .running })[j]? =
                  if j = i then some { g with status := .running } else s.stages[j]? := by
                intro j
                rw [List.getElem?_set]
                by_cases e : i = j
                · subst e; simp [hi]
                · simp [e, Ne.symm e]
              refine ⟨?_, ?_, ?_, ?_⟩
              · intro j gj k hj hl hm
                simp only [hget] at hj
                show getC cs2 (.mutex k) = some j
                rw [hM]
                split at hj
                · rename_i e; subst e; cases hj; simp at hm; simp [hm]
                · rename_i e
                  have hold := h.owner j gj k hj hl hm
                  split
                  · rename_i hgm
                    exact absurd (hS k j hgm hold e) (fun hs => live_not_stealable hj hl hs)
                  · exact hold
              · intro k o ho
                simp only [hget]
                change (Key.mutex k, o) ∈ cs2 at ho
                have hmem : (Key.mutex k, o) = (Key.mutex k, i) ∧ g.mutex = some k ∨ (Key.mutex k, o) ∈ s.claims := by
                  have e2 : ∀ e ∈ cs2, e ∈ cs1 ∨ (∃ c, g.group = some c ∧ e = (Key.choice c, i)) := by
                    intro e he
                    cases hgr : g.group with
                    | none => rw [hgr] at h2; simp only at h2; cases h2; exact Or.inl he
                    | some c =>
                      rw [hgr] at h2; simp only at h2
                      rcases acquire_mem h2 e he with h | h
                      · exact Or.inr ⟨c, rfl, h⟩
                      · exact Or.inl h
                  have e1 : ∀ e ∈ cs1, e ∈ s.claims ∨ (∃ k0, g.mutex = some k0 ∧ e = (Key.mutex k0, i)) := by
                    intro e he
                    cases hmu : g.mutex with
                    | none => rw [hmu] at h1; simp only at h1; cases h1; exact Or.inl he
                    | some k0 =>
                      rw [hmu] at h1; simp only at h1
                      rcases acquire_mem h1 e he with h | h
                      · exact Or.inr ⟨k0, rfl, h⟩
                      · exact Or.inl h
                  rcases e2 _ ho with h | ⟨c, _, h⟩
                  · rcases e1 _ h with h | ⟨k0, hk0, h⟩
                    · exact Or.inr h
                    · have hk : k = k0 := by injection h with h' _; injection h'
                      subst hk; exact Or.inl ⟨h, hk0⟩
                  · cases h
                rcases hmem with ⟨heq, hgm⟩ | hold
                · have : o = i := by injection heq
                  subst this; simp [hgm]
                · obtain ⟨g', hg', hm'⟩ := h.claimKey k o hold
                  by_cases e : o = i
                  · subst e; rw [hg] at hg'; cases hg'; simp [hm']
                  · simp [e]; exact ⟨g', hg', hm'⟩
              · intro hwf j gj c hj hgj hc
                simp only [hget] at hgj
                show getC cs2 (.choice c) = some j
                rw [hC]
                split at hgj
                · rename_i e; subst e; cases hgj; simp at hc; simp [hc]
                · rename_i e
                  have hjs : j ∈ s.started := by
                    have : j ∈ i :: s.started := hj
                    simp [e] at this; exact this
                  have hold := h.winner hwf j gj c hjs hgj hc
                  split
                  · rename_i hgc; exact absurd (hW c j hgc hold) e
                  · exact hold
              · intro j gj hj
                simp only [hget] at hj
                split at hj
                · cases hj; exact Or.inr (Or.inl rfl)
                · exact h.stat j gj hj

/-! ### every operation keeps the invariant (the choice part of it only speaks about executions that are not terminal) -/

theorem step_inv {s : St} (h : Inv s) (o : Op) : Inv (step s o).1 := by
  cases o with
  | peekM i => exact inv_congr h rfl rfl rfl
  | peekC i => exact inv_congr h rfl rfl rfl
  | claim i => exact inv_claimWith h i _ _
  | tryStart i => exact inv_claimWith h i _ _
  | finish i st =>
    simp only [step]
    split
    · rename_i hc
      simp only [Bool.and_eq_true] at hc
      refine inv_setStatus h i st (Or.inr (Or.inr hc.1)) (fun hl => ?_)
      revert hl; have := hc.1; revert this; cases st <;> simp [live, Status.isComplete]
    · exact h
  | cancel i =>
    simp only [step]
    split
    · exact h
    · exact inv_cancelOne h i
  | park i st =>
    simp only [step]
    split
    · rename_i hc
      simp only [Bool.and_eq_true, Bool.or_eq_true, beq_iff_eq] at hc
      refine inv_setStatus h i st ?_ (fun _ g hg => ?_)
      · rcases hc.1 with e | e <;> subst e <;> exact Or.inr (Or.inl rfl)
      · have := hc.2; unfold statusOf at this; rw [hg] at this; simp at this; rw [this]; rfl
    · exact h
  | unpark i =>
    simp only [step]
    split
    · rename_i hc
      refine inv_setStatus h i .running (Or.inr (Or.inl rfl)) (fun _ g hg => ?_)
      simp only [Bool.or_eq_true, beq_iff_eq] at hc
      unfold statusOf at hc; rw [hg] at hc; simp at hc
      rcases hc with e | e <;> rw [e] <;> rfl
    · exact h
  | reset i => exact inv_setStatus h i .notStarted (Or.inl rfl) (fun hl => by simp [live] at hl)
  | endWorkflow =>
    simp only [step]
    split
    · exact inv_congr h rfl rfl rfl (fun hf => by cases hf)
    · exact h
  | sweep =>
    simp only [step]
    split
    · rename_i hterm
      refine ⟨?_, ?_, fun hf => by simp [hterm] at hf, h.stat⟩
      · intro i g k hi hl hm
        refine getC_filter_keep _ (h.owner i g k hi hl hm) ?_
        simp only [ownerLive, statusOf, hi, Option.map_some]
        exact hl
      · intro k o ho
        exact h.claimKey k o (List.mem_filter.mp ho).1
    · exact h
  | cancelLosers => exact inv_congr (inv_cancelAll h s.cancelQ) rfl rfl rfl

/-- the execution's terminal flag is never taken back -/
theorem claimWith_wf (s : St) (i : Nat) (mb cc : Bool) : (claimWith s i mb cc).1.wfTerminal = s.wfTerminal := by
  unfold claimWith
  cases hg : s.stages[i]? with
  | none => rfl
  | some g =>
    simp only
    split
    · rfl
    · split
      · rfl
      · split
        · rfl
        · split
          · rfl
          · split <;> rfl

theorem step_wf_mono (s : St) (o : Op) (h : s.wfTerminal = true) : (step s o).1.wfTerminal = true := by
  cases o with
  | peekM i => exact h
  | peekC i => exact h
  | claim i => simp only [step]; rw [claimWith_wf]; exact h
  | tryStart i => simp only [step]; rw [claimWith_wf]; exact h
  | finish i st =>
    simp only [step]
    split
    · show (setStatus s i st).wfTerminal = true
      rw [setStatus_wf]; exact h
    · exact h
  | cancel i =>
    simp only [step]
    split
    · exact h
    · show (cancelOne s i).wfTerminal = true
      rw [cancelOne_wf]; exact h
  | park i st =>
    simp only [step]
    split
    · show (setStatus s i st).wfTerminal = true
      rw [setStatus_wf]; exact h
    · exact h
  | unpark i =>
    simp only [step]
    split
    · show (setStatus s i .running).wfTerminal = true
      rw [setStatus_wf]; exact h
    · exact h
  | reset i => show (setStatus s i .notStarted).wfTerminal = true; rw [setStatus_wf]; exact h
  | endWorkflow =>
    simp only [step]
    split
    · rfl
    · exact h
  | sweep => simp [step, h]
  | cancelLosers => show (cancelAll s s.cancelQ).wfTerminal = true; rw [cancelAll_wf]; exact h

theorem run_wf_mono (s : St) (ops : List Op) (h : s.wfTerminal = true) : (run s ops).wfTerminal = true := by
  induction ops generalizing s with
  | nil => exact h
  | cons o rest ih => exact ih _ (step_wf_mono s o h)

theorem run_cons (s : St) (o : Op) (rest : List Op) : run s (o :: rest) = run (step s o).1 rest := rfl

/-- `fixSteal` is a constant of a run -/
theorem claimWith_fix (s : St) (i : Nat) (mb cc : Bool) : (claimWith s i mb cc).1.fixSteal = s.fixSteal := by
  unfold claimWith
  cases hg : s.stages[i]? with
  | none => rfl
  | some g =>
    simp only
    split
    · rfl
    · split
      · rfl
      · split
        · rfl
        · split
          · rfl
          · split <;> rfl

theorem step_fix (s : St) (o : Op) : (step s o).1.fixSteal = s.fixSteal := by
  cases o with
  | peekM i => rfl
  | peekC i => rfl
  | claim i => simp only [step]; exact claimWith_fix _ _ _ _
  | tryStart i => simp only [step]; exact claimWith_fix _ _ _ _
  | finish i st =>
    simp only [step]
    split
    · exact setStatus_fix _ _ _
    · rfl
  | cancel i =>
    simp only [step]
    split
    · rfl
    · exact cancelOne_fix _ _
  | park i st =>
    simp only [step]
    split
    · exact setStatus_fix _ _ _
    · rfl
  | unpark i =>
    simp only [step]
    split
    · exact setStatus_fix _ _ _
    · rfl
  | reset i => exact setStatus_fix _ _ _
  | endWorkflow =>
    simp only [step]
    split <;> rfl
  | sweep =>
    simp only [step]
    split <;> rfl
  | cancelLosers => exact cancelAll_fix _ _

theorem run_fix (s : St) (ops : List Op) : (run s ops).fixSteal = s.fixSteal := by
  induction ops generalizing s with
  | nil => rfl
  | cons o rest ih => rw [run_cons, ih, step_fix]

/-- **main induction** -/
theorem run_inv {s : St} (h : Inv s) (ops : List Op) : Inv (run s ops) := by
  induction ops generalizing s with
  | nil => exact h
  | cons o rest ih =>
    rw [run_cons]
    exact ih (step_inv h o)

theorem init_inv (f : Bool) (stages : List Stage) : Inv (init f stages) := by
  refine ⟨?_, ?_, ?_, ?_⟩
  · intro i g k hi hl
    simp only [init, List.getElem?_map] at hi
    cases hs : stages[i]? with
    | none => rw [hs] at hi; cases hi
    | some g0 => rw [hs] at hi; simp at hi; subst hi; simp [live] at hl
  · intro k o ho; simp [init] at ho
  · intro _ i g c hi; simp [init] at hi
  · intro i g hi
    simp only [init, List.getElem?_map] at hi
    cases hs : stages[i]? with
    | none => rw [hs] at hi; cases hi
    | some g0 => rw [hs] at hi; simp at hi; subst hi; exact Or.inl rfl

end Stab.Claims
