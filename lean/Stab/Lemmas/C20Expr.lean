/-
  Helper lemmas for C20 (expression part).  Core Lean only.
-/
import Stab.Model.Expr

namespace Stab.Expr

/-- the outcome classes the property allows: a value, or the evaluator's own error -/
def IsTotal {α : Type} (r : Except Err α) : Prop := (∃ v, r = .ok v) ∨ r = .error .expression

theorem IsTotal.ok {α : Type} (v : α) : IsTotal (.ok v : Except Err α) := Or.inl ⟨v, rfl⟩
theorem IsTotal.expr {α : Type} : IsTotal (.error .expression : Except Err α) := Or.inr rfl

theorem not_total_of_other {α : Type} {x : Err} (h : x ≠ .expression) : ¬ IsTotal (.error x : Except Err α) := by
  rintro (⟨v, hv⟩ | hv)
  · cases hv
  · cases hv; exact h rfl

/-- all six `try/except` guards present -/
def Guards.all (g : Guards) : Prop :=
  g.compare = true ∧ g.index = true ∧ g.unary = true ∧ g.subscript = true ∧ g.depth = true ∧ g.parse = true

theorem Guards.fixed_all : Guards.fixed.all := ⟨rfl, rfl, rfl, rfl, rfl, rfl⟩

/-! ### totality -/

theorem evalAll_total {ev : Expr → Except Err Value} (h : ∀ e, IsTotal (ev e)) :
    ∀ es, IsTotal (evalAll ev es) := by
  intro es
  induction es with
  | nil => exact .ok _
  | cons e es ih =>
    simp only [evalAll]
    rcases h e with ⟨v, hv⟩ | hv
    · rw [hv]
      rcases ih with ⟨vs, hvs⟩ | hvs
      · rw [hvs]; exact .ok _
      · rw [hvs]; exact .expr
    · rw [hv]; exact .expr

theorem evalChain_total {g : Guards} (hg : g.compare = true) (ident : Value → Value → Bool)
    {ev : Expr → Except Err Value} (h : ∀ e, IsTotal (ev e)) :
    ∀ rest left, IsTotal (evalChain g ident ev left rest) := by
  intro rest
  induction rest with
  | nil => intro left; exact .ok _
  | cons p rest ih =>
    intro left
    obtain ⟨op, e⟩ := p
    simp only [evalChain]
    rcases h e with ⟨v, hv⟩ | hv
    · rw [hv]
      simp only
      cases cmpOp ident op left v with
      | none => simp only [raiseGuarded, hg, if_true]; exact .expr
      | some b =>
        cases b with
        | false => exact .ok _
        | true => exact ih v
    · rw [hv]; exact .expr

theorem subscriptValue_total {g : Guards} (hs : g.subscript = true) (hi : g.index = true) (value key : Value) :
    IsTotal (subscriptValue g value key) := by
  unfold subscriptValue
  split
  · split
    · split <;> exact .ok _
    · simp only [raiseGuarded, hs, if_true]; exact .expr
  · split
    · split
      · exact .ok _
      · simp only [hi, if_true]; exact .ok _
    · exact .ok _
  · split
    · split
      · exact .ok _
      · simp only [hi, if_true]; exact .ok _
    · exact .ok _
  · exact .ok _

theorem unaryValue_total {g : Guards} (hu : g.unary = true) (op : UnOp) (v : Value) :
    IsTotal (unaryValue g op v) := by
  unfold unaryValue
  split
  · exact .ok _
  · split
    · exact .ok _
    · simp only [raiseGuarded, hu, if_true]; exact .expr
  · exact .expr
  · exact .expr

/-- with every guard present `_eval_node` returns a value or raises `ExpressionError`, at every depth budget -/
theorem evalF_total_of_guards {g : Guards} (hg : g.all) (env : Env) :
    ∀ (fuel : Nat) (e : Expr), IsTotal (evalF g env fuel e) := by
  obtain ⟨hc, hi, hu, hs, hd, _⟩ := hg
  intro fuel
  induction fuel with
  | zero => intro e; simp only [evalF, raiseGuarded, hd, if_true]; exact .expr
  | succ n ih =>
    intro e
    cases e with
    | const c => exact .ok _
    | name id => exact .ok _
    | attr e a =>
      simp only [evalF]
      rcases ih e with ⟨v, hv⟩ | hv
      · rw [hv]; cases v <;> exact .ok _
      · rw [hv]; exact .expr
    | subscript e s =>
      simp only [evalF]
      rcases ih e with ⟨v, hv⟩ | hv
      · rw [hv]
        rcases ih s with ⟨k, hk⟩ | hk
        · rw [hk]; exact subscriptValue_total hs hi v k
        · rw [hk]; exact .expr
      · rw [hv]; exact .expr
    | compare l rest =>
      simp only [evalF]
      rcases ih l with ⟨v, hv⟩ | hv
      · rw [hv]; exact evalChain_total hc _ ih rest v
      · rw [hv]; exact .expr
    | boolOp op vals =>
      simp only [evalF]
      rcases evalAll_total ih vals with ⟨vs, hvs⟩ | hvs
      · rw [hvs]; cases op <;> exact .ok _
      · rw [hvs]; exact .expr
    | unary op e =>
      simp only [evalF]
      rcases ih e with ⟨v, hv⟩ | hv
      · rw [hv]; exact unaryValue_total hu op v
      · rw [hv]; exact .expr
    | ifExp t b o =>
      simp only [evalF]
      rcases ih t with ⟨v, hv⟩ | hv
      · rw [hv]
        simp only
        split
        · exact ih b
        · exact ih o
      · rw [hv]; exact .expr
    | list es =>
      simp only [evalF]
      rcases evalAll_total ih es with ⟨vs, hvs⟩ | hvs
      · rw [hvs]; exact .ok _
      · rw [hvs]; exact .expr
    | tuple es =>
      simp only [evalF]
      rcases evalAll_total ih es with ⟨vs, hvs⟩ | hvs
      · rw [hvs]; exact .ok _
      · rw [hvs]; exact .expr
    | unsupported k => exact .expr

/-! ### the patch only changes exception classes; more depth budget never changes a value -/

/-- forget which exception it was -/
def relax {α : Type} (r : Except Err α) : Except Err α :=
  match r with
  | .ok v => .ok v
  | .error _ => .error .expression

theorem evalAll_relax {ev ev' : Expr → Except Err Value} (h : ∀ e, ev' e = relax (ev e)) :
    ∀ es, evalAll ev' es = relax (evalAll ev es) := by
  intro es
  induction es with
  | nil => rfl
  | cons e es ih =>
    simp only [evalAll, h e, ih]
    cases ev e with
    | error x => rfl
    | ok v =>
      simp only [relax]
      cases evalAll ev es <;> rfl

theorem evalChain_relax {g g' : Guards} (hg : g'.compare = true) (ident : Value → Value → Bool)
    {ev ev' : Expr → Except Err Value} (h : ∀ e, ev' e = relax (ev e)) :
    ∀ rest left, evalChain g' ident ev' left rest = relax (evalChain g ident ev left rest) := by
  intro rest
  induction rest with
  | nil => intro left; rfl
  | cons p rest ih =>
    intro left
    obtain ⟨op, e⟩ := p
    simp only [evalChain, h e]
    cases ev e with
    | error x => rfl
    | ok v =>
      simp only [relax]
      cases cmpOp ident op left v with
      | none =>
        simp only [raiseGuarded, hg, if_true]
      | some b =>
        cases b with
        | false => rfl
        | true => exact ih v

theorem subscriptValue_relax (value key : Value) :
    subscriptValue .fixed value key = relax (subscriptValue .current value key) := by
  cases value with
  | dict kvs =>
    simp only [subscriptValue]
    by_cases h : key.hashable = true
    · simp only [h, if_true]; cases key <;> rfl
    · simp only [h]; rfl
  | list xs =>
    simp only [subscriptValue]
    cases key.num? with
    | none => rfl
    | some i => simp only []; cases index xs i <;> rfl
  | tuple xs =>
    simp only [subscriptValue]
    cases key.num? with
    | none => rfl
    | some i => simp only []; cases index xs i <;> rfl
  | none => rfl
  | bool b => rfl
  | int i => rfl
  | str s => rfl

theorem unaryValue_relax (op : UnOp) (v : Value) :
    unaryValue .fixed op v = relax (unaryValue .current op v) := by
  unfold unaryValue
  cases op <;> simp only [relax]
  · cases neg v <;> rfl

/-- **The patch changes nothing but the class of the exception.**  At the same depth budget the
    fixed evaluator returns the same value whenever the current one returns a value, and
    `ExpressionError` whenever the current one raises anything. -/
theorem evalF_fixed_eq_relax_current (env : Env) :
    ∀ (fuel : Nat) (e : Expr), evalF .fixed env fuel e = relax (evalF .current env fuel e) := by
  intro fuel
  induction fuel with
  | zero => intro e; rfl
  | succ n ih =>
    intro e
    cases e with
    | const c => rfl
    | name id => rfl
    | attr e a =>
      simp only [evalF, ih e]
      cases evalF .current env n e with
      | error x => rfl
      | ok v => cases v <;> rfl
    | subscript e s =>
      simp only [evalF, ih e, ih s]
      cases evalF .current env n e with
      | error x => rfl
      | ok v =>
        simp only [relax]
        cases evalF .current env n s with
        | error x => rfl
        | ok k => exact subscriptValue_relax v k
    | compare l rest =>
      simp only [evalF, ih l]
      cases evalF .current env n l with
      | error x => rfl
      | ok v => exact evalChain_relax (g := .current) rfl _ ih rest v
    | boolOp op vals =>
      simp only [evalF, evalAll_relax ih vals]
      cases evalAll (evalF .current env n) vals with
      | error x => rfl
      | ok vs => cases op <;> rfl
    | unary op e =>
      simp only [evalF, ih e]
      cases evalF .current env n e with
      | error x => rfl
      | ok v => exact unaryValue_relax op v
    | ifExp t b o =>
      simp only [evalF, ih t]
      cases evalF .current env n t with
      | error x => rfl
      | ok v =>
        simp only [relax]
        split
        · exact ih b
        · exact ih o
    | list es =>
      simp only [evalF, evalAll_relax ih es]
      cases evalAll (evalF .current env n) es <;> rfl
    | tuple es =>
      simp only [evalF, evalAll_relax ih es]
      cases evalAll (evalF .current env n) es <;> rfl
    | unsupported k => rfl

theorem evalAll_ok_mono {ev ev' : Expr → Except Err Value} (h : ∀ e v, ev e = .ok v → ev' e = .ok v) :
    ∀ es vs, evalAll ev es = .ok vs → evalAll ev' es = .ok vs := by
  intro es
  induction es with
  | nil => intro vs h'; exact h'
  | cons e es ih =>
    intro vs h'
    simp only [evalAll] at h' ⊢
    cases he : ev e with
    | error x => rw [he] at h'; cases h'
    | ok v =>
      rw [he] at h'
      rw [h e v he]
      simp only at h' ⊢
      cases hes : evalAll ev es with
      | error x => rw [hes] at h'; cases h'
      | ok ws => rw [hes] at h'; rw [ih ws hes]; exact h'

theorem evalChain_ok_mono (g : Guards) (ident : Value → Value → Bool)
    {ev ev' : Expr → Except Err Value} (h : ∀ e v, ev e = .ok v → ev' e = .ok v) :
    ∀ rest left r, evalChain g ident ev left rest = .ok r → evalChain g ident ev' left rest = .ok r := by
  intro rest
  induction rest with
  | nil => intro left r h'; exact h'
  | cons p rest ih =>
    intro left r h'
    obtain ⟨op, e⟩ := p
    simp only [evalChain] at h' ⊢
    cases he : ev e with
    | error x => rw [he] at h'; cases h'
    | ok v =>
      rw [he] at h'
      rw [h e v he]
      simp only at h' ⊢
      cases hc : cmpOp ident op left v with
      | none => rw [hc] at h'; simp only [raiseGuarded] at h'; cases h'
      | some b =>
        rw [hc] at h'
        cases b with
        | false => exact h'
        | true => exact ih v r h'

/-- a value obtained within some depth budget is obtained within every larger one -/
theorem evalF_ok_succ (g : Guards) (env : Env) :
    ∀ (fuel : Nat) (e : Expr) (v : Value), evalF g env fuel e = .ok v → evalF g env (fuel + 1) e = .ok v := by
  intro fuel
  induction fuel with
  | zero => intro e v h; simp only [evalF, raiseGuarded] at h; cases h
  | succ n ih =>
    intro e v h
    cases e with
    | const c => exact h
    | name id => exact h
    | attr e a =>
      simp only [evalF] at h
      cases he : evalF g env n e with
      | error x => rw [he] at h; cases h
      | ok w =>
        rw [he] at h
        have := ih e w he
        simp only [evalF] at this ⊢
        rw [this]; exact h
    | subscript e s =>
      simp only [evalF] at h
      cases he : evalF g env n e with
      | error x => rw [he] at h; cases h
      | ok w =>
        rw [he] at h
        simp only at h
        cases hs : evalF g env n s with
        | error x => rw [hs] at h; cases h
        | ok k =>
          rw [hs] at h
          have h1 := ih e w he
          have h2 := ih s k hs
          simp only [evalF] at h1 h2 ⊢
          rw [h1, h2]; exact h
    | compare l rest =>
      simp only [evalF] at h
      cases he : evalF g env n l with
      | error x => rw [he] at h; cases h
      | ok w =>
        rw [he] at h
        have h1 := ih l w he
        have h2 := evalChain_ok_mono g env.ident (ev := evalF g env n) (ev' := evalF g env (n + 1)) ih rest w v h
        simp only [evalF] at h1 h2 ⊢
        rw [h1]; exact h2
    | boolOp op vals =>
      simp only [evalF] at h
      cases he : evalAll (evalF g env n) vals with
      | error x => rw [he] at h; cases h
      | ok ws =>
        rw [he] at h
        have h1 := evalAll_ok_mono (ev := evalF g env n) (ev' := evalF g env (n + 1)) ih vals ws he
        simp only [evalF] at h1 ⊢
        rw [h1]; exact h
    | unary op e =>
      simp only [evalF] at h
      cases he : evalF g env n e with
      | error x => rw [he] at h; cases h
      | ok w =>
        rw [he] at h
        have := ih e w he
        simp only [evalF] at this ⊢
        rw [this]; exact h
    | ifExp t b o =>
      simp only [evalF] at h
      cases he : evalF g env n t with
      | error x => rw [he] at h; cases h
      | ok w =>
        rw [he] at h
        simp only at h
        have h1 := ih t w he
        simp only [evalF] at h1 ⊢
        rw [h1]
        simp only
        split at h
        · rename_i ht; rw [if_pos ht]; have := ih b v h; simp only [evalF] at this; exact this
        · rename_i ht; rw [if_neg ht]; have := ih o v h; simp only [evalF] at this; exact this
    | list es =>
      simp only [evalF] at h
      cases he : evalAll (evalF g env n) es with
      | error x => rw [he] at h; cases h
      | ok ws =>
        rw [he] at h
        have h1 := evalAll_ok_mono (ev := evalF g env n) (ev' := evalF g env (n + 1)) ih es ws he
        simp only [evalF] at h1 ⊢
        rw [h1]; exact h
    | tuple es =>
      simp only [evalF] at h
      cases he : evalAll (evalF g env n) es with
      | error x => rw [he] at h; cases h
      | ok ws =>
        rw [he] at h
        have h1 := evalAll_ok_mono (ev := evalF g env n) (ev' := evalF g env (n + 1)) ih es ws he
        simp only [evalF] at h1 ⊢
        rw [h1]; exact h
    | unsupported k => simp only [evalF] at h; cases h

theorem evalF_ok_mono (g : Guards) (env : Env) (e : Expr) (v : Value) :
    ∀ (n m : Nat), n ≤ m → evalF g env n e = .ok v → evalF g env m e = .ok v := by
  intro n m hnm
  induction hnm with
  | refl => exact id
  | step _ ih => intro h; exact evalF_ok_succ g env _ e v (ih h)

/-! ### witnesses used by the counterexample theorems -/

/-- `not not … not x`, `k` times -/
def notChain : Nat → Expr → Expr
  | 0, e => e
  | k + 1, e => .unary .not (notChain k e)

/-- without the depth guard a chain of `k ≥ fuel` `not`s ends in `RecursionError` -/
theorem notChain_recursion (g : Guards) (hd : g.depth = false) (env : Env) (e : Expr) :
    ∀ (fuel k : Nat), fuel ≤ k → evalF g env fuel (notChain k e) = .error .recursionError := by
  intro fuel
  induction fuel with
  | zero => intro k _; simp [evalF, raiseGuarded, hd]
  | succ n ih =>
    intro k hk
    cases k with
    | zero => omega
    | succ k =>
      simp only [notChain, evalF, ih k (by omega)]

/-- contexts of the witnesses / examples in Props -/
def emptyEnv : Env := { vars := [] }
def dEnv : Env := { vars := [("d", .dict [("k", .int 1)])] }
def ctx1 : Env :=
  { vars := [("x", .dict [("a", .list [.int 1, .int 2])]), ("s", .str "abc"), ("n", .int 5)] }

/-- names that would make evaluation able to execute code or touch the outside world -/
def dangerousNames : List String :=
  ["eval", "exec", "compile", "__import__", "getattr", "setattr", "delattr", "globals", "locals", "vars",
   "open", "input", "breakpoint", "os", "sys", "subprocess", "importlib", "builtins", "__builtins__",
   "pickle", "marshal", "ctypes", "socket", "shutil", "pathlib"]

/-! ### ast names of the operators (compared with the generated tables in Props) -/

def CmpOp.astName : CmpOp → String
  | .eq => "Eq" | .ne => "NotEq" | .lt => "Lt" | .le => "LtE" | .gt => "Gt" | .ge => "GtE"
  | .is => "Is" | .isNot => "IsNot" | .in_ => "In" | .notIn => "NotIn"

def CmpOp.all : List CmpOp := [.eq, .ne, .lt, .le, .gt, .ge, .is, .isNot, .in_, .notIn]

def UnOp.astName : UnOp → String
  | .not => "Not" | .usub => "USub" | .uadd => "UAdd" | .invert => "Invert"

def BoolOp.astName : BoolOp → String
  | .and => "And" | .or => "Or"

/-- the guards record the source exhibits, from the generated list of except clauses -/
def Guards.ofSource (gs : List (String × String × String)) (maxDepth : Option Nat) (depthCheck recPass : Bool) : Guards :=
  { compare := gs.contains ("Compare", "TypeError", "raise ExpressionError")
    index := gs.contains ("Subscript", "IndexError", "return None")
    unary := gs.contains ("UnaryOp", "TypeError", "raise ExpressionError")
    subscript := gs.contains ("Subscript", "TypeError", "raise ExpressionError")
    depth := maxDepth.isSome && depthCheck && recPass && gs.contains ("eval", "RecursionError", "raise ExpressionError")
    parse := gs.contains ("parse", "ValueError", "raise ExpressionError")
             && gs.contains ("parse", "RecursionError", "raise ExpressionError")
             && gs.contains ("parse", "MemoryError", "raise ExpressionError") }

end Stab.Expr
