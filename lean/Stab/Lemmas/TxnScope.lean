/-
  Invariants of the `TxnScope` model, preserved by every op from every state:

  * `SeqInv`  — the sequences of `durable ++ uncommitted` are exactly `1, 2, …, n`;
  * `PubInv`  — outside a block nothing is pending; and unless an inner rollback was swallowed
                (`swallowed`), `durable = d₁ ++ d₂` with `published ⊑ d₁` and, while the queue is not
                tainted, `pending ⊑ d₂ ++ uncommitted`  (⊑ = order-preserving sublist);
  * flat blocks (`begin; appends/writes; commit|abort|crash`) computed in closed form.
-/
import Stab.Model.TxnScope

namespace Stab.TxnScope

/-! ### sequence numbers -/

def allEv (s : St) : List Ev := s.durable ++ s.uncommitted

def SeqInv (s : St) : Prop := (allEv s).map (·.seq) = List.range' 1 (allEv s).length

theorem seqInv_init : SeqInv St.init := by simp [SeqInv, allEv, St.init]

/-- a prefix of `1..n` is `1..m` -/
theorem range_prefix (a b : List Ev)
    (h : (a ++ b).map (·.seq) = List.range' 1 (a ++ b).length) :
    a.map (·.seq) = List.range' 1 a.length := by
  rw [List.map_append, List.length_append, ← List.range'_append (step := 1)] at h
  exact List.append_inj_left h (by simp)

theorem seqInv_step (c : Bool) (s : St) (op : Op) (h : SeqInv s) : SeqInv (step c s op) := by
  unfold SeqInv allEv at *
  cases op with
  | begin => by_cases h0 : s.depth = 0 <;> simp [step, h0, h]
  | append tag =>
    have key : ((s.durable ++ s.uncommitted) ++ [({ seq := nextSeq s, tag := tag } : Ev)]).map (·.seq)
        = List.range' 1 ((s.durable ++ s.uncommitted) ++ [({ seq := nextSeq s, tag := tag } : Ev)]).length := by
      rw [List.map_append, h]
      simp only [List.length_append, List.length_singleton, List.range'_concat, List.map_cons, List.map_nil]
      simp [nextSeq, Nat.add_comm]
    by_cases h0 : s.depth = 0
    · simpa [step, h0] using key
    · simpa [step, h0, List.append_assoc] using key
  | write tag => by_cases h0 : s.depth = 0 <;> simp [step, h0, h]
  | commit =>
    by_cases h0 : s.depth = 0
    · simp [step, h0, h]
    · by_cases h1 : s.depth = 1 <;> simp [step, h0, h1, h]
  | abort =>
    have hp := range_prefix s.durable s.uncommitted h
    by_cases h0 : s.depth = 0
    · simp [step, h0, hp]
    · by_cases h1 : s.depth = 1 <;> simp [step, h0, h1, hp]
  | crash =>
    have hp := range_prefix s.durable s.uncommitted h
    simp [step, hp]

theorem seqInv_run (c : Bool) (ops : List Op) (s : St) (h : SeqInv s) : SeqInv (run c s ops) := by
  induction ops generalizing s with
  | nil => exact h
  | cons op rest ih => exact ih (step c s op) (seqInv_step c s op h)

/-! ### publication -/

def PubInv (s : St) : Prop :=
  (s.depth = 0 → s.pending = [] ∧ s.uncommitted = [] ∧ s.wUncommitted = [] ∧ s.tainted = false) ∧
  (s.swallowed = false →
    ∃ d1 d2, s.durable = d1 ++ d2 ∧ s.published.Sublist d1 ∧
      (s.tainted = false → s.pending.Sublist (d2 ++ s.uncommitted)))

theorem pubInv_init : PubInv St.init := by
  refine ⟨fun _ => by simp [St.init], fun _ => ⟨[], [], ?_, ?_, ?_⟩⟩ <;> simp [St.init]

theorem pubInv_step (c : Bool) (s : St) (op : Op) (h : PubInv s) : PubInv (step c s op) := by
  obtain ⟨hz, hp⟩ := h
  cases op with
  | begin =>
    by_cases h0 : s.depth = 0
    · obtain ⟨_, hu, hw, _⟩ := hz h0
      refine ⟨by simp [step, h0], ?_⟩
      intro hs
      have hs' : s.swallowed = false := by simpa [step, h0] using hs
      obtain ⟨d1, d2, hd, hpub, _⟩ := hp hs'
      refine ⟨s.durable, [], by simp [step, h0], ?_, ?_⟩
      · simp only [step, h0, if_true]
        rw [hd]; exact hpub.trans (List.sublist_append_left _ _)
      · intro _; simp [step, h0]
    · refine ⟨by simp [step, h0], ?_⟩
      intro hs
      have hs' : s.swallowed = false := by simpa [step, h0] using hs
      obtain ⟨d1, d2, hd, hpub, hpend⟩ := hp hs'
      exact ⟨d1, d2, by simpa [step, h0] using hd, by simpa [step, h0] using hpub,
        by simpa [step, h0] using hpend⟩
  | append tag =>
    by_cases h0 : s.depth = 0
    · obtain ⟨hpe, hu, hw, ht⟩ := hz h0
      refine ⟨by simp [step, h0, hpe, ht], ?_⟩
      intro hs
      have hs' : s.swallowed = false := by simpa [step, h0] using hs
      obtain ⟨d1, d2, hd, hpub, _⟩ := hp hs'
      refine ⟨s.durable ++ [{ seq := nextSeq s, tag := tag }], [], by simp [step, h0, hu], ?_, ?_⟩
      · simp only [step, h0, if_true]
        exact List.Sublist.append (by rw [hd]; exact hpub.trans (List.sublist_append_left _ _)) (List.Sublist.refl _)
      · intro _; simp [step, h0, hpe]
    · refine ⟨by simp [step, h0], ?_⟩
      intro hs
      have hs' : s.swallowed = false := by simpa [step, h0] using hs
      obtain ⟨d1, d2, hd, hpub, hpend⟩ := hp hs'
      refine ⟨d1, d2, by simpa [step, h0] using hd, by simpa [step, h0] using hpub, ?_⟩
      intro ht
      have ht' : s.tainted = false := by simpa [step, h0] using ht
      have := List.Sublist.append (hpend ht') (List.Sublist.refl [({ seq := nextSeq s, tag := tag } : Ev)])
      simpa [step, h0, List.append_assoc] using this
  | write tag =>
    by_cases h0 : s.depth = 0
    · obtain ⟨hpe, hu, hw, ht⟩ := hz h0
      refine ⟨by simp [step, h0, hpe, ht], ?_⟩
      intro hs
      have hs' : s.swallowed = false := by simpa [step, h0] using hs
      obtain ⟨d1, d2, hd, hpub, hpend⟩ := hp hs'
      refine ⟨d1, d2, by simp [step, h0, hu, hd], by simpa [step, h0] using hpub, ?_⟩
      intro _; simp [step, h0, hpe]
    · refine ⟨by simp [step, h0], ?_⟩
      intro hs
      have hs' : s.swallowed = false := by simpa [step, h0] using hs
      obtain ⟨d1, d2, hd, hpub, hpend⟩ := hp hs'
      exact ⟨d1, d2, by simpa [step, h0] using hd, by simpa [step, h0] using hpub,
        by simpa [step, h0] using hpend⟩
  | commit =>
    by_cases h0 : s.depth = 0
    · obtain ⟨hpe, hu, hw, ht⟩ := hz h0
      refine ⟨by simp [step, h0, hpe, ht], ?_⟩
      intro hs
      have hs' : s.swallowed = false := by simpa [step, h0] using hs
      obtain ⟨d1, d2, hd, hpub, hpend⟩ := hp hs'
      refine ⟨d1, d2, by simp [step, h0, hu, hd], by simpa [step, h0] using hpub, ?_⟩
      intro _; simp [step, h0, hpe]
    · by_cases h1 : s.depth = 1
      · refine ⟨by simp [step, h1], ?_⟩
        intro hs
        have hs2 : s.swallowed = false ∧ s.tainted = false := by simpa [step, h1] using hs
        obtain ⟨d1, d2, hd, hpub, hpend⟩ := hp hs2.1
        refine ⟨s.durable ++ s.uncommitted, [], by simp [step, h1], ?_, ?_⟩
        · have := List.Sublist.append hpub (hpend hs2.2)
          simpa [step, h1, hd, List.append_assoc] using this
        · intro _; simp [step, h1]
      · have h2 : s.depth - 1 ≠ 0 := by omega
        refine ⟨by simp [step, h0, h1, h2], ?_⟩
        intro hs
        have hs' : s.swallowed = false := by simpa [step, h0, h1] using hs
        obtain ⟨d1, d2, hd, hpub, hpend⟩ := hp hs'
        refine ⟨d1, d2 ++ s.uncommitted, by simp [step, h0, h1, hd, List.append_assoc],
          by simpa [step, h0, h1] using hpub, ?_⟩
        intro ht
        have ht' : s.tainted = false := by simpa [step, h0, h1] using ht
        simpa [step, h0, h1] using hpend ht'
  | abort =>
    by_cases h0 : s.depth = 0
    · obtain ⟨hpe, hu, hw, ht⟩ := hz h0
      refine ⟨by simp [step, h0, hpe, ht], ?_⟩
      intro hs
      have hs' : s.swallowed = false := by simpa [step, h0] using hs
      obtain ⟨d1, d2, hd, hpub, hpend⟩ := hp hs'
      refine ⟨d1, d2, by simpa [step, h0] using hd, by simpa [step, h0] using hpub, ?_⟩
      intro _; simp [step, h0, hpe]
    · by_cases h1 : s.depth = 1
      · refine ⟨by simp [step, h1], ?_⟩
        intro hs
        have hs' : s.swallowed = false := by simpa [step, h1] using hs
        obtain ⟨d1, d2, hd, hpub, _⟩ := hp hs'
        refine ⟨d1, d2, by simpa [step, h1] using hd, by simpa [step, h1] using hpub, ?_⟩
        intro _; simp [step, h1]
      · have h2 : s.depth - 1 ≠ 0 := by omega
        refine ⟨by simp [step, h0, h1, h2], ?_⟩
        intro hs
        have hs' : s.swallowed = false := by simpa [step, h0, h1] using hs
        obtain ⟨d1, d2, hd, hpub, _⟩ := hp hs'
        refine ⟨d1, d2, by simpa [step, h0, h1] using hd, by simpa [step, h0, h1] using hpub, ?_⟩
        intro ht
        have hc : c = true := by simpa [step, h0, h1] using ht
        subst hc
        simp [step, h0, h1]
  | crash =>
    refine ⟨by simp [step], ?_⟩
    intro hs
    have hs' : s.swallowed = false := by simpa [step] using hs
    obtain ⟨d1, d2, hd, hpub, _⟩ := hp hs'
    refine ⟨d1, d2, by simpa [step] using hd, by simpa [step] using hpub, ?_⟩
    intro _; simp [step]

theorem pubInv_run (c : Bool) (ops : List Op) (s : St) (h : PubInv s) : PubInv (run c s ops) := by
  induction ops generalizing s with
  | nil => exact h
  | cons op rest ih => exact ih (step c s op) (pubInv_step c s op h)

/-- `swallowed` is sticky -/
theorem swallowed_step (c : Bool) (s : St) (op : Op) (h : s.swallowed = true) : (step c s op).swallowed = true := by
  cases op with
  | begin => by_cases h0 : s.depth = 0 <;> simp [step, h0, h]
  | append tag => by_cases h0 : s.depth = 0 <;> simp [step, h0, h]
  | write tag => by_cases h0 : s.depth = 0 <;> simp [step, h0, h]
  | commit => by_cases h0 : s.depth = 0 <;> by_cases h1 : s.depth = 1 <;> simp [step, h0, h1, h]
  | abort => by_cases h0 : s.depth = 0 <;> by_cases h1 : s.depth = 1 <;> simp [step, h0, h1, h]
  | crash => simp [step, h]

theorem swallowed_run (c : Bool) (ops : List Op) (s : St) (h : s.swallowed = true) : (run c s ops).swallowed = true := by
  induction ops generalizing s with
  | nil => exact h
  | cons op rest ih => exact ih (step c s op) (swallowed_step c s op h)

/-- when the inner-block branch of abort clears the queue, the queue is never tainted -/
theorem clean_step (s : St) (op : Op) (h : s.tainted = false ∧ s.swallowed = false) :
    (step true s op).tainted = false ∧ (step true s op).swallowed = false := by
  obtain ⟨ht, hs⟩ := h
  cases op with
  | begin => by_cases h0 : s.depth = 0 <;> simp [step, h0, ht, hs]
  | append tag => by_cases h0 : s.depth = 0 <;> simp [step, h0, ht, hs]
  | write tag => by_cases h0 : s.depth = 0 <;> simp [step, h0, ht, hs]
  | commit => by_cases h0 : s.depth = 0 <;> by_cases h1 : s.depth = 1 <;> simp [step, h0, h1, ht, hs]
  | abort => by_cases h0 : s.depth = 0 <;> by_cases h1 : s.depth = 1 <;> simp [step, h0, h1, ht, hs]
  | crash => simp [step, hs]

theorem clean_run (ops : List Op) (s : St) (h : s.tainted = false ∧ s.swallowed = false) :
    (run true s ops).tainted = false ∧ (run true s ops).swallowed = false := by
  induction ops generalizing s with
  | nil => exact h
  | cons op rest ih => exact ih (step true s op) (clean_step s op h)

theorem run_append (c : Bool) (s : St) (a b : List Op) : run c s (a ++ b) = run c (run c s a) b := by
  simp [run, List.foldl_append]

/-! ### flat blocks -/

/-- the op is an append or a state write -/
def Op.isFlat : Op → Bool
  | .append _ => true
  | .write _ => true
  | _ => false

/-- events created by the appends of a flat body, numbered from `start` -/
def mkEvs : Nat → List Op → List Ev
  | _, [] => []
  | n, .append t :: rest => { seq := n, tag := t } :: mkEvs (n + 1) rest
  | n, _ :: rest => mkEvs n rest

def wTags : List Op → List Nat
  | [] => []
  | .write t :: rest => t :: wTags rest
  | _ :: rest => wTags rest

theorem mem_mkEvs_of_append (body : List Op) (n a : Nat) (h : Op.append a ∈ body) :
    ∃ e ∈ mkEvs n body, e.tag = a := by
  induction body generalizing n with
  | nil => simp at h
  | cons op rest ih =>
    cases op with
    | append t =>
      simp only [List.mem_cons, Op.append.injEq] at h
      rcases h with h | h
      · subst h; exact ⟨{ seq := n, tag := a }, by simp [mkEvs], rfl⟩
      · obtain ⟨e, he, ht⟩ := ih (n + 1) h
        exact ⟨e, by simp [mkEvs, he], ht⟩
    | write t =>
      simp only [List.mem_cons] at h
      rcases h with h | h
      · cases h
      · obtain ⟨e, he, ht⟩ := ih n h
        exact ⟨e, by simpa [mkEvs] using he, ht⟩
    | begin => simp only [List.mem_cons] at h; rcases h with h | h; cases h; obtain ⟨e, he, ht⟩ := ih n h; exact ⟨e, by simpa [mkEvs] using he, ht⟩
    | commit => simp only [List.mem_cons] at h; rcases h with h | h; cases h; obtain ⟨e, he, ht⟩ := ih n h; exact ⟨e, by simpa [mkEvs] using he, ht⟩
    | abort => simp only [List.mem_cons] at h; rcases h with h | h; cases h; obtain ⟨e, he, ht⟩ := ih n h; exact ⟨e, by simpa [mkEvs] using he, ht⟩
    | crash => simp only [List.mem_cons] at h; rcases h with h | h; cases h; obtain ⟨e, he, ht⟩ := ih n h; exact ⟨e, by simpa [mkEvs] using he, ht⟩

theorem mem_wTags_of_write (body : List Op) (w : Nat) (h : Op.write w ∈ body) : w ∈ wTags body := by
  induction body with
  | nil => simp at h
  | cons op rest ih =>
    cases op with
    | write t =>
      simp only [List.mem_cons, Op.write.injEq] at h
      rcases h with h | h
      · subst h; simp [wTags]
      · simp [wTags, ih h]
    | append t => simp only [List.mem_cons] at h; rcases h with h | h; cases h; simpa [wTags] using ih h
    | begin => simp only [List.mem_cons] at h; rcases h with h | h; cases h; simpa [wTags] using ih h
    | commit => simp only [List.mem_cons] at h; rcases h with h | h; cases h; simpa [wTags] using ih h
    | abort => simp only [List.mem_cons] at h; rcases h with h | h; cases h; simpa [wTags] using ih h
    | crash => simp only [List.mem_cons] at h; rcases h with h | h; cases h; simpa [wTags] using ih h

/-- a flat body inside a block only extends the connection's pending work and the publication queue -/
theorem run_flat (c : Bool) (body : List Op) (s : St) (hd : s.depth ≠ 0) (hf : body.all Op.isFlat = true) :
    run c s body = { s with uncommitted := s.uncommitted ++ mkEvs (nextSeq s) body,
                            pending := s.pending ++ mkEvs (nextSeq s) body,
                            wUncommitted := s.wUncommitted ++ wTags body } := by
  induction body generalizing s with
  | nil => simp [run, mkEvs, wTags]
  | cons op rest ih =>
    simp only [List.all_cons, Bool.and_eq_true] at hf
    cases op with
    | append t =>
      have hstep : step c s (.append t) = { s with uncommitted := s.uncommitted ++ [{ seq := nextSeq s, tag := t }],
                                                    pending := s.pending ++ [{ seq := nextSeq s, tag := t }] } := by
        simp [step, hd]
      have hn : nextSeq (step c s (.append t)) = nextSeq s + 1 := by
        rw [hstep]; simp [nextSeq]; omega
      have := ih (step c s (.append t)) (by rw [hstep]; exact hd) hf.2
      simp only [run, List.foldl_cons] at this ⊢
      rw [this, hn, hstep]
      simp [mkEvs, wTags, List.append_assoc]
    | write t =>
      have hstep : step c s (.write t) = { s with wUncommitted := s.wUncommitted ++ [t] } := by
        simp [step, hd]
      have hn : nextSeq (step c s (.write t)) = nextSeq s := by rw [hstep]; simp [nextSeq]
      have := ih (step c s (.write t)) (by rw [hstep]; exact hd) hf.2
      simp only [run, List.foldl_cons] at this ⊢
      rw [this, hn, hstep]
      simp [mkEvs, wTags, List.append_assoc]
    | begin => simp [Op.isFlat] at hf
    | commit => simp [Op.isFlat] at hf
    | abort => simp [Op.isFlat] at hf
    | crash => simp [Op.isFlat] at hf

end Stab.TxnScope
