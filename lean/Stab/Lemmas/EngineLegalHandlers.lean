/-
  Every handler except JumpToStage writes only legal status transitions, in ANY state
  (CompleteTask: provided the status its message carries is one RUNNING may move to).
-/
import Stab.Lemmas.EngineLegal

namespace Stab.Engine
open Stab

theorem setTask_getD (ts : List TaskSt) (t u : Nat) (f : TaskSt → TaskSt) :
    (setTask ts t f).getD u default =
      if t = u ∧ t < ts.length then f (ts.getD t default) else ts.getD u default := by
  unfold setTask
  by_cases h : t = u
  · subst h
    by_cases hl : t < ts.length
    · simp [List.getD_eq_getElem?_getD, hl]
    · have : ts.length ≤ t := Nat.le_of_not_lt hl
      simp [List.getD_eq_getElem?_getD, hl, List.set_eq_of_length_le this]
  · simp [List.getD_eq_getElem?_getD, List.getElem?_set_ne h, h]

/-- a single-task update is legal when the update of that one task is -/
theorem legal_setTask (s : State) (i t : Nat) (st' : StageSt) (f : TaskSt → TaskSt)
    (hst : Status.canTransition (s.stage i).status st'.status = true)
    (htasks : st'.tasks = setTask (s.stage i).tasks t f)
    (hf : Status.canTransition (((s.stage i).tasks).getD t default).status (f (((s.stage i).tasks).getD t default)).status = true) :
    LegalEff s (.setStage i st') := by
  apply legalEff_setStage s i st' hst
  intro u
  rw [htasks, setTask_getD]
  split
  · rename_i h; obtain ⟨rfl, _⟩ := h; exact hf
  · exact canTransition_refl _

macro "quiet_tac" : tactic =>
  `(tactic| (simp [Eff.quiet, List.all_map, Function.comp_def, List.all_append]))

theorem hStartWorkflow_legal (c : Cfg) (s : State) (id : Nat) :
    EffAll LegalEff s (hStartWorkflow c s id).flatten := by
  unfold hStartWorkflow
  simp only []
  split
  · trivial
  · rename_i h
    have hw : s.wfStatus = .notStarted := by simpa using h
    split
    · exact effAll_quietB _ _ (by quiet_tac)
    · split
      · simp only [List.flatten_cons, List.flatten_nil, List.append_nil]
        exact effAll_write_then_quietB _ _ _ (legalEff_setWf _ _ (by simp [hw, Status.canTransition, Status.validNext])) (by quiet_tac)
      · simp only [List.flatten_cons, List.flatten_nil, List.append_nil, List.cons_append, List.nil_append]
        exact effAll_write_then_quietB _ _ _ (legalEff_setWf _ _ (by simp [hw, Status.canTransition, Status.validNext])) (by quiet_tac)

theorem hStartTask_legal (c : Cfg) (s : State) (id i t : Nat) :
    EffAll LegalEff s (hStartTask c s id i t).flatten := by
  unfold hStartTask
  simp only []
  split
  · exact effAll_quietB _ _ (by quiet_tac)
  · rename_i h
    have ht : (((s.stage i).tasks).getD t default).status = .notStarted := by simpa using h
    simp only [List.flatten_cons, List.flatten_nil, List.append_nil]
    refine effAll_write_then_quietB _ _ _ ?_ (by quiet_tac)
    exact legal_setTask s i t _ (fun _ => { status := .running, started := true }) (canTransition_refl _) rfl
      (by show Status.canTransition (((s.stage i).tasks).getD t default).status Status.running = true; rw [ht]; decide)

theorem hCompleteTask_legal (c : Cfg) (s : State) (id i t : Nat) (status : Status)
    (hok : Status.canTransition .running status = true) :
    EffAll LegalEff s (hCompleteTask c s id i t status).flatten := by
  unfold hCompleteTask
  simp only []
  split
  · exact effAll_quietB _ _ (by quiet_tac)
  · rename_i h
    have ht : (((s.stage i).tasks).getD t default).status = .running := by simpa using h
    have key : LegalEff s (.setStage i { s.stage i with tasks := setTask (s.stage i).tasks t (fun x => { x with status := status }) }) :=
      legal_setTask s i t _ (fun x => { x with status := status }) (canTransition_refl _) rfl
        (by show Status.canTransition (((s.stage i).tasks).getD t default).status status = true; rw [ht]; exact hok)
    split
    · exact effAll_write_then_quietB _ _ _ key (by quiet_tac)
    · split <;> exact effAll_write_then_quietB _ _ _ key (by quiet_tac)

theorem hSkipStage_legal (c : Cfg) (s : State) (id i : Nat) :
    EffAll LegalEff s (hSkipStage c s id i).flatten := by
  unfold hSkipStage
  simp only []
  split
  · trivial
  split
  · split
    · exact effAll_quietB _ _ (by quiet_tac)
    · trivial
  · rename_i h _
    have hs : (s.stage i).status = .notStarted := by
      simpa using h
    simp only [List.flatten_cons, List.flatten_nil, List.append_nil, List.cons_append]
    refine effAll_write_then_quietB _ _ _ (legalEff_setStage_tasks_same s i _ (by simp [hs, Status.canTransition, Status.validNext]) rfl) ?_
    split <;> quiet_tac

theorem hCancelStage_legal (c : Cfg) (s : State) (id i : Nat) :
    EffAll LegalEff s (hCancelStage c s id i).flatten := by
  unfold hCancelStage
  simp only []
  split
  · trivial
  · rename_i h
    simp only [List.flatten_cons, List.flatten_nil, List.append_nil]
    refine effAll_write_then_quietB _ _ _ ?_ (by quiet_tac)
    apply legalEff_setStage
    · revert h; cases (s.stage i).status <;> simp [Status.isComplete, Status.canTransition, Status.validNext]
    · intro u
      simp only [List.getD_eq_getElem?_getD, List.getElem?_map]
      cases hu : (s.stage i).tasks[u]? with
      | none => simp [canTransition_refl]
      | some x =>
        simp only [Option.map_some, Option.getD_some]
        split
        · rename_i hx
          rcases Bool.or_eq_true _ _ |>.mp hx with h1 | h1
          · have : x.status = .notStarted := by simpa using h1
            simp [this, Status.canTransition, Status.validNext]
          · have : x.status = .running := by simpa using h1
            simp [this, Status.canTransition, Status.validNext]
        · exact canTransition_refl _

theorem hCancelWorkflow_legal (c : Cfg) (s : State) (id : Nat) :
    EffAll LegalEff s (hCancelWorkflow c s id).flatten := by
  unfold hCancelWorkflow
  simp only []
  split
  · split
    · simp only [List.flatten_cons, List.flatten_nil, List.append_nil, List.cons_append, List.nil_append]
      exact effAll_quietB _ _ (by quiet_tac)
    · exact effAll_quietB _ _ (by quiet_tac)
  · simp only [List.flatten_cons, List.flatten_nil, List.append_nil, List.cons_append, List.nil_append]
    exact effAll_quietB _ _ (by quiet_tac)

theorem hCompleteWorkflow_legal (c : Cfg) (s : State) (id retry : Nat) :
    EffAll LegalEff s (hCompleteWorkflow c s id retry).flatten := by
  unfold hCompleteWorkflow
  simp only []
  split
  · trivial
  · split
    · exact effAll_quietB _ _ (by quiet_tac)
    · rename_i status _
      split
      · trivial
      · rename_i hct
        have : Status.canTransition s.wfStatus status = true := by simpa using hct
        simp only [List.flatten_cons, List.flatten_nil, List.append_nil, List.cons_append, List.nil_append]
        exact effAll_write_then_quietB _ _ _ (legalEff_setWf _ _ this) (by quiet_tac)

theorem hSignalStage_legal (c : Cfg) (s : State) (id i : Nat) (p : Bool) :
    EffAll LegalEff s (hSignalStage c s id i p).flatten := by
  unfold hSignalStage
  simp only []
  split
  · rename_i h
    have hs : (s.stage i).status = .suspended := by simpa using h
    split
    · rename_i t ht
      have htt := List.find?_some ht
      have hts : (((s.stage i).tasks).getD t default).status = .suspended := by
        have := htt; simp only [beq_iff_eq] at this; exact this
      simp only [List.flatten_cons, List.flatten_nil, List.append_nil]
      refine effAll_write_then_quietB _ _ _ ?_ (by quiet_tac)
      exact legal_setTask s i t _ (fun x => { x with status := .running }) (by simp [hs, Status.canTransition, Status.validNext]) rfl
        (by show Status.canTransition (((s.stage i).tasks).getD t default).status Status.running = true; rw [hts]; decide)
    · simp only [List.flatten_cons, List.flatten_nil, List.append_nil]
      exact effAll_write_then_quietB _ _ _ (legalEff_setStage_tasks_same s i _ (by simp [hs, Status.canTransition, Status.validNext]) rfl) (by quiet_tac)
  · split
    · simp only [List.flatten_cons, List.flatten_nil, List.append_nil]
      exact effAll_write_then_quietB _ _ _ (legalEff_setStage_tasks_same s i _ (canTransition_refl _) rfl) (by quiet_tac)
    · exact effAll_quietB _ _ (by quiet_tac)

end Stab.Engine
