/-
  Legality of CompleteStage (join tracking writes + the completing write), in any state.
-/
import Stab.Lemmas.EngineLegalHandlers2

namespace Stab.Engine
open Stab

/-- `cur` has the same stage / task statuses as `base` -/
def SameST (base cur : State) : Prop :=
  cur.stages.length = base.stages.length ∧
  ∀ j, (cur.stage j).status = (base.stage j).status ∧ (cur.stage j).tasks = (base.stage j).tasks

/-- an effect that keeps every status of `base` -/
def Preserving (base : State) : Eff → Prop
  | .setStage d new => new.status = (base.stage d).status ∧ new.tasks = (base.stage d).tasks
  | .setWf _ => False
  | _ => True

theorem sameST_applyEff (base cur : State) (e : Eff) (h : SameST base cur) (he : Preserving base e) :
    SameST base (applyEff cur e) ∧ LegalEff cur e := by
  cases e with
  | setStage d new =>
    obtain ⟨h1, h2⟩ := he
    refine ⟨⟨by simp [h.1], ?_⟩, ?_⟩
    · intro j
      rw [applyEff_setStage_stage]
      split
      · rename_i hj; obtain ⟨rfl, _⟩ := hj; exact ⟨h1, h2⟩
      · exact h.2 j
    · exact legal_same_status cur d new (by rw [h1, (h.2 d).1]) (by rw [h2, (h.2 d).2])
  | setWf st => exact absurd he (by simp [Preserving])
  | setCanceled => exact ⟨⟨by simp [applyEff, h.1], fun j => by simpa [applyEff, State.stage] using h.2 j⟩, by simp⟩
  | push m => exact ⟨⟨by simp [applyEff, h.1], fun j => by simpa [applyEff, State.stage] using h.2 j⟩, by simp⟩
  | pushA m a => exact ⟨⟨by simp [applyEff, h.1], fun j => by simpa [applyEff, State.stage] using h.2 j⟩, by simp⟩
  | mark id =>
    refine ⟨⟨by simp [h.1], fun j => ?_⟩, by simp⟩
    rw [applyEff_other_stage _ _ _ (by intro i new; simp)]; exact h.2 j

theorem effAll_preserving (base cur : State) (l : List Eff) (h : SameST base cur) (hl : ∀ e ∈ l, Preserving base e) :
    EffAll LegalEff cur l ∧ SameST base (applyTxn cur l) := by
  induction l generalizing cur with
  | nil => exact ⟨trivial, by simpa [applyTxn] using h⟩
  | cons e es ih =>
    obtain ⟨h1, h2⟩ := sameST_applyEff base cur e h (hl e (List.mem_cons_self ..))
    obtain ⟨h3, h4⟩ := ih (applyEff cur e) h1 (fun x hx => hl x (List.mem_cons_of_mem _ hx))
    exact ⟨⟨h2, h3⟩, by simpa [applyTxn, List.foldl] using h4⟩

theorem sameST_refl (s : State) : SameST s s := ⟨rfl, fun _ => ⟨rfl, rfl⟩⟩

theorem joinTracking_preserving (c : Cfg) (s : State) (i : Nat) :
    ∀ e ∈ (joinTracking c s i).flatten, Preserving s e := by
  intro e he
  simp only [joinTracking, List.mem_flatten, List.mem_filterMap] at he
  obtain ⟨txn, ⟨d, _, hd⟩, hmem⟩ := he
  split at hd
  · split at hd
    · cases hd
    · cases hd
      simp only [List.mem_singleton] at hmem
      subst hmem
      exact ⟨rfl, rfl⟩
  · cases hd

macro "quiet_tac3" : tactic =>
  `(tactic| (simp [Eff.quiet, List.all_map, Function.comp_def, List.all_append]))

theorem splitCont_quiet (sc : StageCfg) (down : List Nat) : (splitCont sc down).all Eff.quiet = true := by
  unfold splitCont
  split
  · simp [Eff.quiet]
  · simp [Eff.quiet, List.all_append, List.all_map, Function.comp_def]

theorem hCompleteStage_legal (c : Cfg) (s : State) (id i : Nat) :
    EffAll LegalEff s (hCompleteStage c s id i).flatten := by
  unfold hCompleteStage
  simp only []
  split
  · exact effAll_quietB _ _ (by quiet_tac3)
  · split
    · split
      · exact effAll_quietB _ _ (by quiet_tac3)
      · trivial
    · rename_i hns hr
      have hrun : (s.stage i).status = .running := by simpa using hr
      split
      · exact effAll_quietB _ _ (by quiet_tac3)
      · split
        · simp only [List.flatten_cons, List.flatten_nil, List.append_nil]
          exact effAll_write_then_quietB _ _ _
            (legalEff_setStage_tasks_same s i _ (by simp [hrun, Status.canTransition, Status.validNext]) rfl) (by quiet_tac3)
        · rename_i hct
          have hct' : Status.canTransition (s.stage i).status
              (determineStatus (c.stage i) (s.stage i).status ((s.stage i).tasks.map (·.status))) = true := by simpa using hct
          split
          · -- success-like: join tracking writes, then the completing write
            rw [List.flatten_append, EffAll_append]
            obtain ⟨h1, h2⟩ := effAll_preserving s s _ (sameST_refl s) (joinTracking_preserving c s i)
            refine ⟨h1, ?_⟩
            simp only [List.flatten_cons, List.flatten_nil, List.append_nil, List.cons_append, List.nil_append]
            refine effAll_write_then_quietB _ _ _ ?_ (by simp [Eff.quiet, splitCont_quiet])
            apply legalEff_setStage_tasks_same
            · rw [(h2.2 i).1]; exact hct'
            · rw [(h2.2 i).2]
          · simp only [List.flatten_cons, List.flatten_nil, List.append_nil]
            exact effAll_write_then_quietB _ _ _ (legalEff_setStage_tasks_same s i _ hct' rfl) (by quiet_tac3)

end Stab.Engine
