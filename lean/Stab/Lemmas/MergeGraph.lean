/-
  Helper lemmas for C16, part 4: the executable `ancestors` / `perms` / `linExts` of the driver are
  exactly the Prop-level notions (so "admissible = merge of SOME linear extension" is checked against
  the complete set of linear extensions).
-/
import Stab.Lemmas.Merge

namespace Stab.Merge

/-- requisites point to smaller refs (the harness numbers stages in a topological order) -/
def Topo (R : Nat → List Nat) : Prop := ∀ a, ∀ b ∈ R a, b < a

theorem Anc.lt {R : Nat → List Nat} (hT : Topo R) {s a : Nat} (h : Anc R s a) : a < s := by
  induction h with
  | direct hd => exact hT _ _ hd
  | step _ hac ih => exact Nat.lt_trans (hT _ _ hac) ih

theorem ancDown_spec (R : Nat → List Nat) (hT : Topo R) (s : Nat) :
    ∀ n acc, (∀ x, x ∈ acc ↔ (n ≤ x ∧ Anc R s x)) → acc.Pairwise (· < ·) →
      (∀ x, x ∈ ancDown R s n acc ↔ Anc R s x) ∧ (ancDown R s n acc).Pairwise (· < ·) := by
  intro n
  induction n with
  | zero =>
    intro acc h hp
    exact ⟨fun x => by simpa [ancDown] using h x, by simpa [ancDown] using hp⟩
  | succ n ih =>
    intro acc h hp
    have hcond : ((s :: acc).any (fun c => (R c).contains n)) = true ↔ Anc R s n := by
      simp only [List.any_eq_true, List.contains_iff_mem, List.mem_cons]
      constructor
      · rintro ⟨c, hc | hc, hn⟩
        · subst hc; exact Anc.direct hn
        · exact Anc.step ((h c).mp hc).2 hn
      · intro ha
        cases ha with
        | direct hd => exact ⟨s, Or.inl rfl, hd⟩
        | @step c _ hc hac =>
          exact ⟨c, Or.inr ((h c).mpr ⟨hT _ _ hac, hc⟩), hac⟩
    simp only [ancDown]
    by_cases hc : ((s :: acc).any (fun c => (R c).contains n)) = true
    · simp only [hc, if_true]
      apply ih
      · intro x
        simp only [List.mem_cons, h x]
        constructor
        · rintro (rfl | ⟨h1, h2⟩)
          · exact ⟨Nat.le_refl _, hcond.mp hc⟩
          · exact ⟨by omega, h2⟩
        · rintro ⟨h1, h2⟩
          by_cases hx : x = n
          · exact Or.inl hx
          · exact Or.inr ⟨by omega, h2⟩
      · refine List.pairwise_cons.mpr ⟨?_, hp⟩
        intro y hy
        have := ((h y).mp hy).1
        omega
    · simp only [hc, Bool.false_eq_true, if_false]
      apply ih
      · intro x
        rw [h x]
        constructor
        · rintro ⟨h1, h2⟩; exact ⟨by omega, h2⟩
        · rintro ⟨h1, h2⟩
          refine ⟨?_, h2⟩
          by_cases hx : x = n
          · subst hx; exact absurd (hcond.mpr h2) hc
          · omega
      · exact hp

theorem mem_ancestors (R : Nat → List Nat) (hT : Topo R) (s a : Nat) :
    a ∈ ancestors R s ↔ Anc R s a := by
  refine (ancDown_spec R hT s s [] ?_ List.Pairwise.nil).1 a
  intro x
  simp only [List.not_mem_nil, false_iff, not_and]
  intro h1 h2
  have := h2.lt hT
  omega

theorem ancestors_sorted (R : Nat → List Nat) (hT : Topo R) (s : Nat) :
    (ancestors R s).Pairwise (· < ·) := by
  refine (ancDown_spec R hT s s [] ?_ List.Pairwise.nil).2
  intro x
  simp only [List.not_mem_nil, false_iff, not_and]
  intro h1 h2
  have := h2.lt hT
  omega

/-- the ascending ancestor list is itself a linear extension: one always exists -/
theorem ancestors_linExt (R : Nat → List Nat) (hT : Topo R) (s : Nat) : LinExt R s (ancestors R s) := by
  have hs := ancestors_sorted R hT s
  refine ⟨?_, mem_ancestors R hT s, ?_⟩
  · exact hs.imp (fun h => Nat.ne_of_lt h)
  · intro l1 a l2 e b hb
    have ha : Anc R s a := (mem_ancestors R hT s a).mp (by rw [e]; simp)
    have hbm : b ∈ ancestors R s := (mem_ancestors R hT s b).mpr (Anc.step ha hb)
    have hlt : b < a := hT _ _ hb
    rw [e] at hbm hs
    rcases List.mem_append.mp hbm with h | h
    · exact h
    · exfalso
      have hs2 := (List.pairwise_append.mp hs).2.1
      rcases List.mem_cons.mp h with rfl | h
      · omega
      · have := (List.pairwise_cons.mp hs2).1 b h
        omega

/-! ### `perms` enumerates all permutations -/

theorem mem_insertAll {α} (x : α) (l1 l2 : List α) : (l1 ++ x :: l2) ∈ insertAll x (l1 ++ l2) := by
  induction l1 with
  | nil => cases l2 <;> simp [insertAll]
  | cons y l1 ih =>
    simp only [List.cons_append, insertAll, List.mem_cons, List.mem_map]
    right
    exact ⟨_, ih, rfl⟩

theorem perm_of_mem_insertAll {α} (x : α) (l : List α) : ∀ r, r ∈ insertAll x l → r.Perm (x :: l) := by
  induction l with
  | nil => intro r hr; simp [insertAll] at hr; subst hr; exact List.Perm.refl _
  | cons y l ih =>
    intro r hr
    simp only [insertAll, List.mem_cons, List.mem_map] at hr
    rcases hr with rfl | ⟨r', hr', rfl⟩
    · exact List.Perm.refl _
    · exact ((ih r' hr').cons y).trans (List.Perm.swap x y l)

theorem mem_perms {α} (l r : List α) : r ∈ perms l ↔ r.Perm l := by
  induction l generalizing r with
  | nil =>
    simp only [perms, List.mem_singleton]
    constructor
    · rintro rfl; exact List.Perm.refl _
    · intro h; exact h.eq_nil
  | cons x l ih =>
    simp only [perms, List.mem_flatMap]
    constructor
    · rintro ⟨p, hp, hr⟩
      exact (perm_of_mem_insertAll x p r hr).trans (((ih p).mp hp).cons x)
    · intro h
      have hx : x ∈ r := h.symm.subset List.mem_cons_self
      obtain ⟨l1, l2, rfl⟩ := List.append_of_mem hx
      have h' : (l1 ++ l2).Perm l := by
        have : (x :: (l1 ++ l2)).Perm (x :: l) := (List.perm_middle.symm).trans h
        exact this.cons_inv
      exact ⟨l1 ++ l2, (ih _).mpr h', mem_insertAll x l1 l2⟩

/-- the driver's `linExts` is the complete set of linear extensions -/
theorem mem_linExts (R : Nat → List Nat) (hT : Topo R) (s : Nat) (order : List Nat) :
    order ∈ linExts R s ↔ LinExt R s order := by
  simp only [linExts, List.mem_filter, mem_perms, isLinExt_iff]
  constructor
  · exact fun h => h.2
  · intro h
    refine ⟨?_, h⟩
    have hA := ancestors_linExt R hT s
    exact (List.perm_ext_iff_of_nodup h.nodup hA.nodup).mpr (fun a => by rw [h.mem, hA.mem])

end Stab.Merge
