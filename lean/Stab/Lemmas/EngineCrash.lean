/-
  Unacknowledged deliveries and killed workers: the shape of a partial delivery (`part_shape`), queue bookkeeping
  without "queued rows are unprocessed" (`Plumb2`), and the cancel invariant `CancInv2` over every schedule that has
  no nested (second-worker) delivery: canceled ⇒ workflow final ∨ an UNPROCESSED CompleteWorkflow / CancelWorkflow row
  is queued.  Results: `canceled_drained_is_final_crash` (no nested delivery) and, carrying the invariant through the
  second worker's deliveries and the RunTask's late result commit, `canceled_drained_is_final_always` (every operation list).
-/
import Stab.Lemmas.EngineCancel
namespace Stab.Engine
open Stab

/-! ### deliveries that are not acknowledged: `deliverNoAck`, `crash id k` -/

def takeTxns (txns : List Txn) : Option Nat → List Txn
  | none => txns
  | some k => txns.take k

/-- the effects of the commits that became durable -/
def partEffs (c : Cfg) (s : State) (r : Row) (k : Option Nat) : List Eff :=
  (takeTxns (handle c s { r with attempts := r.attempts + 1 }).1 k).flatten

/-- does the processor's own processed-mark become durable? (acknowledged, or killed after every handler commit AND the mark) -/
def procMark (c : Cfg) (s : State) (r : Row) (ack : Bool) : Option Nat → Bool
  | none => ack
  | some k => ack || decide (k > (handle c s { r with attempts := r.attempts + 1 }).1.length)

theorem takeTxns_sublist (txns : List Txn) (k : Option Nat) : ∀ e ∈ (takeTxns txns k).flatten, e ∈ txns.flatten := by
  intro e he
  cases k with
  | none => exact he
  | some k =>
    simp only [takeTxns, List.mem_flatten] at he ⊢
    obtain ⟨l, hl, hel⟩ := he
    exact ⟨l, List.mem_of_mem_take hl, hel⟩

theorem partEffs_sub (c : Cfg) (s : State) (r : Row) (k : Option Nat) :
    ∀ e ∈ partEffs c s r k, e ∈ (handle c s { r with attempts := r.attempts + 1 }).1.flatten :=
  takeTxns_sublist _ k

structure PartShape (c : Cfg) (s : State) (r : Row) (ack : Bool) (k : Option Nat) (s' : State) : Prop where
  queue : s'.queue = (if ack then s.queue.filter (fun x => x.id != r.id) else (claimRow s r.id).queue) ++
            mkRows s.nextId (pushesOf (partEffs c s r k))
  nextId : s'.nextId = s.nextId + (pushesOf (partEffs c s r k)).length
  core : sameCore s' (applyTxn s (partEffs c s r k))
  processed : ∀ p, p ∈ s'.processed ↔
      p ∈ s.processed ∨ p ∈ marksOf (partEffs c s r k) ∨ (p = r.id ∧ procMark c s r ack k = true)

theorem applyEff_mark_processed (x : State) (id p : Nat) :
    p ∈ (applyEff x (.mark id)).processed ↔ p ∈ x.processed ∨ p = id := by
  simp only [applyEff]
  split
  · rename_i hc
    have : id ∈ x.processed := by simpa using hc
    constructor
    · intro hp; exact Or.inl hp
    · rintro (hp | rfl) <;> assumption
  · simp

theorem applyEff_mark_queue (x : State) (id : Nat) :
    (applyEff x (.mark id)).queue = x.queue ∧ (applyEff x (.mark id)).nextId = x.nextId := by
  simp only [applyEff]; split <;> exact ⟨rfl, rfl⟩

/-- the state the effects of a (partial) delivery are applied to differs from the claimed state only in ledger / counters -/
theorem afterHandle_eq (c : Cfg) (s1 : State) (row : Row) (k : Option Nat) :
    ∃ s2 : State, s2.queue = s1.queue ∧ s2.nextId = s1.nextId ∧ s2.processed = s1.processed ∧ sameCore s2 s1 ∧
      afterHandle c s1 row k = applyTxn s2 (takeTxns (handle c s1 row).1 k).flatten := by
  unfold afterHandle
  simp only []
  generalize hA : (if (handle c s1 row).2 = true then recordExec c s1 row else s1) = sA
  have hAf : sA.queue = s1.queue ∧ sA.nextId = s1.nextId ∧ sA.processed = s1.processed ∧ sameCore sA s1 := by
    subst hA
    split
    · obtain ⟨q1, q2, q3⟩ := recordExec_queue c s1 row
      exact ⟨q1, q2, q3, recordExec_core c s1 row⟩
    · exact ⟨rfl, rfl, rfl, sameCore_refl _⟩
  generalize hB : (if ((handle c s1 row).2 && k == some 0) = true then { sA with execCount := s1.execCount } else sA) = sB
  have hBf : sB.queue = sA.queue ∧ sB.nextId = sA.nextId ∧ sB.processed = sA.processed ∧ sameCore sB sA := by
    subst hB
    split <;> exact ⟨rfl, rfl, rfl, ⟨rfl, rfl, rfl⟩⟩
  obtain ⟨a1, a2, a3, a4, a5, a6⟩ := hAf
  obtain ⟨b1, b2, b3, b4, b5, b6⟩ := hBf
  refine ⟨sB, b1.trans a1, b2.trans a2, b3.trans a3, ⟨b4.trans a4, b5.trans a5, b6.trans a6⟩, ?_⟩
  rw [applyTxns_eq_flatten]
  cases k <;> rfl


theorem deliverRow_normal (c : Cfg) (s : State) (r : Row) (ack : Bool) (k : Option Nat) (hun : r.id ∉ s.processed)
    (hr : raises c s { r with attempts := r.attempts + 1 } = false) :
    deliverRow c s r ack k =
      (let s3 := afterHandle c (claimRow s r.id) { r with attempts := r.attempts + 1 } k
       let s4 := if procMark c s r ack k = true then applyEff s3 (.mark r.id) else s3
       if ack = true then ackRow s4 r.id else s4) := by
  have hnp : (claimRow s r.id).processed.contains r.id = false := by
    simp only [claimRow_processed]; simpa using hun
  simp only [deliverRow, hnp, Bool.false_eq_true, ↓reduceIte, raises_claimRow, hr, handle_claimRow]
  cases ack <;> cases k <;> simp [procMark]

theorem part_shape (c : Cfg) (s : State) (r : Row) (ack : Bool) (k : Option Nat) (hun : r.id ∉ s.processed)
    (hlt : r.id < s.nextId) (hr : raises c s { r with attempts := r.attempts + 1 } = false) :
    PartShape c s r ack k (deliverRow c s r ack k) := by
  rw [deliverRow_normal c s r ack k hun hr]
  obtain ⟨s2, q1, q2, q3, q4, hah⟩ := afterHandle_eq c (claimRow s r.id) { r with attempts := r.attempts + 1 } k
  simp only [handle_claimRow] at hah
  simp only [hah]
  have hP : (takeTxns (handle c s { r with attempts := r.attempts + 1 }).1 k).flatten = partEffs c s r k := rfl
  rw [hP]
  obtain ⟨hq, hn⟩ := applyTxn_queue s2 (partEffs c s r k)
  have q2' : s2.nextId = s.nextId := q2
  have q3' : s2.processed = s.processed := q3
  have q4' : sameCore s2 s := q4
  -- the state before the optional ack
  generalize hs4 : (if procMark c s r ack k = true then applyEff (applyTxn s2 (partEffs c s r k)) (.mark r.id)
      else applyTxn s2 (partEffs c s r k)) = s4
  have h4q : s4.queue = (claimRow s r.id).queue ++ mkRows s.nextId (pushesOf (partEffs c s r k)) ∧
      s4.nextId = s.nextId + (pushesOf (partEffs c s r k)).length := by
    subst hs4
    split
    · rw [(applyEff_mark_queue _ _).1, (applyEff_mark_queue _ _).2, hq, hn, q1, q2']; exact ⟨rfl, rfl⟩
    · rw [hq, hn, q1, q2']; exact ⟨rfl, rfl⟩
  have h4c : sameCore s4 (applyTxn s (partEffs c s r k)) := by
    have hc := applyTxn_core s2 s (partEffs c s r k) q4'
    subst hs4
    split
    · obtain ⟨c1, c2, c3⟩ := hc
      exact ⟨by rw [applyEff_mark_stages']; exact c1, by rw [applyEff_mark_wf']; exact c2, by rw [applyEff_mark_canceled']; exact c3⟩
    · exact hc
  have h4p : ∀ p, p ∈ s4.processed ↔ p ∈ s.processed ∨ p ∈ marksOf (partEffs c s r k) ∨ (p = r.id ∧ procMark c s r ack k = true) := by
    intro p
    subst hs4
    split
    · rename_i hpm
      rw [applyEff_mark_processed, applyTxn_processed, q3']
      constructor
      · rintro ((h1 | h1) | h1)
        · exact Or.inl h1
        · exact Or.inr (Or.inl h1)
        · exact Or.inr (Or.inr ⟨h1, hpm⟩)
      · rintro (h1 | h1 | ⟨h1, _⟩)
        · exact Or.inl (Or.inl h1)
        · exact Or.inl (Or.inr h1)
        · exact Or.inr h1
    · rename_i hpm
      rw [applyTxn_processed, q3']
      constructor
      · rintro (h1 | h1)
        · exact Or.inl h1
        · exact Or.inr (Or.inl h1)
      · rintro (h1 | h1 | ⟨_, h1⟩)
        · exact Or.inl h1
        · exact Or.inr h1
        · exact absurd h1 hpm
  cases ack with
  | false =>
    simp only [Bool.false_eq_true, ↓reduceIte]
    exact ⟨h4q.1, h4q.2, h4c, h4p⟩
  | true =>
    simp only [↓reduceIte]
    refine ⟨?_, ?_, ?_, ?_⟩
    · simp only [ackRow, h4q.1, List.filter_append, claimRow_queue_filter]
      congr 1
      apply List.filter_eq_self.mpr
      intro x hx
      have := (mkRows_ids _ _ x hx).1
      simp only [bne_iff_ne, ne_eq]
      omega
    · simp only [ackRow, h4q.2]
    · exact h4c
    · intro p; simp only [ackRow]; exact h4p p


/-! ### queue bookkeeping without "queued rows are unprocessed" (a killed worker leaves a processed row queued) -/

structure Plumb2 (s : State) : Prop where
  ids : (s.queue.map (·.id)).Nodup
  fresh : ∀ r ∈ s.queue, r.id < s.nextId
  pfresh : ∀ p ∈ s.processed, p < s.nextId

theorem claimRow_mem (s : State) (id : Nat) (x : Row) (hx : x ∈ (claimRow s id).queue) :
    ∃ y ∈ s.queue, y.id = x.id ∧ y.msg = x.msg ∧ (y.id ≠ id → x = y) := by
  simp only [claimRow, List.mem_map] at hx
  obtain ⟨y, hy, rfl⟩ := hx
  refine ⟨y, hy, ?_, ?_, ?_⟩
  · split <;> rfl
  · split <;> rfl
  · intro hne
    have : (y.id == id) = false := by simpa using hne
    simp [this]

theorem mem_claimRow (s : State) (id : Nat) (y : Row) (hy : y ∈ s.queue) :
    ∃ x ∈ (claimRow s id).queue, x.id = y.id ∧ x.msg = y.msg := by
  refine ⟨if (y.id == id) = true then { y with attempts := y.attempts + 1 } else y, ?_, ?_, ?_⟩
  · simp only [claimRow, List.mem_map]; exact ⟨y, hy, rfl⟩
  · split <;> rfl
  · split <;> rfl

theorem claimRow_plumb2 (s : State) (id : Nat) (hp : Plumb2 s) : Plumb2 (claimRow s id) := by
  refine ⟨?_, ?_, hp.pfresh⟩
  · rw [claimRow_queue_ids]; exact hp.ids
  · intro x hx
    obtain ⟨y, hy, hid, _, _⟩ := claimRow_mem s id x hx
    have := hp.fresh y hy
    show x.id < s.nextId
    omega

theorem ackRow_plumb2 (s : State) (id : Nat) (hp : Plumb2 s) : Plumb2 (ackRow s id) := by
  refine ⟨?_, ?_, hp.pfresh⟩
  · exact hp.ids.sublist ((List.filter_sublist).map _)
  · intro x hx; exact hp.fresh x (List.mem_filter.mp hx).1

theorem deliverRow_processed (c : Cfg) (s : State) (r : Row) (ack : Bool) (k : Option Nat) (hp : r.id ∈ s.processed) :
    deliverRow c s r ack k = if ack = true then ackRow (claimRow s r.id) r.id else claimRow s r.id := by
  have : (claimRow s r.id).processed.contains r.id = true := by simpa using hp
  simp only [deliverRow, this, ↓reduceIte]

theorem deliverRow_raises (c : Cfg) (s : State) (r : Row) (ack : Bool) (k : Option Nat) (hun : r.id ∉ s.processed)
    (hr : raises c s { r with attempts := r.attempts + 1 } = true) : deliverRow c s r ack k = claimRow s r.id := by
  have hnp : (claimRow s r.id).processed.contains r.id = false := by
    simp only [claimRow_processed]; simpa using hun
  simp only [deliverRow, hnp, Bool.false_eq_true, ↓reduceIte, raises_claimRow, hr]
  obtain ⟨h1, h2⟩ := raises_no_effects c s _ hr
  unfold afterHandle
  simp only [handle_claimRow, h1, h2, Bool.false_and, Bool.false_eq_true, ↓reduceIte]
  cases k <;> simp [applyTxns]

theorem partEffs_marks (c : Cfg) (s : State) (r : Row) (k : Option Nat) : ∀ p ∈ marksOf (partEffs c s r k), p = r.id := by
  intro p hp
  have h1 : Eff.mark p ∈ partEffs c s r k := (mem_marksOf _ _).mp hp
  have h2 := partEffs_sub c s r k _ h1
  exact handle_marks c s { r with attempts := r.attempts + 1 } p ((mem_marksOf _ _).mpr h2)

theorem plumb2_of_part (c : Cfg) (s : State) (r : Row) (ack : Bool) (k : Option Nat) (s' : State) (hp : Plumb2 s)
    (hmem : r ∈ s.queue) (h : PartShape c s r ack k s') : Plumb2 s' := by
  have hnew := mkRows_ids s.nextId (pushesOf (partEffs c s r k))
  have hold : ∀ x ∈ (if ack = true then s.queue.filter (fun x => x.id != r.id) else (claimRow s r.id).queue), x.id < s.nextId := by
    intro x hx
    split at hx
    · exact hp.fresh x (List.mem_filter.mp hx).1
    · exact (claimRow_plumb2 s r.id hp).fresh x hx
  have holdnd : ((if ack = true then s.queue.filter (fun x => x.id != r.id) else (claimRow s r.id).queue).map (·.id)).Nodup := by
    split
    · exact hp.ids.sublist ((List.filter_sublist).map _)
    · exact (claimRow_plumb2 s r.id hp).ids
  refine ⟨?_, ?_, ?_⟩
  · rw [h.queue, List.map_append, List.nodup_append]
    refine ⟨holdnd, mkRows_nodup _ _, ?_⟩
    intro a ha b hb hab
    simp only [List.mem_map] at ha hb
    obtain ⟨x, hx, rfl⟩ := ha
    obtain ⟨y, hy, rfl⟩ := hb
    have h1 := hold x hx
    have h2 := (hnew y hy).1
    omega
  · intro x hx
    rw [h.queue] at hx
    rw [h.nextId]
    rcases List.mem_append.mp hx with h1 | h1
    · have := hold x h1; omega
    · exact (hnew x h1).2
  · intro p hpp
    rw [h.nextId]
    have h2 := hp.fresh r hmem
    rcases (h.processed p).mp hpp with h1 | h1 | ⟨h1, _⟩
    · have := hp.pfresh p h1; omega
    · have := partEffs_marks c s r k p h1; omega
    · omega

theorem deliverRow_plumb2 (c : Cfg) (s : State) (r : Row) (ack : Bool) (k : Option Nat) (hp : Plumb2 s) (hmem : r ∈ s.queue) :
    Plumb2 (deliverRow c s r ack k) := by
  by_cases hpr : r.id ∈ s.processed
  · rw [deliverRow_processed c s r ack k hpr]
    split
    · exact ackRow_plumb2 _ _ (claimRow_plumb2 s r.id hp)
    · exact claimRow_plumb2 s r.id hp
  · cases hr : raises c s { r with attempts := r.attempts + 1 } with
    | true => rw [deliverRow_raises c s r ack k hpr hr]; exact claimRow_plumb2 s r.id hp
    | false => exact plumb2_of_part c s r ack k _ hp hmem (part_shape c s r ack k hpr (hp.fresh r hmem) hr)


/-! ### the cancel invariant over schedules with unacknowledged deliveries and kills -/

/-- an unprocessed CompleteWorkflow or CancelWorkflow row: delivering it (again) re-evaluates / fans out -/
def IsWit (s : State) (x : Row) : Prop :=
  x ∈ s.queue ∧ x.id ∉ s.processed ∧ ((∃ k, x.msg = .completeWorkflow k) ∨ x.msg = .cancelWorkflow)

structure CancInv2 (s : State) : Prop where
  plumb : Plumb2 s
  cw : s.canceled = true → s.wfStatus.isComplete = true ∨ ∃ x, IsWit s x

theorem isWit_claim (s : State) (id : Nat) (x : Row) (h : IsWit s x) : ∃ x', IsWit (claimRow s id) x' ∧ x'.id = x.id := by
  obtain ⟨hx, hp, hm⟩ := h
  obtain ⟨x', hx', hid, hmsg⟩ := mem_claimRow s id x hx
  refine ⟨x', ⟨hx', ?_, ?_⟩, hid⟩
  · rw [hid]; exact hp
  · rw [hmsg]; exact hm

theorem isWit_ack (s : State) (id : Nat) (x : Row) (h : IsWit s x) (hne : x.id ≠ id) : IsWit (ackRow s id) x := by
  obtain ⟨hx, hp, hm⟩ := h
  exact ⟨List.mem_filter.mpr ⟨hx, by simpa using hne⟩, hp, hm⟩

theorem isWit_push (s : State) (m : Msg) (x : Row) (h : IsWit s x) : IsWit (applyEff s (.push m)) x := by
  obtain ⟨hx, hp, hm⟩ := h
  exact ⟨by simp [applyEff, hx], hp, hm⟩

theorem cancInv2_push (s : State) (m : Msg) (h : CancInv2 s) : CancInv2 (applyEff s (.push m)) := by
  refine ⟨?_, ?_⟩
  · have hp := h.plumb
    refine ⟨?_, ?_, ?_⟩
    · simp only [applyEff, List.map_append, List.map_cons, List.map_nil]
      rw [List.nodup_append]
      refine ⟨hp.ids, by simp, ?_⟩
      intro a ha b hb hab
      simp only [List.mem_map] at ha
      obtain ⟨x, hx, rfl⟩ := ha
      simp only [List.mem_singleton] at hb
      have := hp.fresh x hx
      omega
    · intro x hx
      simp only [applyEff, List.mem_append, List.mem_singleton] at hx ⊢
      rcases hx with hx | rfl
      · have := hp.fresh x hx; show x.id < s.nextId + 1; omega
      · show s.nextId < s.nextId + 1; omega
    · intro p hpp
      have := hp.pfresh p hpp
      show p < s.nextId + 1
      omega
  · intro hc
    rcases h.cw hc with h1 | ⟨x, hx⟩
    · exact Or.inl h1
    · exact Or.inr ⟨x, isWit_push s m x hx⟩

theorem cancInv2_pushes (s : State) (ms : List Msg) (h : CancInv2 s) : CancInv2 (applyTxn s (ms.map Eff.push)) := by
  induction ms generalizing s with
  | nil => exact h
  | cons m ms ih =>
    have := ih (applyEff s (.push m)) (cancInv2_push s m h)
    simpa [applyTxn, List.foldl] using this


theorem takeTxns_one (t : Txn) (k : Option Nat) : takeTxns [t] k = [t] ∨ (k = some 0 ∧ takeTxns [t] k = []) := by
  cases k with
  | none => left; rfl
  | some n =>
    cases n with
    | zero => right; exact ⟨rfl, rfl⟩
    | succ n => left; simp [takeTxns]

theorem takeTxns_two (t1 t2 : Txn) (k : Option Nat) :
    takeTxns [t1, t2] k = [t1, t2] ∨ (k = some 1 ∧ takeTxns [t1, t2] k = [t1]) ∨ (k = some 0 ∧ takeTxns [t1, t2] k = []) := by
  cases k with
  | none => left; rfl
  | some n =>
    match n with
    | 0 => right; right; exact ⟨rfl, rfl⟩
    | 1 => right; left; exact ⟨rfl, rfl⟩
    | n + 2 => left; simp [takeTxns]

theorem push_mem_pushesOf (l : List Eff) (m : Msg) (hm : Eff.push m ∈ l) : (m, 0) ∈ pushesOf l := by
  induction l with
  | nil => cases hm
  | cons e es ih =>
    simp only [List.mem_cons] at hm
    rcases hm with rfl | hm
    · simp [pushesOf]
    · cases e <;> simp [pushesOf, ih hm]

theorem mem_claimRow_other (s : State) (id : Nat) (x : Row) (hx : x ∈ s.queue) (hne : x.id ≠ id) : x ∈ (claimRow s id).queue := by
  simp only [claimRow, List.mem_map]
  refine ⟨x, hx, ?_⟩
  have : (x.id == id) = false := by simpa using hne
  simp [this]

theorem mem_claimRow_self (s : State) (r : Row) (hx : r ∈ s.queue) : { r with attempts := r.attempts + 1 } ∈ (claimRow s r.id).queue := by
  simp only [claimRow, List.mem_map]
  exact ⟨r, hx, by simp⟩


theorem deliverRow_cancInv2 (c : Cfg) (s : State) (r : Row) (ack : Bool) (k : Option Nat) (h : CancInv2 s) (hmem : r ∈ s.queue)
    (hak : ack = true → k = none) : CancInv2 (deliverRow c s r ack k) := by
  refine ⟨deliverRow_plumb2 c s r ack k h.plumb hmem, ?_⟩
  by_cases hpr : r.id ∈ s.processed
  · -- an already processed row: the delivery only (maybe) removes it
    rw [deliverRow_processed c s r ack k hpr]
    intro hc
    have hc' : s.canceled = true := by split at hc <;> exact hc
    rcases h.cw hc' with h1 | ⟨x, hx⟩
    · left; split <;> exact h1
    · right
      have hne : x.id ≠ r.id := fun e => hx.2.1 (e ▸ hpr)
      obtain ⟨x', hx', hid⟩ := isWit_claim s r.id x hx
      split
      · exact ⟨x', isWit_ack _ _ _ hx' (by rw [hid]; exact hne)⟩
      · exact ⟨x', hx'⟩
  · cases hr : raises c s { r with attempts := r.attempts + 1 } with
    | true =>
      rw [deliverRow_raises c s r ack k hpr hr]
      intro hc
      rcases h.cw hc with h1 | ⟨x, hx⟩
      · exact Or.inl h1
      · obtain ⟨x', hx', _⟩ := isWit_claim s r.id x hx
        exact Or.inr ⟨x', hx'⟩
    | false =>
      have hlt := h.plumb.fresh r hmem
      have sh := part_shape c s r ack k hpr hlt hr
      generalize deliverRow c s r ack k = s' at sh ⊢
      have hcan : s'.canceled = true ↔ s.canceled = true ∨ Eff.setCanceled ∈ partEffs c s r k := by
        rw [sh.core.2.2]; exact applyTxn_canceled_iff _ _
      have hwf := applyTxn_wf_setWf s (partEffs c s r k)
      rw [← sh.core.2.1] at hwf
      have stays : s.wfStatus.isComplete = true → s'.wfStatus.isComplete = true := by
        intro h1
        rcases hwf with h2 | ⟨st, hst, _⟩
        · rw [h2]; exact h1
        · have := (handle_setWf c s _ st (partEffs_sub c s r k _ hst)).1
          rw [h1] at this; cases this
      have keep : ∀ x ∈ s.queue, x.id ≠ r.id → x ∈ s'.queue := by
        intro x hx hne
        rw [sh.queue]
        apply List.mem_append_left
        split
        · exact List.mem_filter.mpr ⟨hx, by simpa using hne⟩
        · exact mem_claimRow_other s r.id x hx hne
      have unproc' : ∀ p, p ∉ s.processed → p ≠ r.id → p ∉ s'.processed := by
        intro p hp hne hin
        rcases (sh.processed p).mp hin with h1 | h1 | ⟨h1, _⟩
        · exact hp h1
        · exact hne (partEffs_marks c s r k p h1)
        · exact hne h1
      have newrow : ∀ m, Eff.push m ∈ partEffs c s r k → ∃ y, y ∈ s'.queue ∧ y.msg = m ∧ y.id ∉ s'.processed := by
        intro m hm
        obtain ⟨y, hy, hym⟩ := mkRows_exists s.nextId _ m 0 (push_mem_pushesOf _ m hm)
        refine ⟨y, by rw [sh.queue]; exact List.mem_append_right _ hy, hym, ?_⟩
        have hge := (mkRows_ids _ _ y hy).1
        intro hin
        rcases (sh.processed y.id).mp hin with h1 | h1 | ⟨h1, _⟩
        · have := h.plumb.pfresh _ h1; omega
        · have := partEffs_marks c s r k _ h1; omega
        · omega
      have self : ack = false → r.id ∉ marksOf (partEffs c s r k) → procMark c s r ack k = false →
          ∃ y, y ∈ s'.queue ∧ y.msg = r.msg ∧ y.id ∉ s'.processed := by
        intro ha hm hpm
        refine ⟨{ r with attempts := r.attempts + 1 }, ?_, rfl, ?_⟩
        · rw [sh.queue]
          apply List.mem_append_left
          simp only [ha, Bool.false_eq_true, ↓reduceIte]
          exact mem_claimRow_self s r hmem
        · intro hin
          rcases (sh.processed r.id).mp hin with h1 | h1 | ⟨_, h1⟩
          · exact hpr h1
          · exact hm h1
          · rw [hpm] at h1; cases h1
      intro hc'
      by_cases hcomp : s.wfStatus.isComplete = true
      · exact Or.inl (stays hcomp)
      have hnc : s.wfStatus.isComplete = false := by simpa using hcomp
      -- the two message kinds that can carry the obligation, as facts about this delivery
      have xwCase : r.msg = .cancelWorkflow → s'.wfStatus.isComplete = true ∨ ∃ x, IsWit s' x := by
        intro hm
        have htx : (handle c s { r with attempts := r.attempts + 1 }).1 =
            [[.setCanceled], [.mark r.id] ++ ((List.range c.n).filter (fun i => !(s.stage i).status.isComplete)).map (fun i => Eff.push (.cancelStage i))
              ++ [.push (.completeWorkflow 0)]] := by
          simp [handle, hm, hCancelWorkflow, hnc]
        right
        rcases takeTxns_two _ _ k with hfull | ⟨hk, h1⟩ | ⟨hk, h0⟩
        · have hP : Eff.push (.completeWorkflow 0) ∈ partEffs c s r k := by
            unfold partEffs; rw [htx, hfull]; simp
          obtain ⟨y, hy, hym, hyp⟩ := newrow _ hP
          exact ⟨y, hy, hyp, Or.inl ⟨0, hym⟩⟩
        · have ha : ack = false := by
            cases ack with
            | false => rfl
            | true => have := hak rfl; rw [this] at hk; cases hk
          have hP : partEffs c s r k = [.setCanceled] := by unfold partEffs; rw [htx, h1]; rfl
          obtain ⟨y, hy, hym, hyp⟩ := self ha (by rw [hP]; simp [marksOf]) (by subst hk; simp [procMark, ha, htx])
          exact ⟨y, hy, hyp, Or.inr (hym.trans hm)⟩
        · have ha : ack = false := by
            cases ack with
            | false => rfl
            | true => have := hak rfl; rw [this] at hk; cases hk
          have hP : partEffs c s r k = [] := by unfold partEffs; rw [htx, h0]; rfl
          obtain ⟨y, hy, hym, hyp⟩ := self ha (by rw [hP]; simp [marksOf]) (by subst hk; simp [procMark, ha, htx])
          exact ⟨y, hy, hyp, Or.inr (hym.trans hm)⟩
      rcases hcan.mp hc' with hold | hnew
      · rcases h.cw hold with h1 | ⟨x, hxq, hxp, hxm⟩
        · exact absurd h1 hcomp
        · by_cases hxr : x.id = r.id
          · have hxeq : x = r := nodup_ids_inj s.queue h.plumb.ids x r hxq hmem hxr
            subst hxeq
            rcases hxm with ⟨kk, hm⟩ | hm
            · -- the CompleteWorkflow witness itself is (partially) handled
              cases hfs : finalStatus c s kk with
              | none =>
                have htx : (handle c s { x with attempts := x.attempts + 1 }).1 = [[.push (.completeWorkflow (kk + 1))]] := by
                  simp [handle, hm, hCompleteWorkflow, hnc, hfs, hold]
                right
                rcases takeTxns_one _ k with hfull | ⟨hk, h0⟩
                · have hP : Eff.push (.completeWorkflow (kk + 1)) ∈ partEffs c s x k := by
                    unfold partEffs; rw [htx, hfull]; simp
                  obtain ⟨y, hy, hym, hyp⟩ := newrow _ hP
                  exact ⟨y, hy, hyp, Or.inl ⟨kk + 1, hym⟩⟩
                · have ha : ack = false := by
                    cases ack with
                    | false => rfl
                    | true => have := hak rfl; rw [this] at hk; cases hk
                  have hP : partEffs c s x k = [] := by unfold partEffs; rw [htx, h0]; rfl
                  obtain ⟨y, hy, hym, hyp⟩ := self ha (by rw [hP]; simp [marksOf]) (by subst hk; simp [procMark, ha, htx])
                  exact ⟨y, hy, hyp, Or.inl ⟨kk, hym.trans hm⟩⟩
              | some st =>
                have hleg : Status.canTransition s.wfStatus st = true := by
                  simp only [raises, hm, completeWorkflowRaises, hnc, hfs, Bool.not_false, Bool.true_and, Bool.not_eq_false'] at hr
                  exact hr
                have htx : (handle c s { x with attempts := x.attempts + 1 }).1 =
                    [[.setWf st, .mark x.id] ++ (if st != .succeeded then (List.range c.n).filter (fun i => (s.stage i).status == .running || (s.canceled && !(s.stage i).status.isComplete)) else []).map
                      (fun i => Eff.push (.cancelStage i))] := by
                  simp [handle, hm, hCompleteWorkflow, hnc, hfs, hleg]
                rcases takeTxns_one _ k with hfull | ⟨hk, h0⟩
                · left
                  have hP : partEffs c s x k = [.setWf st, .mark x.id] ++ (if st != .succeeded then (List.range c.n).filter (fun i => (s.stage i).status == .running || (s.canceled && !(s.stage i).status.isComplete)) else []).map
                      (fun i => Eff.push (.cancelStage i)) := by
                    unfold partEffs; rw [htx, hfull]; simp
                  rw [sh.core.2.1, hP]
                  have : ∀ (l : List Eff) (s0 : State), (∀ e ∈ l, ∀ z, e ≠ Eff.setWf z) → (applyTxn s0 (.setWf st :: l)).wfStatus = st := by
                    intro l s0 hl
                    rcases applyTxn_wf_setWf (applyEff s0 (.setWf st)) l with q | ⟨z, hz, _⟩
                    · simp only [applyTxn, List.foldl] at q ⊢; rw [q]; rfl
                    · exact absurd rfl (hl _ hz z)
                  rw [List.cons_append, this]
                  · exact finalStatus_complete c s kk st hfs
                  · intro e he z heq; subst heq
                    simp only [List.cons_append, List.nil_append, List.mem_cons, List.mem_map] at he
                    rcases he with he | ⟨_, _, he⟩ <;> cases he
                · right
                  have ha : ack = false := by
                    cases ack with
                    | false => rfl
                    | true => have := hak rfl; rw [this] at hk; cases hk
                  have hP : partEffs c s x k = [] := by unfold partEffs; rw [htx, h0]; rfl
                  obtain ⟨y, hy, hym, hyp⟩ := self ha (by rw [hP]; simp [marksOf]) (by subst hk; simp [procMark, ha, htx])
                  exact ⟨y, hy, hyp, Or.inl ⟨kk, hym.trans hm⟩⟩
            · exact xwCase hm
          · right
            exact ⟨x, keep x hxq hxr, unproc' x.id hxp hxr, hxm⟩
      · -- the flag is set by this very delivery: CancelWorkflow
        exact xwCase (handle_setCanceled c s _ (partEffs_sub c s r k _ hnew)).1


/-- schedules without a second worker delivering messages while a task executes; everything else is allowed:
    acknowledged deliveries, deliveries that are never acknowledged (redelivered later, any number of times), a worker
    killed after any number of commits of any delivery, cancel requests, signals, recovery sweeps -/
def NoNested (ops : List Op) : Prop := ∀ op ∈ ops, ∀ id inner, op ≠ .nested id inner

theorem step_cancInv2 (c : Cfg) (s : State) (op : Op) (h : CancInv2 s) (hop : ∀ id inner, op ≠ .nested id inner) :
    CancInv2 (step c s op) := by
  cases op with
  | deliver id =>
    cases hf : s.queue.find? (fun x => x.id == id) with
    | none => simp only [step, hf]; exact h
    | some r => simp only [step, hf]; exact deliverRow_cancInv2 c s r true none h (find_mem hf).1 (fun _ => rfl)
  | deliverNoAck id =>
    cases hf : s.queue.find? (fun x => x.id == id) with
    | none => simp only [step, hf]; exact h
    | some r => simp only [step, hf]; exact deliverRow_cancInv2 c s r false none h (find_mem hf).1 (fun _ => rfl)
  | crash id k =>
    cases hf : s.queue.find? (fun x => x.id == id) with
    | none => simp only [step, hf]; exact h
    | some r => simp only [step, hf]; exact deliverRow_cancInv2 c s r false (some k) h (find_mem hf).1 (fun e => by cases e)
  | cancel => exact cancInv2_push s _ h
  | signal i p => exact cancInv2_push s _ h
  | sweep => exact cancInv2_pushes s _ h
  | nested id inner => exact absurd rfl (hop id inner)

theorem run_cancInv2 (c : Cfg) (ops : List Op) (hn : NoNested ops) : CancInv2 (run c ops) := by
  unfold run
  have h0 : CancInv2 (start c) := by
    have hp := start_plumb c
    exact ⟨⟨hp.ids, hp.fresh, hp.pfresh⟩, by intro h; simp [start, applyEff, initState] at h⟩
  suffices ∀ s, CancInv2 s → CancInv2 (ops.foldl (step c) s) from this _ h0
  induction ops with
  | nil => intro s h; exact h
  | cons op ops ih =>
    intro s h
    exact ih (fun o ho => hn o (List.mem_cons_of_mem _ ho)) _ (step_cancInv2 c s op h (hn op (List.mem_cons_self ..)))

/-- **Once a cancel has been accepted, a drained queue means the workflow is final - also when workers die.**  For every
    workflow and every schedule of deliveries (acknowledged or not), kills after any number of commits of any delivery,
    cancel requests, signals and recovery sweeps. -/
theorem canceled_drained_is_final_crash (c : Cfg) (ops : List Op) (hn : NoNested ops)
    (hc : (run c ops).canceled = true) (hq : (run c ops).queue = []) : (run c ops).wfStatus.isComplete = true := by
  rcases (run_cancInv2 c ops hn).cw hc with h1 | ⟨x, hx, _⟩
  · exact h1
  · rw [hq] at hx; cases hx

/-! ### nested deliveries (a second worker delivers messages while a task executes) -/

theorem runTaskCommit_effs (c : Cfg) (st : StageSt) (id i t a n : Nat) (oc : Outcome) :
    ∀ e ∈ (runTaskCommit c st id i t a n oc).flatten, (∀ z, e ≠ Eff.setWf z) ∧ e ≠ Eff.setCanceled ∧ (∀ p, e = Eff.mark p → p = id) := by
  intro e he
  simp only [runTaskCommit, processResult] at he
  (repeat' split at he) <;> simp at he <;> (try (rcases he with rfl | rfl | rfl | rfl | rfl)) <;> simp_all


/-- rows that existed before a delivery keep their id and message; new rows get ids from `nextId` upwards -/
theorem deliverRow_oldrow (c : Cfg) (s : State) (r : Row) (ack : Bool) (k : Option Nat) (hp : Plumb2 s) (hmem : r ∈ s.queue) :
    (∀ y' ∈ (deliverRow c s r ack k).queue, y'.id < s.nextId → ∃ y ∈ s.queue, y.id = y'.id ∧ y.msg = y'.msg) ∧
    s.nextId ≤ (deliverRow c s r ack k).nextId := by
  have hclaim : ∀ y' ∈ (claimRow s r.id).queue, ∃ y ∈ s.queue, y.id = y'.id ∧ y.msg = y'.msg := by
    intro y' hy'
    obtain ⟨y, hy, h1, h2, _⟩ := claimRow_mem s r.id y' hy'
    exact ⟨y, hy, h1, h2⟩
  by_cases hpr : r.id ∈ s.processed
  · rw [deliverRow_processed c s r ack k hpr]
    split
    · exact ⟨fun y' hy' _ => hclaim y' (List.mem_filter.mp hy').1, Nat.le_refl _⟩
    · exact ⟨fun y' hy' _ => hclaim y' hy', Nat.le_refl _⟩
  · cases hr : raises c s { r with attempts := r.attempts + 1 } with
    | true =>
      rw [deliverRow_raises c s r ack k hpr hr]
      exact ⟨fun y' hy' _ => hclaim y' hy', Nat.le_refl _⟩
    | false =>
      have sh := part_shape c s r ack k hpr (hp.fresh r hmem) hr
      refine ⟨?_, by rw [sh.nextId]; omega⟩
      intro y' hy' hlt
      rw [sh.queue] at hy'
      rcases List.mem_append.mp hy' with h1 | h1
      · split at h1
        · exact ⟨y', (List.mem_filter.mp h1).1, rfl, rfl⟩
        · exact hclaim y' h1
      · have := (mkRows_ids _ _ y' h1).1
        omega

theorem step_deliver_eq (c : Cfg) (s : State) (j : Nat) :
    (match s.queue.find? (fun r => r.id == j) with
      | none => s
      | some rj => deliverRow c s rj true none) = step c s (.deliver j) := rfl

/-- the invariant carried through the second worker's deliveries: `CancInv2`, and the row with the RunTask's id keeps its message -/
theorem inner_fold (c : Cfg) (inner : List Nat) (rid : Nat) (m : Msg) (s2 : State) (h : CancInv2 s2) (hlt : rid < s2.nextId)
    (hm : ∀ y ∈ s2.queue, y.id = rid → y.msg = m) :
    let s3 := inner.foldl (fun st j => step c st (.deliver j)) s2
    CancInv2 s3 ∧ rid < s3.nextId ∧ (∀ y ∈ s3.queue, y.id = rid → y.msg = m) := by
  induction inner generalizing s2 with
  | nil => exact ⟨h, hlt, hm⟩
  | cons j js ih =>
    simp only [List.foldl]
    have h' : CancInv2 (step c s2 (.deliver j)) := step_cancInv2 c s2 (.deliver j) h (fun _ _ => by simp)
    have hrest : rid < (step c s2 (.deliver j)).nextId ∧ (∀ y ∈ (step c s2 (.deliver j)).queue, y.id = rid → y.msg = m) := by
      cases hf : s2.queue.find? (fun x => x.id == j) with
      | none => simp only [step, hf]; exact ⟨hlt, hm⟩
      | some rj =>
        simp only [step, hf]
        obtain ⟨h1, h2⟩ := deliverRow_oldrow c s2 rj true none h.plumb (find_mem hf).1
        refine ⟨by omega, ?_⟩
        intro y hy hid
        obtain ⟨y0, hy0, e1, e2⟩ := h1 y hy (by omega)
        rw [← e2]; exact hm y0 hy0 (e1.trans hid)
    exact ih _ h' hrest.1 hrest.2


theorem cancInv2_recordExec (c : Cfg) (s : State) (row : Row) (h : CancInv2 s) : CancInv2 (recordExec c s row) := by
  obtain ⟨q1, q2, q3⟩ := recordExec_queue c s row
  obtain ⟨c1, c2, c3⟩ := recordExec_core c s row
  refine ⟨⟨by rw [q1]; exact h.plumb.ids, by rw [q1, q2]; exact h.plumb.fresh, by rw [q2, q3]; exact h.plumb.pfresh⟩, ?_⟩
  intro hc
  rw [c3] at hc
  rcases h.cw hc with h1 | ⟨x, hx, hp, hm⟩
  · left; rw [c2]; exact h1
  · right; exact ⟨x, by rw [q1]; exact hx, by rw [q3]; exact hp, hm⟩

/-- the result commit of a nested RunTask (read from the state AFTER the second worker's deliveries) + mark + ack -/
theorem nested_final (c : Cfg) (s3 : State) (rid i t a n : Nat) (oc : Outcome) (h : CancInv2 s3) (hlt : rid < s3.nextId)
    (hm : ∀ y ∈ s3.queue, y.id = rid → y.msg = .runTask i t) :
    CancInv2 (ackRow (applyEff (applyTxns s3 (runTaskCommit c (s3.stage i) rid i t a n oc)) (.mark rid)) rid) := by
  rw [applyTxns_eq_flatten]
  generalize hE : (runTaskCommit c (s3.stage i) rid i t a n oc).flatten = E
  have heff := runTaskCommit_effs c (s3.stage i) rid i t a n oc
  rw [hE] at heff
  obtain ⟨hq, hn⟩ := applyTxn_queue s3 E
  have hnew := mkRows_ids s3.nextId (pushesOf E)
  have hmarks : ∀ p ∈ marksOf E, p = rid := fun p hp => (heff _ ((mem_marksOf _ _).mp hp)).2.2 p rfl
  have hproc : ∀ p, p ∈ (applyEff (applyTxn s3 E) (.mark rid)).processed ↔ p ∈ s3.processed ∨ p = rid := by
    intro p
    rw [applyEff_mark_processed, applyTxn_processed]
    constructor
    · rintro ((h1 | h1) | h1)
      · exact Or.inl h1
      · exact Or.inr (hmarks p h1)
      · exact Or.inr h1
    · rintro (h1 | h1)
      · exact Or.inl (Or.inl h1)
      · exact Or.inr h1
  have hcan : (applyTxn s3 E).canceled = s3.canceled := by
    cases hc : s3.canceled with
    | true => exact (applyTxn_canceled_iff s3 E).mpr (Or.inl hc)
    | false =>
      cases hc' : (applyTxn s3 E).canceled with
      | false => rfl
      | true =>
        rcases (applyTxn_canceled_iff s3 E).mp hc' with h1 | h1
        · rw [hc] at h1; cases h1
        · exact absurd rfl (heff _ h1).2.1
  have hwf : (applyTxn s3 E).wfStatus = s3.wfStatus := by
    rcases applyTxn_wf_setWf s3 E with h1 | ⟨st, hst, _⟩
    · exact h1
    · exact absurd rfl ((heff _ hst).1 st)
  refine ⟨⟨?_, ?_, ?_⟩, ?_⟩
  · simp only [ackRow, (applyEff_mark_queue _ _).1, hq]
    apply List.Nodup.sublist ((List.filter_sublist).map _)
    rw [List.map_append, List.nodup_append]
    refine ⟨h.plumb.ids, mkRows_nodup _ _, ?_⟩
    intro a ha b hb hab
    simp only [List.mem_map] at ha hb
    obtain ⟨x, hx, rfl⟩ := ha
    obtain ⟨y, hy, rfl⟩ := hb
    have h1 := h.plumb.fresh x hx
    have h2 := (hnew y hy).1
    omega
  · intro x hx
    simp only [ackRow, (applyEff_mark_queue _ _).1, (applyEff_mark_queue _ _).2, hq, hn] at hx ⊢
    rcases List.mem_append.mp (List.mem_filter.mp hx).1 with h1 | h1
    · have := h.plumb.fresh x h1; omega
    · exact (hnew x h1).2
  · intro p hp
    simp only [ackRow, (applyEff_mark_queue _ _).2, hn] at hp ⊢
    rcases (hproc p).mp hp with h1 | h1
    · have := h.plumb.pfresh p h1; omega
    · omega
  · intro hc
    have hc3 : s3.canceled = true := by
      simp only [ackRow] at hc
      rw [applyEff_mark_canceled', hcan] at hc
      exact hc
    rcases h.cw hc3 with h1 | ⟨x, hx, hxp, hxm⟩
    · left
      simp only [ackRow]
      rw [applyEff_mark_wf', hwf]; exact h1
    · right
      have hne : x.id ≠ rid := by
        intro e
        have := hm x hx e
        rcases hxm with ⟨kk, h2⟩ | h2 <;> rw [this] at h2 <;> cases h2
      refine ⟨x, ?_, ?_, hxm⟩
      · simp only [ackRow, (applyEff_mark_queue _ _).1, hq]
        exact List.mem_filter.mpr ⟨List.mem_append_left _ hx, by simpa using hne⟩
      · intro hin
        simp only [ackRow] at hin
        rcases (hproc x.id).mp hin with h1 | h1
        · exact hxp h1
        · exact hne h1


theorem cancInv2_claim (s : State) (id : Nat) (h : CancInv2 s) : CancInv2 (claimRow s id) := by
  refine ⟨claimRow_plumb2 s id h.plumb, ?_⟩
  intro hc
  rcases h.cw hc with h1 | ⟨x, hx⟩
  · exact Or.inl h1
  · obtain ⟨x', hx', _⟩ := isWit_claim s id x hx
    exact Or.inr ⟨x', hx'⟩

theorem step_cancInv2_all (c : Cfg) (s : State) (op : Op) (h : CancInv2 s) : CancInv2 (step c s op) := by
  cases op with
  | nested id inner =>
    cases hf : s.queue.find? (fun x => x.id == id) with
    | none => simp only [step, hf]; exact h
    | some r0 =>
      obtain ⟨hmem, hid⟩ := find_mem hf
      have hdel := deliverRow_cancInv2 c s r0 true none h hmem (fun _ => rfl)
      cases hmsg : r0.msg with
      | runTask i t =>
        obtain ⟨rid, rmsg, ratt⟩ := r0
        simp only at hmsg
        subst hmsg
        simp only [step, hf]
        split
        · rename_i hproc
          have hpr : rid ∈ s.processed := by simpa using hproc
          have := deliverRow_processed c s ⟨rid, .runTask i t, ratt⟩ true none hpr
          simp only [↓reduceIte] at this
          rw [← this]; exact hdel
        · split
          · exact hdel
          · have h1 := cancInv2_claim s rid h
            have h2 := cancInv2_recordExec c (claimRow s rid) ⟨rid, .runTask i t, ratt + 1⟩ h1
            have hlt : rid < (recordExec c (claimRow s rid) ⟨rid, .runTask i t, ratt + 1⟩).nextId := by
              rw [(recordExec_queue c _ _).2.1]; exact h.plumb.fresh _ hmem
            have hm2 : ∀ y ∈ (recordExec c (claimRow s rid) ⟨rid, .runTask i t, ratt + 1⟩).queue,
                y.id = rid → y.msg = .runTask i t := by
              intro y hy hyid
              rw [(recordExec_queue c _ _).1] at hy
              obtain ⟨y0, hy0, e1, e2, _⟩ := claimRow_mem s rid y hy
              have : y0 = ⟨rid, .runTask i t, ratt⟩ := nodup_ids_inj s.queue h.plumb.ids y0 _ hy0 hmem (e1.trans hyid)
              rw [← e2, this]
            obtain ⟨h3, hlt3, hm3⟩ := inner_fold c inner rid (.runTask i t) _ h2 hlt hm2
            exact nested_final c _ rid i t _ _ _ h3 hlt3 hm3
      | startWorkflow => simp only [step, hf, hmsg]; exact hdel
      | startStage _ _ => simp only [step, hf, hmsg]; exact hdel
      | startTask _ _ => simp only [step, hf, hmsg]; exact hdel
      | completeTask _ _ _ => simp only [step, hf, hmsg]; exact hdel
      | completeStage _ => simp only [step, hf, hmsg]; exact hdel
      | skipStage _ => simp only [step, hf, hmsg]; exact hdel
      | cancelStage _ => simp only [step, hf, hmsg]; exact hdel
      | completeWorkflow _ => simp only [step, hf, hmsg]; exact hdel
      | cancelWorkflow => simp only [step, hf, hmsg]; exact hdel
      | jumpToStage _ _ => simp only [step, hf, hmsg]; exact hdel
      | signalStage _ _ => simp only [step, hf, hmsg]; exact hdel
  | deliver id => exact step_cancInv2 c s _ h (by intros; simp)
  | deliverNoAck id => exact step_cancInv2 c s _ h (by intros; simp)
  | crash id k => exact step_cancInv2 c s _ h (by intros; simp)
  | cancel => exact step_cancInv2 c s _ h (by intros; simp)
  | signal i p => exact step_cancInv2 c s _ h (by intros; simp)
  | sweep => exact step_cancInv2 c s _ h (by intros; simp)

theorem run_cancInv2_all (c : Cfg) (ops : List Op) : CancInv2 (run c ops) := by
  unfold run
  have h0 : CancInv2 (start c) := by
    have hp := start_plumb c
    exact ⟨⟨hp.ids, hp.fresh, hp.pfresh⟩, by intro h; simp [start, applyEff, initState] at h⟩
  suffices ∀ s, CancInv2 s → CancInv2 (ops.foldl (step c) s) from this _ h0
  induction ops with
  | nil => intro s h; exact h
  | cons op ops ih => intro s h; exact ih _ (step_cancInv2_all c s op h)

/-- **Once a cancel has been accepted, a drained queue means the workflow is final** - for every workflow and EVERY
    operation list of the engine model, without exception. -/
theorem canceled_drained_is_final_always (c : Cfg) (ops : List Op)
    (hc : (run c ops).canceled = true) (hq : (run c ops).queue = []) : (run c ops).wfStatus.isComplete = true := by
  rcases (run_cancInv2_all c ops).cw hc with h1 | ⟨x, hx, _⟩
  · exact h1
  · rw [hq] at hx; cases hx


/-! ### a final workflow status is never overwritten - for every workflow (jump loops included) and every operation -/

theorem deliverRow_wf_final (c : Cfg) (s : State) (r : Row) (ack : Bool) (k : Option Nat) (hp : Plumb2 s) (hmem : r ∈ s.queue)
    (h : s.wfStatus.isComplete = true) : (deliverRow c s r ack k).wfStatus = s.wfStatus := by
  by_cases hpr : r.id ∈ s.processed
  · rw [deliverRow_processed c s r ack k hpr]; split <;> rfl
  · cases hr : raises c s { r with attempts := r.attempts + 1 } with
    | true => rw [deliverRow_raises c s r ack k hpr hr]; rfl
    | false =>
      have sh := part_shape c s r ack k hpr (hp.fresh r hmem) hr
      rw [sh.core.2.1]
      rcases applyTxn_wf_setWf s (partEffs c s r k) with h1 | ⟨st, hst, _⟩
      · exact h1
      · have := (handle_setWf c s _ st (partEffs_sub c s r k _ hst)).1
        rw [h] at this; cases this

theorem applyTxn_pushes_wf (s : State) (ms : List Msg) : (applyTxn s (ms.map Eff.push)).wfStatus = s.wfStatus := by
  rcases applyTxn_wf_setWf s (ms.map Eff.push) with h1 | ⟨st, hst, _⟩
  · exact h1
  · simp only [List.mem_map] at hst
    obtain ⟨_, _, h⟩ := hst
    cases h

theorem deliverRow_plumb2' (c : Cfg) (s : State) (j : Nat) (hp : Plumb2 s) : Plumb2 (step c s (.deliver j)) := by
  cases hf : s.queue.find? (fun x => x.id == j) with
  | none => simp only [step, hf]; exact hp
  | some r => simp only [step, hf]; exact deliverRow_plumb2 c s r true none hp (find_mem hf).1

theorem step_deliver_wf_final (c : Cfg) (s : State) (j : Nat) (hp : Plumb2 s) (h : s.wfStatus.isComplete = true) :
    (step c s (.deliver j)).wfStatus = s.wfStatus := by
  cases hf : s.queue.find? (fun x => x.id == j) with
  | none => simp only [step, hf]
  | some r => simp only [step, hf]; exact deliverRow_wf_final c s r true none hp (find_mem hf).1 h

theorem inner_fold_wf (c : Cfg) (inner : List Nat) (s2 : State) (hp : Plumb2 s2) (h : s2.wfStatus.isComplete = true) :
    let s3 := inner.foldl (fun st j => step c st (.deliver j)) s2
    Plumb2 s3 ∧ s3.wfStatus = s2.wfStatus := by
  induction inner generalizing s2 with
  | nil => exact ⟨hp, rfl⟩
  | cons j js ih =>
    simp only [List.foldl]
    have h1 := step_deliver_wf_final c s2 j hp h
    have h2 := deliverRow_plumb2' c s2 j hp
    obtain ⟨p3, w3⟩ := ih _ h2 (by rw [h1]; exact h)
    exact ⟨p3, w3.trans h1⟩

theorem step_wf_final (c : Cfg) (s : State) (op : Op) (hp : Plumb2 s) (h : s.wfStatus.isComplete = true) :
    (step c s op).wfStatus = s.wfStatus := by
  cases op with
  | deliver id => exact step_deliver_wf_final c s id hp h
  | deliverNoAck id =>
    cases hf : s.queue.find? (fun x => x.id == id) with
    | none => simp only [step, hf]
    | some r => simp only [step, hf]; exact deliverRow_wf_final c s r false none hp (find_mem hf).1 h
  | crash id k =>
    cases hf : s.queue.find? (fun x => x.id == id) with
    | none => simp only [step, hf]
    | some r => simp only [step, hf]; exact deliverRow_wf_final c s r false (some k) hp (find_mem hf).1 h
  | cancel => rfl
  | signal i p => rfl
  | sweep => exact applyTxn_pushes_wf s _
  | nested id inner =>
    cases hf : s.queue.find? (fun x => x.id == id) with
    | none => simp only [step, hf]
    | some r0 =>
      obtain ⟨hmem, _⟩ := find_mem hf
      have hdel := deliverRow_wf_final c s r0 true none hp hmem h
      cases hmsg : r0.msg with
      | runTask i t =>
        obtain ⟨rid, rmsg, ratt⟩ := r0
        simp only at hmsg
        subst hmsg
        simp only [step, hf]
        split
        · rfl
        · split
          · exact hdel
          · have hp1 := claimRow_plumb2 s rid hp
            have hp2 : Plumb2 (recordExec c (claimRow s rid) ⟨rid, .runTask i t, ratt + 1⟩) := by
              obtain ⟨q1, q2, q3⟩ := recordExec_queue c (claimRow s rid) ⟨rid, .runTask i t, ratt + 1⟩
              exact ⟨by rw [q1]; exact hp1.ids, by rw [q1, q2]; exact hp1.fresh, by rw [q2, q3]; exact hp1.pfresh⟩
            have hw2 : (recordExec c (claimRow s rid) ⟨rid, .runTask i t, ratt + 1⟩).wfStatus = s.wfStatus :=
              (recordExec_core c (claimRow s rid) ⟨rid, .runTask i t, ratt + 1⟩).2.1
            obtain ⟨_, hw3⟩ := inner_fold_wf c inner _ hp2 (by rw [hw2]; exact h)
            simp only [ackRow]
            rw [applyEff_mark_wf', applyTxns_eq_flatten]
            rcases applyTxn_wf_setWf _ (runTaskCommit c _ rid i t (ratt + 1) _ _).flatten with h1 | ⟨st, hst, _⟩
            · rw [h1]; exact hw3.trans hw2
            · exact absurd rfl ((runTaskCommit_effs c _ rid i t _ _ _ _ hst).1 st)
      | startWorkflow => simp only [step, hf, hmsg]; exact hdel
      | startStage _ _ => simp only [step, hf, hmsg]; exact hdel
      | startTask _ _ => simp only [step, hf, hmsg]; exact hdel
      | completeTask _ _ _ => simp only [step, hf, hmsg]; exact hdel
      | completeStage _ => simp only [step, hf, hmsg]; exact hdel
      | skipStage _ => simp only [step, hf, hmsg]; exact hdel
      | cancelStage _ => simp only [step, hf, hmsg]; exact hdel
      | completeWorkflow _ => simp only [step, hf, hmsg]; exact hdel
      | cancelWorkflow => simp only [step, hf, hmsg]; exact hdel
      | jumpToStage _ _ => simp only [step, hf, hmsg]; exact hdel
      | signalStage _ _ => simp only [step, hf, hmsg]; exact hdel

/-- **A final workflow status is final**: once the workflow has reached a final status, no operation list changes it - for
    every workflow (any joins, OR-splits, jump loops, suspends) and every schedule (kills, redeliveries, sweeps, nested). -/
theorem final_wf_status_stays_always (c : Cfg) (ops1 ops2 : List Op) (h : (run c ops1).wfStatus.isComplete = true) :
    (run c (ops1 ++ ops2)).wfStatus = (run c ops1).wfStatus := by
  have hrun : run c (ops1 ++ ops2) = ops2.foldl (step c) (run c ops1) := by simp [run, List.foldl_append]
  rw [hrun]
  have hp := (run_cancInv2_all c ops1).plumb
  clear hrun
  generalize run c ops1 = s at h hp ⊢
  induction ops2 generalizing s with
  | nil => rfl
  | cons op ops ih =>
    simp only [List.foldl]
    have h1 := step_wf_final c s op hp h
    have hp' : Plumb2 (step c s op) := (step_cancInv2_all c s op ⟨hp, fun _ => Or.inl h⟩).plumb
    rw [ih _ (by rw [h1]; exact h) hp', h1]


end Stab.Engine
