/-
  Invariants of the optimistic-locking model `Stab.CasRow` (used by Stab/Props/C07.lean).
-/
import Stab.Model.CasRow

namespace Stab.CasRow

/-! ### the object table -/

theorem getObj_mem {s : State} {c : Nat} {o : Obj} (h : getObj s c = some o) : (c, o) ∈ s.objs := by
  simp only [getObj, Option.map_eq_some_iff] at h
  obtain ⟨p, hp, rfl⟩ := h
  have hm := List.mem_of_find?_eq_some hp
  have hk := List.find?_some hp
  simp only [beq_iff_eq] at hk
  cases p; simp_all

theorem mem_setObj {s : State} {c : Nat} {o : Obj} {p : Nat × Obj} (h : p ∈ (setObj s c o).objs) :
    p = (c, o) ∨ (p ∈ s.objs ∧ p.1 ≠ c) := by
  simp only [setObj, List.mem_cons, List.mem_filter, bne_iff_ne, ne_eq] at h
  exact h

theorem getObj_setObj_same (s : State) (c : Nat) (o : Obj) : getObj (setObj s c o) c = some o := by
  simp [getObj, setObj]

theorem getObj_setObj_other (s : State) (c c' : Nat) (o : Obj) (h : c' ≠ c) :
    getObj (setObj s c o) c' = getObj s c' := by
  simp only [getObj, setObj]
  have hne : ((c, o).1 == c') = false := by simp; exact fun e => h e.symm
  rw [List.find?_cons_of_neg (by simpa using hne)]
  congr 1
  induction s.objs with
  | nil => rfl
  | cons p ps ih =>
    by_cases hp : p.1 = c
    · have hcc : (c == c') = false := by simp; exact fun e => h e.symm
      simp [hp, List.find?_cons, hcc, ih]
    · simp only [List.filter_cons, bne_iff_ne, ne_eq, hp, not_false_eq_true, if_true, List.find?_cons]
      split
      · rfl
      · exact ih

/-! ### commits: strictly increasing based-on versions -/

structure Commits (s : State) : Prop where
  lt : ∀ p ∈ s.commits, p.2 < s.db.version
  incr : s.commits.Pairwise (fun a b => a.2 < b.2)

theorem commits_setObj {s : State} (h : Commits s) (c : Nat) (o : Obj) : Commits (setObj s c o) := ⟨h.lt, h.incr⟩

theorem commits_modify {s : State} (h : Commits s) (c : Nat) (m : Mod) : Commits (modifyOp s c m) := by
  unfold modifyOp
  split
  · exact h
  · dsimp only; split <;> exact ⟨h.lt, h.incr⟩

theorem commits_reapply {s : State} (h : Commits s) (c : Nat) (ms : List Mod) : Commits (reapply s c ms) := by
  induction ms generalizing s with
  | nil => exact h
  | cons m ms ih => exact ih (commits_modify h c m)

theorem commits_write {s : State} (h : Commits s) (c : Nat) (t : Bool) (p : Option Nat) :
    Commits (writeOp s c t p).1 := by
  unfold writeOp
  split
  · exact h
  · rename_i o _
    split
    · rename_i hg
      simp only [Bool.and_eq_true, beq_iff_eq] at hg
      split
      rename_i rows mem okk _
      split
      · refine ⟨?_, ?_⟩
        · simp only [List.mem_append, List.mem_singleton]
          rintro q (hq | rfl)
          · exact Nat.lt_succ_of_lt (h.lt q hq)
          · show o.version < s.db.version + 1
            omega
        · simp only [List.pairwise_append, List.pairwise_cons, List.Pairwise.nil, List.mem_singleton]
          refine ⟨h.incr, ⟨by simp, trivial⟩, ?_⟩
          intro a ha b hb
          subst hb
          have := h.lt a ha
          show a.2 < o.version
          omega
      · exact h
    · exact h

theorem commits_step {s : State} (h : Commits s) (op : Op) : Commits (step s op).1 := by
  cases op with
  | read c => exact commits_setObj h _ _
  | modify c m => exact commits_modify h c m
  | write c t p => exact commits_write h c t p
  | retry c t p =>
    simp only [step, retryOp]
    split
    · exact h
    · exact commits_write (commits_reapply (commits_setObj h _ _) _ _) _ _ _
  | bump t => exact ⟨h.lt, h.incr⟩

theorem commits_run {s : State} (h : Commits s) (ops : List Op) : Commits (run s ops) := by
  induction ops generalizing s with
  | nil => exact h
  | cons o os ih => exact ih (commits_step h o)

theorem commits_init (st nt : Nat) : Commits (init st nt) := by
  constructor <;> simp [init]

/-! ### snapshots and the fold -/

def fold (c : Content) (ms : List Mod) : Content := ms.foldl applyC c

structure Inv (s : State) : Prop where
  le : ∀ p ∈ s.objs, p.2.version ≤ s.db.version
  fresh : ∀ p ∈ s.objs, p.2.version = s.db.version → p.2.base = s.db.content
  cur : ∀ p ∈ s.objs, p.2.cur = fold p.2.base p.2.pend

/-- the durable content is the fold of the committed modifications over the initial content `c0` -/
def Folded (c0 : Content) (s : State) : Prop := s.db.content = fold c0 s.log

theorem inv_init (st nt : Nat) : Inv (init st nt) := by
  constructor <;> simp [init]

theorem inv_read {s : State} (h : Inv s) (c : Nat) : Inv (readOp s c) := by
  constructor <;> intro p hp <;> rcases mem_setObj hp with rfl | ⟨hm, _⟩
  · exact Nat.le_refl _
  · exact h.le p hm
  · intro _; rfl
  · exact h.fresh p hm
  · rfl
  · exact h.cur p hm

theorem inv_modify {s : State} (h : Inv s) (c : Nat) (m : Mod) : Inv (modifyOp s c m) := by
  unfold modifyOp
  split
  · exact h
  · rename_i o ho
    have hm := getObj_mem ho
    have key : Inv (setObj s c { o with cur := applyC o.cur m, tasks := applyT o.tasks s.nextTid m, pend := o.pend ++ [m] }) := by
      constructor <;> intro p hp <;> rcases mem_setObj hp with rfl | ⟨hm', _⟩
      · exact h.le (c, o) hm
      · exact h.le p hm'
      · exact h.fresh (c, o) hm
      · exact h.fresh p hm'
      · show applyC o.cur m = fold o.base (o.pend ++ [m])
        have := h.cur (c, o) hm
        simp only [fold, List.foldl_append, List.foldl_cons, List.foldl_nil] at *
        rw [this]
      · exact h.cur p hm'
    dsimp only
    split
    · exact ⟨key.le, key.fresh, key.cur⟩
    · exact key

theorem inv_reapply {s : State} (h : Inv s) (c : Nat) (ms : List Mod) : Inv (reapply s c ms) := by
  induction ms generalizing s with
  | nil => exact h
  | cons m ms ih => exact ih (inv_modify h c m)

theorem inv_bump {s : State} (h : Inv s) (t : Nat) : Inv (bumpOp s t) := ⟨h.le, h.fresh, h.cur⟩

/-- a write keeps the invariant and the fold (a failed write changes nothing, in both variants) -/
theorem inv_write {s : State} {c0 : Content} (h : Inv s) (hf : Folded c0 s) (c : Nat) (t : Bool) (p : Option Nat) :
    Inv (writeOp s c t p).1 ∧ Folded c0 (writeOp s c t p).1 := by
  unfold writeOp
  split
  · exact ⟨h, hf⟩
  · rename_i o ho
    have hm := getObj_mem ho
    split
    · rename_i hg
      simp only [Bool.and_eq_true, beq_iff_eq] at hg
      split
      rename_i rows mem okk hu
      split
      · refine ⟨?_, ?_⟩
        · constructor <;> intro q hq <;>
            rcases mem_setObj (s := s) (c := c)
              (o := { o with version := o.version + 1, tasks := mem, base := o.cur, pend := [] }) hq with rfl | ⟨hm', _⟩
          · show o.version + 1 ≤ s.db.version + 1
            omega
          · exact Nat.le_succ_of_le (h.le q hm')
          · intro _; rfl
          · intro e
            have := h.le q hm'
            have e' : q.2.version = s.db.version + 1 := e
            omega
          · rfl
          · exact h.cur q hm'
        · show o.cur = fold c0 (s.log ++ o.pend)
          have h1 := h.cur (c, o) hm
          have h2 := h.fresh (c, o) hm (by show o.version = s.db.version; omega)
          simp only [Folded] at hf
          simp only [fold, List.foldl_append] at *
          rw [h1, h2, hf]
      · exact ⟨h, hf⟩
    · exact ⟨h, hf⟩

theorem folded_modify {s : State} {c0 : Content} (hf : Folded c0 s) (c : Nat) (m : Mod) : Folded c0 (modifyOp s c m) := by
  show (modifyOp s c m).db.content = fold c0 (modifyOp s c m).log
  unfold modifyOp
  split
  · exact hf
  · dsimp only; split <;> exact hf

theorem folded_reapply {c0 : Content} (c : Nat) : ∀ (ms : List Mod) (s : State), Folded c0 s → Folded c0 (reapply s c ms)
  | [], _, h => h
  | m :: ms, s, h => folded_reapply c ms _ (folded_modify h c m)

theorem inv_step {s : State} {c0 : Content} (h : Inv s) (hf : Folded c0 s) (op : Op) :
    Inv (step s op).1 ∧ Folded c0 (step s op).1 := by
  cases op with
  | read c => exact ⟨inv_read h c, hf⟩
  | modify c m => exact ⟨inv_modify h c m, folded_modify hf c m⟩
  | write c t p => exact inv_write h hf c t p
  | retry c t p =>
    simp only [step, retryOp]
    split
    · exact ⟨h, hf⟩
    · rename_i o ho
      exact inv_write (inv_reapply (inv_read h c) c o.pend) (folded_reapply c o.pend _ hf) c t p
  | bump t => exact ⟨inv_bump h t, hf⟩

theorem inv_run {s : State} {c0 : Content} (h : Inv s) (hf : Folded c0 s) (ops : List Op) :
    Inv (run s ops) ∧ Folded c0 (run s ops) := by
  induction ops generalizing s with
  | nil => exact ⟨h, hf⟩
  | cons o os ih =>
    obtain ⟨h1, hf1⟩ := inv_step h hf o
    exact ih h1 hf1

/-! ### task rows: unique ids, and when the upsert loop cannot fail -/

def Distinct (ts : List TRow) : Prop := ts.Pairwise (fun a b => a.tid ≠ b.tid)

theorem upsert_spec {rows : List TRow} {t : TRow} (hd : Distinct rows) :
    (∀ rows' v, upsert rows t = some (rows', v) →
        Distinct rows' ∧ (∀ r' ∈ rows', (∃ r ∈ rows, r.tid = r'.tid ∧ r.ver ≤ r'.ver ∧ (r.tid ≠ t.tid → r' = r)) ∨ r'.tid = t.tid) ∧
        (∀ r ∈ rows, r.tid ≠ t.tid → r ∈ rows') ∧ (∀ r' ∈ rows', r'.tid ≠ t.tid → r' ∈ rows)) := by
  intro rows' v h
  unfold upsert at h
  split at h
  · simp only [Option.some.injEq, Prod.mk.injEq] at h
    obtain ⟨rfl, _⟩ := h
    refine ⟨?_, ?_, ?_, ?_⟩
    · unfold Distinct
      rw [List.pairwise_map]
      exact hd.imp (by intro a b hab; split <;> split <;> exact hab)
    · intro r' hr'
      simp only [List.mem_map] at hr'
      obtain ⟨r, hr, rfl⟩ := hr'
      left
      refine ⟨r, hr, ?_⟩
      split
      · rename_i hc
        simp only [Bool.and_eq_true, beq_iff_eq] at hc
        exact ⟨rfl, by simp, fun hne => absurd hc.1 hne⟩
      · exact ⟨rfl, Nat.le_refl _, fun _ => rfl⟩
    · intro r hr hne
      simp only [List.mem_map]
      refine ⟨r, hr, ?_⟩
      have : (r.tid == t.tid) = false := by simp [hne]
      simp [this]
    · intro r' hr' hne
      simp only [List.mem_map] at hr'
      obtain ⟨r, hr, rfl⟩ := hr'
      split
      · rename_i hc
        simp only [Bool.and_eq_true, beq_iff_eq] at hc
        split at hne
        · exact absurd hc.1 hne
        · exact absurd hc.1 hne
      · exact hr
  · split at h
    · simp at h
    · rename_i hno hany
      simp only [Option.some.injEq, Prod.mk.injEq] at h
      obtain ⟨rfl, _⟩ := h
      have habs : ∀ r ∈ rows, r.tid ≠ t.tid := by
        intro r hr e
        apply hany
        simp only [List.any_eq_true, beq_iff_eq]
        exact ⟨r, hr, e⟩
      refine ⟨?_, ?_, ?_, ?_⟩
      · unfold Distinct
        rw [List.pairwise_append]
        refine ⟨hd, by simp, ?_⟩
        intro a ha b hb
        simp only [List.mem_singleton] at hb
        subst hb
        exact habs a ha
      · intro r' hr'
        simp only [List.mem_append, List.mem_singleton] at hr'
        rcases hr' with hr' | rfl
        · left; exact ⟨r', hr', rfl, Nat.le_refl _, fun _ => rfl⟩
        · right; rfl
      · intro r hr _; simp [hr]
      · intro r' hr' hne
        simp only [List.mem_append, List.mem_singleton] at hr'
        rcases hr' with hr' | rfl
        · exact hr'
        · exact absurd rfl hne

/-- every in-memory task either matches its row exactly or has no row yet -/
def Fits (rows ts : List TRow) : Prop :=
  ∀ t ∈ ts, (∃ r ∈ rows, r.tid = t.tid ∧ r.ver = t.ver) ∨ (∀ r ∈ rows, r.tid ≠ t.tid)

theorem upsert_some_of_fits {rows : List TRow} {t : TRow}
    (h : (∃ r ∈ rows, r.tid = t.tid ∧ r.ver = t.ver) ∨ (∀ r ∈ rows, r.tid ≠ t.tid)) :
    ∃ rows' v, upsert rows t = some (rows', v) := by
  unfold upsert
  rcases h with ⟨r, hr, h1, h2⟩ | h
  · have : rows.any (fun r => r.tid == t.tid && r.ver == t.ver) = true := by
      simp only [List.any_eq_true, Bool.and_eq_true, beq_iff_eq]
      exact ⟨r, hr, h1, h2⟩
    simp [this]
  · have h1 : rows.any (fun r => r.tid == t.tid && r.ver == t.ver) = false := by
      simp only [List.any_eq_false, Bool.and_eq_true, beq_iff_eq, not_and]
      intro r hr e; exact absurd e (h r hr)
    have h2 : rows.any (fun r => r.tid == t.tid) = false := by
      simp only [List.any_eq_false, beq_iff_eq]
      intro r hr e; exact absurd e (h r hr)
    simp [h1, h2]

theorem upsertAll_ok : ∀ (ts rows : List TRow), Distinct rows → Distinct ts → Fits rows ts →
    (upsertAll rows ts).2.2 = true
  | [], rows, _, _, _ => rfl
  | t :: ts, rows, hd, hts, hf => by
    obtain ⟨rows', v, hu⟩ := upsert_some_of_fits (hf t (by simp))
    obtain ⟨hd', _, hkeep, hback⟩ := upsert_spec hd rows' v hu
    unfold Distinct at hts
    rw [List.pairwise_cons] at hts
    have hf' : Fits rows' ts := by
      intro t' ht'
      have hne : t.tid ≠ t'.tid := hts.1 t' ht'
      rcases hf t' (by simp [ht']) with ⟨r, hr, h1, h2⟩ | habs
      · left; exact ⟨r, hkeep r hr (by omega), h1, h2⟩
      · right
        intro r' hr' e
        by_cases hrt : r'.tid = t.tid
        · omega
        · exact habs r' (hback r' hr' hrt) e
    have ih := upsertAll_ok ts rows' hd' hts.2 hf'
    simp only [upsertAll, hu]
    exact ih


theorem mem_setTaskSt : ∀ (ts : List TRow) (k v : Nat) (t' : TRow), t' ∈ setTaskSt ts k v →
    ∃ t ∈ ts, t'.tid = t.tid ∧ t'.ver = t.ver
  | [], _, _, t', h => by simp [setTaskSt] at h
  | t :: ts, 0, v, t', h => by
    simp only [setTaskSt, List.mem_cons] at h
    rcases h with rfl | h
    · exact ⟨t, by simp, rfl, rfl⟩
    · exact ⟨t', by simp [h], rfl, rfl⟩
  | t :: ts, k + 1, v, t', h => by
    simp only [setTaskSt, List.mem_cons] at h
    rcases h with rfl | h
    · exact ⟨t', by simp, rfl, rfl⟩
    · obtain ⟨t0, h0, e⟩ := mem_setTaskSt ts k v t' h
      exact ⟨t0, by simp [h0], e⟩

theorem distinct_setTaskSt : ∀ (ts : List TRow) (k v : Nat), Distinct ts → Distinct (setTaskSt ts k v)
  | [], _, _, h => by simpa [setTaskSt] using h
  | t :: ts, 0, v, h => by
    unfold Distinct at *
    simp only [setTaskSt, List.pairwise_cons] at *
    exact h
  | t :: ts, k + 1, v, h => by
    unfold Distinct at *
    simp only [setTaskSt, List.pairwise_cons] at *
    refine ⟨?_, distinct_setTaskSt ts k v h.2⟩
    intro t' ht'
    obtain ⟨t0, h0, e, _⟩ := mem_setTaskSt ts k v t' ht'
    rw [e]; exact h.1 t0 h0

/-- what `retry` needs of the freshly read and re-modified object -/
structure Ready (s : State) (c : Nat) (o : Obj) : Prop where
  get : getObj s c = some o
  dist : Distinct o.tasks
  fits : Fits s.db.tasks o.tasks
  olt : ∀ t ∈ o.tasks, t.tid < s.nextTid
  dlt : ∀ r ∈ s.db.tasks, r.tid < s.nextTid

theorem ready_modify {s : State} {c : Nat} {o : Obj} (h : Ready s c o) (m : Mod) :
    ∃ o', Ready (modifyOp s c m) c o' ∧ o'.version = o.version ∧ o'.cur = applyC o.cur m ∧ o'.pend = o.pend ++ [m] ∧
      o'.base = o.base ∧ (modifyOp s c m).db = s.db ∧ (modifyOp s c m).log = s.log ∧
      (modifyOp s c m).commits = s.commits := by
  obtain ⟨hg, hd, hf, ho, hl⟩ := h
  -- the task list after the optional status change
  have step1 : ∀ (ts1 : List TRow), (ts1 = o.tasks ∨ ∃ k v, ts1 = setTaskSt o.tasks k v) →
      Distinct ts1 ∧ Fits s.db.tasks ts1 ∧ ∀ t ∈ ts1, t.tid < s.nextTid := by
    rintro ts1 (rfl | ⟨k, v, rfl⟩)
    · exact ⟨hd, hf, ho⟩
    · refine ⟨distinct_setTaskSt _ k v hd, ?_, ?_⟩
      · intro t' ht'
        obtain ⟨t0, h0, e1, e2⟩ := mem_setTaskSt _ k v t' ht'
        rw [e1, e2]; exact hf t0 h0
      · intro t' ht'
        obtain ⟨t0, h0, e1, _⟩ := mem_setTaskSt _ k v t' ht'
        rw [e1]; exact ho t0 h0
  have hts1 : (match m.taskSt with | some (k, v) => setTaskSt o.tasks k v | none => o.tasks) = o.tasks ∨
      ∃ k v, (match m.taskSt with | some (k, v) => setTaskSt o.tasks k v | none => o.tasks) = setTaskSt o.tasks k v := by
    cases m.taskSt with
    | none => left; rfl
    | some kv => right; exact ⟨kv.1, kv.2, rfl⟩
  obtain ⟨d1, f1, l1⟩ := step1 _ hts1
  unfold modifyOp
  simp only [hg]
  by_cases ha : m.addTask = true
  · simp only [ha, if_true]
    refine ⟨_, ⟨getObj_setObj_same _ _ _, ?_, ?_, ?_, ?_⟩, rfl, rfl, rfl, rfl, rfl, rfl, rfl⟩
    · show Distinct (applyT o.tasks s.nextTid m)
      unfold applyT Distinct
      simp only [ha, if_true]
      rw [List.pairwise_append]
      refine ⟨d1, by simp, ?_⟩
      intro a ha' b hb
      simp only [List.mem_singleton] at hb
      subst hb
      exact Nat.ne_of_lt (l1 a ha')
    · show Fits s.db.tasks (applyT o.tasks s.nextTid m)
      unfold applyT
      simp only [ha, if_true]
      intro t ht
      simp only [List.mem_append, List.mem_singleton] at ht
      rcases ht with ht | rfl
      · exact f1 t ht
      · right; intro r hr e; have := hl r hr; simp at e; omega
    · show ∀ t ∈ applyT o.tasks s.nextTid m, t.tid < s.nextTid + 1
      unfold applyT
      simp only [ha, if_true]
      intro t ht
      simp only [List.mem_append, List.mem_singleton] at ht
      rcases ht with ht | rfl
      · exact Nat.lt_succ_of_lt (l1 t ht)
      · exact Nat.lt_succ_self _
    · intro r hr; exact Nat.lt_succ_of_lt (hl r hr)
  · have ha' : m.addTask = false := by simpa using ha
    simp only [ha', Bool.false_eq_true, if_false]
    refine ⟨_, ⟨getObj_setObj_same _ _ _, ?_, ?_, ?_, hl⟩, rfl, rfl, rfl, rfl, rfl, rfl, rfl⟩
    · show Distinct (applyT o.tasks s.nextTid m)
      unfold applyT; simp only [ha', Bool.false_eq_true, if_false]; exact d1
    · show Fits s.db.tasks (applyT o.tasks s.nextTid m)
      unfold applyT; simp only [ha', Bool.false_eq_true, if_false]; exact f1
    · show ∀ t ∈ applyT o.tasks s.nextTid m, t.tid < s.nextTid
      unfold applyT; simp only [ha', Bool.false_eq_true, if_false]; exact l1

theorem ready_reapply : ∀ (ms : List Mod) {s : State} {c : Nat} {o : Obj}, Ready s c o →
    ∃ o', Ready (reapply s c ms) c o' ∧ o'.version = o.version ∧ o'.cur = fold o.cur ms ∧ o'.pend = o.pend ++ ms ∧
      o'.base = o.base ∧ (reapply s c ms).db = s.db ∧ (reapply s c ms).log = s.log ∧ (reapply s c ms).commits = s.commits
  | [], s, c, o, h => ⟨o, h, rfl, rfl, by simp, rfl, rfl, rfl, rfl⟩
  | m :: ms, s, c, o, h => by
    obtain ⟨o1, r1, e1, e2, e3, e4, e5, e6, e7⟩ := ready_modify h m
    obtain ⟨o2, r2, g1, g2, g3, g4, g5, g6, g7⟩ := ready_reapply ms r1
    have hre : reapply s c (m :: ms) = reapply (modifyOp s c m) c ms := rfl
    rw [hre]
    refine ⟨o2, r2, by omega, ?_, ?_, by rw [g4, e4], by rw [g5, e5], by rw [g6, e6], by rw [g7, e7]⟩
    · rw [g2, e2]; rfl
    · rw [g3, e3]; simp

/-- unique task ids in the table, everything allocated below `nextTid` -/
structure DbT (s : State) : Prop where
  d : Distinct s.db.tasks
  lt : ∀ r ∈ s.db.tasks, r.tid < s.nextTid
  olt : ∀ p ∈ s.objs, ∀ t ∈ p.2.tasks, t.tid < s.nextTid

theorem ready_read {s : State} (h : DbT s) (c : Nat) :
    Ready (readOp s c) c { version := s.db.version, cur := s.db.content, tasks := s.db.tasks, base := s.db.content, pend := [] } :=
  ⟨getObj_setObj_same _ _ _, h.d, fun t ht => Or.inl ⟨t, ht, rfl, rfl⟩, h.lt, h.lt⟩

theorem upsertAll_rows : ∀ (ts rows : List TRow), Distinct rows →
    Distinct (upsertAll rows ts).1 ∧
    (∀ r' ∈ (upsertAll rows ts).1, (∃ r ∈ rows, r.tid = r'.tid) ∨ (∃ t ∈ ts, t.tid = r'.tid)) ∧
    (∀ t' ∈ (upsertAll rows ts).2.1, ∃ t ∈ ts, t'.tid = t.tid)
  | [], rows, hd => ⟨hd, fun r' hr' => Or.inl ⟨r', hr', rfl⟩, fun t' ht' => by simp [upsertAll] at ht'⟩
  | t :: ts, rows, hd => by
    unfold upsertAll
    cases hu : upsert rows t with
    | none => exact ⟨hd, fun r' hr' => Or.inl ⟨r', hr', rfl⟩, fun t' ht' => ⟨t', ht', rfl⟩⟩
    | some pr =>
      obtain ⟨rows', v⟩ := pr
      obtain ⟨hd', hfrom, _, _⟩ := upsert_spec hd rows' v hu
      obtain ⟨i1, i2, i3⟩ := upsertAll_rows ts rows' hd'
      refine ⟨i1, ?_, ?_⟩
      · intro r' hr'
        rcases i2 r' hr' with ⟨r1, hr1, e1⟩ | ⟨t1, ht1, e1⟩
        · rcases hfrom r1 hr1 with ⟨r0, hr0, e0, _⟩ | e0
          · left; exact ⟨r0, hr0, by omega⟩
          · right; exact ⟨t, by simp, by omega⟩
        · right; exact ⟨t1, by simp [ht1], e1⟩
      · intro t' ht'
        simp only [List.mem_cons] at ht'
        rcases ht' with rfl | ht'
        · exact ⟨t, by simp, rfl⟩
        · obtain ⟨t1, ht1, e1⟩ := i3 t' ht'
          exact ⟨t1, by simp [ht1], e1⟩

theorem dbT_init (st nt : Nat) : DbT (init st nt) := by
  refine ⟨?_, ?_, by simp [init]⟩
  · unfold Distinct
    simp only [init, List.pairwise_map]
    have : ∀ n, (List.range n).Pairwise (fun a b => a ≠ b) := by
      intro n
      have := List.nodup_range (n := n)
      exact this
    exact this nt
  · intro r hr
    simp only [init, List.mem_map, List.mem_range] at hr
    obtain ⟨i, hi, rfl⟩ := hr
    exact hi

theorem dbT_read {s : State} (h : DbT s) (c : Nat) : DbT (readOp s c) := by
  refine ⟨h.d, h.lt, ?_⟩
  intro p hp
  rcases mem_setObj hp with rfl | ⟨hm, _⟩
  · exact h.lt
  · exact h.olt p hm

theorem dbT_modify {s : State} (h : DbT s) (c : Nat) (m : Mod) : DbT (modifyOp s c m) := by
  unfold modifyOp
  split
  · exact h
  · rename_i o ho
    have hm := getObj_mem ho
    have hbase : ∀ t ∈ (match m.taskSt with | some (k, v) => setTaskSt o.tasks k v | none => o.tasks), t.tid < s.nextTid := by
      intro t ht
      cases hts : m.taskSt with
      | none => simp only [hts] at ht; exact h.olt (c, o) hm t ht
      | some kv =>
        simp only [hts] at ht
        obtain ⟨t0, h0, e, _⟩ := mem_setTaskSt _ _ _ t ht
        rw [e]; exact h.olt (c, o) hm t0 h0
    dsimp only
    by_cases ha : m.addTask = true
    · simp only [ha, if_true]
      refine ⟨h.d, fun r hr => Nat.lt_succ_of_lt (h.lt r hr), ?_⟩
      intro p hp t ht
      rcases mem_setObj hp with rfl | ⟨hm', _⟩
      · simp only [applyT, ha, if_true, List.mem_append, List.mem_singleton] at ht
        rcases ht with ht | rfl
        · exact Nat.lt_succ_of_lt (hbase t ht)
        · exact Nat.lt_succ_self _
      · exact Nat.lt_succ_of_lt (h.olt p hm' t ht)
    · have ha' : m.addTask = false := by simpa using ha
      simp only [ha', Bool.false_eq_true, if_false]
      refine ⟨h.d, h.lt, ?_⟩
      intro p hp t ht
      rcases mem_setObj hp with rfl | ⟨hm', _⟩
      · simp only [applyT, ha', Bool.false_eq_true, if_false] at ht
        exact hbase t ht
      · exact h.olt p hm' t ht

theorem dbT_reapply {s : State} (h : DbT s) (c : Nat) (ms : List Mod) : DbT (reapply s c ms) := by
  induction ms generalizing s with
  | nil => exact h
  | cons m ms ih => exact ih (dbT_modify h c m)

theorem dbT_write {s : State} (h : DbT s) (c : Nat) (t : Bool) (p : Option Nat) : DbT (writeOp s c t p).1 := by
  unfold writeOp
  split
  · exact h
  · rename_i o ho
    have hm := getObj_mem ho
    obtain ⟨u1, u2, u3⟩ := upsertAll_rows o.tasks s.db.tasks h.d
    have rowsLt : ∀ r' ∈ (upsertAll s.db.tasks o.tasks).1, r'.tid < s.nextTid := by
      intro r' hr'
      rcases u2 r' hr' with ⟨r, hr, e⟩ | ⟨t0, ht0, e⟩
      · rw [← e]; exact h.lt r hr
      · rw [← e]; exact h.olt (c, o) hm t0 ht0
    have memLt : ∀ t' ∈ (upsertAll s.db.tasks o.tasks).2.1, t'.tid < s.nextTid := by
      intro t' ht'
      obtain ⟨t0, ht0, e⟩ := u3 t' ht'
      rw [e]; exact h.olt (c, o) hm t0 ht0
    split
    · split
      rename_i rows mem okk hu
      have e1 : rows = (upsertAll s.db.tasks o.tasks).1 := by rw [hu]
      have e2 : mem = (upsertAll s.db.tasks o.tasks).2.1 := by rw [hu]
      split
      · refine ⟨by rw [e1]; exact u1, by rw [e1]; exact rowsLt, ?_⟩
        intro q hq t' ht'
        rcases mem_setObj (s := s) (c := c)
            (o := { o with version := o.version + 1, tasks := mem, base := o.cur, pend := [] }) hq with rfl | ⟨hm', _⟩
        · rw [e2] at ht'; exact memLt t' ht'
        · exact h.olt q hm' t' ht'
      · exact h
    · exact h

theorem dbT_step {s : State} (h : DbT s) (op : Op) : DbT (step s op).1 := by
  cases op with
  | read c => exact dbT_read h c
  | modify c m => exact dbT_modify h c m
  | write c t p => exact dbT_write h c t p
  | retry c t p =>
    simp only [step, retryOp]
    split
    · exact h
    · exact dbT_write (dbT_reapply (dbT_read h c) _ _) _ _ _
  | bump t =>
    refine ⟨?_, ?_, h.olt⟩
    · unfold Distinct
      simp only [step, bumpOp, List.pairwise_map]
      exact h.d.imp (by intro a b hab; split <;> split <;> exact hab)
    · intro r hr
      simp only [step, bumpOp, List.mem_map] at hr
      obtain ⟨r0, hr0, rfl⟩ := hr
      have := h.lt r0 hr0
      split <;> exact this

theorem dbT_run {s : State} (h : DbT s) (ops : List Op) : DbT (run s ops) := by
  induction ops generalizing s with
  | nil => exact h
  | cons o os ih => exact ih (dbT_step h o)


theorem unique_tid : ∀ {l : List TRow}, Distinct l → ∀ a ∈ l, ∀ b ∈ l, a.tid = b.tid → a = b
  | [], _, a, ha, _, _, _ => by simp at ha
  | c :: l, h, a, ha, b, hb, e => by
    unfold Distinct at h
    rw [List.pairwise_cons] at h
    rcases List.mem_cons.mp ha with rfl | ha' <;> rcases List.mem_cons.mp hb with rfl | hb'
    · rfl
    · exact absurd e (h.1 b hb')
    · exact absurd e.symm (h.1 a ha')
    · exact unique_tid (l := l) h.2 a ha' b hb' e

/-- what a successful write does to the version and to the other clients' objects -/
theorem writeOp_ok_spec {s : State} {c : Nat} {t : Bool} {p : Option Nat} (ok : (writeOp s c t p).2 = .ok) :
    ∃ o, getObj s c = some o ∧ s.db.version = o.version ∧ (writeOp s c t p).1.db.version = s.db.version + 1 ∧
      ∀ c', c' ≠ c → getObj (writeOp s c t p).1 c' = getObj s c' := by
  unfold writeOp at ok ⊢
  cases ho : getObj s c with
  | none => simp [ho] at ok
  | some o =>
    simp only [ho] at ok ⊢
    by_cases hg : (s.db.version == o.version && phaseOk s p) = true
    · simp only [hg, if_true] at ok ⊢
      cases hu : upsertAll s.db.tasks o.tasks with
      | mk rows rest =>
        obtain ⟨mem, okk⟩ := rest
        simp only [hu] at ok ⊢
        cases okk with
        | true =>
          simp only [if_true]
          simp only [Bool.and_eq_true, beq_iff_eq] at hg
          exact ⟨o, rfl, hg.1, trivial, fun c' hc' => getObj_setObj_other s c c' _ hc'⟩
        | false => simp at ok
    · simp [hg] at ok

/-- what a successful write leaves in the row and in the ghost log -/
theorem writeOp_ok_content {s : State} {c : Nat} {t : Bool} {p : Option Nat} (ok : (writeOp s c t p).2 = .ok) :
    ∃ o, getObj s c = some o ∧ s.db.version = o.version ∧ (writeOp s c t p).1.db.content = o.cur ∧
      (writeOp s c t p).1.log = s.log ++ o.pend := by
  unfold writeOp at ok ⊢
  cases ho : getObj s c with
  | none => simp [ho] at ok
  | some o =>
    simp only [ho] at ok ⊢
    by_cases hg : (s.db.version == o.version && phaseOk s p) = true
    · simp only [hg, if_true] at ok ⊢
      cases hu : upsertAll s.db.tasks o.tasks with
      | mk rows rest =>
        obtain ⟨mem, okk⟩ := rest
        simp only [hu] at ok ⊢
        cases okk with
        | true =>
          simp only [if_true]
          simp only [Bool.and_eq_true, beq_iff_eq] at hg
          exact ⟨o, rfl, hg.1, rfl, rfl⟩
        | false => simp at ok
    · simp [hg] at ok

/-! ### split reads: the row version only grows, and it grows whenever the content changes -/

theorem modifyOp_db (s : State) (c : Nat) (m : Mod) : (modifyOp s c m).db = s.db := by
  unfold modifyOp
  split
  · rfl
  · dsimp only; split <;> rfl

theorem reapply_db (c : Nat) : ∀ (ms : List Mod) (s : State), (reapply s c ms).db = s.db
  | [], _ => rfl
  | m :: ms, s => by
    show (reapply (modifyOp s c m) c ms).db = s.db
    rw [reapply_db c ms, modifyOp_db]

/-- a write leaves the row alone or bumps its version -/
theorem writeOp_db (s : State) (c : Nat) (t : Bool) (p : Option Nat) :
    (writeOp s c t p).1.db = s.db ∨ (writeOp s c t p).1.db.version = s.db.version + 1 := by
  unfold writeOp
  split
  · left; rfl
  · split
    · split
      split
      · right; rfl
      · left; rfl
    · left; rfl

/-- the version column is monotone, and an unchanged version means unchanged content -/
theorem step_db (s : State) (op : Op) :
    s.db.version ≤ (step s op).1.db.version ∧
    ((step s op).1.db.version = s.db.version → (step s op).1.db.content = s.db.content) := by
  have key : ∀ s' : State, (s'.db = s.db ∨ s'.db.version = s.db.version + 1) →
      s.db.version ≤ s'.db.version ∧ (s'.db.version = s.db.version → s'.db.content = s.db.content) := by
    rintro s' (h | h)
    · rw [h]; exact ⟨Nat.le_refl _, fun _ => rfl⟩
    · exact ⟨by omega, fun e => by omega⟩
  cases op with
  | read c => exact key _ (Or.inl rfl)
  | modify c m => exact key _ (Or.inl (modifyOp_db s c m))
  | write c t p => exact key _ (writeOp_db s c t p)
  | retry c t p =>
    simp only [step, retryOp]
    split
    · exact key _ (Or.inl rfl)
    · rename_i o _
      have h := writeOp_db (reapply (readOp s c) c o.pend) c t p
      have e : (reapply (readOp s c) c o.pend).db = s.db := by rw [reapply_db]; rfl
      rw [e] at h
      exact key _ h
  | bump t => exact ⟨Nat.le_refl _, fun _ => rfl⟩

/-- an object under construction is never ahead of the row, and while it is level with the row it holds the row's content -/
def PartOk (s : State) (p : Partial) : Prop :=
  p.version ≤ s.db.version ∧ (p.version = s.db.version → p.content = s.db.content)

structure SInv (s : SState) : Prop where
  inv : Inv s.base
  parts : ∀ q ∈ s.parts, PartOk s.base q.2

theorem getPart_mem {s : SState} {c : Nat} {p : Partial} (h : getPart s c = some p) : (c, p) ∈ s.parts := by
  simp only [getPart, Option.map_eq_some_iff] at h
  obtain ⟨q, hq, rfl⟩ := h
  have hm := List.mem_of_find?_eq_some hq
  have hk := List.find?_some hq
  simp only [beq_iff_eq] at hk
  cases q; simp_all

theorem mem_setPart {s : SState} {c : Nat} {p : Partial} {q : Nat × Partial} (h : q ∈ (setPart s c p).parts) :
    q = (c, p) ∨ q ∈ s.parts := by
  simp only [setPart, List.mem_cons, List.mem_filter] at h
  rcases h with h | h
  · exact Or.inl h
  · exact Or.inr h.1

theorem sinv_init (st nt : Nat) : SInv (sinit st nt) :=
  ⟨inv_init st nt, by intro q hq; simp [sinit] at hq⟩

/-- with the version taken from the SAME statement as the content, every step keeps the invariant and the fold -/
theorem sinv_step {s : SState} {c0 : Content} (h : SInv s) (hf : Folded c0 s.base) (op : SOp) :
    SInv (sstep .sameStatement s op).1 ∧ Folded c0 (sstep .sameStatement s op).1.base := by
  cases op with
  | op o =>
    obtain ⟨h1, hf1⟩ := inv_step h.inv hf o
    refine ⟨⟨h1, ?_⟩, hf1⟩
    intro q hq
    obtain ⟨hle, hfr⟩ := h.parts q hq
    obtain ⟨m1, m2⟩ := step_db s.base o
    refine ⟨Nat.le_trans hle m1, ?_⟩
    intro e
    have e1 : (step s.base o).1.db.version = s.base.db.version := by
      have : q.2.version = (step s.base o).1.db.version := e
      omega
    have e2 : q.2.version = s.base.db.version := by
      have : q.2.version = (step s.base o).1.db.version := e
      omega
    show q.2.content = (step s.base o).1.db.content
    rw [m2 e1]; exact hfr e2
  | readRow c =>
    refine ⟨⟨h.inv, ?_⟩, hf⟩
    intro q hq
    rcases mem_setPart hq with rfl | hq
    · exact ⟨Nat.le_refl _, fun _ => rfl⟩
    · exact h.parts q hq
  | readTasks c =>
    simp only [sstep]
    split
    · exact ⟨h, hf⟩
    · rename_i p hp
      refine ⟨⟨h.inv, ?_⟩, hf⟩
      intro q hq
      rcases mem_setPart hq with rfl | hq
      · exact h.parts (c, p) (getPart_mem hp)
      · exact h.parts q hq
  | readVer c =>
    simp only [sstep]
    split
    · exact ⟨h, hf⟩
    · exact ⟨h, hf⟩
  | readEnd c =>
    simp only [sstep]
    split
    · exact ⟨h, hf⟩
    · rename_i p hp
      obtain ⟨ple, pfr⟩ := h.parts (c, p) (getPart_mem hp)
      refine ⟨⟨?_, ?_⟩, hf⟩
      · constructor <;> intro q hq <;> rcases mem_setObj hq with rfl | ⟨hm, _⟩
        · exact ple
        · exact h.inv.le q hm
        · exact pfr
        · exact h.inv.fresh q hm
        · rfl
        · exact h.inv.cur q hm
      · intro q hq
        simp only [List.mem_filter] at hq
        exact h.parts q hq.1

theorem sinv_run {s : SState} {c0 : Content} (h : SInv s) (hf : Folded c0 s.base) (ops : List SOp) :
    SInv (srun .sameStatement s ops) ∧ Folded c0 (srun .sameStatement s ops).base := by
  induction ops generalizing s with
  | nil => exact ⟨h, hf⟩
  | cons o os ih =>
    obtain ⟨h1, hf1⟩ := sinv_step h hf o
    exact ih h1 hf1

end Stab.CasRow
