/-
  C17 at run level: once the cancel flag is durable, a drained queue means the workflow is final - for EVERY workflow.
  The invariant `CancInv`: canceled ⇒ (workflow final ∨ a CompleteWorkflow message is queued).  It needs no assumption on
  the workflow: CancelWorkflow pushes CompleteWorkflow in the delivery that sets the flag, and a CompleteWorkflow handled
  while the workflow is canceled and not final either finalises it or re-queues itself (F38 repair: also while a stage is
  explicitly waiting).
-/
import Stab.Lemmas.EngineLive2
namespace Stab.Engine
open Stab

/-! ### once a cancel is accepted, a drained queue means a final workflow — for EVERY workflow -/

theorem applyEff_push_plumb (s : State) (m : Msg) (hp : Plumb s) : Plumb (applyEff s (.push m)) := by
  refine ⟨?_, ?_, ?_, ?_⟩
  · simp only [applyEff, List.map_append, List.map_cons, List.map_nil]
    rw [List.nodup_append]
    refine ⟨hp.ids, by simp, ?_⟩
    intro a ha b hb hab
    simp only [List.mem_map] at ha
    obtain ⟨x, hx, rfl⟩ := ha
    simp only [List.mem_singleton] at hb
    have := hp.fresh x hx
    omega
  · intro x hx
    simp only [applyEff, List.mem_append, List.mem_singleton] at hx ⊢
    rcases hx with h1 | rfl
    · have := hp.fresh x h1; omega
    · simp
  · intro p hpp
    have := hp.pfresh p hpp
    simp only [applyEff]; omega
  · intro x hx
    simp only [applyEff, List.mem_append, List.mem_singleton] at hx ⊢
    rcases hx with h1 | rfl
    · exact hp.unproc x h1
    · intro hin
      have := hp.pfresh _ hin
      simp at this

theorem applyTxn_pushes_plumb (s : State) (ms : List Msg) (hp : Plumb s) : Plumb (applyTxn s (ms.map Eff.push)) := by
  induction ms generalizing s with
  | nil => exact hp
  | cons m ms ih =>
    have := ih (applyEff s (.push m)) (applyEff_push_plumb s m hp)
    simpa [applyTxn, List.foldl] using this

/-- operations in which every delivery is acknowledged: deliveries, cancel requests, signals, recovery sweeps -/
def Acked (ops : List Op) : Prop :=
  ∀ op ∈ ops, (∃ id, op = .deliver id) ∨ op = .cancel ∨ (∃ i p, op = .signal i p) ∨ op = .sweep

theorem step_plumb (c : Cfg) (s : State) (op : Op) (hp : Plumb s)
    (hop : (∃ id, op = .deliver id) ∨ op = .cancel ∨ (∃ i p, op = .signal i p) ∨ op = .sweep) : Plumb (step c s op) := by
  rcases hop with ⟨id, rfl⟩ | rfl | ⟨i, p, rfl⟩ | rfl
  · exact deliver_plumb c s id hp
  · exact applyEff_push_plumb s _ hp
  · exact applyEff_push_plumb s _ hp
  · exact applyTxn_pushes_plumb s _ hp

theorem finalStatus_complete (c : Cfg) (s : State) (k : Nat) (st : Status) (h : finalStatus c s k = some st) :
    st.isComplete = true := by
  unfold finalStatus at h
  simp only [] at h
  repeat' split at h
  all_goals (first | (cases h; rfl) | cases h)

/-- only CancelWorkflow sets the cancel flag, and it then pushes CompleteWorkflow in the same delivery -/
theorem handle_setCanceled (c : Cfg) (s : State) (row : Row) (h : Eff.setCanceled ∈ (handle c s row).1.flatten) :
    row.msg = .cancelWorkflow ∧ Eff.push (.completeWorkflow 0) ∈ (handle c s row).1.flatten := by
  unfold handle at h ⊢
  cases hm : row.msg with
  | cancelWorkflow =>
    refine ⟨rfl, ?_⟩
    simp only [hm, hCancelWorkflow] at h ⊢
    split at h
    · split at h <;> simp at h
    · rename_i hnc
      simp [hnc]
  | startWorkflow => simp only [hm, hStartWorkflow] at h; (repeat' split at h) <;> simp at h
  | startStage i r => simp only [hm, hStartStage, hStartStageCore, startIfReady] at h; (repeat' split at h) <;> simp at h
  | startTask i t => simp only [hm, hStartTask] at h; (repeat' split at h) <;> simp at h
  | runTask i t =>
    simp only [hm, hRunTask] at h
    split at h
    · rename_i txns hg
      unfold runTaskGuard at hg
      simp only [] at hg
      (repeat' split at hg) <;> (try (cases hg)) <;> (try (simp at hg)) <;> (try (subst hg)) <;> simp_all
    · simp only [runTaskCommit, processResult] at h
      (repeat' split at h) <;> simp at h
  | completeTask i t st => simp only [hm, hCompleteTask] at h; (repeat' split at h) <;> simp at h
  | completeStage i =>
    simp only [hm, hCompleteStage] at h
    (repeat' split at h) <;> (try (simp at h))
    all_goals (
      rcases h with ⟨l, hl, hmem⟩ | h
      · obtain ⟨d, new, hd⟩ := mem_joinTracking_flatten c s i _ (List.mem_flatten.mpr ⟨l, hl, hmem⟩)
        cases hd
      · obtain ⟨m, hmm⟩ := mem_splitCont _ _ _ h
        cases hmm)
  | skipStage i => simp only [hm, hSkipStage] at h; (repeat' split at h) <;> simp at h
  | cancelStage i => simp only [hm, hCancelStage] at h; (repeat' split at h) <;> simp at h
  | completeWorkflow r => simp only [hm, hCompleteWorkflow] at h; (repeat' split at h) <;> simp at h
  | jumpToStage a b => simp only [hm, hJumpToStage] at h; (repeat' split at h) <;> simp at h
  | signalStage i pp => simp only [hm, hSignalStage] at h; (repeat' split at h) <;> simp at h

end Stab.Engine

namespace Stab.Engine
open Stab

theorem applyTxn_wf_setWf (s : State) (l : List Eff) :
    (applyTxn s l).wfStatus = s.wfStatus ∨ ∃ st, Eff.setWf st ∈ l ∧ (applyTxn s l).wfStatus = st := by
  induction l generalizing s with
  | nil => left; rfl
  | cons e es ih =>
    rcases ih (applyEff s e) with h | ⟨st, hst, h⟩
    · simp only [applyTxn, List.foldl] at h ⊢
      cases e with
      | setWf st => right; exact ⟨st, List.mem_cons_self .., by rw [h]; rfl⟩
      | setStage i n => left; rw [h]; simp only [applyEff]; split <;> rfl
      | mark id => left; rw [h]; simp only [applyEff]; split <;> rfl
      | setCanceled => left; rw [h]; rfl
      | push m => left; rw [h]; rfl
      | pushA m a => left; rw [h]; rfl
    · right
      simp only [applyTxn, List.foldl] at h ⊢
      exact ⟨st, List.mem_cons_of_mem _ hst, h⟩

/-- every workflow status a handler writes when the workflow is not final yet is a final one or RUNNING (StartWorkflow);
    a final workflow status is never overwritten -/
theorem handle_setWf (c : Cfg) (s : State) (row : Row) (st : Status) (h : Eff.setWf st ∈ (handle c s row).1.flatten) :
    s.wfStatus.isComplete = false ∧
      ((row.msg = .startWorkflow ∧ s.wfStatus = .notStarted) ∨ (∃ k, row.msg = .completeWorkflow k ∧ finalStatus c s k = some st)) := by
  unfold handle at h
  cases hm : row.msg with
  | startWorkflow =>
    simp only [hm, hStartWorkflow] at h
    (repeat' split at h) <;> simp at h
    all_goals (
      rename_i hns _ _
      have hns' : s.wfStatus = .notStarted := by simpa using hns
      exact ⟨by rw [hns']; rfl, Or.inl ⟨rfl, hns'⟩⟩)
  | completeWorkflow k =>
    simp only [hm, hCompleteWorkflow] at h
    split at h
    · simp at h
    · rename_i hnc
      split at h
      · split at h <;> simp at h
      · rename_i status hfs
        split at h
        · simp at h
        · simp at h
          refine ⟨by simpa using hnc, Or.inr ⟨k, rfl, ?_⟩⟩
          rw [hfs, h]
  | startStage i r => simp only [hm, hStartStage, hStartStageCore, startIfReady] at h; (repeat' split at h) <;> simp at h
  | startTask i t => simp only [hm, hStartTask] at h; (repeat' split at h) <;> simp at h
  | runTask i t =>
    simp only [hm, hRunTask] at h
    split at h
    · rename_i txns hg
      unfold runTaskGuard at hg
      simp only [] at hg
      (repeat' split at hg) <;> (try (cases hg)) <;> (try (simp at hg)) <;> (try (subst hg)) <;> simp_all
    · simp only [runTaskCommit, processResult] at h
      (repeat' split at h) <;> simp at h
  | completeTask i t st' => simp only [hm, hCompleteTask] at h; (repeat' split at h) <;> simp at h
  | completeStage i =>
    simp only [hm, hCompleteStage] at h
    (repeat' split at h) <;> (try (simp at h))
    all_goals (
      rcases h with ⟨l, hl, hmem⟩ | h
      · obtain ⟨d, new, hd⟩ := mem_joinTracking_flatten c s i _ (List.mem_flatten.mpr ⟨l, hl, hmem⟩)
        cases hd
      · obtain ⟨m, hmm⟩ := mem_splitCont _ _ _ h
        cases hmm)
  | skipStage i => simp only [hm, hSkipStage] at h; (repeat' split at h) <;> simp at h
  | cancelStage i => simp only [hm, hCancelStage] at h; (repeat' split at h) <;> simp at h
  | cancelWorkflow => simp only [hm, hCancelWorkflow] at h; (repeat' split at h) <;> simp at h
  | jumpToStage a b => simp only [hm, hJumpToStage] at h; (repeat' split at h) <;> simp at h
  | signalStage i pp => simp only [hm, hSignalStage] at h; (repeat' split at h) <;> simp at h

end Stab.Engine

namespace Stab.Engine
open Stab

/-- the invariant: once the cancel flag is durable, the workflow is final or a CompleteWorkflow message is queued -/
structure CancInv (s : State) : Prop where
  plumb : Plumb s
  cw : s.canceled = true → s.wfStatus.isComplete = true ∨ ∃ x ∈ s.queue, ∃ k, x.msg = .completeWorkflow k

theorem cancInv_push (s : State) (m : Msg) (h : CancInv s) : CancInv (applyEff s (.push m)) := by
  refine ⟨applyEff_push_plumb s m h.plumb, ?_⟩
  intro hc
  rcases h.cw hc with h1 | ⟨x, hx, k, hm⟩
  · exact Or.inl h1
  · exact Or.inr ⟨x, by simp [applyEff, hx], k, hm⟩

theorem cancInv_pushes (s : State) (ms : List Msg) (h : CancInv s) : CancInv (applyTxn s (ms.map Eff.push)) := by
  induction ms generalizing s with
  | nil => exact h
  | cons m ms ih =>
    have := ih (applyEff s (.push m)) (cancInv_push s m h)
    simpa [applyTxn, List.foldl] using this

theorem cancInv_deliver (c : Cfg) (s : State) (id : Nat) (h : CancInv s) : CancInv (step c s (.deliver id)) := by
  refine ⟨deliver_plumb c s id h.plumb, ?_⟩
  cases hfind : s.queue.find? (fun x => x.id == id) with
  | none => simp only [step, hfind]; exact h.cw
  | some r =>
    obtain ⟨hmem, hid⟩ := find_mem hfind
    subst hid
    have hun := h.plumb.unproc r hmem
    cases hr : raises c s { r with attempts := r.attempts + 1 } with
    | true =>
      rw [deliver_raises c s r.id r hfind hun hr]
      intro hc
      rcases h.cw hc with h1 | ⟨x, hx, k, hm⟩
      · exact Or.inl h1
      · right
        have : x.msg ∈ (claimRow s r.id).queue.map (·.msg) := by
          rw [claimRow_queue_msgs]; exact List.mem_map.mpr ⟨x, hx, rfl⟩
        obtain ⟨y, hy, hym⟩ := List.mem_map.mp this
        exact ⟨y, hy, k, by rw [hym, hm]⟩
    | false =>
      have hshape := deliver_shape c s r.id r hfind hun (h.plumb.fresh r hmem) hr
      intro hc'
      -- the state after the delivery, component by component
      have hcan : (step c s (.deliver r.id)).canceled = true ↔
          s.canceled = true ∨ Eff.setCanceled ∈ (handle c s { r with attempts := r.attempts + 1 }).1.flatten := by
        rw [hshape.core.2.2]; exact applyTxn_canceled_iff _ _
      have hwf := applyTxn_wf_setWf s (handle c s { r with attempts := r.attempts + 1 }).1.flatten
      rw [← hshape.core.2.1] at hwf
      have keep : ∀ x ∈ s.queue, x.id ≠ r.id → x ∈ (step c s (.deliver r.id)).queue := by
        intro x hx hne
        rw [hshape.queue]
        apply List.mem_append_left
        rw [List.mem_filter]
        exact ⟨hx, by simpa using hne⟩
      have pushed : ∀ m a, (m, a) ∈ pushesOf (handle c s { r with attempts := r.attempts + 1 }).1.flatten →
          ∃ x ∈ (step c s (.deliver r.id)).queue, x.msg = m := by
        intro m a hma
        obtain ⟨x, hx, hm⟩ := mkRows_exists s.nextId _ m a hma
        exact ⟨x, by rw [hshape.queue]; exact List.mem_append_right _ hx, hm⟩
      have pushOf : ∀ m, Eff.push m ∈ (handle c s { r with attempts := r.attempts + 1 }).1.flatten →
          (m, 0) ∈ pushesOf (handle c s { r with attempts := r.attempts + 1 }).1.flatten := by
        intro m
        generalize (handle c s { r with attempts := r.attempts + 1 }).1.flatten = l
        intro hm
        induction l with
        | nil => cases hm
        | cons e es ih =>
          simp only [List.mem_cons] at hm
          rcases hm with rfl | hm
          · simp [pushesOf]
          · cases e <;> simp [pushesOf, ih hm]
      rcases (hcan.mp hc') with hold | hnew
      · -- the flag was already set
        rcases h.cw hold with h1 | ⟨x, hx, k, hm⟩
        · -- a final status is never overwritten
          left
          rcases hwf with h2 | ⟨st, hst, _⟩
          · rw [h2]; exact h1
          · have := (handle_setWf c s _ st hst).1
            rw [h1] at this; cases this
        · by_cases hxr : x.id = r.id
          · -- the CompleteWorkflow witness itself was handled
            have hxeq : x = r := nodup_ids_inj s.queue h.plumb.ids x r hx hmem hxr
            subst hxeq
            by_cases hcomp : s.wfStatus.isComplete = true
            · left
              rcases hwf with h2 | ⟨st, hst, _⟩
              · rw [h2]; exact hcomp
              · have := (handle_setWf c s _ st hst).1
                rw [hcomp] at this; cases this
            · have hnc : s.wfStatus.isComplete = false := by simpa using hcomp
              cases hfs : finalStatus c s k with
              | none =>
                right
                have heffs : (handle c s { x with attempts := x.attempts + 1 }).1.flatten = [.push (.completeWorkflow (k + 1))] := by
                  simp [handle, hm, hCompleteWorkflow, hnc, hfs, hold]
                obtain ⟨y, hy, hym⟩ := pushed (.completeWorkflow (k + 1)) 0 (by rw [heffs]; simp [pushesOf])
                exact ⟨y, hy, k + 1, hym⟩
              | some st =>
                left
                have hleg : Status.canTransition s.wfStatus st = true := by
                  simp only [raises, hm, completeWorkflowRaises, hnc, hfs, Bool.not_false, Bool.true_and, Bool.not_eq_false'] at hr
                  exact hr
                have hin : Eff.setWf st ∈ (handle c s { x with attempts := x.attempts + 1 }).1.flatten := by
                  simp [handle, hm, hCompleteWorkflow, hnc, hfs, hleg]
                rcases hwf with h2 | ⟨st', hst', h3⟩
                · -- impossible: a setWf is in the list, so the status is the written one; handle both shapes uniformly
                  have hst'' := (handle_setWf c s _ st hin).2
                  -- the only setWf effect writes `st`; compute directly
                  have heffs : (handle c s { x with attempts := x.attempts + 1 }).1.flatten =
                      [.setWf st, .mark x.id] ++ (if st != .succeeded then (List.range c.n).filter (fun i => (s.stage i).status == .running || (s.canceled && !(s.stage i).status.isComplete)) else []).map (fun i => Eff.push (.cancelStage i)) := by
                    simp [handle, hm, hCompleteWorkflow, hnc, hfs, hleg]
                  rw [hshape.core.2.1, heffs]
                  have : ∀ (l : List Eff) (s0 : State), (∀ e ∈ l, ∀ z, e ≠ Eff.setWf z) → (applyTxn s0 (.setWf st :: l)).wfStatus = st := by
                    intro l s0 hl
                    rcases applyTxn_wf_setWf (applyEff s0 (.setWf st)) l with q | ⟨z, hz, _⟩
                    · simp only [applyTxn, List.foldl] at q ⊢; rw [q]; rfl
                    · exact absurd rfl (hl _ hz z)
                  rw [List.cons_append, this]
                  · exact finalStatus_complete c s k st hfs
                  · intro e he z heq; subst heq
                    simp only [List.cons_append, List.nil_append, List.mem_cons, List.mem_map] at he
                    rcases he with he | ⟨_, _, he⟩ <;> cases he
                · rw [h3]
                  rcases (handle_setWf c s _ st' hst').2 with ⟨hsw, _⟩ | ⟨k', hk', hfs'⟩
                  · simp only at hsw; rw [hm] at hsw; cases hsw
                  · exact finalStatus_complete c s k' st' hfs'
          · right; exact ⟨x, keep x hx hxr, k, hm⟩
      · -- the flag is set by this very delivery: CancelWorkflow, which pushes CompleteWorkflow
        right
        obtain ⟨_, hpush⟩ := handle_setCanceled c s _ hnew
        obtain ⟨y, hy, hym⟩ := pushed _ 0 (pushOf _ hpush)
        exact ⟨y, hy, 0, hym⟩

theorem run_cancInv (c : Cfg) (ops : List Op) (ha : Acked ops) : CancInv (run c ops) := by
  unfold run
  suffices ∀ s, CancInv s → CancInv (ops.foldl (step c) s) from
    this _ ⟨start_plumb c, by intro h; simp [start, applyEff, initState] at h⟩
  induction ops with
  | nil => intro s h; exact h
  | cons op ops ih =>
    intro s h
    apply ih (fun o ho => ha o (List.mem_cons_of_mem _ ho))
    rcases ha op (List.mem_cons_self ..) with ⟨id, rfl⟩ | rfl | ⟨i, p, rfl⟩ | rfl
    · exact cancInv_deliver c s id h
    · exact cancInv_push s _ h
    · exact cancInv_push s _ h
    · exact cancInv_pushes s _ h

/-- **Once a cancel has been accepted, a drained queue means the workflow has reached a final status** — for EVERY
    workflow (any joins, jumps, suspends, OR-splits, task results) and every schedule of acknowledged deliveries, cancel
    requests, signals and recovery sweeps. -/
theorem canceled_drained_is_final (c : Cfg) (ops : List Op) (ha : Acked ops)
    (hc : (run c ops).canceled = true) (hq : (run c ops).queue = []) : (run c ops).wfStatus.isComplete = true := by
  rcases (run_cancInv c ops ha).cw hc with h1 | ⟨x, hx, _⟩
  · exact h1
  · rw [hq] at hx; cases hx

end Stab.Engine

namespace Stab.Engine
open Stab

/-! ### the driver invariant with cancel requests (plain class): drained ⇒ final, cancel or no cancel -/

/-- a cancel request (push of CancelWorkflow) leaves the driver invariant intact -/
theorem live_push_cancel (c : Cfg) (s : State) (h : Live c s) : Live c (applyEff s (.push .cancelWorkflow)) := by
  have hstg : ∀ j, (applyEff s (.push .cancelWorkflow)).stage j = s.stage j := by
    intro j; simp [applyEff, State.stage]
  have hq : ∀ x, x ∈ (applyEff s (.push .cancelWorkflow)).queue ↔ x ∈ s.queue ∨ x = { id := s.nextId, msg := .cancelWorkflow } := by
    intro x; simp [applyEff]
  refine ⟨applyEff_push_plumb s _ h.plumb, ?_⟩
  rcases h.cases with h1 | h1 | h1
  · exact Or.inl h1
  · right; left
    obtain ⟨x, hx, hxm, hxu, hxo⟩ := h1.queue
    refine ⟨h1.len, h1.nc, h1.wf, ⟨x, (hq x).mpr (Or.inl hx), hxm, ?_, ?_⟩, ?_⟩
    · intro y hy hym
      rcases (hq y).mp hy with h2 | h2
      · exact hxu y h2 hym
      · subst h2; cases hym
    · intro y hy
      rcases (hq y).mp hy with h2 | h2
      · exact hxo y h2
      · subst h2; exact Or.inr rfl
    · intro i hi; rw [hstg i]; exact h1.pristine i hi
  · right; right
    have keepW : ∀ {P : Row → Prop}, (∃ x ∈ s.queue, P x) → ∃ x ∈ (applyEff s (.push .cancelWorkflow)).queue, P x := by
      intro P ⟨x, hx, hp⟩; exact ⟨x, (hq x).mpr (Or.inl hx), hp⟩
    refine ⟨h1.len, h1.nc, h1.running, ?_, ?_, ?_, ?_, ?_, ?_⟩
    · intro j hj
      have hinv := h1.stages j hj
      refine ⟨by rw [hstg j]; exact hinv.ntasks, by rw [hstg j]; exact hinv.nobypass, by rw [hstg j]; exact hinv.status, ?_, ?_, ?_, ?_⟩
      · intro hns
        rw [hstg j] at hns ⊢
        obtain ⟨p1, p2⟩ := hinv.idle hns
        refine ⟨?_, p2⟩
        intro y hy
        rcases (hq y).mp hy with h2 | h2
        · exact p1 y h2
        · subst h2; rfl
      · intro hrun
        rw [hstg j] at hrun ⊢
        obtain ⟨k, w, p1, p2, p3, p4⟩ := hinv.busy hrun
        refine ⟨k, w, p1, p2, (hq w).mpr (Or.inl p3), ?_⟩
        intro y hy hty
        rcases (hq y).mp hy with h2 | h2
        · exact p4 y h2 hty
        · subst h2; cases hty
      · intro hcomp
        rw [hstg j] at hcomp
        intro y hy
        rcases (hq y).mp hy with h2 | h2
        · exact hinv.fin hcomp y h2
        · subst h2; rfl
      · intro hns u hu
        rw [hstg j] at hns; rw [hstg u]
        exact hinv.ready hns u hu
    · intro y hy
      rcases (hq y).mp hy with h2 | h2
      · exact h1.msgs y h2
      · subst h2; trivial
    · intro j hj hns hreq
      rw [hstg j] at hns
      exact keepW (h1.trig j hj hns (fun u hu => by have := hreq u hu; rwa [hstg u] at this))
    · intro ⟨j, hj, ht⟩
      rw [hstg j] at ht
      exact keepW (h1.halt ⟨j, hj, ht⟩)
    · intro hall
      exact keepW (h1.alldone (fun j hj => by have := hall j hj; rwa [hstg j] at this))
    · intro y hy j hym
      rcases (hq y).mp hy with h2 | h2
      · rw [hstg j]; exact h1.xs y h2 j hym
      · subst h2; cases hym

/-- deliveries and cancel requests -/
def DeliverOrCancel (ops : List Op) : Prop := ∀ op ∈ ops, (∃ id, op = .deliver id) ∨ op = .cancel

theorem deliverOrCancel_acked (ops : List Op) (h : DeliverOrCancel ops) : Acked ops := by
  intro op hop
  rcases h op hop with ⟨id, rfl⟩ | rfl
  · exact Or.inl ⟨id, rfl⟩
  · exact Or.inr (Or.inl rfl)

/-- as long as no cancel request has been accepted, the driver invariant holds along the run -/
theorem run_live_or_canceled (c : Cfg) (hc : PlainCfg c) (ops : List Op) (hd : DeliverOrCancel ops) :
    (run c ops).canceled = true ∨ Live c (run c ops) := by
  unfold run
  suffices ∀ s, Good s → (s.canceled = true ∨ Live c s) →
      ((ops.foldl (step c) s).canceled = true ∨ Live c (ops.foldl (step c) s)) from
    this _ (start_good c) (Or.inr (start_live c))
  induction ops with
  | nil => intro s _ h; exact h
  | cons op ops ih =>
    intro s hg h
    apply ih (fun o ho => hd o (List.mem_cons_of_mem _ ho)) _ (step_good c (plain_noJump c hc) s op hg)
    rcases h with hcan | hlive
    · left
      rcases hd op (List.mem_cons_self ..) with ⟨id, rfl⟩ | rfl
      · simp only [step]; split
        · exact hcan
        · exact deliverRow_canceled_mono c s _ _ _ hcan
      · exact applyEff_canceled_mono _ _ hcan
    · rcases hd op (List.mem_cons_self ..) with ⟨id, rfl⟩ | rfl
      · exact live_step c hc s hg hlive id
      · right; exact live_push_cancel c s hlive

/-- **The driver invariant with cancel requests**: for every workflow of the plain class and every schedule made of
    acknowledged deliveries (any pending message next) and cancel requests at any moment, a drained queue means the
    workflow has reached a final status. -/
theorem plain_drained_is_final (c : Cfg) (hc : PlainCfg c) (ops : List Op) (hd : DeliverOrCancel ops)
    (hq : (run c ops).queue = []) : (run c ops).wfStatus.isComplete = true := by
  rcases run_live_or_canceled c hc ops hd with h | h
  · exact canceled_drained_is_final c ops (deliverOrCancel_acked ops hd) h hq
  · exact live_quiescent_final c hc _ h hq

theorem run_live (c : Cfg) (hc : PlainCfg c) (ops : List Op) (hd : DeliverOnly ops) :
    (run c ops).canceled = true ∨ Live c (run c ops) :=
  run_live_or_canceled c hc ops (fun op hop => Or.inl (hd op hop))

end Stab.Engine
