/-
  Legality of durable status writes, effect by effect (used by Props/C06).
-/
import Stab.Lemmas.EngineEff

namespace Stab.Engine
open Stab

/-- the audit rows one effect appends (what the SQL triggers would record) -/
def effRows (s : State) : Eff → List AuditRow
  | .setStage i new =>
    if i ≥ s.stages.length then [] else
    (if (s.stage i).status != new.status then [{ ent := .stage i, old := (s.stage i).status, new := new.status : AuditRow }] else [])
      ++ auditTasks i (s.stage i).tasks new.tasks
  | .setWf st => if s.wfStatus != st then [{ ent := .wf, old := s.wfStatus, new := st : AuditRow }] else []
  | _ => []

theorem applyEff_audit (s : State) (e : Eff) : (applyEff s e).audit = s.audit ++ effRows s e := by
  cases e <;> simp only [applyEff, effRows] <;> (repeat' split) <;> simp

def LegalRow (r : AuditRow) : Prop := Status.canTransition r.old r.new = true

/-- every row this effect appends (in the state it is applied to) is a legal transition -/
def LegalEff (s : State) (e : Eff) : Prop := ∀ r ∈ effRows s e, LegalRow r

theorem applyTxn_audit_legal (s : State) (t : List Eff) (h : EffAll LegalEff s t) :
    ∃ rows, (applyTxn s t).audit = s.audit ++ rows ∧ ∀ r ∈ rows, LegalRow r := by
  induction t generalizing s with
  | nil => exact ⟨[], by simp [applyTxn], by simp⟩
  | cons e es ih =>
    obtain ⟨he, hes⟩ := h
    obtain ⟨rows, hr, hl⟩ := ih (applyEff s e) hes
    refine ⟨effRows s e ++ rows, ?_, ?_⟩
    · simp only [applyTxn, List.foldl] at hr ⊢
      rw [hr, applyEff_audit, List.append_assoc]
    · intro r hr'
      rcases List.mem_append.mp hr' with h1 | h1
      · exact he r h1
      · exact hl r h1

/-- a `setStage` that changes neither the stage status nor any task status appends nothing -/
theorem effRows_same (s : State) (i : Nat) (new : StageSt)
    (h1 : new.status = (s.stage i).status) (h2 : new.tasks = (s.stage i).tasks) :
    effRows s (.setStage i new) = [] := by
  simp only [effRows, h1, h2, bne_self_eq_false, Bool.false_eq_true, ↓reduceIte, List.nil_append]
  split
  · rfl
  · unfold auditTasks
    simp

theorem auditTasks_legal (i : Nat) (old new : List TaskSt)
    (h : ∀ t, Status.canTransition (old.getD t default).status (new.getD t default).status = true) :
    ∀ r ∈ auditTasks i old new, LegalRow r := by
  intro r hr
  unfold auditTasks at hr
  simp only [List.mem_filterMap, List.mem_range] at hr
  obtain ⟨t, _, ht⟩ := hr
  split at ht
  · cases ht; exact h t
  · cases ht

theorem legalEff_setStage (s : State) (i : Nat) (new : StageSt)
    (hs : Status.canTransition (s.stage i).status new.status = true)
    (ht : ∀ t, Status.canTransition (((s.stage i).tasks).getD t default).status ((new.tasks).getD t default).status = true) :
    LegalEff s (.setStage i new) := by
  intro r hr
  simp only [effRows] at hr
  split at hr
  · cases hr
  · simp only [List.mem_append] at hr
    rcases hr with h | h
    · split at h
      · simp only [List.mem_singleton] at h; subst h; exact hs
      · cases h
    · exact auditTasks_legal i _ _ ht r h

theorem canTransition_refl (a : Status) : Status.canTransition a a = true := by
  simp [Status.canTransition]

theorem legalEff_setStage_tasks_same (s : State) (i : Nat) (new : StageSt)
    (hs : Status.canTransition (s.stage i).status new.status = true) (ht : new.tasks = (s.stage i).tasks) :
    LegalEff s (.setStage i new) :=
  legalEff_setStage s i new hs (by intro t; rw [ht]; exact canTransition_refl _)

theorem legalEff_other (s : State) (e : Eff) (h : effRows s e = []) : LegalEff s e := by
  intro r hr; rw [h] at hr; cases hr

@[simp] theorem legalEff_push (s : State) (m : Msg) : LegalEff s (.push m) := legalEff_other _ _ rfl
@[simp] theorem legalEff_pushA (s : State) (m : Msg) (a : Nat) : LegalEff s (.pushA m a) := legalEff_other _ _ rfl
@[simp] theorem legalEff_mark (s : State) (id : Nat) : LegalEff s (.mark id) := legalEff_other _ _ rfl
@[simp] theorem legalEff_setCanceled (s : State) : LegalEff s .setCanceled := legalEff_other _ _ rfl

theorem legalEff_setWf (s : State) (st : Status) (h : Status.canTransition s.wfStatus st = true) :
    LegalEff s (.setWf st) := by
  intro r hr
  simp only [effRows] at hr
  split at hr
  · simp only [List.mem_singleton] at hr; subst hr; exact h
  · cases hr

/-- pushes never make an effect list illegal -/
theorem effAll_pushes (s : State) (ms : List Msg) : EffAll LegalEff s (ms.map Eff.push) := by
  induction ms generalizing s with
  | nil => trivial
  | cons m ms ih => exact ⟨legalEff_push _ _, ih _⟩


/-- effects that never touch a status column -/
def Eff.quiet : Eff → Bool
  | .push _ | .pushA _ _ | .mark _ | .setCanceled => true
  | _ => false

theorem effAll_quiet (s : State) (l : List Eff) (h : ∀ e ∈ l, e.quiet = true) : EffAll LegalEff s l := by
  induction l generalizing s with
  | nil => trivial
  | cons e es ih =>
    refine ⟨?_, ih _ (fun x hx => h x (List.mem_cons_of_mem _ hx))⟩
    have := h e (List.mem_cons_self ..)
    cases e <;> simp_all [Eff.quiet]

theorem effAll_cons_quiet (s : State) (e : Eff) (l : List Eff) (he : e.quiet = true) (h : ∀ x ∈ l, x.quiet = true) :
    EffAll LegalEff s (e :: l) := effAll_quiet s (e :: l) (by intro x hx; rcases List.mem_cons.mp hx with rfl | h'; exact he; exact h x h')

theorem effAll_quietB (s : State) (l : List Eff) (h : l.all Eff.quiet = true) : EffAll LegalEff s l :=
  effAll_quiet s l (by simpa [List.all_eq_true] using h)

theorem effAll_write_then_quietB (s : State) (e : Eff) (l : List Eff) (he : LegalEff s e) (h : l.all Eff.quiet = true) :
    EffAll LegalEff s (e :: l) := ⟨he, effAll_quietB _ l h⟩

/-- one status-writing effect followed only by quiet ones -/
theorem effAll_write_then_quiet (s : State) (e : Eff) (l : List Eff) (he : LegalEff s e) (h : ∀ x ∈ l, x.quiet = true) :
    EffAll LegalEff s (e :: l) := ⟨he, effAll_quiet _ l h⟩

theorem canTransition_of (a b : Status) (h : a = b ∨ (Status.validNext a).contains b = true) :
    Status.canTransition a b = true := by
  unfold Status.canTransition
  rcases h with h | h
  · subst h; simp
  · rw [h]; simp

end Stab.Engine
