/-
  Helper definitions and lemmas for Props/C14 (vocabulary, case analysis of `Retry.step`, invariants).
-/
import Stab.Model.Retry

namespace Stab.Props.C14
open Stab Stab.Retry

/-- a task that raises `TransientError` on every execution (with arbitrary context updates) -/
def AlwaysFails (sc : Script) : Prop := ∀ n, ∃ u, sc.at n = .failT u

/-- a task that answers `RUNNING` on every execution -/
def AlwaysRunning (sc : Script) : Prop := ∀ n, ∃ u, sc.at n = .running u

/-- the limit `handle_exception` reads off every delivered message: `message.max_attempts or 10`, where
    `message.max_attempts` is the dataclass default (the payload field is popped, the column is not read back) -/
def limit (e : Env) : Nat := if e.dfltMax = 0 then 10 else e.dfltMax

/-- the context update an execution hands to the engine -/
def updOf : Act → Ctx
  | .failT u => u
  | .succeed u => u
  | .running u => u
  | .failP => []

/-- `ctx ⊕ update_1 ⊕ … ⊕ update_n` for the first `n` executions of the task -/
def ctxAfter (sc : Script) (c : Ctx) : Nat → Ctx
  | 0 => c
  | n + 1 => merge (ctxAfter sc c n) (updOf (sc.at n))

theorem ctxAfter_eq_foldl (sc : Script) (c : Ctx) (n : Nat) :
    ctxAfter sc c n = ((List.range n).map (fun j => updOf (sc.at j))).foldl merge c := by
  induction n with
  | zero => rfl
  | succ n ih => simp [ctxAfter, List.range_succ, List.foldl_append, ih]

theorem limit_pos (e : Env) : 0 < limit e := by
  unfold limit
  by_cases h0 : e.dfltMax = 0 <;> simp [h0]; omega

/-! ### `step`, case by case -/

theorem step_redeliver (v : Variant) (e : Env) (sc : Script) (s : State) (k : Nat) :
    step v e sc s (.redeliver k) = stepRedeliver e s k := rfl

/-- a redelivery of a left-behind row changes nothing but the list of left-behind rows -/
theorem redeliver_core (e : Env) (s : State) (k : Nat) :
    (stepRedeliver e s k).1.row = s.row ∧ (stepRedeliver e s k).1.ctx = s.ctx ∧
    (stepRedeliver e s k).1.execs = s.execs ∧ (stepRedeliver e s k).1.seen = s.seen ∧
    (stepRedeliver e s k).1.done = s.done := by
  unfold stepRedeliver
  cases s.stale[k]? with
  | none => exact ⟨rfl, rfl, rfl, rfl, rfl⟩
  | some r => simp only; split <;> exact ⟨rfl, rfl, rfl, rfl, rfl⟩

theorem step_noRow (v : Variant) (e : Env) (sc : Script) (s : State) (op : Op) (hop : ∀ k, op ≠ .redeliver k)
    (h : s.row = none) : step v e sc s op = (s, .noRow) := by
  cases op with
  | redeliver k => exact absurd rfl (hop k)
  | handle => simp [step, stepLive, h]
  | drop => simp [step, stepLive, h]
  | lose => simp [step, stepLive, h]

theorem step_stuck (v : Variant) (e : Env) (sc : Script) (s : State) (op : Op) (hop : ∀ k, op ≠ .redeliver k) (r : Row)
    (h : s.row = some r) (hq : ¬ r.attempts < e.qmax) : step v e sc s op = (s, .stuck) := by
  cases op with
  | redeliver k => exact absurd rfl (hop k)
  | handle => simp [step, stepLive, h, pollOne, hq]
  | drop => simp [step, stepLive, h, pollOne, hq]
  | lose => simp [step, stepLive, h, pollOne, hq]

theorem step_drop (v : Variant) (e : Env) (sc : Script) (s : State) (r : Row)
    (h : s.row = some r) (hq : r.attempts < e.qmax) :
    step v e sc s .drop = ({ s with row := some (claimed r) }, .dropped (claimed r).attempts) := by
  simp [step, stepLive, h, pollOne, hq]

theorem step_handle (v : Variant) (e : Env) (sc : Script) (s : State) (r : Row)
    (h : s.row = some r) (hq : r.attempts < e.qmax) :
    step v e sc s .handle = handleMsg v sc s (delivered e r) := by
  simp [step, stepLive, h, pollOne, hq]

theorem step_lose (v : Variant) (e : Env) (sc : Script) (s : State) (r : Row)
    (h : s.row = some r) (hq : r.attempts < e.qmax) :
    step v e sc s .lose =
      ({ (handleMsg v sc s (delivered e r)).1 with stale := (handleMsg v sc s (delivered e r)).1.stale ++ [claimed r] },
       .lostAck (handleMsg v sc s (delivered e r)).2) := by
  simp [step, stepLive, h, pollOne, hq]

theorem effMax_delivered (e : Env) (r : Row) : effMax (delivered e r) = limit e := by
  unfold effMax limit delivered deserialize; rfl

/-! ### before the F1 repair -/

/-- invariant of the legacy chain: the live row always has `attempts = 0` -/
def LegacyInv (s : State) (k : Nat) : Prop :=
  s.execs = k ∧ s.done = none ∧ ∃ r, s.row = some r ∧ r.attempts = 0

theorem legacy_step (e : Env) (hq : 0 < e.qmax) (hL : 3 ≤ limit e) (sc : Script) (hf : AlwaysFails sc)
    (s : State) (k : Nat) (h : LegacyInv s k) : LegacyInv (step .legacy e sc s .handle).1 (k + 1) := by
  obtain ⟨hx, hd, r, hr, ha⟩ := h
  obtain ⟨u, hu⟩ := hf s.execs
  rw [step_handle _ e sc s r hr (by omega)]
  have hlt : (delivered e r).attempts + 1 < effMax (delivered e r) := by
    rw [effMax_delivered]; simp [delivered, ha]; omega
  simp only [handleMsg, hu, handleTransient, currentAttempts, hlt, if_true]
  exact ⟨by simp [hx], hd, _, rfl, rfl⟩

/-! ### the code as it is -/

/-- invariant of the chain, for scripts that always fail -/
def FixInv (L : Nat) (s : State) : Prop :=
  s.execs ≤ L ∧ ∀ r, s.row = some r → s.execs ≤ r.attempts ∧ s.execs < L

theorem fix_handleMsg (e : Env) (sc : Script) (hf : AlwaysFails sc) (s : State) (r : Row)
    (hr : s.row = some r) (h : FixInv (limit e) s) : FixInv (limit e) (handleMsg .fixed sc s (delivered e r)).1 := by
  obtain ⟨hle, hrow⟩ := h
  obtain ⟨h1, h2⟩ := hrow r hr
  obtain ⟨u, hu⟩ := hf s.execs
  simp only [handleMsg, hu, handleTransient, currentAttempts]
  by_cases hlt : (delivered e r).attempts - 1 + 1 < effMax (delivered e r)
  · simp only [hlt, if_true]
    rw [effMax_delivered] at hlt
    simp only [delivered] at hlt
    refine ⟨by simp only; omega, ?_⟩
    intro r2 hr2
    simp only [Option.some.injEq] at hr2
    subst hr2
    refine ⟨?_, by simp only; omega⟩
    simp only [pushMessage, copyWithAttempts, delivered]; omega
  · simp only [hlt, if_false]
    exact ⟨by simp only; omega, by simp⟩

theorem fix_step (e : Env) (sc : Script) (hf : AlwaysFails sc) (s : State) (op : Op)
    (h : FixInv (limit e) s) : FixInv (limit e) (step .fixed e sc s op).1 := by
  by_cases hop : ∃ k, op = .redeliver k
  · obtain ⟨k, rfl⟩ := hop
    rw [step_redeliver]
    obtain ⟨h1, _, h3, _, _⟩ := redeliver_core e s k
    unfold FixInv
    rw [h1, h3]; exact h
  · have hop' : ∀ k, op ≠ .redeliver k := fun k hk => hop ⟨k, hk⟩
    cases hr : s.row with
    | none => rw [step_noRow _ _ _ _ _ hop' hr]; exact h
    | some r =>
      by_cases hq : r.attempts < e.qmax
      · cases op with
        | redeliver k => exact absurd rfl (hop' k)
        | drop =>
          obtain ⟨hle, hrow⟩ := h
          obtain ⟨h1, h2⟩ := hrow r hr
          rw [step_drop _ _ _ _ r hr hq]
          refine ⟨hle, ?_⟩
          intro r2 hr2
          simp only [Option.some.injEq] at hr2
          subst hr2
          exact ⟨by simp only [claimed]; omega, h2⟩
        | handle => rw [step_handle _ _ _ _ r hr hq]; exact fix_handleMsg e sc hf s r hr h
        | lose => rw [step_lose _ _ _ _ r hr hq]; exact fix_handleMsg e sc hf s r hr h
      · rw [step_stuck _ _ _ _ _ hop' r hr hq]; exact h

/-- state of the chain after `k < limit` straight deliveries -/
def FixAt (s : State) (k : Nat) : Prop :=
  s.execs = k ∧ s.done = none ∧ ∃ r, s.row = some r ∧ r.attempts = k

def Final (L : Nat) (s : State) : Prop :=
  s.execs = L ∧ s.done = some .terminal ∧ s.row = none

theorem fixAt_step (e : Env) (hq : limit e ≤ e.qmax) (sc : Script) (hf : AlwaysFails sc)
    (s : State) (k : Nat) (hk : k < limit e) (h : FixAt s k) :
    (k + 1 < limit e → FixAt (step .fixed e sc s .handle).1 (k + 1)) ∧
    (¬ k + 1 < limit e → Final (limit e) (step .fixed e sc s .handle).1) := by
  obtain ⟨hx, hd, r, hr, ha⟩ := h
  obtain ⟨u, hu⟩ := hf s.execs
  rw [step_handle _ e sc s r hr (by omega)]
  simp only [handleMsg, hu, handleTransient, currentAttempts]
  have hem : effMax (delivered e r) = limit e := effMax_delivered e r
  have hda : (delivered e r).attempts = k + 1 := by simp [delivered, ha]
  constructor
  · intro hlt
    have hc : (delivered e r).attempts - 1 + 1 < effMax (delivered e r) := by rw [hem, hda]; omega
    simp only [hc, if_true]
    refine ⟨by simp [hx], hd, _, rfl, ?_⟩
    simp only [pushMessage, copyWithAttempts, hda]; omega
  · intro hge
    have hc : ¬ (delivered e r).attempts - 1 + 1 < effMax (delivered e r) := by rw [hem, hda]; omega
    simp only [hc, if_false]
    exact ⟨by simp only; omega, rfl, rfl⟩

theorem final_stable (L : Nat) (e : Env) (sc : Script) (s : State) (h : Final L s) (ops : List Op) :
    Final L (run .fixed e sc s ops) := by
  induction ops generalizing s with
  | nil => simpa [run] using h
  | cons op ops ih =>
    apply ih
    by_cases hop : ∃ k, op = .redeliver k
    · obtain ⟨k, rfl⟩ := hop
      rw [step_redeliver]
      obtain ⟨h1, _, h3, _, h5⟩ := redeliver_core e s k
      unfold Final
      rw [h1, h3, h5]; exact h
    · rw [step_noRow _ _ _ _ _ (fun k hk => hop ⟨k, hk⟩) h.2.2]
      exact h

theorem merge_if (c u : Ctx) : (if u.isEmpty then c else merge c u) = merge c u := by
  cases u <;> simp [merge]

/-- invariant: every execution so far saw the accumulated context; while the task is still
    scheduled the durable context is the accumulated context -/
def CtxInv (sc : Script) (c : Ctx) (s : State) : Prop :=
  s.seen = (List.range s.execs).map (ctxAfter sc c) ∧ (s.row.isSome → s.ctx = ctxAfter sc c s.execs)

theorem ctx_handleMsg (v : Variant) (e : Env) (sc : Script) (c : Ctx) (s : State) (r : Row)
    (hr : s.row = some r) (h : CtxInv sc c s) : CtxInv sc c (handleMsg v sc s (delivered e r)).1 := by
  obtain ⟨hs, hc⟩ := h
  have hctx : s.ctx = ctxAfter sc c s.execs := hc (by simp [hr])
  have hseen : s.seen ++ [s.ctx] = (List.range (s.execs + 1)).map (ctxAfter sc c) := by
    rw [List.range_succ, List.map_append, hs, hctx]; rfl
  simp only [handleMsg]
  cases ha : sc.at s.execs with
  | failT u =>
    simp only []
    cases ht : handleTransient v (delivered e r) with
    | some rm =>
      refine ⟨hseen, fun _ => ?_⟩
      simp only [merge_if, ctxAfter, ha, updOf, hctx]
    | none => exact ⟨hseen, by simp⟩
  | failP => exact ⟨hseen, by simp⟩
  | succeed u => exact ⟨hseen, by simp⟩
  | running u =>
    refine ⟨hseen, fun _ => ?_⟩
    simp only [ctxAfter, ha, updOf, hctx]

theorem ctx_step (v : Variant) (e : Env) (sc : Script) (c : Ctx) (s : State) (op : Op)
    (h : CtxInv sc c s) : CtxInv sc c (step v e sc s op).1 := by
  by_cases hop : ∃ k, op = .redeliver k
  · obtain ⟨k, rfl⟩ := hop
    rw [step_redeliver]
    obtain ⟨h1, h2, h3, h4, _⟩ := redeliver_core e s k
    unfold CtxInv
    rw [h1, h2, h3, h4]; exact h
  · have hop' : ∀ k, op ≠ .redeliver k := fun k hk => hop ⟨k, hk⟩
    cases hr : s.row with
    | none => rw [step_noRow _ _ _ _ _ hop' hr]; exact h
    | some r =>
      by_cases hq : r.attempts < e.qmax
      · cases op with
        | redeliver k => exact absurd rfl (hop' k)
        | drop =>
          rw [step_drop _ _ _ _ r hr hq]
          exact ⟨h.1, fun _ => h.2 (by simp [hr])⟩
        | handle => rw [step_handle _ _ _ _ r hr hq]; exact ctx_handleMsg v e sc c s r hr h
        | lose => rw [step_lose _ _ _ _ r hr hq]; exact ctx_handleMsg v e sc c s r hr h
      · rw [step_stuck _ _ _ _ _ hop' r hr hq]; exact h

end Stab.Props.C14
