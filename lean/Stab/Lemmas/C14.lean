/-
  Helper definitions and lemmas for Props/C14 (vocabulary, case analysis of `Retry.step`, invariants).
-/
import Stab.Model.Retry

namespace Stab.Props.C14
open Stab Stab.Retry

/-- a task that raises `TransientError` on every execution (with arbitrary context updates) -/
def AlwaysFails (sc : Script) : Prop := ∀ n, ∃ u, sc.at n = .failT u

/-- a task that answers `RUNNING` on every execution -/
def AlwaysRunning (sc : Script) : Prop := ∀ n, ∃ u, sc.at n = .running u

/-- the limit `handle_exception` reads off a message delivered from row `r`
    (`message.max_attempts or 10`, where `message.max_attempts` is the dataclass default unless the
    environment copies the column back) -/
def seenMax (e : Env) (r : Row) : Nat :=
  if e.restoreMax then (if r.maxCol = 0 then 10 else r.maxCol) else 10

/-- the limit in force for a chain that starts with `max_attempts = m` on the first RunTask -/
def limit (e : Env) (m : Nat) : Nat := seenMax e (initRow m)

/-- the context update an execution hands to the engine -/
def updOf : Act → Ctx
  | .failT u => u
  | .succeed u => u
  | .running u => u
  | .failP => []

/-- `ctx ⊕ update_1 ⊕ … ⊕ update_n` for the first `n` executions of the task -/
def ctxAfter (sc : Script) (c : Ctx) : Nat → Ctx
  | 0 => c
  | n + 1 => merge (ctxAfter sc c n) (updOf (sc.at n))

theorem ctxAfter_eq_foldl (sc : Script) (c : Ctx) (n : Nat) :
    ctxAfter sc c n = ((List.range n).map (fun j => updOf (sc.at j))).foldl merge c := by
  induction n with
  | zero => rfl
  | succ n ih => simp [ctxAfter, List.range_succ, List.foldl_append, ih]

theorem limit_pos (e : Env) (m : Nat) : 0 < limit e m := by
  unfold limit seenMax initRow
  by_cases h : e.restoreMax <;> simp [h]
  by_cases h0 : m = 0 <;> simp [h0]; omega

theorem step_noRow (v : Variant) (e : Env) (sc : Script) (s : State) (op : Op) (h : s.row = none) :
    step v e sc s op = (s, .noRow) := by
  unfold step; simp [h]

theorem step_stuck (v : Variant) (e : Env) (sc : Script) (s : State) (op : Op) (r : Row)
    (h : s.row = some r) (hq : ¬ r.attempts < e.qmax) : step v e sc s op = (s, .stuck) := by
  unfold step; simp [h, pollOne, hq]

theorem step_drop (v : Variant) (e : Env) (sc : Script) (s : State) (r : Row)
    (h : s.row = some r) (hq : r.attempts < e.qmax) :
    step v e sc s .drop = ({ s with row := some (claimed r) }, .dropped (claimed r).attempts) := by
  unfold step; simp [h, pollOne, hq]

theorem step_handle (v : Variant) (e : Env) (sc : Script) (s : State) (r : Row)
    (h : s.row = some r) (hq : r.attempts < e.qmax) :
    step v e sc s .handle = handleMsg v sc s (delivered e r) := by
  unfold step; simp [h, pollOne, hq]

theorem effMax_delivered (e : Env) (r : Row) : effMax (delivered e r) = seenMax e r := by
  unfold effMax seenMax delivered deserialize defaultMax
  by_cases hr : e.restoreMax <;> simp [hr]

/-- the retry row pushed by the fixed code for a message delivered from `r` -/
theorem seenMax_push (v : Variant) (e : Env) (r : Row) (a : Nat) :
    seenMax e (pushMessage v (copyWithAttempts (delivered e r) a)) = seenMax e r := by
  unfold seenMax pushMessage copyWithAttempts delivered deserialize defaultMax
  by_cases hr : e.restoreMax <;> simp [hr]

/-- invariant of the unfixed chain: the live row always has `attempts = 0` -/
def CurInv (e : Env) (L : Nat) (s : State) (k : Nat) : Prop :=
  s.execs = k ∧ s.done = none ∧ ∃ r, s.row = some r ∧ r.attempts = 0 ∧ seenMax e r = L

theorem cur_step (e : Env) (hq : 0 < e.qmax) (L : Nat) (hL : 3 ≤ L) (sc : Script) (hf : AlwaysFails sc)
    (s : State) (k : Nat) (h : CurInv e L s k) : CurInv e L (step .current e sc s .handle).1 (k + 1) := by
  obtain ⟨hx, hd, r, hr, ha, hm⟩ := h
  obtain ⟨u, hu⟩ := hf s.execs
  rw [step_handle _ e sc s r hr (by omega)]
  have hlt : (delivered e r).attempts + 1 < effMax (delivered e r) := by
    rw [effMax_delivered, hm]; simp [delivered, ha]; omega
  simp only [handleMsg, hu, handleTransient, currentAttempts, hlt, if_true]
  exact ⟨by simp [hx], hd, _, rfl, rfl, by rw [seenMax_push, hm]⟩

/-- invariant of the fixed chain, for scripts that always fail -/
def FixInv (e : Env) (L : Nat) (s : State) : Prop :=
  s.execs ≤ L ∧ ∀ r, s.row = some r → s.execs ≤ r.attempts ∧ s.execs < L ∧ seenMax e r = L

theorem fix_step (e : Env) (L : Nat) (sc : Script) (hf : AlwaysFails sc) (s : State) (op : Op)
    (h : FixInv e L s) : FixInv e L (step .fixed e sc s op).1 := by
  obtain ⟨hle, hrow⟩ := h
  cases hr : s.row with
  | none => rw [step_noRow _ _ _ _ _ hr]; exact ⟨hle, hrow⟩
  | some r =>
    obtain ⟨h1, h2, h3⟩ := hrow r hr
    by_cases hq : r.attempts < e.qmax
    · cases op with
      | drop =>
        rw [step_drop _ _ _ _ r hr hq]
        refine ⟨hle, ?_⟩
        intro r2 hr2
        simp only [Option.some.injEq] at hr2
        subst hr2
        exact ⟨by simp only [claimed]; omega, h2, (rfl : seenMax e (claimed r) = seenMax e r).trans h3⟩
      | handle =>
        rw [step_handle _ _ _ _ r hr hq]
        obtain ⟨u, hu⟩ := hf s.execs
        simp only [handleMsg, hu, handleTransient, currentAttempts]
        by_cases hlt : (delivered e r).attempts - 1 + 1 < effMax (delivered e r)
        · simp only [hlt, if_true]
          rw [effMax_delivered, h3] at hlt
          simp only [delivered] at hlt
          refine ⟨by simp only; omega, ?_⟩
          intro r2 hr2
          simp only [Option.some.injEq] at hr2
          subst hr2
          refine ⟨?_, by simp only; omega, by rw [seenMax_push, h3]⟩
          simp only [pushMessage, copyWithAttempts, delivered]; omega
        · simp only [hlt, if_false]
          exact ⟨by simp only; omega, by simp⟩
    · rw [step_stuck _ _ _ _ _ r hr hq]; exact ⟨hle, hrow⟩

/-- state of the fixed chain after `k < limit` straight deliveries -/
def FixAt (e : Env) (L : Nat) (s : State) (k : Nat) : Prop :=
  s.execs = k ∧ s.done = none ∧ ∃ r, s.row = some r ∧ r.attempts = k ∧ seenMax e r = L

def Final (L : Nat) (s : State) : Prop :=
  s.execs = L ∧ s.done = some .terminal ∧ s.row = none

theorem fixAt_step (e : Env) (L : Nat) (hq : L ≤ e.qmax) (sc : Script) (hf : AlwaysFails sc)
    (s : State) (k : Nat) (hk : k < L) (h : FixAt e L s k) :
    (k + 1 < L → FixAt e L (step .fixed e sc s .handle).1 (k + 1)) ∧
    (¬ k + 1 < L → Final L (step .fixed e sc s .handle).1) := by
  obtain ⟨hx, hd, r, hr, ha, hmx⟩ := h
  obtain ⟨u, hu⟩ := hf s.execs
  rw [step_handle _ e sc s r hr (by omega)]
  simp only [handleMsg, hu, handleTransient, currentAttempts]
  have hem : effMax (delivered e r) = L := by rw [effMax_delivered, hmx]
  have hda : (delivered e r).attempts = k + 1 := by simp [delivered, ha]
  constructor
  · intro hlt
    have hc : (delivered e r).attempts - 1 + 1 < effMax (delivered e r) := by rw [hem, hda]; omega
    simp only [hc, if_true]
    refine ⟨by simp [hx], hd, _, rfl, ?_, by rw [seenMax_push, hmx]⟩
    simp only [pushMessage, copyWithAttempts, hda]; omega
  · intro hge
    have hc : ¬ (delivered e r).attempts - 1 + 1 < effMax (delivered e r) := by rw [hem, hda]; omega
    simp only [hc, if_false]
    exact ⟨by simp only; omega, rfl, rfl⟩

theorem final_stable (L : Nat) (e : Env) (sc : Script) (s : State) (h : Final L s) (ops : List Op) :
    Final L (run .fixed e sc s ops) := by
  induction ops generalizing s with
  | nil => simpa [run] using h
  | cons op ops ih =>
    apply ih
    rw [step_noRow _ _ _ _ _ h.2.2]
    exact h

theorem merge_if (c u : Ctx) : (if u.isEmpty then c else merge c u) = merge c u := by
  cases u <;> simp [merge]

/-- invariant: every execution so far saw the accumulated context; while the task is still
    scheduled the durable context is the accumulated context -/
def CtxInv (sc : Script) (c : Ctx) (s : State) : Prop :=
  s.seen = (List.range s.execs).map (ctxAfter sc c) ∧ (s.row.isSome → s.ctx = ctxAfter sc c s.execs)

theorem ctx_step (v : Variant) (e : Env) (sc : Script) (c : Ctx) (s : State) (op : Op)
    (h : CtxInv sc c s) : CtxInv sc c (step v e sc s op).1 := by
  obtain ⟨hs, hc⟩ := h
  cases hr : s.row with
  | none => rw [step_noRow _ _ _ _ _ hr]; exact ⟨hs, hc⟩
  | some r =>
    have hctx : s.ctx = ctxAfter sc c s.execs := hc (by simp [hr])
    by_cases hq : r.attempts < e.qmax
    · cases op with
      | drop => rw [step_drop _ _ _ _ r hr hq]; exact ⟨hs, fun _ => hctx⟩
      | handle =>
        rw [step_handle _ _ _ _ r hr hq]
        have hseen : s.seen ++ [s.ctx] = (List.range (s.execs + 1)).map (ctxAfter sc c) := by
          rw [List.range_succ, List.map_append, hs, hctx]; rfl
        simp only [handleMsg]
        cases ha : sc.at s.execs with
        | failT u =>
          simp only []
          cases ht : handleTransient v (delivered e r) with
          | some rm =>
            refine ⟨hseen, fun _ => ?_⟩
            simp only [merge_if, ctxAfter, ha, updOf, hctx]
          | none => exact ⟨hseen, by simp⟩
        | failP => exact ⟨hseen, by simp⟩
        | succeed u => exact ⟨hseen, by simp⟩
        | running u =>
          refine ⟨hseen, fun _ => ?_⟩
          simp only [ctxAfter, ha, updOf, hctx]
    · rw [step_stuck _ _ _ _ _ r hr hq]; exact ⟨hs, hc⟩

end Stab.Props.C14
