/-
  Vocabulary over the generated `Stab.Gen.TxnShapes` (shared by C09 and C13): what an entry does,
  read off its call / keyword list.
-/
import Stab.Gen.TxnShapes

namespace Stab.TxnShapes
open Stab.Gen.TxnShapes

def isAtomic (e : Entry) : Bool := e.kind == "atomic" || e.kind == "atomic_critical"

/-- a commit: a `with …transaction()` block or one `execute_atomic*` call -/
def isCommit (e : Entry) : Bool := e.kind == "with" || isAtomic e

/-- the commit writes the processed-mark of the message being handled -/
def marks (e : Entry) : Bool :=
  (e.kind == "with" && e.calls.contains "mark_message_processed") || (isAtomic e && e.calls.contains "source_message")

/-- the commit writes stage / workflow state -/
def storesState (e : Entry) : Bool :=
  (e.kind == "with" && (e.calls.contains "store_stage" || e.calls.contains "update_workflow_status"))
    || (isAtomic e && e.calls.contains "stage")

/-- the commit enqueues messages -/
def pushes (e : Entry) : Bool :=
  (e.kind == "with" && e.calls.contains "push_message") || (isAtomic e && e.calls.contains "messages_to_push")

/-- the commit appends events through the handler's recorder helpers -/
def records (e : Entry) : Bool :=
  e.kind == "with" && e.calls.any (fun c => c.startsWith "record_" || c.startsWith "_record_")

/-- stable identification of an entry (no line numbers) -/
def key (e : Entry) : String × String × Nat := (e.file, e.func, e.idx)

end Stab.TxnShapes
