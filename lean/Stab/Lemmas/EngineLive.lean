/-
  Towards the driver invariant (G2) behind C05: "queue drained ⇒ the workflow is final" for the plain workload
  class, along every delivery schedule (every pending message may be delivered next; each delivery is acknowledged).

  This file: the queue bookkeeping (`Plumb`) and the exact shape of one acknowledged delivery (`deliver_*` lemmas).
-/
import Stab.Lemmas.EngineGood

namespace Stab.Engine
open Stab

/-! ### what a list of effects pushes -/

def pushesOf : List Eff → List (Msg × Nat)
  | [] => []
  | .push m :: es => (m, 0) :: pushesOf es
  | .pushA m a :: es => (m, a) :: pushesOf es
  | _ :: es => pushesOf es

def mkRows : Nat → List (Msg × Nat) → List Row
  | _, [] => []
  | n, (m, a) :: ps => { id := n, msg := m, attempts := a } :: mkRows (n + 1) ps

theorem mkRows_length (n : Nat) (ps : List (Msg × Nat)) : (mkRows n ps).length = ps.length := by
  induction ps generalizing n with
  | nil => rfl
  | cons p ps ih => obtain ⟨m, a⟩ := p; simp [mkRows, ih]

theorem mkRows_ids (n : Nat) (ps : List (Msg × Nat)) : ∀ r ∈ mkRows n ps, n ≤ r.id ∧ r.id < n + ps.length := by
  induction ps generalizing n with
  | nil => intro r hr; cases hr
  | cons p ps ih =>
    obtain ⟨m, a⟩ := p
    intro r hr
    simp only [mkRows, List.mem_cons] at hr
    rcases hr with rfl | hr
    · simp
    · have := ih (n + 1) r hr
      simp only [List.length_cons]
      omega

theorem mkRows_nodup (n : Nat) (ps : List (Msg × Nat)) : ((mkRows n ps).map (·.id)).Nodup := by
  induction ps generalizing n with
  | nil => simp [mkRows]
  | cons p ps ih =>
    obtain ⟨m, a⟩ := p
    simp only [mkRows, List.map_cons, List.nodup_cons]
    refine ⟨?_, ih (n + 1)⟩
    intro hmem
    simp only [List.mem_map] at hmem
    obtain ⟨r, hr, hid⟩ := hmem
    have := (mkRows_ids (n + 1) ps r hr).1
    omega

theorem mkRows_msgs (n : Nat) (ps : List (Msg × Nat)) : (mkRows n ps).map (·.msg) = ps.map (·.1) := by
  induction ps generalizing n with
  | nil => rfl
  | cons p ps ih => obtain ⟨m, a⟩ := p; simp [mkRows, ih]

theorem mkRows_append (n : Nat) (a b : List (Msg × Nat)) :
    mkRows n (a ++ b) = mkRows n a ++ mkRows (n + a.length) b := by
  induction a generalizing n with
  | nil => simp [mkRows]
  | cons p ps ih =>
    obtain ⟨m, x⟩ := p
    simp only [List.cons_append, mkRows, ih, List.length_cons]
    have : n + 1 + ps.length = n + (ps.length + 1) := by omega
    rw [this]

theorem pushesOf_append (a b : List Eff) : pushesOf (a ++ b) = pushesOf a ++ pushesOf b := by
  induction a with
  | nil => rfl
  | cons e es ih => cases e <;> simp [pushesOf, ih]

/-- queue, id counter, processed marks after a list of effects -/
theorem applyTxn_queue (s : State) (l : List Eff) :
    (applyTxn s l).queue = s.queue ++ mkRows s.nextId (pushesOf l) ∧
    (applyTxn s l).nextId = s.nextId + (pushesOf l).length := by
  induction l generalizing s with
  | nil => simp [applyTxn, pushesOf, mkRows]
  | cons e es ih =>
    have h := ih (applyEff s e)
    simp only [applyTxn, List.foldl] at h ⊢
    cases e with
    | push m =>
      simp only [applyEff] at h ⊢
      rw [h.1, h.2]
      simp only [pushesOf, mkRows, List.length_cons, List.append_assoc, List.singleton_append]
      refine ⟨by simp, by omega⟩
    | pushA m a =>
      simp only [applyEff] at h ⊢
      rw [h.1, h.2]
      simp only [pushesOf, mkRows, List.length_cons, List.append_assoc, List.singleton_append]
      refine ⟨by simp, by omega⟩
    | setStage i new =>
      have hq : (applyEff s (.setStage i new)).queue = s.queue ∧ (applyEff s (.setStage i new)).nextId = s.nextId := by
        simp only [applyEff]; split <;> exact ⟨rfl, rfl⟩
      rw [h.1, h.2, hq.1, hq.2]; simp [pushesOf]
    | setWf st => rw [h.1, h.2]; simp [applyEff, pushesOf]
    | setCanceled => rw [h.1, h.2]; simp [applyEff, pushesOf]
    | mark id =>
      have hq : (applyEff s (.mark id)).queue = s.queue ∧ (applyEff s (.mark id)).nextId = s.nextId := by
        simp only [applyEff]; split <;> exact ⟨rfl, rfl⟩
      rw [h.1, h.2, hq.1, hq.2]; simp [pushesOf]

/-- the processed marks only grow, and only by marks of the effect list -/
def marksOf : List Eff → List Nat
  | [] => []
  | .mark id :: es => id :: marksOf es
  | _ :: es => marksOf es

theorem applyTxn_processed (s : State) (l : List Eff) :
    ∀ p, p ∈ (applyTxn s l).processed ↔ p ∈ s.processed ∨ p ∈ marksOf l := by
  induction l generalizing s with
  | nil => intro p; simp [applyTxn, marksOf]
  | cons e es ih =>
    intro p
    have h := ih (applyEff s e) p
    simp only [applyTxn, List.foldl] at h ⊢
    rw [h]
    cases e with
    | mark id =>
      simp only [marksOf, List.mem_cons]
      have : p ∈ (applyEff s (.mark id)).processed ↔ p ∈ s.processed ∨ p = id := by
        simp only [applyEff]
        split
        · rename_i hc
          have : id ∈ s.processed := by simpa using hc
          constructor
          · intro hp; exact Or.inl hp
          · rintro (hp | rfl) <;> assumption
        · simp
      rw [this]
      constructor
      · rintro ((h1 | h1) | h1)
        · exact Or.inl h1
        · exact Or.inr (Or.inl h1)
        · exact Or.inr (Or.inr h1)
      · rintro (h1 | h1 | h1)
        · exact Or.inl (Or.inl h1)
        · exact Or.inl (Or.inr h1)
        · exact Or.inr h1
    | setStage i new =>
      have : (applyEff s (.setStage i new)).processed = s.processed := by simp only [applyEff]; split <;> rfl
      rw [this]; simp [marksOf]
    | push m => simp [applyEff, marksOf]
    | pushA m a => simp [applyEff, marksOf]
    | setWf st => simp [applyEff, marksOf]
    | setCanceled => simp [applyEff, marksOf]

/-! ### queue bookkeeping invariant -/

structure Plumb (s : State) : Prop where
  ids : (s.queue.map (·.id)).Nodup
  fresh : ∀ r ∈ s.queue, r.id < s.nextId
  pfresh : ∀ p ∈ s.processed, p < s.nextId
  unproc : ∀ r ∈ s.queue, r.id ∉ s.processed

end Stab.Engine

namespace Stab.Engine
open Stab

/-! ### the shape of one acknowledged delivery -/

def sameCore (a b : State) : Prop := a.stages = b.stages ∧ a.wfStatus = b.wfStatus ∧ a.canceled = b.canceled

theorem sameCore_refl (a : State) : sameCore a a := ⟨rfl, rfl, rfl⟩

theorem applyEff_core (a b : State) (e : Eff) (h : sameCore a b) : sameCore (applyEff a e) (applyEff b e) := by
  obtain ⟨h1, h2, h3⟩ := h
  obtain ⟨q1, q2⟩ := applyEff_congr a b e h1 h2
  refine ⟨q1, q2, ?_⟩
  cases e <;> simp only [applyEff] <;> (repeat' split) <;> simp_all

theorem applyTxn_core (a b : State) (l : List Eff) (h : sameCore a b) : sameCore (applyTxn a l) (applyTxn b l) := by
  induction l generalizing a b with
  | nil => simpa [applyTxn] using h
  | cons e es ih =>
    have := ih _ _ (applyEff_core a b e h)
    simpa [applyTxn, List.foldl] using this

theorem handle_claimRow (c : Cfg) (s : State) (id : Nat) (row : Row) : handle c (claimRow s id) row = handle c s row := rfl
theorem raises_claimRow (c : Cfg) (s : State) (id : Nat) (row : Row) : raises c (claimRow s id) row = raises c s row := rfl

theorem raises_no_effects (c : Cfg) (s : State) (row : Row) (h : raises c s row = true) :
    (handle c s row).1 = [] ∧ (handle c s row).2 = false := by
  unfold raises at h
  split at h
  · rename_i r hm
    unfold handle
    simp only [hm]
    unfold completeWorkflowRaises at h
    simp only [Bool.and_eq_true, Bool.not_eq_true'] at h
    obtain ⟨h1, h2⟩ := h
    unfold hCompleteWorkflow
    simp only [h1, Bool.false_eq_true, ↓reduceIte]
    split at h2
    · cases h2
    · rename_i status hfs
      simp only [Bool.not_eq_true'] at h2 ⊢
      simp [h2]
  · cases h

theorem find_mem {s : State} {id : Nat} {r : Row} (hf : s.queue.find? (fun x => x.id == id) = some r) :
    r ∈ s.queue ∧ r.id = id := by
  refine ⟨List.mem_of_find?_eq_some hf, ?_⟩
  have := List.find?_some hf
  simpa using this

theorem claimRow_queue_filter (s : State) (id : Nat) :
    (claimRow s id).queue.filter (fun x => x.id != id) = s.queue.filter (fun x => x.id != id) := by
  simp only [claimRow]
  induction s.queue with
  | nil => rfl
  | cons x xs ih =>
    simp only [List.map_cons, List.filter_cons]
    by_cases hx : x.id = id
    · have h1 : (x.id == id) = true := by simpa using hx
      simp only [h1, ↓reduceIte]
      have h2 : (x.id != id) = false := by simp [hx]
      simp only [h2, Bool.false_eq_true, ↓reduceIte]
      exact ih
    · have h1 : (x.id == id) = false := by simpa using hx
      have h2 : (x.id != id) = true := by simp [hx]
      simp only [h1, Bool.false_eq_true, ↓reduceIte, h2]
      rw [ih]

theorem claimRow_queue_ids (s : State) (id : Nat) : (claimRow s id).queue.map (·.id) = s.queue.map (·.id) := by
  simp only [claimRow, List.map_map]
  apply List.map_congr_left
  intro x _
  simp only [Function.comp]
  split <;> rfl

theorem claimRow_queue_msgs (s : State) (id : Nat) : (claimRow s id).queue.map (·.msg) = s.queue.map (·.msg) := by
  simp only [claimRow, List.map_map]
  apply List.map_congr_left
  intro x _
  simp only [Function.comp]
  split <;> rfl

/-- a delivery whose handler raises (only CompleteWorkflow can) changes nothing but the row's attempt counter -/
theorem deliver_raises (c : Cfg) (s : State) (id : Nat) (r : Row)
    (hf : s.queue.find? (fun x => x.id == id) = some r) (hun : r.id ∉ s.processed)
    (hr : raises c s { r with attempts := r.attempts + 1 } = true) :
    step c s (.deliver id) = claimRow s id := by
  obtain ⟨hmem, hid⟩ := find_mem hf
  simp only [step, hf, deliverRow]
  have hnp : (claimRow s r.id).processed.contains r.id = false := by
    simp only [claimRow_processed]; simpa using hun
  simp only [hnp, Bool.false_eq_true, ↓reduceIte, raises_claimRow, hr]
  obtain ⟨h1, h2⟩ := raises_no_effects c s _ hr
  unfold afterHandle
  simp only [handle_claimRow, h1, h2, Bool.false_and, Bool.false_eq_true, ↓reduceIte, applyTxns, List.foldl]
  rw [hid]

structure DeliverShape (c : Cfg) (s : State) (id : Nat) (r : Row) (s' : State) : Prop where
  queue : s'.queue = s.queue.filter (fun x => x.id != id) ++
            mkRows s.nextId (pushesOf (handle c s { r with attempts := r.attempts + 1 }).1.flatten)
  nextId : s'.nextId = s.nextId + (pushesOf (handle c s { r with attempts := r.attempts + 1 }).1.flatten).length
  core : sameCore s' (applyTxn s (handle c s { r with attempts := r.attempts + 1 }).1.flatten)
  processed : ∀ p, p ∈ s'.processed ↔
      p ∈ s.processed ∨ p ∈ marksOf (handle c s { r with attempts := r.attempts + 1 }).1.flatten ∨ p = id

theorem applyEff_mark_stages' (s : State) (id : Nat) : (applyEff s (.mark id)).stages = s.stages := by
  simp only [applyEff]; split <;> rfl
theorem applyEff_mark_wf' (s : State) (id : Nat) : (applyEff s (.mark id)).wfStatus = s.wfStatus := by
  simp only [applyEff]; split <;> rfl
theorem applyEff_mark_canceled' (s : State) (id : Nat) : (applyEff s (.mark id)).canceled = s.canceled := by
  simp only [applyEff]; split <;> rfl

theorem recordExec_core (c : Cfg) (s : State) (row : Row) : sameCore (recordExec c s row) s := by
  unfold recordExec; split <;> simp [sameCore, bumpCount]

theorem recordExec_queue (c : Cfg) (s : State) (row : Row) :
    (recordExec c s row).queue = s.queue ∧ (recordExec c s row).nextId = s.nextId ∧ (recordExec c s row).processed = s.processed := by
  unfold recordExec; split <;> simp [bumpCount]

/-- an acknowledged delivery whose handler does not raise: the row leaves the queue, the handler's pushes are appended
    with fresh ids, stage rows / workflow status are those the handler's effects produce, the row id is marked -/
theorem deliver_shape (c : Cfg) (s : State) (id : Nat) (r : Row)
    (hf : s.queue.find? (fun x => x.id == id) = some r) (hun : r.id ∉ s.processed) (hlt : r.id < s.nextId)
    (hr : raises c s { r with attempts := r.attempts + 1 } = false) :
    DeliverShape c s id r (step c s (.deliver id)) := by
  obtain ⟨hmem, hid⟩ := find_mem hf
  subst hid
  have hstep : step c s (.deliver r.id) =
      ackRow (applyEff (afterHandle c (claimRow s r.id) { r with attempts := r.attempts + 1 } none) (.mark r.id)) r.id := by
    simp only [step, hf, deliverRow]
    have hnp : (claimRow s r.id).processed.contains r.id = false := by
      simp only [claimRow_processed]; simpa using hun
    simp only [hnp, Bool.false_eq_true, ↓reduceIte, raises_claimRow, hr]
  rw [hstep]
  -- the state the effects are applied to
  generalize hs2 : (if (handle c s { r with attempts := r.attempts + 1 }).2 = true
      then recordExec c (claimRow s r.id) { r with attempts := r.attempts + 1 } else claimRow s r.id) = s2
  have hah : afterHandle c (claimRow s r.id) { r with attempts := r.attempts + 1 } none =
      applyTxn s2 (handle c s { r with attempts := r.attempts + 1 }).1.flatten := by
    unfold afterHandle
    have hk : ((none : Option Nat) == some 0) = false := rfl
    simp only [hk, Bool.and_false, Bool.false_eq_true, ↓reduceIte]
    rw [applyTxns_eq_flatten]
    show applyTxn (if (handle c s { r with attempts := r.attempts + 1 }).2 = true
      then recordExec c (claimRow s r.id) { r with attempts := r.attempts + 1 } else claimRow s r.id) _ = _
    rw [hs2]
    rfl
  rw [hah]
  have h2 : s2.queue = (claimRow s r.id).queue ∧ s2.nextId = s.nextId ∧ s2.processed = s.processed ∧ sameCore s2 s := by
    subst hs2
    split
    · obtain ⟨q1, q2, q3⟩ := recordExec_queue c (claimRow s r.id) { r with attempts := r.attempts + 1 }
      exact ⟨q1, q2, q3, recordExec_core c _ _⟩
    · exact ⟨rfl, rfl, rfl, sameCore_refl _⟩
  obtain ⟨q1, q2, q3, q4⟩ := h2
  obtain ⟨hq, hn⟩ := applyTxn_queue s2 (handle c s { r with attempts := r.attempts + 1 }).1.flatten
  have hmq : ∀ x : State, (applyEff x (.mark r.id)).queue = x.queue ∧ (applyEff x (.mark r.id)).nextId = x.nextId := by
    intro x; simp only [applyEff]; split <;> exact ⟨rfl, rfl⟩
  refine ⟨?_, ?_, ?_, ?_⟩
  · -- queue
    simp only [ackRow, (hmq _).1, hq, q1, q2, List.filter_append, claimRow_queue_filter]
    congr 1
    apply List.filter_eq_self.mpr
    intro x hx
    have := (mkRows_ids _ _ x hx).1
    simp only [bne_iff_ne, ne_eq]
    omega
  · simp only [ackRow, (hmq _).2, hn, q2]
  · have hc := applyTxn_core s2 s (handle c s { r with attempts := r.attempts + 1 }).1.flatten q4
    obtain ⟨c1, c2, c3⟩ := hc
    refine ⟨?_, ?_, ?_⟩
    · simp only [ackRow]; rw [applyEff_mark_stages']; exact c1
    · simp only [ackRow]; rw [applyEff_mark_wf']; exact c2
    · simp only [ackRow]; rw [applyEff_mark_canceled']; exact c3
  · intro p
    simp only [ackRow]
    have hm : p ∈ (applyEff (applyTxn s2 (handle c s { r with attempts := r.attempts + 1 }).1.flatten) (.mark r.id)).processed ↔
        p ∈ (applyTxn s2 (handle c s { r with attempts := r.attempts + 1 }).1.flatten).processed ∨ p = r.id := by
      simp only [applyEff]
      split
      · rename_i hc
        have : r.id ∈ (applyTxn s2 (handle c s { r with attempts := r.attempts + 1 }).1.flatten).processed := by simpa using hc
        constructor
        · intro hp; exact Or.inl hp
        · rintro (hp | rfl) <;> assumption
      · simp
    rw [hm, applyTxn_processed, q3]
    constructor
    · rintro ((h1 | h1) | h1)
      · exact Or.inl h1
      · exact Or.inr (Or.inl h1)
      · exact Or.inr (Or.inr h1)
    · rintro (h1 | h1 | h1)
      · exact Or.inl (Or.inl h1)
      · exact Or.inl (Or.inr h1)
      · exact Or.inr h1

end Stab.Engine

namespace Stab.Engine
open Stab

/-! ### handlers mark only the message they handle -/

theorem mem_marksOf (l : List Eff) (p : Nat) : p ∈ marksOf l ↔ Eff.mark p ∈ l := by
  induction l with
  | nil => simp [marksOf]
  | cons e es ih => cases e <;> simp [marksOf, ih]

theorem mem_joinTracking_flatten (c : Cfg) (s : State) (i : Nat) (e : Eff) (h : e ∈ (joinTracking c s i).flatten) :
    ∃ d new, e = .setStage d new := by
  unfold joinTracking at h
  simp only [List.mem_flatten, List.mem_filterMap] at h
  obtain ⟨l, ⟨d, _, hd⟩, he⟩ := h
  split at hd
  · split at hd
    · cases hd
    · cases hd
      simp only [List.mem_singleton] at he
      exact ⟨_, _, he⟩
  · cases hd

theorem handle_marks (c : Cfg) (s : State) (row : Row) : ∀ p ∈ marksOf (handle c s row).1.flatten, p = row.id := by
  intro p hp
  rw [mem_marksOf] at hp
  unfold handle at hp
  cases hm : row.msg with
  | startWorkflow =>
    simp only [hm, hStartWorkflow] at hp
    (repeat' split at hp) <;> simp_all
  | startStage i r =>
    simp only [hm, hStartStage, hStartStageCore, startIfReady] at hp
    (repeat' split at hp) <;> simp_all
  | startTask i t =>
    simp only [hm, hStartTask] at hp
    (repeat' split at hp) <;> simp_all
  | runTask i t =>
    simp only [hm, hRunTask] at hp
    split at hp
    · rename_i txns hg
      unfold runTaskGuard at hg
      simp only [] at hg
      (repeat' split at hg) <;> (try (cases hg)) <;> (try (simp at hg)) <;> (try (subst hg)) <;> simp_all
    · simp only [runTaskCommit, processResult] at hp
      (repeat' split at hp) <;> simp_all
  | completeTask i t st =>
    simp only [hm, hCompleteTask] at hp
    (repeat' split at hp) <;> simp_all
  | completeStage i =>
    simp only [hm, hCompleteStage] at hp
    (repeat' split at hp) <;> (try simp_all)
    all_goals (
      rcases hp with ⟨l, hl, hmem⟩ | hp
      · obtain ⟨d, new, hd⟩ := mem_joinTracking_flatten c s i _ (List.mem_flatten.mpr ⟨l, hl, hmem⟩)
        cases hd
      · exact hp)
  | skipStage i =>
    simp only [hm, hSkipStage] at hp
    (repeat' split at hp) <;> simp_all
  | cancelStage i =>
    simp only [hm, hCancelStage] at hp
    (repeat' split at hp) <;> simp_all
  | completeWorkflow r =>
    simp only [hm, hCompleteWorkflow] at hp
    (repeat' split at hp) <;> simp_all
  | cancelWorkflow =>
    simp only [hm, hCancelWorkflow] at hp
    (repeat' split at hp) <;> simp_all
  | jumpToStage a b =>
    simp only [hm, hJumpToStage] at hp
    (repeat' split at hp) <;> simp_all
  | signalStage i pp =>
    simp only [hm, hSignalStage] at hp
    (repeat' split at hp) <;> simp_all

/-! ### `Plumb` is preserved by every acknowledged delivery -/

theorem plumb_of_shape (c : Cfg) (s : State) (id : Nat) (r : Row) (s' : State) (hp : Plumb s)
    (hmem : r ∈ s.queue) (hid : r.id = id) (h : DeliverShape c s id r s') : Plumb s' := by
  have hnew := mkRows_ids s.nextId (pushesOf (handle c s { r with attempts := r.attempts + 1 }).1.flatten)
  refine ⟨?_, ?_, ?_, ?_⟩
  · rw [h.queue, List.map_append, List.nodup_append]
    refine ⟨(hp.ids.sublist ((List.filter_sublist).map _)), mkRows_nodup _ _, ?_⟩
    intro a ha b hb hab
    simp only [List.mem_map] at ha hb
    obtain ⟨x, hx, rfl⟩ := ha
    obtain ⟨y, hy, rfl⟩ := hb
    have h1 := hp.fresh x (List.mem_filter.mp hx).1
    have h2 := (hnew y hy).1
    omega
  · intro x hx
    rw [h.queue] at hx
    rw [h.nextId]
    rcases List.mem_append.mp hx with h1 | h1
    · have := hp.fresh x (List.mem_filter.mp h1).1; omega
    · exact (hnew x h1).2
  · intro p hpp
    rw [h.nextId]
    rcases (h.processed p).mp hpp with h1 | h1 | h1
    · have := hp.pfresh p h1; omega
    · have := handle_marks c s { r with attempts := r.attempts + 1 } p h1
      have h2 := hp.fresh r hmem
      simp only at this
      omega
    · have h2 := hp.fresh r hmem
      omega
  · intro x hx hproc
    rw [h.queue] at hx
    rcases List.mem_append.mp hx with h1 | h1
    · have hxq := (List.mem_filter.mp h1).1
      have hne : x.id ≠ id := by
        have := (List.mem_filter.mp h1).2
        simpa using this
      rcases (h.processed x.id).mp hproc with h2 | h2 | h2
      · exact hp.unproc x hxq h2
      · have := handle_marks c s { r with attempts := r.attempts + 1 } x.id h2
        simp only at this
        exact hne (this.trans hid)
      · exact hne h2
    · have hge := (hnew x h1).1
      rcases (h.processed x.id).mp hproc with h2 | h2 | h2
      · have := hp.pfresh _ h2; omega
      · have := handle_marks c s { r with attempts := r.attempts + 1 } x.id h2
        have h3 := hp.fresh r hmem
        simp only at this
        omega
      · have h3 := hp.fresh r hmem
        omega

theorem claimRow_plumb (s : State) (id : Nat) (hp : Plumb s) : Plumb (claimRow s id) := by
  refine ⟨?_, ?_, hp.pfresh, ?_⟩
  · rw [claimRow_queue_ids]; exact hp.ids
  · intro x hx
    simp only [claimRow, List.mem_map] at hx
    obtain ⟨y, hy, rfl⟩ := hx
    have := hp.fresh y hy
    show (if (y.id == id) = true then { y with attempts := y.attempts + 1 } else y).id < s.nextId
    split <;> exact this
  · intro x hx
    simp only [claimRow, List.mem_map] at hx
    obtain ⟨y, hy, rfl⟩ := hx
    have := hp.unproc y hy
    show (if (y.id == id) = true then { y with attempts := y.attempts + 1 } else y).id ∉ s.processed
    split <;> exact this

/-- every acknowledged delivery keeps the queue bookkeeping sound -/
theorem deliver_plumb (c : Cfg) (s : State) (id : Nat) (hp : Plumb s) : Plumb (step c s (.deliver id)) := by
  cases hf : s.queue.find? (fun x => x.id == id) with
  | none => simp only [step, hf]; exact hp
  | some r =>
    obtain ⟨hmem, hid⟩ := find_mem hf
    have hun := hp.unproc r hmem
    cases hr : raises c s { r with attempts := r.attempts + 1 } with
    | true => rw [deliver_raises c s id r hf hun hr]; exact claimRow_plumb s id hp
    | false => exact plumb_of_shape c s id r _ hp hmem hid (deliver_shape c s id r hf hun (hp.fresh r hmem) hr)

theorem start_plumb (c : Cfg) : Plumb (start c) := by
  refine ⟨?_, ?_, ?_, ?_⟩ <;> simp [start, applyEff, initState]

end Stab.Engine
