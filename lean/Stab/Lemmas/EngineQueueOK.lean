/-
  Queue invariant: every CompleteTask message carries a status RUNNING may move to, and — for
  workflows whose task scripts contain no jump — no JumpToStage message ever exists.
-/
import Stab.Lemmas.EngineLegalHandlers3

namespace Stab.Engine
open Stab

/-- messages whose handler only writes legal transitions in any state -/
def MsgOK : Msg → Prop
  | .completeTask _ _ st => Status.canTransition .running st = true
  | .jumpToStage _ _ => False
  | _ => True

def EffOK : Eff → Prop
  | .push m => MsgOK m
  | .pushA m _ => MsgOK m
  | _ => True

/-- no task script of the workflow ever asks for a jump -/
def NoJumpCfg (c : Cfg) : Prop :=
  ∀ sc ∈ c.stages, ∀ script ∈ sc.tasks, ∀ o ∈ script, ∀ t, o ≠ Outcome.jump t

theorem failureStatus_ok (sc : StageCfg) (d : Status) (hd : Status.canTransition .running d = true) :
    Status.canTransition .running (failureStatus sc d) = true := by
  unfold failureStatus
  split
  · decide
  · split
    · exact hd
    · decide

theorem outcomeAt_mem (sc : StageCfg) (t n : Nat) :
    outcomeAt sc t n = .succ ∨ ∃ script ∈ sc.tasks, outcomeAt sc t n ∈ script := by
  unfold outcomeAt
  simp only [List.getD_eq_getElem?_getD]
  cases hs : sc.tasks[t]? with
  | none => left; simp
  | some script =>
    simp only [Option.getD_some]
    cases hx : script[min (n - 1) (script.length - 1)]? with
    | none => left; simp
    | some x =>
      right
      exact ⟨script, List.mem_of_getElem? hs, by simpa using List.mem_of_getElem? hx⟩

theorem outcomeAt_not_jump (c : Cfg) (hc : NoJumpCfg c) (i t n tgt : Nat) :
    outcomeAt (c.stage i) t n ≠ .jump tgt := by
  intro h
  rcases outcomeAt_mem (c.stage i) t n with h1 | ⟨script, hs, hm⟩
  · rw [h1] at h; cases h
  · unfold Cfg.stage at hs hm h
    simp only [List.getD_eq_getElem?_getD] at hs hm h
    cases hi : c.stages[i]? with
    | none => rw [hi] at hs; simp [default, instInhabitedStageCfg.default] at hs
    | some sc =>
      rw [hi] at hs hm h
      simp only [Option.getD_some] at hs hm h
      exact hc sc (List.mem_of_getElem? hi) script hs _ hm tgt h

end Stab.Engine

namespace Stab.Engine
open Stab

/-- list form: every effect of the list is OK -/
def EffsOK (l : List Eff) : Prop := ∀ e ∈ l, EffOK e

theorem effsOK_nil : EffsOK [] := by intro e he; cases he
theorem effsOK_cons (e : Eff) (l : List Eff) : EffsOK (e :: l) ↔ EffOK e ∧ EffsOK l := by
  simp [EffsOK]
theorem effsOK_append (a b : List Eff) : EffsOK (a ++ b) ↔ EffsOK a ∧ EffsOK b := by
  simp [EffsOK, or_imp, forall_and]
theorem effsOK_map_push (l : List Nat) (f : Nat → Msg) (h : ∀ i, MsgOK (f i)) :
    EffsOK (l.map (fun i => Eff.push (f i))) := by
  intro e he
  simp only [List.mem_map] at he
  obtain ⟨i, _, rfl⟩ := he
  exact h i

macro "effs_tac" : tactic =>
  `(tactic| (simp only [List.flatten_cons, List.flatten_nil, List.append_nil, List.cons_append, List.nil_append, effsOK_cons, effsOK_append, effsOK_nil, EffOK, MsgOK, and_true, true_and, and_self]))

theorem hStartWorkflow_ok (c : Cfg) (s : State) (id : Nat) : EffsOK (hStartWorkflow c s id).flatten := by
  unfold hStartWorkflow
  simp only []
  repeat' split
  all_goals (first | exact effsOK_nil | (effs_tac; try exact effsOK_map_push _ _ (fun _ => trivial)))

theorem startIfReady_ok (c : Cfg) (s : State) (id i : Nat) (b : Bool) : EffsOK (startIfReady c s id i b).flatten := by
  unfold startIfReady
  simp only []
  repeat' split
  all_goals (first | exact effsOK_nil | effs_tac)

theorem hStartStage_ok (c : Cfg) (s : State) (id i r : Nat) : EffsOK (hStartStage c s id i r).flatten := by
  unfold hStartStage
  split
  · split
    · effs_tac
    · intro e he; simp at he
  unfold hStartStageCore
  simp only []
  split
  · exact startIfReady_ok _ _ _ _ _
  · effs_tac
  · repeat' split
    all_goals (first | exact effsOK_nil | effs_tac)

theorem hStartTask_ok (c : Cfg) (s : State) (id i t : Nat) : EffsOK (hStartTask c s id i t).flatten := by
  unfold hStartTask
  simp only []
  repeat' split
  all_goals (first | exact effsOK_nil | effs_tac)

theorem processResult_ok (c : Cfg) (st : StageSt) (id i t n : Nat) (oc : Outcome) (hj : ∀ tgt, oc ≠ .jump tgt) :
    EffsOK (processResult c st id i t n oc).flatten := by
  unfold processResult
  simp only []
  cases oc
  case jump tgt => exact absurd rfl (hj tgt)
  case suspend =>
    simp only []
    repeat' split
    all_goals effs_tac
  case canceled => effs_tac; exact failureStatus_ok _ _ (by decide)
  case terminal => effs_tac; exact failureStatus_ok _ _ (by decide)
  case permanent => effs_tac; exact failureStatus_ok _ _ (by decide)
  case transient => exact effsOK_nil
  all_goals (effs_tac; try decide)

theorem runTaskGuard_ok (s : State) (id i t : Nat) (txns : List Txn) (h : runTaskGuard s id i t = some txns) :
    EffsOK txns.flatten := by
  unfold runTaskGuard at h
  simp only [] at h
  (repeat' split at h) <;> simp at h <;> subst h
  · effs_tac
  · effs_tac; decide
  · effs_tac; decide

theorem runTaskCommit_ok (c : Cfg) (hc : NoJumpCfg c) (st : StageSt) (id i t a n : Nat) :
    EffsOK (runTaskCommit c st id i t a n (outcomeAt (c.stage i) t n)).flatten := by
  unfold runTaskCommit
  split
  · simp only []
    split
    · effs_tac
    · effs_tac; exact failureStatus_ok _ _ (by decide)
  · exact processResult_ok _ _ _ _ _ _ _ (fun tgt => outcomeAt_not_jump c hc i t _ tgt)

theorem hRunTask_ok (c : Cfg) (hc : NoJumpCfg c) (s : State) (id i t a : Nat) : EffsOK (hRunTask c s id i t a).1.flatten := by
  unfold hRunTask
  split
  · rename_i txns hg
    exact runTaskGuard_ok s id i t txns hg
  · exact runTaskCommit_ok c hc _ _ _ _ _ _

theorem hCompleteTask_ok (c : Cfg) (s : State) (id i t : Nat) (st : Status) : EffsOK (hCompleteTask c s id i t st).flatten := by
  unfold hCompleteTask
  simp only []
  repeat' split
  all_goals (first | exact effsOK_nil | effs_tac)

theorem joinTracking_ok (c : Cfg) (s : State) (i : Nat) : EffsOK (joinTracking c s i).flatten := by
  intro e he
  simp only [joinTracking, List.mem_flatten, List.mem_filterMap] at he
  obtain ⟨txn, ⟨d, _, hd⟩, hmem⟩ := he
  split at hd
  · split at hd
    · cases hd
    · cases hd; simp only [List.mem_singleton] at hmem; subst hmem; trivial
  · cases hd

theorem splitCont_ok (sc : StageCfg) (down : List Nat) : EffsOK (splitCont sc down) := by
  unfold splitCont
  split
  · effs_tac
  · rw [effsOK_append]
    exact ⟨effsOK_map_push _ _ (fun _ => trivial), effsOK_map_push _ _ (fun _ => trivial)⟩

theorem hCompleteStage_ok (c : Cfg) (s : State) (id i : Nat) : EffsOK (hCompleteStage c s id i).flatten := by
  unfold hCompleteStage
  simp only []
  split
  · effs_tac
  · split
    · split
      · effs_tac
      · exact effsOK_nil
    · split
      · effs_tac
      · split
        · effs_tac
        · split
          · rw [List.flatten_append, effsOK_append]
            refine ⟨joinTracking_ok c s i, ?_⟩
            effs_tac
            exact splitCont_ok _ _
          · effs_tac

theorem hSkipStage_ok (c : Cfg) (s : State) (id i : Nat) : EffsOK (hSkipStage c s id i).flatten := by
  unfold hSkipStage
  simp only []
  split
  · exact effsOK_nil
  split
  · split
    · effs_tac
    · exact effsOK_nil
  · effs_tac
    split
    · effs_tac
    · exact effsOK_map_push _ _ (fun _ => trivial)

theorem hCancelStage_ok (c : Cfg) (s : State) (id i : Nat) : EffsOK (hCancelStage c s id i).flatten := by
  unfold hCancelStage
  simp only []
  repeat' split
  all_goals (first | exact effsOK_nil | effs_tac)

theorem hCompleteWorkflow_ok (c : Cfg) (s : State) (id r : Nat) : EffsOK (hCompleteWorkflow c s id r).flatten := by
  unfold hCompleteWorkflow
  simp only []
  repeat' split
  all_goals (first | exact effsOK_nil | (effs_tac; try exact effsOK_map_push _ _ (fun _ => trivial)))

theorem hCancelWorkflow_ok (c : Cfg) (s : State) (id : Nat) : EffsOK (hCancelWorkflow c s id).flatten := by
  unfold hCancelWorkflow
  simp only []
  split
  · split
    · effs_tac
      exact effsOK_map_push _ _ (fun _ => trivial)
    · effs_tac
  · effs_tac
    exact effsOK_map_push _ _ (fun _ => trivial)

theorem hSignalStage_ok (c : Cfg) (s : State) (id i : Nat) (p : Bool) : EffsOK (hSignalStage c s id i p).flatten := by
  unfold hSignalStage
  simp only []
  repeat' split
  all_goals (first | exact effsOK_nil | effs_tac)

end Stab.Engine
