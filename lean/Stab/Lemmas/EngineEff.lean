/-
  Reasoning about handlers as effect lists: how one effect changes the state, and a generic
  "every effect satisfies P at the moment it is applied" predicate (`EffAll`).
-/
import Stab.Lemmas.EngineBasic

namespace Stab.Engine

/-! ### stage lookup after effects -/

theorem stage_set_self (l : List StageSt) (i : Nat) (x : StageSt) (h : i < l.length) :
    (l.set i x).getD i default = x := by
  simp [List.getD_eq_getElem?_getD, h]

theorem stage_set_other (l : List StageSt) (i j : Nat) (x : StageSt) (h : i ≠ j) :
    (l.set i x).getD j default = l.getD j default := by
  simp [List.getD_eq_getElem?_getD, List.getElem?_set_ne h]

theorem applyEff_setStage_stage (s : State) (i j : Nat) (new : StageSt) :
    (applyEff s (.setStage i new)).stage j =
      if i = j ∧ i < s.stages.length then { new with version := (s.stage i).version + 1 } else s.stage j := by
  simp only [applyEff, State.stage]
  by_cases hlt : i < s.stages.length
  · have hge : ¬ (i ≥ s.stages.length) := Nat.not_le.mpr hlt
    simp only [hge, ↓reduceIte]
    by_cases hij : i = j
    · subst hij; simp [List.getD_eq_getElem?_getD, hlt]
    · simp [List.getD_eq_getElem?_getD, List.getElem?_set_ne hij, hij]
  · have hge : i ≥ s.stages.length := Nat.le_of_not_lt hlt
    simp [hge, hlt]

@[simp] theorem applyEff_setStage_length (s : State) (i : Nat) (new : StageSt) :
    (applyEff s (.setStage i new)).stages.length = s.stages.length := by
  simp only [applyEff]; split <;> simp

@[simp] theorem applyEff_stages_length (s : State) (e : Eff) : (applyEff s e).stages.length = s.stages.length := by
  cases e <;> simp only [applyEff] <;> (try split) <;> simp

@[simp] theorem applyTxn_stages_length (s : State) (t : Txn) : (applyTxn s t).stages.length = s.stages.length := by
  unfold applyTxn
  induction t generalizing s with
  | nil => rfl
  | cons e es ih => simp [List.foldl, ih]

@[simp] theorem applyTxns_stages_length (s : State) (ts : List Txn) : (applyTxns s ts).stages.length = s.stages.length := by
  unfold applyTxns
  induction ts generalizing s with
  | nil => rfl
  | cons t ts ih => simp [List.foldl, ih]

theorem applyEff_other_stage (s : State) (e : Eff) (j : Nat) (h : ∀ i new, e ≠ .setStage i new) :
    (applyEff s e).stage j = s.stage j := by
  cases e with
  | setStage i new => exact absurd rfl (h i new)
  | setWf st => simp [applyEff, State.stage]
  | setCanceled => simp [applyEff, State.stage]
  | push m => simp [applyEff, State.stage]
  | pushA m a => simp [applyEff, State.stage]
  | mark id => simp only [applyEff, State.stage]; split <;> rfl

/-! ### `EffAll P s effs`: every effect satisfies `P` in the state reached just before it is applied -/

def EffAll (P : State → Eff → Prop) : State → List Eff → Prop
  | _, [] => True
  | s, e :: es => P s e ∧ EffAll P (applyEff s e) es

theorem EffAll_append (P : State → Eff → Prop) (s : State) (a b : List Eff) :
    EffAll P s (a ++ b) ↔ EffAll P s a ∧ EffAll P (applyTxn s a) b := by
  induction a generalizing s with
  | nil => simp [EffAll, applyTxn]
  | cons e es ih => simp [EffAll, applyTxn, List.foldl, ih, and_assoc]

theorem applyTxns_eq_flatten (s : State) (ts : List Txn) : applyTxns s ts = applyTxn s ts.flatten := by
  unfold applyTxns applyTxn
  induction ts generalizing s with
  | nil => rfl
  | cons t ts ih => simp [List.foldl, List.foldl_append, ih]

theorem EffAll_mono {P Q : State → Eff → Prop} (h : ∀ s e, P s e → Q s e) (s : State) (effs : List Eff) :
    EffAll P s effs → EffAll Q s effs := by
  induction effs generalizing s with
  | nil => intro; trivial
  | cons e es ih => intro ⟨a, b⟩; exact ⟨h _ _ a, ih _ b⟩

end Stab.Engine
