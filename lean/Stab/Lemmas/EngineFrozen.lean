/-
  A task whose durable status is a COMPLETED one is frozen along every run of a jump-free workflow: its status
  never changes again and it is never executed again (used by Props/C02).

  The argument: every status write of every handler is a legal transition in the state it is applied to
  (`handle_legal`, `runTaskCommit_legal`), a completed status has no legal successor, and RunTask executes only a
  RUNNING task.
-/
import Stab.Lemmas.EngineGood

namespace Stab.Engine
open Stab

/-- number of recorded executions of task `t` of stage `i` -/
def execsOf (l : List Exec) (i t : Nat) : Nat := (l.filter (fun e => e.s == i && e.t == t)).length

/-- durable status of task `t` of stage `i` -/
def taskStatus (s : State) (i t : Nat) : Status := ((s.stage i).tasks.getD t default).status

theorem taskStatus_congr (a b : State) (i t : Nat) (h : a.stages = b.stages) : taskStatus a i t = taskStatus b i t := by
  simp [taskStatus, State.stage, h]

theorem complete_no_successor (a b : Status) (h : a.isComplete = true) (hc : Status.canTransition a b = true) : a = b := by
  cases a <;> cases b <;> simp_all [Status.isComplete, Status.canTransition, Status.validNext]

theorem default_task_not_complete : ((default : TaskSt).status).isComplete = false := by decide

/-- one legal effect leaves a completed task status alone -/
theorem applyEff_taskStatus_frozen (s : State) (e : Eff) (i t : Nat)
    (hcomp : (taskStatus s i t).isComplete = true) (hl : LegalEff s e) :
    taskStatus (applyEff s e) i t = taskStatus s i t := by
  cases e with
  | setStage j new =>
    unfold taskStatus
    rw [applyEff_setStage_stage]
    split
    · rename_i hj
      obtain ⟨rfl, hlt⟩ := hj
      -- same stage: the new task list must agree at `t`, otherwise an illegal audit row would be written
      show (new.tasks.getD t default).status = ((s.stage j).tasks.getD t default).status
      apply Classical.byContradiction
      intro hne
      have htlt : t < (s.stage j).tasks.length := by
        apply Classical.byContradiction
        intro hge
        have : (s.stage j).tasks.getD t default = default := by
          simp only [List.getD_eq_getElem?_getD]
          rw [List.getElem?_eq_none (Nat.le_of_not_lt hge)]
          rfl
        unfold taskStatus at hcomp
        rw [this] at hcomp
        simp [default_task_not_complete] at hcomp
      have hrow : ({ ent := .task j t, old := ((s.stage j).tasks.getD t default).status,
                     new := (new.tasks.getD t default).status } : AuditRow) ∈ effRows s (.setStage j new) := by
        simp only [effRows]
        have : ¬ (j ≥ s.stages.length) := Nat.not_le.mpr hlt
        simp only [this, ↓reduceIte, List.mem_append]
        right
        unfold auditTasks
        simp only [List.mem_filterMap, List.mem_range]
        refine ⟨t, htlt, ?_⟩
        have hne' : (((s.stage j).tasks.getD t default).status != (new.tasks.getD t default).status) = true := by
          simp only [bne_iff_ne, ne_eq]
          exact fun h => hne h.symm
        simp only [hne', ↓reduceIte]
      have hleg := hl _ hrow
      have := complete_no_successor _ _ hcomp hleg
      exact hne this.symm
    · rfl
  | setWf st => simp [taskStatus, applyEff, State.stage]
  | setCanceled => simp [taskStatus, applyEff, State.stage]
  | push m => simp [taskStatus, applyEff, State.stage]
  | pushA m a => simp [taskStatus, applyEff, State.stage]
  | mark id => simp only [taskStatus, applyEff, State.stage]; split <;> rfl

theorem applyTxn_taskStatus_frozen (s : State) (l : List Eff) (i t : Nat)
    (hcomp : (taskStatus s i t).isComplete = true) (hl : EffAll LegalEff s l) :
    taskStatus (applyTxn s l) i t = taskStatus s i t := by
  induction l generalizing s with
  | nil => simp [applyTxn]
  | cons e es ih =>
    obtain ⟨he, hes⟩ := hl
    have h1 := applyEff_taskStatus_frozen s e i t hcomp he
    have hcomp' : (taskStatus (applyEff s e) i t).isComplete = true := by rw [h1]; exact hcomp
    have := ih (applyEff s e) hcomp' hes
    simp only [applyTxn, List.foldl] at this ⊢
    rw [this, h1]

/-- what is frozen about a completed task: its status and the number of its recorded executions -/
structure Frozen (i t : Nat) (st : Status) (n : Nat) (s : State) : Prop where
  status : taskStatus s i t = st
  execs : execsOf s.ledger i t = n

theorem recordExec_stages (c : Cfg) (s : State) (row : Row) : (recordExec c s row).stages = s.stages := by
  unfold recordExec; split <;> simp [bumpCount]

theorem recordExec_wfStatus (c : Cfg) (s : State) (row : Row) : (recordExec c s row).wfStatus = s.wfStatus := by
  unfold recordExec; split <;> simp [bumpCount]

/-- recording an execution of ANOTHER task does not change the count of this one -/
theorem recordExec_execsOf (c : Cfg) (s : State) (row : Row) (i t : Nat) (hne : row.msg ≠ .runTask i t) :
    execsOf (recordExec c s row).ledger i t = execsOf s.ledger i t := by
  unfold recordExec
  split
  · rename_i i' t' hm
    have hij : ¬ (i' = i ∧ t' = t) := by
      intro ⟨h1, h2⟩; subst h1; subst h2; exact hne hm
    simp only [execsOf, bumpCount, List.filter_append, List.length_append]
    have : (List.filter (fun e : Exec => e.s == i && e.t == t)
        [{ s := i', t := t', n := getCount { s with execCount := List.filter (fun e => e.1 != (i', t')) s.execCount ++ [((i', t'), getCount s (i', t') + 1)] } (i', t'), seen := (s.stage i').data }]) = [] := by
      simp only [List.filter_cons, List.filter_nil]
      have : ((i' == i) && (t' == t)) = false := by
        cases h1 : (i' == i) <;> cases h2 : (t' == t) <;> simp_all
      simp [this]
    rw [this]; simp
  · rfl

/-- the handler of a RunTask for a task whose status is completed does not execute it -/
theorem handle_not_ran_of_complete (c : Cfg) (s : State) (row : Row) (i t : Nat)
    (hm : row.msg = .runTask i t) (hcomp : (taskStatus s i t).isComplete = true) : (handle c s row).2 = false := by
  cases hran : (handle c s row).2 with
  | false => rfl
  | true =>
    exfalso
    unfold handle at hran
    simp only [hm] at hran
    have := run_requires_running' c s row.id i t row.attempts hran
    unfold taskStatus at hcomp
    rw [this] at hcomp
    simp [Status.isComplete] at hcomp
where
  run_requires_running' (c : Cfg) (s : State) (id i t a : Nat)
      (h : (hRunTask c s id i t a).2 = true) : ((s.stage i).tasks.getD t default).status = .running := by
    unfold hRunTask at h
    split at h
    · cases h
    · rename_i hg
      unfold runTaskGuard at hg
      simp only [] at hg
      apply Classical.byContradiction
      intro hne
      simp only [List.getD_eq_getElem?_getD] at hne
      simp [hne] at hg

theorem afterHandle_frozen (c : Cfg) (s : State) (row : Row) (k : Option Nat) (i t : Nat) (st : Status) (n : Nat)
    (hm : MsgOK row.msg) (hst : st.isComplete = true) (h : Frozen i t st n s) :
    Frozen i t st n (afterHandle c s row k) := by
  have hcomp : (taskStatus s i t).isComplete = true := by rw [h.status]; exact hst
  have hl := handle_legal c s row hm
  unfold afterHandle
  simp only []
  rw [applyTxns_eq_flatten]
  generalize hs2 : (if ((handle c s row).2 && k == some 0) = true then
      { (if (handle c s row).2 = true then recordExec c s row else s) with execCount := s.execCount }
    else if (handle c s row).2 = true then recordExec c s row else s) = s2
  have hs2q : s2.stages = s.stages ∧ s2.wfStatus = s.wfStatus ∧ execsOf s2.ledger i t = execsOf s.ledger i t := by
    subst hs2
    by_cases hran : (handle c s row).2 = true
    · -- the handler executed a task: not this one
      have hne : row.msg ≠ .runTask i t := by
        intro hmm
        have := handle_not_ran_of_complete c s row i t hmm hcomp
        rw [this] at hran; cases hran
      have hle := recordExec_execsOf c s row i t hne
      simp only [hran, Bool.true_and, ↓reduceIte]
      split <;> simp [recordExec_stages, recordExec_wfStatus, hle]
    · have hf : (handle c s row).2 = false := by simpa using hran
      simp [hf]
  obtain ⟨q3, q4, q5⟩ := hs2q
  have hcomp2 : (taskStatus s2 i t).isComplete = true := by rw [taskStatus_congr s2 s i t q3]; exact hcomp
  have key : ∀ l : List Eff, EffAll LegalEff s l → Frozen i t st n (applyTxn s2 l) := by
    intro l hll
    have hl2 := effAll_congr s s2 l q3.symm q4.symm hll
    refine ⟨?_, ?_⟩
    · rw [applyTxn_taskStatus_frozen s2 l i t hcomp2 hl2, taskStatus_congr s2 s i t q3]; exact h.status
    · rw [applyTxn_ledger, q5]; exact h.execs
  cases k with
  | none => exact key _ hl
  | some k => exact key _ (effAll_take _ s _ k hl)

theorem frozen_of_stages_ledger (i t : Nat) (st : Status) (n : Nat) (a b : State)
    (h1 : b.stages = a.stages) (h2 : b.ledger = a.ledger) (h : Frozen i t st n a) : Frozen i t st n b :=
  ⟨by rw [taskStatus_congr b a i t h1]; exact h.status, by rw [h2]; exact h.execs⟩

theorem applyEff_mark_frozen (i t : Nat) (st : Status) (n : Nat) (s : State) (id : Nat) (h : Frozen i t st n s) :
    Frozen i t st n (applyEff s (.mark id)) :=
  frozen_of_stages_ledger i t st n s _ (by simp only [applyEff]; split <;> rfl) (by simp) h

theorem deliverRow_frozen (c : Cfg) (s : State) (row0 : Row) (ack : Bool) (k : Option Nat) (i t : Nat) (st : Status) (n : Nat)
    (hm : MsgOK row0.msg) (hst : st.isComplete = true) (h : Frozen i t st n s) :
    Frozen i t st n (deliverRow c s row0 ack k) := by
  have h1 : Frozen i t st n (claimRow s row0.id) := frozen_of_stages_ledger i t st n s _ rfl rfl h
  have h3 := afterHandle_frozen c (claimRow s row0.id) { row0 with attempts := row0.attempts + 1 } k i t st n hm hst h1
  have hack : ∀ s' : State, Frozen i t st n s' → Frozen i t st n (ackRow s' row0.id) :=
    fun s' hs' => frozen_of_stages_ledger i t st n s' _ rfl rfl hs'
  unfold deliverRow
  simp only []
  repeat' split
  all_goals first | exact h1 | exact h3 | exact hack _ h1 | exact applyEff_mark_frozen i t st n _ _ h3
                  | exact hack _ (applyEff_mark_frozen i t st n _ _ h3)

theorem applyTxn_quiet_frozen (i t : Nat) (st : Status) (n : Nat) (s : State) (l : List Eff)
    (hq : l.all Eff.quiet = true) (hst : st.isComplete = true) (h : Frozen i t st n s) : Frozen i t st n (applyTxn s l) := by
  have hcomp : (taskStatus s i t).isComplete = true := by rw [h.status]; exact hst
  exact ⟨by rw [applyTxn_taskStatus_frozen s l i t hcomp (effAll_quietB _ _ hq)]; exact h.status,
         by rw [applyTxn_ledger]; exact h.execs⟩

/-- **One step of the engine, whatever the operation, leaves a completed task frozen** (jump-free workflows,
    reachable = `Good` states). -/
theorem step_frozen (c : Cfg) (hc : NoJumpCfg c) (s : State) (op : Op) (i t : Nat) (st : Status) (n : Nat)
    (hg : Good s) (hst : st.isComplete = true) (h : Frozen i t st n s) : Frozen i t st n (step c s op) := by
  cases op with
  | deliver id =>
    simp only [step]; split
    · exact h
    · rename_i row0 hf
      exact deliverRow_frozen c s row0 _ _ i t st n (hg.queue row0 (List.mem_of_find?_eq_some hf)) hst h
  | deliverNoAck id =>
    simp only [step]; split
    · exact h
    · rename_i row0 hf
      exact deliverRow_frozen c s row0 _ _ i t st n (hg.queue row0 (List.mem_of_find?_eq_some hf)) hst h
  | crash id k =>
    simp only [step]; split
    · exact h
    · rename_i row0 hf
      exact deliverRow_frozen c s row0 _ _ i t st n (hg.queue row0 (List.mem_of_find?_eq_some hf)) hst h
  | cancel => exact frozen_of_stages_ledger i t st n s _ (by simp [step, applyEff]) (by simp [step]) h
  | signal j p => exact frozen_of_stages_ledger i t st n s _ (by simp [step, applyEff]) (by simp [step]) h
  | sweep =>
    simp only [step]
    exact applyTxn_quiet_frozen i t st n s _ (by simp [Eff.quiet, List.all_map, Function.comp_def]) hst h
  | nested id inner =>
    simp only [step]
    split
    · exact h
    · rename_i row0 hf
      have hmem := List.mem_of_find?_eq_some hf
      have hmok := hg.queue row0 hmem
      split
      · rename_i i' t' hmsg
        have h1 : Frozen i t st n (claimRow s row0.id) := frozen_of_stages_ledger i t st n s _ rfl rfl h
        have hg1 := claimRow_good s row0.id hg
        split
        · exact frozen_of_stages_ledger i t st n (claimRow s row0.id) _ rfl rfl h1
        · split
          · exact deliverRow_frozen c s row0 _ _ i t st n hmok hst h
          · rename_i hguard
            -- the outer RunTask executes: it is not the frozen task (its guard would have stopped it)
            have hne : ({ row0 with attempts := row0.attempts + 1 } : Row).msg ≠ .runTask i t := by
              intro hmm
              have hmm' : row0.msg = .runTask i t := hmm
              rw [hmsg] at hmm'
              injection hmm' with e1 e2
              subst e1; subst e2
              have hcomp : (taskStatus (claimRow s row0.id) i' t').isComplete = true := by rw [h1.status]; exact hst
              unfold runTaskGuard at hguard
              simp only [] at hguard
              unfold taskStatus at hcomp
              simp only [List.getD_eq_getElem?_getD] at hcomp
              have hnr : ((((claimRow s row0.id).stage i').tasks)[t']?.getD default).status ≠ .running := by
                intro hr; rw [hr] at hcomp; simp [Status.isComplete] at hcomp
              simp [hnr] at hguard
            have h2 : Frozen i t st n (recordExec c (claimRow s row0.id) { row0 with attempts := row0.attempts + 1 }) :=
              ⟨by rw [taskStatus_congr _ (claimRow s row0.id) i t (recordExec_stages ..)]; exact h1.status,
               by rw [recordExec_execsOf c _ _ i t hne]; exact h1.execs⟩
            have hg2 := recordExec_good c (claimRow s row0.id) { row0 with attempts := row0.attempts + 1 } hg1
            have hfold : ∀ (l : List Nat) (sx : State), Good sx → Frozen i t st n sx →
                (Good (l.foldl (fun sx j =>
                  match sx.queue.find? (fun r => r.id == j) with
                  | none => sx
                  | some rj => deliverRow c sx rj true none) sx) ∧
                 Frozen i t st n (l.foldl (fun sx j =>
                  match sx.queue.find? (fun r => r.id == j) with
                  | none => sx
                  | some rj => deliverRow c sx rj true none) sx)) := by
              intro l
              induction l with
              | nil => intro sx hgx hfx; exact ⟨hgx, hfx⟩
              | cons j js ih =>
                intro sx hgx hfx
                simp only [List.foldl]
                apply ih
                · split
                  · exact hgx
                  · rename_i rj hfj
                    exact deliverRow_good c hc sx rj _ _ (List.mem_of_find?_eq_some hfj) hgx
                · split
                  · exact hfx
                  · rename_i rj hfj
                    exact deliverRow_frozen c sx rj _ _ i t st n (hgx.queue rj (List.mem_of_find?_eq_some hfj)) hst hfx
            obtain ⟨hg3, hf3⟩ := hfold inner _ hg2 h2
            have hack : ∀ s' : State, Frozen i t st n s' → Frozen i t st n (ackRow s' row0.id) :=
              fun s' hs' => frozen_of_stages_ledger i t st n s' _ rfl rfl hs'
            apply hack
            apply applyEff_mark_frozen
            rw [applyTxns_eq_flatten]
            generalize hs3 : (inner.foldl (fun sx j =>
                  match sx.queue.find? (fun r => r.id == j) with
                  | none => sx
                  | some rj => deliverRow c sx rj true none)
                (recordExec c (claimRow s row0.id) { row0 with attempts := row0.attempts + 1 })) = s3 at hg3 hf3 ⊢
            have hcomp3 : (taskStatus s3 i t).isComplete = true := by rw [hf3.status]; exact hst
            exact ⟨by rw [applyTxn_taskStatus_frozen s3 _ i t hcomp3 (runTaskCommit_legal c s3 _ _ _ _ _ _)]; exact hf3.status,
                   by rw [applyTxn_ledger]; exact hf3.execs⟩
      · exact deliverRow_frozen c s row0 _ _ i t st n hmok hst h

theorem foldl_frozen (c : Cfg) (hc : NoJumpCfg c) (ops : List Op) (s : State) (i t : Nat) (st : Status) (n : Nat)
    (hg : Good s) (hst : st.isComplete = true) (h : Frozen i t st n s) : Frozen i t st n (ops.foldl (step c) s) := by
  induction ops generalizing s with
  | nil => exact h
  | cons op ops ih => exact ih _ (step_good c hc s op hg) (step_frozen c hc s op i t st n hg hst h)

end Stab.Engine

namespace Stab.Engine
open Stab

/-! ### generic: a predicate on (stage rows, workflow status) that every LEGAL write preserves is preserved by every
    step of a jump-free run -/

structure StableUnderLegal (P : State → Prop) : Prop where
  congr : ∀ a b : State, b.stages = a.stages → b.wfStatus = a.wfStatus → P a → P b
  eff : ∀ (s : State) (e : Eff), P s → LegalEff s e → P (applyEff s e)

theorem applyTxn_stable {P : State → Prop} (hP : StableUnderLegal P) (s : State) (l : List Eff)
    (h : P s) (hl : EffAll LegalEff s l) : P (applyTxn s l) := by
  induction l generalizing s with
  | nil => simpa [applyTxn] using h
  | cons e es ih =>
    obtain ⟨he, hes⟩ := hl
    have := ih (applyEff s e) (hP.eff s e h he) hes
    simpa [applyTxn, List.foldl] using this

theorem afterHandle_stable {P : State → Prop} (hP : StableUnderLegal P) (c : Cfg) (s : State) (row : Row) (k : Option Nat)
    (hm : MsgOK row.msg) (h : P s) : P (afterHandle c s row k) := by
  have hl := handle_legal c s row hm
  unfold afterHandle
  simp only []
  rw [applyTxns_eq_flatten]
  generalize hs2 : (if ((handle c s row).2 && k == some 0) = true then
      { (if (handle c s row).2 = true then recordExec c s row else s) with execCount := s.execCount }
    else if (handle c s row).2 = true then recordExec c s row else s) = s2
  have hs2q : s2.stages = s.stages ∧ s2.wfStatus = s.wfStatus := by
    subst hs2
    repeat' split
    all_goals simp [recordExec_stages, recordExec_wfStatus]
  obtain ⟨q3, q4⟩ := hs2q
  have h2 : P s2 := hP.congr s s2 q3 q4 h
  cases k with
  | none => exact applyTxn_stable hP s2 _ h2 (effAll_congr s s2 _ q3.symm q4.symm hl)
  | some k => exact applyTxn_stable hP s2 _ h2 (effAll_congr s s2 _ q3.symm q4.symm (effAll_take _ s _ k hl))

theorem applyEff_mark_stages (s : State) (id : Nat) : (applyEff s (.mark id)).stages = s.stages := by
  simp only [applyEff]; split <;> rfl

theorem applyEff_mark_wfStatus (s : State) (id : Nat) : (applyEff s (.mark id)).wfStatus = s.wfStatus := by
  simp only [applyEff]; split <;> rfl

theorem deliverRow_stable {P : State → Prop} (hP : StableUnderLegal P) (c : Cfg) (s : State) (row0 : Row) (ack : Bool)
    (k : Option Nat) (hm : MsgOK row0.msg) (h : P s) : P (deliverRow c s row0 ack k) := by
  have h1 : P (claimRow s row0.id) := hP.congr s _ rfl rfl h
  have h3 := afterHandle_stable hP c (claimRow s row0.id) { row0 with attempts := row0.attempts + 1 } k hm h1
  have hack : ∀ s' : State, P s' → P (ackRow s' row0.id) := fun s' hs' => hP.congr s' _ rfl rfl hs'
  have hmark : ∀ s' : State, P s' → P (applyEff s' (.mark row0.id)) :=
    fun s' hs' => hP.congr s' _ (applyEff_mark_stages ..) (applyEff_mark_wfStatus ..) hs'
  unfold deliverRow
  simp only []
  repeat' split
  all_goals first | exact h1 | exact h3 | exact hack _ h1 | exact hmark _ h3 | exact hack _ (hmark _ h3)

theorem step_stable {P : State → Prop} (hP : StableUnderLegal P) (c : Cfg) (hc : NoJumpCfg c) (s : State) (op : Op)
    (hg : Good s) (h : P s) : P (step c s op) := by
  cases op with
  | deliver id =>
    simp only [step]; split
    · exact h
    · rename_i row0 hf; exact deliverRow_stable hP c s row0 _ _ (hg.queue row0 (List.mem_of_find?_eq_some hf)) h
  | deliverNoAck id =>
    simp only [step]; split
    · exact h
    · rename_i row0 hf; exact deliverRow_stable hP c s row0 _ _ (hg.queue row0 (List.mem_of_find?_eq_some hf)) h
  | crash id k =>
    simp only [step]; split
    · exact h
    · rename_i row0 hf; exact deliverRow_stable hP c s row0 _ _ (hg.queue row0 (List.mem_of_find?_eq_some hf)) h
  | cancel => exact hP.congr s _ (by simp [step, applyEff]) (by simp [step, applyEff]) h
  | signal j p => exact hP.congr s _ (by simp [step, applyEff]) (by simp [step, applyEff]) h
  | sweep =>
    simp only [step]
    exact applyTxn_stable hP s _ h (effAll_quietB _ _ (by simp [Eff.quiet, List.all_map, Function.comp_def]))
  | nested id inner =>
    simp only [step]
    split
    · exact h
    · rename_i row0 hf
      have hmem := List.mem_of_find?_eq_some hf
      have hmok := hg.queue row0 hmem
      split
      · rename_i i' t' hmsg
        have h1 : P (claimRow s row0.id) := hP.congr s _ rfl rfl h
        have hg1 := claimRow_good s row0.id hg
        have hack : ∀ s' : State, P s' → P (ackRow s' row0.id) := fun s' hs' => hP.congr s' _ rfl rfl hs'
        have hmark : ∀ s' : State, P s' → P (applyEff s' (.mark row0.id)) :=
          fun s' hs' => hP.congr s' _ (applyEff_mark_stages ..) (applyEff_mark_wfStatus ..) hs'
        split
        · exact hack _ h1
        · split
          · exact deliverRow_stable hP c s row0 _ _ hmok h
          · have h2 : P (recordExec c (claimRow s row0.id) { row0 with attempts := row0.attempts + 1 }) :=
              hP.congr _ _ (recordExec_stages ..) (recordExec_wfStatus ..) h1
            have hg2 := recordExec_good c (claimRow s row0.id) { row0 with attempts := row0.attempts + 1 } hg1
            have hfold : ∀ (l : List Nat) (sx : State), Good sx → P sx →
                (Good (l.foldl (fun sx j =>
                  match sx.queue.find? (fun r => r.id == j) with
                  | none => sx
                  | some rj => deliverRow c sx rj true none) sx) ∧
                 P (l.foldl (fun sx j =>
                  match sx.queue.find? (fun r => r.id == j) with
                  | none => sx
                  | some rj => deliverRow c sx rj true none) sx)) := by
              intro l
              induction l with
              | nil => intro sx hgx hfx; exact ⟨hgx, hfx⟩
              | cons j js ih =>
                intro sx hgx hfx
                simp only [List.foldl]
                apply ih
                · split
                  · exact hgx
                  · rename_i rj hfj
                    exact deliverRow_good c hc sx rj _ _ (List.mem_of_find?_eq_some hfj) hgx
                · split
                  · exact hfx
                  · rename_i rj hfj
                    exact deliverRow_stable hP c sx rj _ _ (hgx.queue rj (List.mem_of_find?_eq_some hfj)) hfx
            obtain ⟨hg3, hf3⟩ := hfold inner _ hg2 h2
            generalize hs3 : (inner.foldl (fun sx j =>
                  match sx.queue.find? (fun r => r.id == j) with
                  | none => sx
                  | some rj => deliverRow c sx rj true none)
                (recordExec c (claimRow s row0.id) { row0 with attempts := row0.attempts + 1 })) = s3 at hg3 hf3 ⊢
            apply hack
            apply hmark
            rw [applyTxns_eq_flatten]
            exact applyTxn_stable hP s3 _ hf3 (runTaskCommit_legal c s3 _ _ _ _ _ _)
      · exact deliverRow_stable hP c s row0 _ _ hmok h

theorem foldl_stable {P : State → Prop} (hP : StableUnderLegal P) (c : Cfg) (hc : NoJumpCfg c) (ops : List Op) (s : State)
    (hg : Good s) (h : P s) : P (ops.foldl (step c) s) := by
  induction ops generalizing s with
  | nil => exact h
  | cons op ops ih => exact ih _ (step_good c hc s op hg) (step_stable hP c hc s op hg h)

/-- a completed workflow status is preserved by every legal write -/
theorem wfFinal_stable (st : Status) (hst : st.isComplete = true) : StableUnderLegal (fun s => s.wfStatus = st) where
  congr := fun a b _ h2 h => by rw [h2]; exact h
  eff := by
    intro s e h hl
    cases e with
    | setWf new =>
      by_cases hne : s.wfStatus = new
      · simp only [applyEff]; rw [← hne]; exact h
      · have hrow : ({ ent := .wf, old := s.wfStatus, new := new } : AuditRow) ∈ effRows s (.setWf new) := by
          simp [effRows, hne]
        have := complete_no_successor _ _ (by rw [h]; exact hst) (hl _ hrow)
        exact absurd this hne
    | setStage j new =>
      simp only [applyEff]; split <;> exact h
    | setCanceled => exact h
    | push m => exact h
    | pushA m a => exact h
    | mark id => simp only [applyEff]; split <;> exact h

/-- a completed stage status is preserved by every legal write -/
theorem stageFinal_stable (i : Nat) (st : Status) (hst : st.isComplete = true) :
    StableUnderLegal (fun s => (s.stage i).status = st) where
  congr := fun a b h1 _ h => by simp only [State.stage, h1]; exact h
  eff := by
    intro s e h hl
    cases e with
    | setStage j new =>
      show ((applyEff s (.setStage j new)).stage i).status = st
      rw [applyEff_setStage_stage]
      split
      · rename_i hj
        obtain ⟨rfl, hlt⟩ := hj
        show new.status = st
        by_cases hne : (s.stage j).status = new.status
        · rw [← hne]; exact h
        · have hrow : ({ ent := .stage j, old := (s.stage j).status, new := new.status } : AuditRow) ∈ effRows s (.setStage j new) := by
            simp only [effRows]
            have : ¬ (j ≥ s.stages.length) := Nat.not_le.mpr hlt
            simp [this, hne]
          have := complete_no_successor _ _ (by rw [h]; exact hst) (hl _ hrow)
          exact absurd this hne
      · exact h
    | setWf new => simpa [applyEff, State.stage] using h
    | setCanceled => simpa [applyEff, State.stage] using h
    | push m => simpa [applyEff, State.stage] using h
    | pushA m a => simpa [applyEff, State.stage] using h
    | mark id =>
      show ((applyEff s (.mark id)).stage i).status = st
      simp only [State.stage, applyEff_mark_stages]; exact h

end Stab.Engine
