/-
  Helper lemmas about the `Replay` model: dictionary algebra, the effect of one event on the status of
  one entity (set / frame), congruence of the fold modulo the two time fields, and the split of a
  sequence-ordered log at a cut point.
-/
import Stab.Model.Replay

namespace Stab.Replay

/-! ### Dict / EntMap algebra -/

theorem Dict.get_set_self (d : Dict) (k v : String) : Dict.get (Dict.set d k v) k = some v := by
  induction d with
  | nil => simp [Dict.set, Dict.get]
  | cons p rest ih =>
    obtain ⟨k', v'⟩ := p
    by_cases h : k' = k
    · simp [Dict.set, Dict.get, h]
    · simp [Dict.set, Dict.get, h, ih]

theorem Dict.get_set_other (d : Dict) (k k' v : String) (h : k' ≠ k) :
    Dict.get (Dict.set d k v) k' = Dict.get d k' := by
  induction d with
  | nil => simp [Dict.set, Dict.get, Ne.symm h]
  | cons p rest ih =>
    obtain ⟨k₀, v₀⟩ := p
    by_cases h0 : k₀ = k
    · subst h0
      simp [Dict.set, Dict.get, Ne.symm h]
    · by_cases h1 : k₀ = k'
      · subst h1
        simp [Dict.set, Dict.get, h0]
      · simp [Dict.set, Dict.get, h0, h1, ih]

theorem EntMap.get_upsert_self (m : EntMap) (id : String) (init : Dict) (f : Dict → Dict) :
    EntMap.get (EntMap.upsert m id init f) id = some (f ((EntMap.get m id).getD init)) := by
  induction m with
  | nil => simp [EntMap.upsert, EntMap.get]
  | cons p rest ih =>
    obtain ⟨i, d⟩ := p
    by_cases h : i = id
    · simp [EntMap.upsert, EntMap.get, h]
    · simp [EntMap.upsert, EntMap.get, h, ih]

theorem EntMap.get_upsert_other (m : EntMap) (id id' : String) (init : Dict) (f : Dict → Dict)
    (h : id' ≠ id) : EntMap.get (EntMap.upsert m id init f) id' = EntMap.get m id' := by
  induction m with
  | nil => simp [EntMap.upsert, EntMap.get, Ne.symm h]
  | cons p rest ih =>
    obtain ⟨i, d⟩ := p
    by_cases h0 : i = id
    · subst h0
      simp [EntMap.upsert, EntMap.get, Ne.symm h]
    · by_cases h1 : i = id'
      · subst h1
        simp [EntMap.upsert, EntMap.get, h0]
      · simp [EntMap.upsert, EntMap.get, h0, h1, ih]

/-! ### one event, one entity -/

/-- event `e` is about entity `(k, id)`; workflow events are applied whatever their entity id -/
def About (e : Event) (k : Kind) (id : String) : Prop :=
  e.kind = k ∧ (k = .workflow ∨ e.eid = id)

instance (e : Event) (k : Kind) (id : String) : Decidable (About e k id) := by
  unfold About; infer_instance

/-- the status dict-entry of a stage after `stageFields` -/
theorem stageFields_status (e : Event) (d : Dict) :
    Dict.get (stageFields e d) "status"
      = match (statusEffect .stage e.etype).value e with
        | some w => some w
        | none => Dict.get d "status" := by
  cases h : e.etype <;>
    simp [stageFields, h, statusEffect, StatusEffect.value, Dict.get_set_self, Dict.get_set_other] <;>
    split <;> simp [Dict.get_set_self, Dict.get_set_other]

theorem taskFields_status (e : Event) (d : Dict) :
    Dict.get (taskFields e d) "status"
      = match (statusEffect .task e.etype).value e with
        | some w => some w
        | none => Dict.get d "status" := by
  cases h : e.etype <;>
    simp [taskFields, h, statusEffect, StatusEffect.value, Dict.get_set_self, Dict.get_set_other] <;>
    split <;> simp [Dict.get_set_self, Dict.get_set_other]

theorem stageInit_status (e : Event) : Dict.get (stageInit e) "status" = none := by
  simp [stageInit, Dict.get]

theorem taskInit_status (e : Event) : Dict.get (taskInit e) "status" = none := by
  simp [taskInit, Dict.get]

/-- **set**: an event whose type has a status effect leaves exactly that status on its entity -/
theorem statusOf_apply_effect (s : State) (e : Event) (w : String)
    (h : (statusEffect e.kind e.etype).value e = some w) :
    statusOf (apply s e) e.kind e.eid = some w := by
  cases hk : e.kind
  · -- workflow
    rw [hk] at h
    cases ht : e.etype <;>
      simp_all [apply, applyWorkflow, statusOf, statusEffect, StatusEffect.value]
  · rw [hk] at h
    simp only [apply, hk, applyStage, statusOf, EntMap.get_upsert_self, Option.bind_some]
    rw [stageFields_status, h]
  · rw [hk] at h
    simp only [apply, hk, applyTask, statusOf, EntMap.get_upsert_self, Option.bind_some]
    rw [taskFields_status, h]

/-- **no effect**: an event whose type has no status effect leaves the status of its entity alone -/
theorem statusOf_apply_noeffect (s : State) (e : Event)
    (h : statusEffect e.kind e.etype = .none) :
    statusOf (apply s e) e.kind e.eid = statusOf s e.kind e.eid := by
  cases hk : e.kind
  · rw [hk] at h
    cases ht : e.etype <;>
      simp_all [apply, applyWorkflow, statusOf, statusEffect]
  · rw [hk] at h
    simp only [apply, hk, applyStage, statusOf, EntMap.get_upsert_self, Option.bind_some]
    rw [stageFields_status, h]
    cases hg : EntMap.get s.stages e.eid <;> simp [StatusEffect.value, stageInit_status]
  · rw [hk] at h
    simp only [apply, hk, applyTask, statusOf, EntMap.get_upsert_self, Option.bind_some]
    rw [taskFields_status, h]
    cases hg : EntMap.get s.tasks e.eid <;> simp [StatusEffect.value, taskInit_status]

theorem applyWorkflow_stages (s : State) (e : Event) : (applyWorkflow s e).stages = s.stages := by
  cases h : e.etype <;> simp [applyWorkflow, h]

theorem applyWorkflow_tasks (s : State) (e : Event) : (applyWorkflow s e).tasks = s.tasks := by
  cases h : e.etype <;> simp [applyWorkflow, h]

/-- **frame**: an event about another entity leaves the status alone -/
theorem statusOf_apply_frame (s : State) (e : Event) (k : Kind) (id : String)
    (h : ¬ About e k id) : statusOf (apply s e) k id = statusOf s k id := by
  unfold About at h
  cases hk : e.kind <;> cases k <;>
    simp_all [apply, applyWorkflow_stages, applyWorkflow_tasks, applyStage, applyTask, statusOf] <;>
    (rw [EntMap.get_upsert_other]; intro hh; apply_assumption; exact hh.symm)

/-- the status of `(k,id)` is invariant under a list of events none of which touches it -/
theorem statusOf_replay_untouched (evs : List Event) (s : State) (k : Kind) (id : String)
    (h : ∀ e ∈ evs, About e k id → statusEffect k e.etype = .none) :
    statusOf (replay s evs) k id = statusOf s k id := by
  induction evs generalizing s with
  | nil => rfl
  | cons e rest ih =>
    simp only [replay, List.foldl_cons]
    have ih' := ih (apply s e) (fun e' he' => h e' (List.mem_cons_of_mem _ he'))
    simp only [replay] at ih'
    rw [ih']
    by_cases ha : About e k id
    · have hne := h e List.mem_cons_self ha
      obtain ⟨hk, hid⟩ := ha
      subst hk
      cases hid with
      | inl hw =>
        -- workflow: statusOf ignores the id
        have := statusOf_apply_noeffect s e hne
        simp only [statusOf, hw] at this ⊢
        exact this
      | inr hid => subst hid; exact statusOf_apply_noeffect s e hne
    · exact statusOf_apply_frame s e k id ha

/-! ### equality modulo the two time fields -/

/-- all fields of `WorkflowState` except `start_time` / `end_time` agree -/
def EqModTimes (a b : State) : Prop :=
  a.status = b.status ∧ a.application = b.application ∧ a.name = b.name ∧ a.context = b.context
    ∧ a.stages = b.stages ∧ a.tasks = b.tasks

theorem EqModTimes.refl (a : State) : EqModTimes a a := ⟨rfl, rfl, rfl, rfl, rfl, rfl⟩

theorem EqModTimes.symm {a b : State} (h : EqModTimes a b) : EqModTimes b a := by
  obtain ⟨h1, h2, h3, h4, h5, h6⟩ := h
  exact ⟨h1.symm, h2.symm, h3.symm, h4.symm, h5.symm, h6.symm⟩

theorem EqModTimes.trans {a b c : State} (h : EqModTimes a b) (h' : EqModTimes b c) : EqModTimes a c := by
  obtain ⟨h1, h2, h3, h4, h5, h6⟩ := h
  obtain ⟨g1, g2, g3, g4, g5, g6⟩ := h'
  exact ⟨h1.trans g1, h2.trans g2, h3.trans g3, h4.trans g4, h5.trans g5, h6.trans g6⟩

/-- `apply` never reads the time fields -/
theorem apply_congr_modTimes {a b : State} (e : Event) (h : EqModTimes a b) :
    EqModTimes (apply a e) (apply b e) := by
  obtain ⟨h1, h2, h3, h4, h5, h6⟩ := h
  cases hk : e.kind
  · cases ht : e.etype <;> simp [apply, applyWorkflow, EqModTimes, *]
  · simp [apply, applyStage, EqModTimes, *]
  · simp [apply, applyTask, EqModTimes, *]

theorem replay_congr_modTimes (evs : List Event) {a b : State} (h : EqModTimes a b) :
    EqModTimes (replay a evs) (replay b evs) := by
  induction evs generalizing a b with
  | nil => exact h
  | cons e rest ih => exact ih (apply_congr_modTimes e h)

theorem load_eqModTimes (lt : Bool) (sn : Snapshot) : EqModTimes (load lt sn) sn.state := by
  cases lt <;> simp [load, EqModTimes]

theorem statusOf_congr_modTimes {a b : State} (h : EqModTimes a b) (k : Kind) (id : String) :
    statusOf a k id = statusOf b k id := by
  obtain ⟨h1, _, _, _, h5, h6⟩ := h
  cases k <;> simp [statusOf, *]

theorem replay_append (s : State) (xs ys : List Event) :
    replay s (xs ++ ys) = replay (replay s xs) ys := by
  simp [replay, List.foldl_append]

/-! ### cutting a sequence-ordered log -/

/-- the table order: strictly increasing sequence numbers -/
def Sorted (log : List Event) : Prop := log.Pairwise (fun a b => a.seq < b.seq)

/-- on a sorted log, filtering by `p` splits at any cut `k` into the part `≤ k` and the part `> k` -/
theorem filter_split_at (log : List Event) (hs : Sorted log) (p : Event → Bool) (k : Nat) :
    log.filter p = log.filter (fun e => p e && decide (e.seq ≤ k)) ++ log.filter (fun e => p e && decide (k < e.seq)) := by
  induction log with
  | nil => rfl
  | cons e rest ih =>
    have hs' : Sorted rest := (List.pairwise_cons.mp hs).2
    have hlt : ∀ x ∈ rest, e.seq < x.seq := (List.pairwise_cons.mp hs).1
    by_cases hle : e.seq ≤ k
    · have hnot : ¬ k < e.seq := by omega
      by_cases hp : p e = true
      · simp [hp, hle, hnot, ih hs']
      · simp [hp, ih hs']
    · have hgt : k < e.seq := by omega
      -- nothing in `rest` is ≤ k
      have hnone : rest.filter (fun x => p x && decide (x.seq ≤ k)) = [] := by
        apply List.filter_eq_nil_iff.mpr
        intro x hx
        have := hlt x hx
        simp
        intro _
        omega
      have hall : rest.filter (fun x => p x && decide (k < x.seq)) = rest.filter p := by
        apply List.filter_congr
        intro x hx
        have := hlt x hx
        have : k < x.seq := by omega
        simp [this]
      by_cases hp : p e = true
      · simp [hp, hle, hgt, hnone, hall]
      · simp [hp, hnone, hall]

/-- the events a snapshot-based rebuild still has to apply, and the full list, on a sorted log -/
theorem upTo_split (log : List Event) (hs : Sorted log) (k : Nat) (asOf : Option Nat)
    (hu : ∀ n, asOf = some n → k ≤ n) :
    upTo (eventsAfter log 0) asOf
      = upTo (eventsAfter log 0) (some k) ++ upTo (eventsAfter log k) asOf := by
  cases asOf with
  | none =>
    simp only [upTo, eventsAfter, List.filter_filter]
    have h := filter_split_at log hs (fun e => decide (e.seq > 0)) k
    rw [h]
    congr 1
    · apply List.filter_congr; intro e _; simp [Bool.and_comm]
    · apply List.filter_congr; intro e _
      by_cases h1 : k < e.seq <;> simp [h1]; omega
  | some n =>
    have hkn : k ≤ n := hu n rfl
    simp only [upTo, eventsAfter, List.filter_filter]
    have h := filter_split_at log hs (fun e => decide (e.seq ≤ n) && decide (e.seq > 0)) k
    rw [h]
    congr 1
    · apply List.filter_congr; intro e _
      by_cases h1 : e.seq ≤ k <;> by_cases h2 : 0 < e.seq <;> simp [h1, h2] <;> omega
    · apply List.filter_congr; intro e _
      by_cases h1 : k < e.seq <;> by_cases h2 : e.seq ≤ n <;> simp [h1, h2] <;> omega

/-- `sortedStrict` (what the driver checks) is `Sorted` -/
theorem sorted_of_sortedStrict : ∀ (log : List Event), sortedStrict log = true → Sorted log
  | [], _ => List.Pairwise.nil
  | [a], _ => by simp [Sorted]
  | a :: b :: rest, h => by
    simp only [sortedStrict, Bool.and_eq_true, decide_eq_true_eq] at h
    have ih : Sorted (b :: rest) := sorted_of_sortedStrict (b :: rest) h.2
    refine List.pairwise_cons.mpr ⟨?_, ih⟩
    intro x hx
    cases List.mem_cons.mp hx with
    | inl hxb => subst hxb; exact h.1
    | inr hxr =>
      have := (List.pairwise_cons.mp ih).1 x hxr
      omega

end Stab.Replay
