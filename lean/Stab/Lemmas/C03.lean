/-
  Helper lemmas for C03: characterisations of the per-join-type evaluators of
  `Stab.Ready` (model of `stabilize.dag.readiness`) in terms of ∀ / ∃ / counting over the
  upstream list.  Core Lean only.
-/
import Stab.Model.Ready

namespace Stab.Lemmas.C03
open Stab Stab.Ready

/-- a continuable status is never a halt status (CONTINUABLE ∩ HALT = ∅) -/
theorem cont_not_halt (s : Status) : s.isContinuable = true → s.isHalt = false := by
  cases s <;> simp [Status.isContinuable, Status.isHalt]

theorem halt_not_cont (s : Status) : s.isHalt = true → s.isContinuable = false := by
  cases s <;> simp [Status.isContinuable, Status.isHalt]

/-- an ACTIVE status is neither continuable nor halting -/
theorem active_not_cont (s : Status) : s.isActive = true → s.isContinuable = false ∧ s.isHalt = false := by
  cases s <;> simp [Status.isContinuable, Status.isHalt, Status.isActive]

/-! ### AND join -/

theorem and_ready_iff (ups : List Up) :
    (andJoin ups).phase = .ready ↔ ∀ u ∈ ups, u.status.isContinuable = true := by
  unfold andJoin
  by_cases hf : ((ups.filter (·.status.isHalt)).map (·.ref)).isEmpty = true
  · simp only [hf, Bool.not_true, Bool.false_eq_true, ↓reduceIte]
    by_cases hn : (ups.filter (fun u => !u.status.isContinuable)).isEmpty = true
    · simp only [hn, ↓reduceIte, true_iff]
      intro u hu
      simp only [List.isEmpty_iff, List.filter_eq_nil_iff, Bool.not_eq_eq_eq_not, Bool.not_true] at hn
      have := hn u hu
      simpa using this
    · simp only [hn, Bool.false_eq_true, ↓reduceIte]
      have : ¬ ∀ u ∈ ups, u.status.isContinuable = true := by
        intro hall
        apply hn
        simp only [List.isEmpty_iff, List.filter_eq_nil_iff]
        intro u hu; simp [hall u hu]
      split <;> simp [this]
  · simp only [hf, Bool.not_false, ↓reduceIte]
    constructor
    · intro h; cases h
    · intro hall
      exfalso; apply hf
      simp only [List.isEmpty_iff, List.map_eq_nil_iff, List.filter_eq_nil_iff]
      intro u hu; simp [cont_not_halt _ (hall u hu)]

theorem and_skip_iff (ups : List Up) :
    (andJoin ups).phase = .skip ↔ ∃ u ∈ ups, u.status.isHalt = true := by
  unfold andJoin
  by_cases hf : ((ups.filter (·.status.isHalt)).map (·.ref)).isEmpty = true
  · simp only [hf, Bool.not_true, Bool.false_eq_true, ↓reduceIte]
    have hno : ¬ ∃ u ∈ ups, u.status.isHalt = true := by
      simp only [List.isEmpty_iff, List.map_eq_nil_iff, List.filter_eq_nil_iff] at hf
      rintro ⟨u, hu, hh⟩; exact hf u hu hh
    split
    · simp [hno]
    · split <;> simp [hno]
  · simp only [hf, Bool.not_false, ↓reduceIte, true_iff]
    simp only [List.isEmpty_iff, List.map_eq_nil_iff, List.filter_eq_nil_iff] at hf
    simpa using hf

theorem and_failed (ups : List Up) :
    (andJoin ups).failed = (ups.filter (·.status.isHalt)).map (·.ref) := by
  unfold andJoin
  by_cases hf : ((ups.filter (·.status.isHalt)).map (·.ref)).isEmpty = true
  · simp only [hf, Bool.not_true, Bool.false_eq_true, ↓reduceIte]
    rw [List.isEmpty_iff] at hf
    rw [hf]
    split
    · rfl
    · split <;> rfl
  · simp [hf]

/-- what `active_upstream_ids` of the AND join contains -/
theorem and_active_mem (ups : List Up) (r : Nat) (h : r ∈ (andJoin ups).active) :
    ∃ u ∈ ups, u.ref = r ∧ u.status.isContinuable = false ∧ u.status.isHalt = false := by
  unfold andJoin at h
  by_cases hf : ((ups.filter (·.status.isHalt)).map (·.ref)).isEmpty = true
  · simp only [hf, Bool.not_true, Bool.false_eq_true, ↓reduceIte] at h
    have hnh : ∀ u ∈ ups, u.status.isHalt = false := by
      simp only [List.isEmpty_iff, List.map_eq_nil_iff, List.filter_eq_nil_iff] at hf
      intro u hu; simpa using hf u hu
    split at h
    · simp at h
    · split at h
      · simp only [List.mem_map, List.mem_filter] at h
        obtain ⟨u, ⟨⟨hu, hc⟩, _⟩, rfl⟩ := h
        exact ⟨u, hu, rfl, by simpa using hc, hnh u hu⟩
      · simp only [List.mem_map, List.mem_filter] at h
        obtain ⟨u, ⟨hu, hc⟩, rfl⟩ := h
        exact ⟨u, hu, rfl, by simpa using hc, hnh u hu⟩
  · simp [hf] at h

/-- `andJoin` without the local definitions -/
theorem andJoin_eq (ups : List Up) : andJoin ups =
    if !((ups.filter (·.status.isHalt)).map (·.ref)).isEmpty then
      { phase := .skip, failed := (ups.filter (·.status.isHalt)).map (·.ref) }
    else if (ups.filter (fun u => !u.status.isContinuable)).isEmpty then { phase := .ready }
    else if !((ups.filter (fun u => !u.status.isContinuable)).filter (·.status.isActive)).isEmpty then
      { phase := .notReady,
        active := ((ups.filter (fun u => !u.status.isContinuable)).filter (·.status.isActive)).map (·.ref) }
    else { phase := .notReady, active := (ups.filter (fun u => !u.status.isContinuable)).map (·.ref) } := rfl

/-- active ids are only reported together with NOT_READY -/
theorem and_active_phase (ups : List Up) (r : Nat) (h : r ∈ (andJoin ups).active) :
    (andJoin ups).phase = .notReady := by
  rw [andJoin_eq] at h ⊢
  split at h
  · simp at h
  · split at h
    · simp at h
    · rename_i h1 h2
      simp only [h1, h2, Bool.false_eq_true, ↓reduceIte]
      split <;> rfl

/-- `nOfM` without the local definitions -/
theorem nOfM_eq (threshold : Int) (fired : Bool) (ups : List Up) : nOfM threshold fired ups =
    if threshold ≤ 0 then andJoin ups else
    if fired then { phase := .notReady } else
    if ((ups.filter (·.status.isContinuable)).length : Int) ≥ threshold then { phase := .ready }
    else if (((ups.filter (·.status.isContinuable)).length
          + (ups.filter (fun u => !u.status.isContinuable && !u.status.isHalt)).length : Nat) : Int) < threshold then
      { phase := .skip, failed := (ups.filter (fun u => !u.status.isContinuable && u.status.isHalt)).map (·.ref) }
    else if !(ups.filter (fun u => !u.status.isContinuable && !u.status.isHalt)).isEmpty then
      { phase := .notReady, active := (ups.filter (fun u => !u.status.isContinuable && !u.status.isHalt)).map (·.ref) }
    else { phase := .notReady } := rfl

/-! ### multi-merge / discriminator -/

theorem mm_ready_iff (ups : List Up) :
    (multiMerge ups).phase = .ready ↔ ∃ u ∈ ups, u.status.isContinuable = true := by
  unfold multiMerge
  by_cases h : ups.any (·.status.isContinuable) = true
  · simp only [h, ↓reduceIte, true_iff]; simpa using h
  · simp only [h, Bool.false_eq_true, ↓reduceIte]
    have : ¬ ∃ u ∈ ups, u.status.isContinuable = true := by simpa using h
    split <;> simp [this]

theorem mm_skip_iff (ups : List Up) :
    (multiMerge ups).phase = .skip ↔
      (∀ u ∈ ups, u.status.isContinuable = false) ∧ ∀ u ∈ ups, u.status.isHalt = true := by
  unfold multiMerge
  by_cases h : ups.any (·.status.isContinuable) = true
  · simp only [h, ↓reduceIte]
    constructor
    · intro h'; cases h'
    · rintro ⟨hc, _⟩
      simp only [List.any_eq_true] at h
      obtain ⟨u, hu, hcu⟩ := h
      rw [hc u hu] at hcu; cases hcu
  · simp only [h, Bool.false_eq_true, ↓reduceIte]
    have hc : ∀ u ∈ ups, u.status.isContinuable = false := by simpa using h
    by_cases ha : ups.all (·.status.isHalt) = true
    · simp only [ha, ↓reduceIte, true_iff]
      exact ⟨hc, by simpa using ha⟩
    · simp only [ha, Bool.false_eq_true, ↓reduceIte]
      constructor
      · intro h'; cases h'
      · rintro ⟨_, hh⟩; exact absurd (by simpa using hh) ha

/-! ### N-of-M -/

/-- completed + (neither completed nor halted) = not halted -/
theorem count_split (ups : List Up) :
    (ups.filter (·.status.isContinuable)).length
      + (ups.filter (fun u => !u.status.isContinuable && !u.status.isHalt)).length
      = (ups.filter (fun u => !u.status.isHalt)).length := by
  induction ups with
  | nil => rfl
  | cons u t ih =>
    have h1 := cont_not_halt u.status
    simp only [List.filter_cons]
    cases hc : u.status.isContinuable <;> cases hh : u.status.isHalt <;> simp_all <;> omega

end Stab.Lemmas.C03
