/-
  Helper lemmas for C15: the fold / fuel based traversal definitions of `Stab.Jump` are rewritten
  as a generic "growing scan" (`grow`) iterated to a fixed point (`fix`), about which closure,
  leastness, no-duplicates and fuel sufficiency are proved once and instantiated twice
  (`resettable`: ALL prerequisites in scope; `downstream`: SOME prerequisite in scope).
  Core Lean only.
-/
import Stab.Model.Jump

namespace Stab.Lemmas.C15
open Stab.Jump

/-! ## one scan -/

/-- one scan over `l` with a growing scope: the stages added, in scan order -/
def grow (c : List Nat → Nat → Bool) : List Nat → List Nat → List Nat
  | [], _ => []
  | i :: l, sc => if c sc i then i :: grow c l (sc ++ [i]) else grow c l sc

/-- the scan condition refuses stages already in scope -/
def Fresh (c : List Nat → Nat → Bool) : Prop := ∀ sc i, c sc i = true → i ∉ sc

theorem grow_sub (c) : ∀ (l sc : List Nat) (x : Nat), x ∈ grow c l sc → x ∈ l := by
  intro l
  induction l with
  | nil => intro sc x h; simp [grow] at h
  | cons i l ih =>
    intro sc x h
    unfold grow at h
    split at h
    · rcases List.mem_cons.mp h with rfl | h
      · exact List.mem_cons_self
      · exact List.mem_cons_of_mem _ (ih _ _ h)
    · exact List.mem_cons_of_mem _ (ih _ _ h)

theorem grow_notin (c) (hc : Fresh c) : ∀ (l sc : List Nat) (x : Nat), x ∈ grow c l sc → x ∉ sc := by
  intro l
  induction l with
  | nil => intro sc x h; simp [grow] at h
  | cons i l ih =>
    intro sc x h
    unfold grow at h
    split at h
    · rename_i hci
      rcases List.mem_cons.mp h with rfl | h
      · exact hc _ _ hci
      · have := ih _ _ h
        intro hx; exact this (List.mem_append_left _ hx)
    · exact ih _ _ h

theorem grow_nodup (c) (hc : Fresh c) : ∀ (l sc : List Nat), (grow c l sc).Nodup := by
  intro l
  induction l with
  | nil => intro sc; simp [grow]
  | cons i l ih =>
    intro sc
    unfold grow
    split
    · refine List.nodup_cons.mpr ⟨?_, ih _⟩
      intro h
      exact grow_notin c hc _ _ _ h (List.mem_append_right _ List.mem_cons_self)
    · exact ih _

theorem grow_nil (c) : ∀ (l sc : List Nat), grow c l sc = [] → ∀ i ∈ l, c sc i = false := by
  intro l
  induction l with
  | nil => intro sc _ i hi; cases hi
  | cons a l ih =>
    intro sc h i hi
    unfold grow at h
    split at h
    · cases h
    · rename_i hca
      rcases List.mem_cons.mp hi with rfl | hi
      · simpa using hca
      · exact ih _ h _ hi

/-- an invariant of the scope that the scan condition maintains holds of everything added -/
theorem grow_inv (c) (P : Nat → Prop)
    (hstep : ∀ sc i, (∀ x ∈ sc, P x) → c sc i = true → P i) :
    ∀ (l sc : List Nat), (∀ x ∈ sc, P x) → ∀ x ∈ grow c l sc, P x := by
  intro l
  induction l with
  | nil => intro sc _ x h; simp [grow] at h
  | cons i l ih =>
    intro sc hsc x h
    unfold grow at h
    split at h
    · rename_i hci
      have hPi : P i := hstep sc i hsc hci
      rcases List.mem_cons.mp h with rfl | h
      · exact hPi
      · refine ih (sc ++ [i]) ?_ x h
        intro y hy
        rcases List.mem_append.mp hy with hy | hy
        · exact hsc y hy
        · simp at hy; subst hy; exact hPi
    · exact ih sc hsc x h

/-- every added stage satisfied the condition w.r.t. some intermediate scope -/
theorem grow_witness (c) : ∀ (l sc : List Nat) (x : Nat), x ∈ grow c l sc →
    ∃ sc', (∀ y ∈ sc, y ∈ sc') ∧ (∀ y ∈ sc', y ∈ sc ++ grow c l sc) ∧ c sc' x = true := by
  intro l
  induction l with
  | nil => intro sc x h; simp [grow] at h
  | cons i l ih =>
    intro sc x h
    unfold grow at h ⊢
    split at h
    · rename_i hci
      simp only [hci, ↓reduceIte]
      rcases List.mem_cons.mp h with rfl | h
      · exact ⟨sc, fun y hy => hy, fun y hy => List.mem_append_left _ hy, hci⟩
      · obtain ⟨sc', h1, h2, h3⟩ := ih _ _ h
        refine ⟨sc', fun y hy => h1 y (List.mem_append_left _ hy), ?_, h3⟩
        intro y hy
        have := h2 y hy
        simp only [List.mem_append, List.mem_cons, List.not_mem_nil, or_false] at this ⊢
        rcases this with (h | h) | h
        · exact Or.inl h
        · exact Or.inr (Or.inl h)
        · exact Or.inr (Or.inr h)
    · rename_i hci
      simp only [hci]
      exact ih _ _ h

/-! ## iteration to the fixed point -/

/-- iterate the scan over `range n` until a pass adds nothing (or the fuel runs out) -/
def fix (c : List Nat → Nat → Bool) (n : Nat) : Nat → List Nat → List Nat
  | 0, sc => sc
  | fuel + 1, sc =>
    let new := grow c (List.range n) sc
    if new.isEmpty then sc else fix c n fuel (sc ++ new)

theorem fix_prefix (c n) : ∀ (fuel : Nat) (sc : List Nat), ∃ ext, fix c n fuel sc = sc ++ ext := by
  intro fuel
  induction fuel with
  | zero => intro sc; exact ⟨[], by simp [fix]⟩
  | succ fuel ih =>
    intro sc
    unfold fix
    simp only
    split
    · exact ⟨[], by simp⟩
    · obtain ⟨ext, h⟩ := ih (sc ++ grow c (List.range n) sc)
      exact ⟨grow c (List.range n) sc ++ ext, by rw [h, List.append_assoc]⟩

theorem fix_inv (c n) (P : Nat → Prop)
    (hstep : ∀ sc i, (∀ x ∈ sc, P x) → c sc i = true → P i) :
    ∀ (fuel : Nat) (sc : List Nat), (∀ x ∈ sc, P x) → ∀ x ∈ fix c n fuel sc, P x := by
  intro fuel
  induction fuel with
  | zero => intro sc h x hx; exact h x (by simpa [fix] using hx)
  | succ fuel ih =>
    intro sc h x hx
    unfold fix at hx
    simp only at hx
    split at hx
    · exact h x hx
    · refine ih _ ?_ x hx
      intro y hy
      rcases List.mem_append.mp hy with hy | hy
      · exact h y hy
      · exact grow_inv c P hstep _ _ h y hy

/-- every stage of the result outside the start scope satisfied the condition w.r.t. a scope
    between the start scope and the result -/
theorem fix_witness (c n) : ∀ (fuel : Nat) (sc : List Nat) (x : Nat), x ∈ fix c n fuel sc → x ∉ sc →
    ∃ sc', (∀ y ∈ sc, y ∈ sc') ∧ (∀ y ∈ sc', y ∈ fix c n fuel sc) ∧ c sc' x = true := by
  intro fuel
  induction fuel with
  | zero => intro sc x hx hn; exact absurd (by simpa [fix] using hx) hn
  | succ fuel ih =>
    intro sc x hx hn
    unfold fix at hx ⊢
    simp only at hx ⊢
    split at hx
    · exact absurd hx hn
    · rename_i hne
      simp only [hne]
      obtain ⟨ext, hext⟩ := fix_prefix c n fuel (sc ++ grow c (List.range n) sc)
      by_cases hxg : x ∈ sc ++ grow c (List.range n) sc
      · have hxg' : x ∈ grow c (List.range n) sc := by
          rcases List.mem_append.mp hxg with h | h
          · exact absurd h hn
          · exact h
        obtain ⟨sc', h1, h2, h3⟩ := grow_witness c _ _ _ hxg'
        refine ⟨sc', h1, ?_, h3⟩
        intro y hy
        rw [hext]; exact List.mem_append_left _ (h2 y hy)
      · obtain ⟨sc', h1, h2, h3⟩ := ih _ x hx hxg
        exact ⟨sc', fun y hy => h1 y (List.mem_append_left _ hy), h2, h3⟩

/-- the scope stays duplicate-free and inside `extra ∪ {0..n-1}` -/
def Inv (n : Nat) (root : Nat) (sc : List Nat) : Prop :=
  sc.Nodup ∧ ∀ x ∈ sc, x = root ∨ x < n

theorem inv_length {n root sc} (h : Inv n root sc) : sc.length ≤ n + 1 := by
  have hsub : sc ⊆ root :: List.range n := by
    intro x hx
    rcases h.2 x hx with rfl | hlt
    · exact List.mem_cons_self
    · exact List.mem_cons_of_mem _ (List.mem_range.mpr hlt)
  have := List.Nodup.length_le_of_subset h.1 hsub
  simpa using this

theorem inv_grow (c) (hc : Fresh c) {n root sc} (h : Inv n root sc) :
    Inv n root (sc ++ grow c (List.range n) sc) := by
  refine ⟨?_, ?_⟩
  · refine List.nodup_append.mpr ⟨h.1, grow_nodup c hc _ _, ?_⟩
    intro a ha b hb hab
    subst hab
    exact grow_notin c hc _ _ _ hb ha
  · intro x hx
    rcases List.mem_append.mp hx with hx | hx
    · exact h.2 x hx
    · exact Or.inr (List.mem_range.mp (grow_sub c _ _ _ hx))

theorem fix_keeps_inv (c) (hc : Fresh c) (n root) : ∀ (fuel : Nat) (sc : List Nat), Inv n root sc →
    Inv n root (fix c n fuel sc) := by
  intro fuel
  induction fuel with
  | zero => intro sc h; simpa [fix] using h
  | succ fuel ih =>
    intro sc h
    unfold fix
    simp only
    split
    · exact h
    · exact ih _ (inv_grow c hc h)

/-- **fuel sufficiency**: with `sc.length + fuel ≥ n + 2` the loop stops because a pass added
    nothing, i.e. the result is a fixed point of the scan -/
theorem fix_closed (c) (hc : Fresh c) (n root) : ∀ (fuel : Nat) (sc : List Nat), Inv n root sc →
    n + 2 ≤ sc.length + fuel → grow c (List.range n) (fix c n fuel sc) = [] := by
  intro fuel
  induction fuel with
  | zero =>
    intro sc h hl
    have := inv_length h
    omega
  | succ fuel ih =>
    intro sc h hl
    unfold fix
    simp only
    split
    · rename_i he; simpa using he
    · rename_i hne
      refine ih _ (inv_grow c hc h) ?_
      have : (grow c (List.range n) sc).length ≥ 1 := by
        cases hg : grow c (List.range n) sc with
        | nil => simp [hg] at hne
        | cons a t => simp
      simp only [List.length_append]
      omega

/-- once a fixed point is reached, more fuel changes nothing -/
theorem fix_stable (c n) : ∀ (fuel : Nat) (sc : List Nat),
    grow c (List.range n) (fix c n fuel sc) = [] → ∀ k, fix c n (fuel + k) sc = fix c n fuel sc := by
  intro fuel
  induction fuel with
  | zero =>
    intro sc h k
    simp only [fix] at h
    cases k with
    | zero => rfl
    | succ k => simp [fix, h]
  | succ fuel ih =>
    intro sc h k
    have e : fuel + 1 + k = (fuel + k) + 1 := by omega
    rw [e]
    unfold fix at h ⊢
    simp only at h ⊢
    split
    · rfl
    · rename_i hne
      simp only [hne] at h
      exact ih _ h k

/-! ## the two instances -/

/-- `get_resettable_downstream_stages`: not in scope, has prerequisites, ALL of them in scope -/
def cS (g : Graph) (sc : List Nat) (i : Nat) : Bool :=
  !sc.contains i && (!(prereqs g i).isEmpty && (prereqs g i).all (fun r => sc.contains r))

/-- `get_downstream_stages`: not visited, SOME prerequisite visited -/
def cD (g : Graph) (sc : List Nat) (i : Nat) : Bool :=
  !sc.contains i && (prereqs g i).any (fun r => sc.contains r)

theorem fresh_cS (g) : Fresh (cS g) := by
  intro sc i h; simp [cS] at h; exact h.1

theorem fresh_cD (g) : Fresh (cD g) := by
  intro sc i h; simp [cD] at h; exact h.1

theorem scopeFold (g : Graph) : ∀ (l sc added : List Nat),
    l.foldl
      (fun (acc : List Nat × List Nat) i =>
        let (sc, added) := acc
        let pre := prereqs g i
        if sc.contains i then acc
        else if pre.isEmpty then acc
        else if pre.all (fun r => sc.contains r) then (sc ++ [i], added ++ [i])
        else acc)
      (sc, added) = (sc ++ grow (cS g) l sc, added ++ grow (cS g) l sc) := by
  intro l
  induction l with
  | nil => intro sc added; simp [grow]
  | cons i l ih =>
    intro sc added
    simp only [List.foldl_cons]
    unfold grow
    by_cases h1 : sc.contains i = true
    · simp only [h1, ↓reduceIte, cS, Bool.not_true, Bool.false_and, Bool.false_eq_true]
      exact ih sc added
    · by_cases h2 : (prereqs g i).isEmpty = true
      · simp only [h1, h2, ↓reduceIte, cS, Bool.not_true, Bool.false_and, Bool.and_false,
          Bool.false_eq_true]
        exact ih sc added
      · by_cases h3 : (prereqs g i).all (fun r => sc.contains r) = true
        · simp only [h1, h2, h3, ↓reduceIte, cS, Bool.not_false, Bool.and_self, Bool.false_eq_true]
          rw [ih]
          simp [List.append_assoc]
        · simp only [h1, h2, h3, ↓reduceIte, cS, Bool.and_false, Bool.false_eq_true]
          exact ih sc added

theorem scopePass_eq (g : Graph) (sc : List Nat) :
    scopePass g sc = (sc ++ grow (cS g) (List.range g.length) sc, grow (cS g) (List.range g.length) sc) := by
  unfold scopePass
  rw [scopeFold]
  simp

theorem downFold (g : Graph) : ∀ (l sc : List Nat),
    l.foldl
      (fun sc i => if sc.contains i then sc
                   else if (prereqs g i).any (fun r => sc.contains r) then sc ++ [i] else sc)
      sc = sc ++ grow (cD g) l sc := by
  intro l
  induction l with
  | nil => intro sc; simp [grow]
  | cons i l ih =>
    intro sc
    simp only [List.foldl_cons]
    unfold grow
    by_cases h1 : sc.contains i = true
    · simp only [h1, ↓reduceIte, cD, Bool.not_true, Bool.false_and, Bool.false_eq_true]
      exact ih sc
    · by_cases h2 : (prereqs g i).any (fun r => sc.contains r) = true
      · simp only [h1, h2, ↓reduceIte, cD, Bool.not_false, Bool.and_self, Bool.false_eq_true]
        rw [ih]; simp [List.append_assoc]
      · simp only [h1, h2, ↓reduceIte, cD, Bool.and_false, Bool.false_eq_true]
        exact ih sc

theorem downPass_eq (g : Graph) (sc : List Nat) :
    downPass g sc = sc ++ grow (cD g) (List.range g.length) sc := by
  unfold downPass; exact downFold g _ sc

theorem scopeLoop_spec (g : Graph) : ∀ (fuel : Nat) (scope acc : List Nat),
    ∃ ext, scopeLoop g fuel scope acc = (scope ++ ext, acc ++ ext)
      ∧ fix (cS g) g.length fuel scope = scope ++ ext := by
  intro fuel
  induction fuel with
  | zero => intro scope acc; exact ⟨[], by simp [scopeLoop, fix]⟩
  | succ fuel ih =>
    intro scope acc
    unfold scopeLoop fix
    rw [scopePass_eq]
    simp only
    split
    · exact ⟨[], by simp⟩
    · obtain ⟨ext, h1, h2⟩ := ih (scope ++ grow (cS g) (List.range g.length) scope)
        (acc ++ grow (cS g) (List.range g.length) scope)
      exact ⟨grow (cS g) (List.range g.length) scope ++ ext, by rw [h1]; simp [List.append_assoc],
        by rw [h2]; simp [List.append_assoc]⟩

theorem downLoop_eq (g : Graph) : ∀ (fuel : Nat) (scope : List Nat),
    downLoop g fuel scope = fix (cD g) g.length fuel scope := by
  intro fuel
  induction fuel with
  | zero => intro scope; rfl
  | succ fuel ih =>
    intro scope
    unfold downLoop fix
    rw [downPass_eq]
    simp only
    have hiff : ((scope ++ grow (cD g) (List.range g.length) scope).length == scope.length)
        = (grow (cD g) (List.range g.length) scope).isEmpty := by
      cases hg : grow (cD g) (List.range g.length) scope <;> simp
    rw [hiff]
    split
    · rfl
    · exact ih _

/-- `root :: resettable g root` is the fixed-point iteration of the ALL-condition from `[root]` -/
theorem resettable_fix (g : Graph) (root : Nat) :
    root :: resettable g root = fix (cS g) g.length (g.length + 1) [root] := by
  obtain ⟨ext, h1, h2⟩ := scopeLoop_spec g (g.length + 1) [root] []
  unfold resettable
  rw [h1, h2]; simp

theorem resettable_fix_any_fuel (g : Graph) (root fuel : Nat) :
    root :: (scopeLoop g fuel [root] []).2 = fix (cS g) g.length fuel [root] := by
  obtain ⟨ext, h1, h2⟩ := scopeLoop_spec g fuel [root] []
  rw [h1, h2]; simp

theorem inv_root (n root : Nat) : Inv n root [root] := by
  refine ⟨by simp, ?_⟩
  intro x hx; simp at hx; exact Or.inl hx

/-! ## sums with one entry replaced (for the jump budget potential) -/

theorem sum_set (l : List Nat) (i : Nat) (v : Nat) (h : i < l.length) :
    (l.set i v).sum + l[i] = l.sum + v := by
  induction l generalizing i with
  | nil => simp at h
  | cons a t ih =>
    cases i with
    | zero => simp; omega
    | succ i =>
      simp only [List.length_cons, Nat.add_lt_add_iff_right] at h
      simp only [List.set_cons_succ, List.sum_cons, List.getElem_cons_succ]
      have := ih i h
      omega

theorem sum_ge_length (l : List Nat) (h : ∀ x ∈ l, 1 ≤ x) : l.length ≤ l.sum := by
  induction l with
  | nil => simp
  | cons a t ih =>
    simp only [List.length_cons, List.sum_cons]
    have := h a List.mem_cons_self
    have := ih (fun x hx => h x (List.mem_cons_of_mem _ hx))
    omega

theorem sum_le_mul (l : List Nat) (b : Nat) (h : ∀ x ∈ l, x ≤ b) : l.sum ≤ l.length * b := by
  induction l with
  | nil => simp
  | cons a t ih =>
    simp only [List.length_cons, List.sum_cons]
    have := h a List.mem_cons_self
    have := ih (fun x hx => h x (List.mem_cons_of_mem _ hx))
    rw [Nat.add_mul]; omega

/-! ## sums over `range n` compared pointwise (for the linear budget measure) -/

theorem sum_range_le (n : Nat) (f f' : Nat → Nat) (h : ∀ i, i < n → f' i ≤ f i) :
    ((List.range n).map f').sum ≤ ((List.range n).map f).sum := by
  induction n with
  | zero => simp
  | succ n ih =>
    simp only [List.range_succ, List.map_append, List.sum_append, List.map_cons, List.map_nil,
      List.sum_cons, List.sum_nil, Nat.add_zero]
    have := ih (fun i hi => h i (by omega))
    have := h n (by omega)
    omega

theorem sum_range_lt (n : Nat) (f f' : Nat → Nat) (s : Nat) (hs : s < n)
    (h : ∀ i, i < n → f' i ≤ f i) (hs' : f' s + 1 ≤ f s) :
    ((List.range n).map f').sum + 1 ≤ ((List.range n).map f).sum := by
  induction n with
  | zero => omega
  | succ n ih =>
    simp only [List.range_succ, List.map_append, List.sum_append, List.map_cons, List.map_nil,
      List.sum_cons, List.sum_nil, Nat.add_zero]
    by_cases hsn : s = n
    · subst hsn
      have := sum_range_le s f f' (fun i hi => h i (by omega))
      omega
    · have := ih (by omega) (fun i hi => h i (by omega))
      have := h n (by omega)
      omega

theorem sum_range_le_mul (n : Nat) (f : Nat → Nat) (B : Nat) (h : ∀ i, i < n → f i ≤ B) :
    ((List.range n).map f).sum ≤ n * B := by
  induction n with
  | zero => simp
  | succ n ih =>
    simp only [List.range_succ, List.map_append, List.sum_append, List.map_cons, List.map_nil,
      List.sum_cons, List.sum_nil, Nat.add_zero]
    have := ih (fun i hi => h i (by omega))
    have := h n (by omega)
    rw [Nat.add_mul]; omega

end Stab.Lemmas.C15
