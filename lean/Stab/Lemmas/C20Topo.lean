/-
  Helper lemmas for C20 (graph part): vocabulary of the theorem statements (`Edge`, `Reach`,
  `Acyclic`, `Ordered`) and the invariants of the Kahn loop.  Core Lean only.
-/
import Stab.Model.Topo

namespace Stab.Topo

instance {ε α : Type} [DecidableEq ε] [DecidableEq α] : DecidableEq (Except ε α) := fun a b =>
  match a, b with
  | .ok x, .ok y => if h : x = y then isTrue (by rw [h]) else isFalse (by intro h'; cases h'; exact h rfl)
  | .error x, .error y => if h : x = y then isTrue (by rw [h]) else isFalse (by intro h'; cases h'; exact h rfl)
  | .ok _, .error _ => isFalse (by intro h; cases h)
  | .error _, .ok _ => isFalse (by intro h; cases h)

/-! ### vocabulary -/

/-- `a` names `b` as a requisite: some stage of `g` has ref `a` and `b ∈ requisite_stage_ref_ids` -/
def Edge (g : List Stage) (a b : Nat) : Prop := ∃ s ∈ g, s.ref = a ∧ b ∈ s.reqs

/-- non-empty paths of a relation (transitive closure, written out so that no library is needed) -/
inductive Path (E : Nat → Nat → Prop) : Nat → Nat → Prop
  | single {a b : Nat} : E a b → Path E a b
  | cons {a c b : Nat} : E a c → Path E c b → Path E a b

/-- `a` reaches `b` through one or more requisite edges -/
def Reach (g : List Stage) : Nat → Nat → Prop := Path (Edge g)

/-- **acyclic**, stated without reference to Kahn's algorithm: no ref reaches itself -/
def Acyclic (g : List Stage) : Prop := ∀ a, ¬ Reach g a a

/-- every stage comes after all of its requisites -/
def Ordered (out : List Stage) : Prop :=
  ∀ pre s post, out = pre ++ s :: post → ∀ r ∈ s.reqs, r ∈ pre.map (·.ref)

/-- all requisites name an existing stage -/
def Known (g : List Stage) : Prop := ∀ s ∈ g, ∀ r ∈ s.reqs, r ∈ g.map (·.ref)

def NoSelfEdge (g : List Stage) : Prop := ∀ s ∈ g, s.ref ∉ s.reqs

/-- the four conditions of a valid stage graph -/
def Valid (g : List Stage) : Prop :=
  (g.map (·.ref)).Nodup ∧ NoSelfEdge g ∧ Known g ∧ Acyclic g

/-- example graph used by the non-vacuity examples: d ← {b, c} ← a, listed out of order -/
def diamond : List Stage := [⟨4, [2, 3], true⟩, ⟨2, [1], true⟩, ⟨1, [], true⟩, ⟨3, [1], true⟩]

/-! ### paths -/

theorem Path.snoc {E : Nat → Nat → Prop} {a x y : Nat} (h : Path E a x) (e : E x y) : Path E a y := by
  induction h with
  | single h1 => exact .cons h1 (.single e)
  | cons h1 _ ih => exact .cons h1 (ih e)

theorem Path.mono {E E' : Nat → Nat → Prop} (hm : ∀ a b, E a b → E' a b) {a b : Nat}
    (h : Path E a b) : Path E' a b := by
  induction h with
  | single h1 => exact .single (hm _ _ h1)
  | cons h1 _ ih => exact .cons (hm _ _ h1) ih

theorem Path.head {E : Nat → Nat → Prop} {a b : Nat} (h : Path E a b) : ∃ c, E a c := by
  cases h with
  | single h1 => exact ⟨_, h1⟩
  | cons h1 _ => exact ⟨_, h1⟩

/-- In a finite set in which every node has a successor inside the set there is a cycle.
    (Induction on the size: either `a` reaches itself, or the nodes reachable from `a` form a
    strictly smaller set with the same property.) -/
theorem exists_cycle (E : Nat → Nat → Prop) :
    ∀ (n : Nat) (U : List Nat), U.length ≤ n → U ≠ [] → (∀ x ∈ U, ∃ y ∈ U, E x y) →
      ∃ c, Path E c c := by
  intro n
  induction n with
  | zero =>
    intro U hl hne _
    cases U with
    | nil => exact absurd rfl hne
    | cons _ _ => simp at hl
  | succ n ih =>
    intro U hl hne hU
    obtain ⟨a, ha⟩ := List.exists_mem_of_ne_nil U hne
    by_cases hc : Path E a a
    · exact ⟨a, hc⟩
    · haveI : DecidablePred (fun x => Path E a x) := fun _ => Classical.propDecidable _
      have hlen : (U.filter (fun x => decide (Path E a x))).length < U.length :=
        List.length_filter_lt_length_iff_exists.mpr ⟨a, ha, by simpa using hc⟩
      obtain ⟨y, hy, hay⟩ := hU a ha
      have hyR : y ∈ U.filter (fun x => decide (Path E a x)) := by
        simp only [List.mem_filter, decide_eq_true_eq]
        exact ⟨hy, .single hay⟩
      apply ih (U.filter (fun x => decide (Path E a x))) (by omega) (List.ne_nil_of_mem hyR)
      intro x hx
      simp only [List.mem_filter, decide_eq_true_eq] at hx
      obtain ⟨z, hz, hxz⟩ := hU x hx.1
      refine ⟨z, ?_, hxz⟩
      simp only [List.mem_filter, decide_eq_true_eq]
      exact ⟨hz, hx.2.snoc hxz⟩

/-! ### `Ordered` -/

theorem ordered_nil : Ordered [] := by
  intro pre s post h
  cases pre <;> simp at h

theorem ordered_append {a l : List Stage} (ha : Ordered a)
    (hl : ∀ s ∈ l, ∀ r ∈ s.reqs, r ∈ a.map (·.ref)) : Ordered (a ++ l) := by
  intro pre s post h r hr
  rcases List.append_eq_append_iff.mp h with ⟨as, hpre, hl'⟩ | ⟨bs, ha', hpost⟩
  · -- `s` lies in `l`
    have hs : s ∈ l := by rw [hl']; simp
    have := hl s hs r hr
    rw [hpre]; simp only [List.map_append, List.mem_append]; exact Or.inl this
  · cases bs with
    | nil =>
      simp only [List.nil_append] at hpost
      have hs : s ∈ l := by rw [← hpost]; simp
      have := hl s hs r hr
      simp only [List.append_nil] at ha'
      rw [← ha']; exact this
    | cons b bs =>
      simp only [List.cons_append, List.cons.injEq] at hpost
      obtain ⟨rfl, _⟩ := hpost
      exact ha pre s bs ha' r hr

theorem eq_of_ref_eq : ∀ {g : List Stage}, (g.map (·.ref)).Nodup → ∀ {s t : Stage}, s ∈ g → t ∈ g →
    s.ref = t.ref → s = t := by
  intro g
  induction g with
  | nil => intro _ s t hs; cases hs
  | cons x xs ih =>
    intro hnd s t hs ht hst
    simp only [List.map_cons, List.nodup_cons, List.mem_map, not_exists, not_and] at hnd
    rcases List.mem_cons.mp hs with rfl | hs' <;> rcases List.mem_cons.mp ht with rfl | ht'
    · rfl
    · exact absurd hst.symm (hnd.1 t ht')
    · exact absurd hst (hnd.1 s hs')
    · exact ih hnd.2 hs' ht' hst

/-- with distinct refs and an order in which every stage follows its requisites, everything a
    stage reaches lies strictly before it -/
theorem reach_in_prefix {out : List Stage} (hnd : (out.map (·.ref)).Nodup) (ho : Ordered out)
    {a b : Nat} (h : Reach out a b) :
    ∀ pre s post, out = pre ++ s :: post → s.ref = a → b ∈ pre.map (·.ref) := by
  induction h with
  | single e =>
    intro pre s post hout hsa
    obtain ⟨s', hs', hr, hb⟩ := e
    have hs : s ∈ out := by rw [hout]; simp
    have : s' = s := eq_of_ref_eq hnd hs' hs (by rw [hr, hsa])
    subst this
    exact ho pre s' post hout _ hb
  | cons e _ ih =>
    intro pre s post hout hsa
    obtain ⟨s', hs', hr, hc⟩ := e
    have hs : s ∈ out := by rw [hout]; simp
    have : s' = s := eq_of_ref_eq hnd hs' hs (by rw [hr, hsa])
    subst this
    have hcpre := ho pre s' post hout _ hc
    obtain ⟨s'', hs'', hrc⟩ := List.mem_map.mp hcpre
    obtain ⟨p1, p2, hp⟩ := List.append_of_mem hs''
    have := ih p1 s'' (p2 ++ s' :: post) (by rw [hout, hp]; simp) hrc
    rw [hp]; simp only [List.map_append, List.mem_append]; exact Or.inl this

theorem acyclic_of_ordered {out : List Stage} (hnd : (out.map (·.ref)).Nodup) (ho : Ordered out) :
    Acyclic out := by
  intro a h
  obtain ⟨c, s, hs, hsa, _⟩ := Path.head h
  obtain ⟨pre, post, hout⟩ := List.append_of_mem hs
  have hin := reach_in_prefix hnd ho h pre s post hout hsa
  rw [hout] at hnd
  simp only [List.map_append, List.map_cons] at hnd
  have := (List.nodup_append.mp hnd).2.2 a hin s.ref (by simp)
  exact this hsa.symm

theorem edge_congr {g g' : List Stage} (h : ∀ s, s ∈ g ↔ s ∈ g') (a b : Nat) : Edge g a b → Edge g' a b := by
  rintro ⟨s, hs, h1, h2⟩
  exact ⟨s, (h s).mp hs, h1, h2⟩

theorem acyclic_congr {g g' : List Stage} (h : ∀ s, s ∈ g ↔ s ∈ g') : Acyclic g → Acyclic g' := by
  intro ha a hr
  exact ha a (Path.mono (edge_congr (fun s => (h s).symm)) hr)

/-! ### the Kahn loop -/

theorem ready_iff (done : List Nat) (s : Stage) : ready done s = true ↔ ∀ r ∈ s.reqs, r ∈ done := by
  simp [ready, List.all_eq_true]

theorem kahn_ok : ∀ (n : Nat) (u : List Stage) (acc res : List (List Stage)),
    kahn n u acc = .ok res → Ordered acc.flatten →
      Ordered res.flatten ∧ res.flatten.Perm (acc.flatten ++ u) := by
  intro n
  induction n with
  | zero =>
    intro u acc res h ho
    cases u with
    | nil => simp only [kahn, Except.ok.injEq] at h; subst h; simpa using ho
    | cons x xs => simp [kahn] at h
  | succ n ih =>
    intro u acc res h ho
    cases u with
    | nil => simp only [kahn, Except.ok.injEq] at h; subst h; simpa using ho
    | cons x xs =>
      simp only [kahn] at h
      split at h
      · cases h
      · obtain ⟨ho', hp⟩ := ih _ _ _ h (by
          simp only [List.flatten_append, List.flatten_cons, List.flatten_nil, List.append_nil]
          apply ordered_append ho
          intro s hs
          exact (ready_iff _ s).mp (List.mem_filter.mp hs).2)
        refine ⟨ho', hp.trans ?_⟩
        simp only [List.flatten_append, List.flatten_cons, List.flatten_nil, List.append_nil,
          List.append_assoc]
        exact List.Perm.append_left _ (List.filter_append_perm _ _)

/-- When the loop gives up, the stages it returns are non-empty, together with the stages already
    emitted they are the input, and none of them is ready w.r.t. the emitted refs.
    The hypothesis `u.length ≤ n` is what makes the fuel invisible. -/
theorem kahn_error : ∀ (n : Nat) (u : List Stage) (acc : List (List Stage)) (stuck : List Stage),
    u.length ≤ n → kahn n u acc = .error stuck →
      stuck ≠ [] ∧ ∃ emitted : List Stage, (emitted ++ stuck).Perm (acc.flatten ++ u) ∧
        ∀ s ∈ stuck, ready (emitted.map (·.ref)) s = false := by
  intro n
  induction n with
  | zero =>
    intro u acc stuck hl h
    cases u with
    | nil => simp [kahn] at h
    | cons x xs => simp at hl
  | succ n ih =>
    intro u acc stuck hl h
    cases u with
    | nil => simp [kahn] at h
    | cons x xs =>
      simp only [kahn] at h
      split at h
      · rename_i hempty
        simp only [Except.error.injEq] at h
        subst h
        refine ⟨by simp, acc.flatten, List.Perm.refl _, ?_⟩
        intro s hs
        have hnil := List.isEmpty_iff.mp hempty
        have := List.filter_eq_nil_iff.mp hnil s hs
        simpa using this
      · rename_i hne
        have hex : ∃ s ∈ x :: xs, ¬ ((fun s => !ready (acc.flatten.map (·.ref)) s) s = true) := by
          have : (x :: xs).filter (ready (acc.flatten.map (·.ref))) ≠ [] := by
            intro hnil; exact hne (by rw [hnil]; rfl)
          obtain ⟨s, hs⟩ := List.exists_mem_of_ne_nil _ this
          have := List.mem_filter.mp hs
          exact ⟨s, this.1, by simp only [this.2, Bool.not_true, Bool.false_eq_true, not_false_eq_true]⟩
        have hlt := List.length_filter_lt_length_iff_exists.mpr hex
        obtain ⟨hne', em, hp, hst⟩ := ih _ _ _ (by simp only [List.length_cons] at hl hlt ⊢; omega) h
        refine ⟨hne', em, hp.trans ?_, hst⟩
        simp only [List.flatten_append, List.flatten_cons, List.flatten_nil, List.append_nil,
          List.append_assoc]
        exact List.Perm.append_left _ (List.filter_append_perm _ _)

/-! ### the two pre-checks of `validate_stage_graph` -/

theorem firstDup_none_iff : ∀ (l seen : List Nat),
    firstDup seen l = none ↔ l.Nodup ∧ ∀ x ∈ l, x ∉ seen := by
  intro l
  induction l with
  | nil => intro seen; simp [firstDup]
  | cons r rs ih =>
    intro seen
    simp only [firstDup]
    by_cases h : seen.contains r = true
    · simp only [h, if_true]
      have hm : r ∈ seen := by simpa using h
      simp only [reduceCtorEq, false_iff, not_and]
      intro _ hall
      exact hall r (by simp) hm
    · simp only [h]
      have hm : r ∉ seen := by simpa using h
      rw [if_neg (by simp), ih]
      simp only [List.nodup_cons, List.mem_cons, not_or]
      constructor
      · rintro ⟨hnd, hall⟩
        refine ⟨⟨fun hr => (hall r hr).1 rfl, hnd⟩, ?_⟩
        intro x hx
        rcases hx with rfl | hx
        · exact hm
        · exact (hall x hx).2
      · rintro ⟨⟨hr, hnd⟩, hall⟩
        refine ⟨hnd, fun x hx => ⟨?_, hall x (Or.inr hx)⟩⟩
        rintro rfl
        exact hr hx

theorem structural_none_iff (refs : List Nat) : ∀ (ts : List Stage),
    structural refs ts = none ↔ ∀ s ∈ ts, s.ref ∉ s.reqs ∧ ∀ r ∈ s.reqs, r ∈ refs := by
  intro ts
  induction ts with
  | nil => simp [structural]
  | cons s rest ih =>
    simp only [structural]
    by_cases h1 : s.reqs.contains s.ref = true
    · simp only [h1, if_true, reduceCtorEq, false_iff]
      intro hall
      exact (hall s (by simp)).1 (by simpa using h1)
    · have hself : s.ref ∉ s.reqs := by simpa using h1
      rw [if_neg h1]
      by_cases h2 : (s.reqs.filter (fun r => !refs.contains r)).isEmpty = true
      · have hk : ∀ r ∈ s.reqs, r ∈ refs := by
          have := List.filter_eq_nil_iff.mp (List.isEmpty_iff.mp h2)
          intro r hr
          simpa using this r hr
        simp only [h2, Bool.not_true, Bool.false_eq_true, if_false, ih, List.mem_cons, forall_eq_or_imp]
        exact ⟨fun h => ⟨⟨hself, hk⟩, h⟩, fun h => h.2⟩
      · simp only [h2, Bool.not_false, if_true, reduceCtorEq, false_iff]
        intro hall
        apply h2
        apply List.isEmpty_iff.mpr
        apply List.filter_eq_nil_iff.mpr
        intro r hr
        simpa using (hall s (by simp)).2 r hr

/-- `CircularDependencyError` as opposed to `InvalidStageGraphError` -/
def GraphErr.isCircular : GraphErr → Bool
  | .cycle _ => true
  | _ => false

theorem structural_some_not_circular (refs : List Nat) : ∀ (ts : List Stage) (e : GraphErr),
    structural refs ts = some e → e.isCircular = false := by
  intro ts
  induction ts with
  | nil => intro e h; simp [structural] at h
  | cons s rest ih =>
    intro e h
    simp only [structural] at h
    split at h
    · cases h; rfl
    · split at h
      · cases h; rfl
      · exact ih e h

end Stab.Topo
