/- Model `TxnScope` (driver token `txnscope`) — stub, to be filled in. -/
namespace Stab.TxnScope

/-- driver entry: the rest of the request line after the model token -/
def drive (_rest : String) : String := "unimplemented"

end Stab.TxnScope
