/-
  Model of the thread-local store-transaction scope and the event recorder on ONE thread with the event
  store in the SAME SQLite database as the workflow store:

    events/txn_scope.py          begin / commit / abort_store_transaction (re-entrant via `depth`)
    events/recorder/base.py      `_record`: inside a scope the append joins `scope.connection` and the
                                 publication is queued in `scope.pending`; outside it the event store
                                 commits on its own and the bus is notified immediately
    persistence/sqlite/store/store.py   `transaction()`: begin; body; `conn.commit()` + commit_scope
                                 | on exception `conn.rollback()` + abort_scope
    events/store/sqlite/events.py       `sequence INTEGER PRIMARY KEY AUTOINCREMENT`

  One thread has one SQLite connection: `conn.commit()` makes EVERYTHING pending on it durable,
  `conn.rollback()` discards everything pending (also what an enclosing block wrote so far).  After a
  rollback SQLite hands the rolled-back sequence numbers out again (`sqlite_sequence` is rolled back
  too), so the next sequence is `#durable + #uncommitted + 1` (no deletes).

  `Ev` = an appended event (sequence, harness tag); a state write (e.g. `txn.store_stage`) is a tag.
  Ghost fields: `tainted` (an inner block rolled back while an outer block is still open: the queue
  `pending` now contains events that no longer exist — unless the code clears the queue there, flag `c`), `swallowed` (such an outer block then COMMITTED,
  i.e. the inner exception did not propagate).
-/
import Stab.Model.Basic

namespace Stab.TxnScope
open Stab

structure Ev where
  seq : Nat
  tag : Nat
  deriving DecidableEq, Repr, Inhabited

inductive Op where
  | begin                 -- enter `with store.transaction()`
  | append (tag : Nat)    -- recorder._record(event) (same-database event store)
  | write (tag : Nat)     -- a state write on the store (inside a block: txn.*; outside: own commit)
  | commit                -- leave the innermost block normally
  | abort                 -- leave the innermost block by an exception
  | crash                 -- the process dies
  deriving DecidableEq, Repr, Inhabited

structure St where
  durable : List Ev := []        -- committed rows of `events`, in sequence order
  uncommitted : List Ev := []    -- rows inserted on the connection, not yet committed
  wDurable : List Nat := []      -- committed state writes
  wUncommitted : List Nat := []  -- state writes pending on the connection
  pending : List Ev := []        -- scope.pending
  depth : Nat := 0               -- 0 = no scope bound to the thread
  published : List Ev := []      -- what a synchronous bus subscriber has seen, in order
  tainted : Bool := false        -- ghost
  swallowed : Bool := false      -- ghost
  deriving Repr, Inhabited, DecidableEq

def St.init : St := {}

/-- AUTOINCREMENT on a table without deletes -/
def nextSeq (s : St) : Nat := s.durable.length + s.uncommitted.length + 1

/-- one op; `c` = does the inner-block branch of `abort_store_transaction` clear `scope.pending`
    (generated flag `Stab.Gen.TxnShape.innerAbortClearsPending`; `false` for the code as shipped) -/
def step (c : Bool) (s : St) : Op → St
  | .begin =>
    if s.depth = 0 then { s with depth := 1, pending := [], tainted := false }
    else { s with depth := s.depth + 1 }
  | .append tag =>
    let e : Ev := { seq := nextSeq s, tag := tag }
    if s.depth = 0 then
      -- own connection commit (commits whatever is pending on the connection) + immediate publish
      { s with durable := s.durable ++ s.uncommitted ++ [e], uncommitted := [],
               wDurable := s.wDurable ++ s.wUncommitted, wUncommitted := [],
               published := s.published ++ [e] }
    else
      { s with uncommitted := s.uncommitted ++ [e], pending := s.pending ++ [e] }
  | .write tag =>
    if s.depth = 0 then
      { s with durable := s.durable ++ s.uncommitted, uncommitted := [],
               wDurable := s.wDurable ++ s.wUncommitted ++ [tag], wUncommitted := [] }
    else { s with wUncommitted := s.wUncommitted ++ [tag] }
  | .commit =>
    -- conn.commit()
    let s := { s with durable := s.durable ++ s.uncommitted, uncommitted := [],
                      wDurable := s.wDurable ++ s.wUncommitted, wUncommitted := [] }
    -- commit_store_transaction()
    if s.depth = 0 then s
    else if s.depth = 1 then
      { s with depth := 0, published := s.published ++ s.pending, pending := [],
               swallowed := s.swallowed || s.tainted, tainted := false }
    else { s with depth := s.depth - 1 }
  | .abort =>
    -- conn.rollback()
    let s := { s with uncommitted := [], wUncommitted := [] }
    -- abort_store_transaction()
    if s.depth = 0 then s
    else if s.depth = 1 then { s with depth := 0, pending := [], tainted := false }
    else { s with depth := s.depth - 1, tainted := !c, pending := if c then [] else s.pending }
  | .crash =>
    { s with uncommitted := [], wUncommitted := [], pending := [], depth := 0, tainted := false }

def run (c : Bool) (s : St) (ops : List Op) : St := ops.foldl (step c) s

/-- output of one op for the driver -/
def opOut (before after : St) : Op → String
  | .begin => s!"d{after.depth}"
  | .append _ => s!"s{nextSeq before}"
  | .write _ => "w"
  | .commit => s!"d{after.depth}p{after.published.length}"
  | .abort => s!"d{after.depth}p{after.published.length}"
  | .crash => "x"

/-! ### driver: `txnscope run <innerAbortClears 0|1> B;A1;W2;B;R;C;X`  → per-op outputs joined by `|`, then ` # ` and the final logs -/

def parseOp (s : String) : Option Op :=
  if s == "B" then some .begin
  else if s == "C" then some .commit
  else if s == "R" then some .abort
  else if s == "X" then some .crash
  else if s.startsWith "A" then (Parse.nat? (s.drop 1).toString).map Op.append
  else if s.startsWith "W" then (Parse.nat? (s.drop 1).toString).map Op.write
  else none

def showEvs (l : List Ev) : String :=
  if l.isEmpty then "-" else ",".intercalate (l.map (fun e => s!"{e.tag}@{e.seq}"))

def showSt (s : St) : String :=
  s!"durable={showEvs s.durable} published={showEvs s.published} writes={Parse.showNats s.wDurable} depth={s.depth}"

def runOut (c : Bool) : St → List Op → List String → St × List String
  | s, [], acc => (s, acc)
  | s, op :: rest, acc =>
    let s' := step c s op
    runOut c s' rest (acc ++ [opOut s s' op])

def drive (rest : String) : String :=
  match rest.splitOn " " with
  | ["run", c, ops] =>
    match Parse.bool? c, (if ops == "-" then some [] else Parse.all? parseOp (ops.splitOn ";")) with
    | some c, some ops =>
      let (s, outs) := runOut c St.init ops []
      (if outs.isEmpty then "-" else "|".intercalate outs) ++ " # " ++ showSt s
    | _, _ => "bad-request"
  | _ => "bad-request"

end Stab.TxnScope
