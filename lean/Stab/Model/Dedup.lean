/- Model `Dedup` (driver token `dedup`) — stub, to be filled in. -/
namespace Stab.Dedup

/-- driver entry: the rest of the request line after the model token -/
def drive (_rest : String) : String := "unimplemented"

end Stab.Dedup
