/-
  Model `Dedup` (driver token `dedup`) — the in-memory bloom filter of `stabilize.queue.dedup` and the
  duplicate check of `QueueProcessorMixin._handle_message` / `_hydrate_deduplicator`.

  Code mirrored:
    queue/dedup.py                    BloomDeduplicator: bytearray of ceil(size/8) bytes, `_get_bit`/`_set_bit`
                                      (byte = pos // 8, bit = pos % 8), `maybe_seen`, `mark_seen`, `reset`,
                                      `hydrate`, `authoritative`, `fill_ratio`, `should_reset(0.7)`
    queue/processor/mixins.py         `_handle_message` (both settings of `dedup_trust_negative_cache`),
                                      `_hydrate_deduplicator` (capacity check on `expected_items`)
    persistence/sqlite/operations.py  `is_message_processed`, `mark_message_processed` (INSERT OR IGNORE),
                                      `get_processed_message_ids(limit)`, `cleanup_old_processed_messages`

  Parameters (trusted to be what they are, not modelled): `pos : Id → List Nat`, the k hash values of an id
  (`(h1 + i*h2)` from md5/sha1 — only "a deterministic function of the id" is used); the filter's bit size and
  capacity (`expected_items`) as computed by `_optimal_size` / the constructor argument; the wall clock
  (an `aged` flag on a delivery stands for "older than max_age", the other trigger of `should_reset`).
-/
import Stab.Model.Basic

namespace Stab.Dedup
open Stab

abbrev Id := Nat

/-! ### the filter -/

/-- `bool(byte & (1 << bit_idx))` -/
def getBit (b i : Nat) : Bool := (b &&& (1 <<< i)) != 0

/-- `byte |= 1 << bit_idx` -/
def setBit (b i : Nat) : Nat := b ||| (1 <<< i)

structure Bloom where
  size : Nat              -- `_size` (number of bits)
  bytes : List Nat        -- `_bit_array`, `(size + 7) // 8` bytes
  count : Nat             -- `_items_added`
  auth : Bool             -- `_authoritative`
  aged : Bool             -- "now - `_creation_time` > `_max_age_seconds`" (time is not modelled: set by an op flag)
  deriving Repr, DecidableEq

def nbytes (size : Nat) : Nat := (size + 7) / 8

/-- a freshly constructed filter -/
def Bloom.fresh (size : Nat) : Bloom :=
  { size := size, bytes := List.replicate (nbytes size) 0, count := 0, auth := false, aged := false }

/-- `_get_bit(pos)` — an index past the array would be an IndexError in Python; `none` here -/
def Bloom.getPos (b : Bloom) (p : Nat) : Option Bool := (b.bytes[p / 8]?).map (fun byte => getBit byte (p % 8))

/-- `_set_bit(pos)` -/
def setPosBytes (bytes : List Nat) (p : Nat) : List Nat :=
  match bytes[p / 8]? with
  | some byte => bytes.set (p / 8) (setBit byte (p % 8))
  | none => bytes

/-- `_get_hash_positions`: the hash values reduced `% self._size` -/
def positions (pos : Id → List Nat) (size : Nat) (id : Id) : List Nat := (pos id).map (· % size)

/-- `maybe_seen`: every position is set -/
def Bloom.maybeSeen (pos : Id → List Nat) (b : Bloom) (id : Id) : Bool :=
  (positions pos b.size id).all (fun p => b.getPos p == some true)

def setAll (bytes : List Nat) (ps : List Nat) : List Nat := ps.foldl setPosBytes bytes

/-- `mark_seen` -/
def Bloom.markSeen (pos : Id → List Nat) (b : Bloom) (id : Id) : Bloom :=
  { b with bytes := setAll b.bytes (positions pos b.size id), count := b.count + 1 }

/-- `reset` -/
def Bloom.reset (b : Bloom) : Bloom :=
  { b with bytes := List.replicate (nbytes b.size) 0, count := 0, auth := false, aged := false }

/-- `hydrate(ids)`: every id is set, then authority is granted -/
def Bloom.hydrate (pos : Id → List Nat) (b : Bloom) (ids : List Id) : Bloom :=
  { (ids.foldl (Bloom.markSeen pos) b) with auth := true }

/-- number of set bits (`sum(bin(b).count("1"))`), bytes are < 256 -/
def popByte (byte : Nat) : Nat := ((List.range 8).filter (fun i => getBit byte i)).length

def Bloom.setBits (b : Bloom) : Nat := (b.bytes.map popByte).sum

/-- `should_reset(threshold=0.7)`: `fill_ratio > 0.7`, or the filter is older than its max age -/
def Bloom.shouldReset (b : Bloom) : Bool := b.aged || decide (10 * b.setBits > 7 * b.size)

/-! ### the processor -/

structure Cfg where
  size : Nat          -- bits of the process-wide filter
  cap : Nat           -- its `expected_items`
  trust : Bool        -- `dedup_trust_negative_cache`
  markOnRaise : Bool := true    -- true: the code as it is (`_handle_message` marks the filter when the handler raises,
                                -- because the handler may already have committed — repair of finding F7);
                                -- false: LEGACY behaviour before that repair, kept only for the labelled legacy fact
  deriving Repr

/-- what the handler does with the delivered message -/
inductive Outcome where
  | commitReturn   -- commits its effects together with the processed mark, returns
  | commitRaise    -- commits its effects together with the processed mark, then raises
  | raiseBefore    -- raises before committing anything
  | plainReturn    -- returns without marking (the processor's own mark follows)
  deriving DecidableEq, Repr

inductive Op where
  | handle (id : Id) (o : Outcome) (aged : Bool)   -- `_handle_message` on a delivery of message `id`; `aged`: the
                                                   -- filter's max age elapsed before this delivery
  | restart                                        -- new process: fresh filter, `QueueProcessor.__init__` hydrates
  | rotate                                         -- `reset()` + `_hydrate_deduplicator()`
  | peerMarks (id : Id)                            -- another worker inserts into processed_messages
  | cleanup (ids : List Id)                        -- these processed ids are deleted by some other means (manual purge)
  | tick (n : Nat)                                 -- time passes (unit: half an hour)
  | sweep (maxAge : Nat)                           -- `cleanup_old_processed_messages(max_age_hours = maxAge / 2)`:
                                                   -- deletes the records strictly older than `maxAge`
  deriving Repr

structure State where
  bloom : Bloom
  store : List Id                 -- processed_messages (a set: INSERT OR IGNORE)
  runs : List Id                  -- ghost: one entry per handler invocation, newest first
  clock : Nat                     -- now (half-hours)
  stamp : List (Id × Nat)         -- `processed_at` of every record ever inserted, newest first (lookup = current record)
  deriving Repr

def storeAdd (st : List Id) (id : Id) : List Id := if st.contains id then st else st ++ [id]

/-- `INSERT OR IGNORE ... processed_at = now`: a new record is stamped, an existing one keeps its stamp -/
def stampAdd (s : State) (id : Id) : List (Id × Nat) := if s.store.contains id then s.stamp else (id, s.clock) :: s.stamp

/-- `processed_at < now - max_age` for the current record of `id` -/
def expired (s : State) (maxAge : Nat) (id : Id) : Bool :=
  match s.stamp.lookup id with
  | some t => decide (t + maxAge < s.clock)
  | none => false

/-- `_hydrate_deduplicator`: asks for `cap + 1` ids; more than `cap` ⇒ the filter stays as it is -/
def hydrateFromStore (pos : Id → List Nat) (cap : Nat) (store : List Id) (b : Bloom) : Bloom :=
  if store.length > cap then b else b.hydrate pos store

def rotateBloom (pos : Id → List Nat) (cap : Nat) (store : List Id) (b : Bloom) : Bloom :=
  hydrateFromStore pos cap store b.reset

def init (c : Cfg) : State := { bloom := Bloom.fresh c.size, store := [], runs := [], clock := 0, stamp := [] }

/-- does `_handle_message` consult `is_message_processed`? -/
def consultsStore (pos : Id → List Nat) (c : Cfg) (b : Bloom) (id : Id) : Bool :=
  b.maybeSeen pos id || !(c.trust && b.auth)

/-- is the delivery acknowledged without running the handler? -/
def skips (pos : Id → List Nat) (c : Cfg) (s : State) (id : Id) : Bool :=
  consultsStore pos c s.bloom id && s.store.contains id

inductive Obs where
  | skipped | ran | other
  deriving DecidableEq, Repr

/-- time passing: the filter becomes older than its max age (stays so until it is reset) -/
def ageState (s : State) (aged : Bool) : State :=
  if aged then { s with bloom := { s.bloom with aged := true } } else s

/-- the filter after the handler raised -/
def onRaise (pos : Id → List Nat) (c : Cfg) (b : Bloom) (id : Id) : Bloom :=
  if c.markOnRaise then b.markSeen pos id else b

/-- `_handle_message` on a delivery of `id` whose handler would behave as `o` -/
def handleMsg (pos : Id → List Nat) (c : Cfg) (s : State) (id : Id) (o : Outcome) : State × Obs :=
  if skips pos c s id then (s, .skipped) else
  -- rotation check, before the handler runs
  let b1 := if s.bloom.shouldReset then rotateBloom pos c.cap s.store s.bloom else s.bloom
  let runs := id :: s.runs
  match o with
  | .raiseBefore => ({ s with bloom := onRaise pos c b1 id, runs := runs }, .ran)
  | .commitRaise => ({ s with bloom := onRaise pos c b1 id, store := storeAdd s.store id, runs := runs, stamp := stampAdd s id }, .ran)
  | .commitReturn | .plainReturn =>
    -- handler returned: `dedup.mark_seen` + `store.mark_message_processed`
    ({ s with bloom := b1.markSeen pos id, store := storeAdd s.store id, runs := runs, stamp := stampAdd s id }, .ran)

def step (pos : Id → List Nat) (c : Cfg) (s : State) : Op → State × Obs
  | .handle id o aged => handleMsg pos c (ageState s aged) id o
  | .restart => ({ s with bloom := hydrateFromStore pos c.cap s.store (Bloom.fresh c.size) }, .other)
  | .rotate => ({ s with bloom := rotateBloom pos c.cap s.store s.bloom }, .other)
  | .peerMarks id => ({ s with store := storeAdd s.store id, stamp := stampAdd s id }, .other)
  | .cleanup ids => ({ s with store := s.store.filter (fun x => !ids.contains x) }, .other)
  | .tick n => ({ s with clock := s.clock + n }, .other)
  | .sweep maxAge => ({ s with store := s.store.filter (fun x => !expired s maxAge x) }, .other)

def run (pos : Id → List Nat) (c : Cfg) (s : State) : List Op → State
  | [] => s
  | op :: ops => run pos c (step pos c s op).1 ops

/-- number of handler invocations for `id` -/
def runCount (s : State) (id : Id) : Nat := (s.runs.filter (· == id)).length

/-! ### driver

  `dedup bloom size=<bits> pos=<id:p.p.p,id:p.p,...|-> ops=<op;op;...>`
       ops: `m:<id>` mark_seen, `q:<id>` maybe_seen, `hyd:<id,id,..|->` hydrate, `reset`, `f` (set bits / should_reset)
  `dedup proc size=<bits> cap=<n> trust=<0|1> mor=<0|1> pos=<...> ops=<op;op;...>`   (`mor`: Cfg.markOnRaise)
       ops: `h:<id>:<cr|cx|rx|pr>[:a]`, `restart`, `rot`, `peer:<id>`, `clean:<id,id,..>`, `tick:<n>`, `sweep:<maxAge>`
       (time unit: half an hour)
-/

def posTable (tbl : List (Id × List Nat)) (id : Id) : List Nat :=
  match tbl.lookup id with
  | some ps => ps
  | none => []

def parsePosEntry (s : String) : Option (Id × List Nat) :=
  match s.splitOn ":" with
  | [i, ps] => do
    let i ← Parse.nat? i
    let ps ← Parse.all? Parse.nat? (ps.splitOn ".")
    pure (i, ps)
  | _ => none

def parsePos (s : String) : Option (List (Id × List Nat)) :=
  if s == "-" then some [] else Parse.all? parsePosEntry (s.splitOn ",")

def kvArg (key : String) (tok : String) : Option String :=
  if tok.startsWith (key ++ "=") then some (tok.drop (key.length + 1)).toString else none

inductive BOp where
  | mark (id : Id) | query (id : Id) | hyd (ids : List Id) | reset | fill
  deriving Repr

def parseBOp (known : Id → Bool) (s : String) : Option BOp :=
  match s.splitOn ":" with
  | ["m", i] => do let i ← Parse.nat? i; if known i then pure (.mark i) else none
  | ["q", i] => do let i ← Parse.nat? i; if known i then pure (.query i) else none
  | ["hyd", l] => do let l ← Parse.natList? l; if l.all known then pure (.hyd l) else none
  | ["reset"] => some .reset
  | ["f"] => some .fill
  | _ => none

def b01 (b : Bool) : String := if b then "1" else "0"

def bstep (pos : Id → List Nat) (b : Bloom) : BOp → Bloom × String
  | .mark i => let b' := b.markSeen pos i; (b', s!"n={b'.count}")
  | .query i => (b, b01 (b.maybeSeen pos i))
  | .hyd l => let b' := b.hydrate pos l; (b', s!"auth={b01 b'.auth} n={b'.count}")
  | .reset => let b' := b.reset; (b', s!"auth={b01 b'.auth} n={b'.count}")
  | .fill => (b, s!"bits={b.setBits} sr={b01 b.shouldReset} auth={b01 b.auth}")

def brun (pos : Id → List Nat) (b : Bloom) : List BOp → List String
  | [] => []
  | op :: ops => (bstep pos b op).2 :: brun pos (bstep pos b op).1 ops

def parseOutcome : String → Option Outcome
  | "cr" => some .commitReturn | "cx" => some .commitRaise | "rx" => some .raiseBefore | "pr" => some .plainReturn
  | _ => none

def parseOp (known : Id → Bool) (s : String) : Option Op :=
  match s.splitOn ":" with
  | ["h", i, o] => do let i ← Parse.nat? i; let o ← parseOutcome o; if known i then pure (.handle i o false) else none
  | ["h", i, o, "a"] => do let i ← Parse.nat? i; let o ← parseOutcome o; if known i then pure (.handle i o true) else none
  | ["restart"] => some .restart
  | ["rot"] => some .rotate
  | ["peer", i] => do let i ← Parse.nat? i; if known i then pure (.peerMarks i) else none
  | ["clean", l] => (Parse.natList? l).map .cleanup
  | ["tick", n] => (Parse.nat? n).map .tick
  | ["sweep", n] => (Parse.nat? n).map .sweep
  | _ => none

def showStep (pos : Id → List Nat) (s' : State) (o : Obs) (op : Op) : String :=
  let tail := s!"auth={b01 s'.bloom.auth} n={s'.bloom.count}"
  match op, o with
  | .handle id _ _, .skipped => s!"skip {tail} seen={b01 (s'.bloom.maybeSeen pos id)}"
  | .handle id _ _, _ => s!"run {tail} seen={b01 (s'.bloom.maybeSeen pos id)}"
  | _, _ => tail

def prun (pos : Id → List Nat) (c : Cfg) (s : State) : List Op → List String
  | [] => []
  | op :: ops =>
    let r := step pos c s op
    showStep pos r.1 r.2 op :: prun pos c r.1 ops

def drive (rest : String) : String :=
  match rest.splitOn " " with
  | ["bloom", sz, ps, ops] =>
    let parsed : Option (Nat × List (Id × List Nat) × List BOp) := do
      let sz ← (kvArg "size" sz) >>= Parse.nat?
      let tbl ← (kvArg "pos" ps) >>= parsePos
      let ops ← kvArg "ops" ops
      let known := fun i => (tbl.lookup i).isSome
      let ops ← Parse.all? (parseBOp known) (Parse.splitNE ops ";")
      if sz = 0 then none else pure (sz, tbl, ops)
    match parsed with
    | some (sz, tbl, ops) => "|".intercalate (brun (posTable tbl) (Bloom.fresh sz) ops)
    | none => "bad-request"
  | ["proc", sz, cap, tr, mor, ps, ops] =>
    let parsed : Option (Cfg × List (Id × List Nat) × List Op) := do
      let sz ← (kvArg "size" sz) >>= Parse.nat?
      let cap ← (kvArg "cap" cap) >>= Parse.nat?
      let tr ← (kvArg "trust" tr) >>= Parse.bool?
      let mor ← (kvArg "mor" mor) >>= Parse.bool?
      let tbl ← (kvArg "pos" ps) >>= parsePos
      let ops ← kvArg "ops" ops
      let known := fun i => (tbl.lookup i).isSome
      let ops ← Parse.all? (parseOp known) (Parse.splitNE ops ";")
      if sz = 0 then none else pure ({ size := sz, cap := cap, trust := tr, markOnRaise := mor }, tbl, ops)
    match parsed with
    | some (c, tbl, ops) => "|".intercalate (prun (posTable tbl) c (init c) ops)
    | none => "bad-request"
  | ["big", cap, rows] =>
    -- a new process over a store with `rows` processed records and a filter of capacity `cap` (both may be large: the
    -- default capacity is 100000): is the hydrated filter authoritative, and how many ids did it load?
    match Parse.nat? cap, Parse.nat? rows with
    | some cap, some rows =>
      let b := hydrateFromStore (fun _ => []) cap (List.range rows) (Bloom.fresh 8)
      s!"auth={b01 b.auth} n={b.count}"
    | _, _ => "bad-request"
  | _ => "bad-request"

end Stab.Dedup
