/- Model `Topo` (driver token `topo`) — stub, to be filled in. -/
namespace Stab.Topo

/-- driver entry: the rest of the request line after the model token -/
def drive (_rest : String) : String := "unimplemented"

end Stab.Topo
