/-
  Model of `stabilize.dag.topological`: `topological_sort` (layered Kahn) and
  `validate_stage_graph` (what `Workflow.create` calls before it builds the workflow).

  A stage is `(ref, requisites, top)`; `top` is `parent_stage_id is None` (both functions look at
  top-level stages only).  Refs are strings in the code; the harness numbers them.  A stage's
  identity is its position in the list (the code tracks `stage.id`, a ULID), so two stages may
  carry the same ref — that is exactly the `duplicate_ref` defect.

  Order inside one Kahn layer: the code iterates a `set` of ULID strings, so the order inside a
  layer is arbitrary; the model keeps input order.  The correspondence compares layer by layer
  (refs sorted inside a layer), the theorems are about every order the model can produce *and*
  `toposort_sound`'s statement (each stage after all of its requisites, permutation of the input)
  is what the implementation-side monitor checks on the real output.
-/
import Stab.Model.Basic

namespace Stab.Topo
open Stab

structure Stage where
  ref : Nat
  reqs : List Nat            -- `requisite_stage_ref_ids` (a set; duplicates in the list are harmless)
  top : Bool := true         -- `parent_stage_id is None`
  deriving DecidableEq, Repr

/-- what `validate_stage_graph` raises.  The first three are `InvalidStageGraphError`
    (message prefix `duplicate_ref:` / `self_edge:` / `unknown_ref:`), the last is
    `CircularDependencyError` with `.stages` = the stages Kahn could not order. -/
inductive GraphErr where
  | duplicateRef (r : Nat)
  | selfEdge (r : Nat)
  | unknownRef (r : Nat) (unknown : List Nat)
  | cycle (members : List Stage)
  deriving DecidableEq, Repr

/-- `[s for s in stages if s.parent_stage_id is None]` -/
def topLevel (stages : List Stage) : List Stage := stages.filter (·.top)

/-- `ref_ids.issuperset(stage.requisite_stage_ref_ids)` -/
def ready (done : List Nat) (s : Stage) : Bool := s.reqs.all (fun r => done.contains r)

/-- The `while unsorted_ids:` loop.  `acc` = the layers emitted so far (`sorted_stages`, kept per
    round), `ref_ids` = the refs of everything in `acc`.  One round takes *every* sortable stage.
    Fuel = number of rounds allowed; `unsorted.length` always suffices (hypothesis `u.length ≤ n` of
    `Lemmas.C20Topo.kahn_error`), the `0` branch with work left is unreachable from `toposortLayers`. -/
def kahn : Nat → List Stage → List (List Stage) → Except (List Stage) (List (List Stage))
  | _, [], acc => .ok acc
  | 0, u :: us, _ => .error (u :: us)
  | n + 1, u :: us, acc =>
    let done := acc.flatten.map (·.ref)
    let layer := (u :: us).filter (ready done)
    if layer.isEmpty then .error (u :: us)            -- `if not sortable: raise CircularDependencyError`
    else kahn n ((u :: us).filter (fun s => !ready done s)) (acc ++ [layer])

def toposortLayers (stages : List Stage) : Except (List Stage) (List (List Stage)) :=
  kahn (topLevel stages).length (topLevel stages) []

/-- `topological_sort(stages)` with the default filter -/
def toposort (stages : List Stage) : Except (List Stage) (List Stage) :=
  (toposortLayers stages).map List.flatten

/-- first loop of `validate_stage_graph`: first ref already in `seen` -/
def firstDup : List Nat → List Nat → Option Nat
  | _, [] => none
  | seen, r :: rs => if seen.contains r then some r else firstDup (r :: seen) rs

/-- second loop: per stage, in order: self-edge first, then unknown refs (`seen` = all refs) -/
def structural (refs : List Nat) : List Stage → Option GraphErr
  | [] => none
  | s :: rest =>
    if s.reqs.contains s.ref then some (.selfEdge s.ref)
    else
      let unknown := s.reqs.filter (fun r => !refs.contains r)
      if !unknown.isEmpty then some (.unknownRef s.ref unknown) else structural refs rest

/-- `validate_stage_graph(stages)` (= the validation step of `Workflow.create`) -/
def validate (stages : List Stage) : Except GraphErr Unit :=
  let ts := topLevel stages
  match firstDup [] (ts.map (·.ref)) with
  | some r => .error (.duplicateRef r)
  | none =>
    match structural (ts.map (·.ref)) ts with
    | some e => .error e
    | none =>
      match toposort stages with
      | .ok _ => .ok ()
      | .error u => .error (.cycle u)

/-! ### driver
  `topo validate <stages>` | `topo sort <stages>`; `<stages>` = `ref:req,req:top;...` or `-` for none.
  Output: `ok` / `ok 1,2|3` (layers, refs sorted inside a layer) / `err <class> ...` (refs sorted). -/

def insertSorted (x : Nat) : List Nat → List Nat
  | [] => [x]
  | y :: ys => if x ≤ y then x :: y :: ys else y :: insertSorted x ys

def sortNats (xs : List Nat) : List Nat := xs.foldr insertSorted []

def parseStage (s : String) : Option Stage :=
  match s.splitOn ":" with
  | [r, reqs, top] => do
    pure { ref := (← Parse.nat? r), reqs := (← Parse.all? Parse.nat? (Parse.splitNE reqs ",")), top := (← Parse.bool? top) }
  | _ => none

def parseStages (s : String) : Option (List Stage) :=
  if s == "-" then some [] else Parse.all? parseStage (s.splitOn ";")

def showRefs (xs : List Nat) : String := Parse.showNats (sortNats xs)

def showErr : GraphErr → String
  | .duplicateRef r => s!"err duplicate_ref {r}"
  | .selfEdge r => s!"err self_edge {r}"
  | .unknownRef r u => s!"err unknown_ref {r} {showRefs (u.eraseDups)}"
  | .cycle m => s!"err cycle {showRefs (m.map (·.ref))}"

def drive (rest : String) : String :=
  match rest.splitOn " " with
  | ["validate", st] =>
    match parseStages st with
    | some stages =>
      match validate stages with
      | .ok _ => "ok"
      | .error e => showErr e
    | none => "bad-request"
  | ["sort", st] =>
    match parseStages st with
    | some stages =>
      match toposortLayers stages with
      | .ok [] => "ok -"
      | .ok layers => "ok " ++ Parse.joinWith "|" (layers.map (fun l => showRefs (l.map (·.ref))))
      | .error u => showErr (.cycle u)
    | none => "bad-request"
  | _ => "bad-request"

end Stab.Topo
