/-
  Model `Retry` (driver token `retry`) — the attempt counter of a `RunTask` message followed
  across queue round trips, together with the stage context that carries saved progress.

  Code mirrored (SQLite backend):
    handlers/run_task/error.py      handle_exception, _handle_transient_retry, _mark_terminal
    handlers/run_task/result.py     process_result / _handle_running (polling re-push), _handle_success_like
    queue/messages.py               Message.attempts / max_attempts (defaults 0 / 10), copy_with_attempts
    persistence/sqlite/transaction  AtomicTransaction.push_message (row `attempts`, `max_attempts` columns, payload)
    queue/sqlite/serialization.py   deserialize_message (pops `attempts`, `max_attempts` from the payload)
    queue/sqlite/queue.py           poll_one (filter `attempts < queue.max_attempts`, `attempts = attempts + 1`,
                                    `message.attempts = row.attempts + 1`), reschedule (keeps the row and its attempts)
    queue/processor/processor.py    process_one: handler raised -> reschedule (processor-level redelivery)

  `Variant.fixed` is the code as it is (with the repairs of findings F1 — commit "transient retries carry their
  attempt count through the queue" — and F12 — "a re-queued RunTask marks its source message processed in the
  same commit"): the row is inserted with `attempts = message.attempts`; `handle_exception` converts the
  delivered 1-based count to the number of previous attempts; `_handle_running` pushes `copy_with_attempts(0)`;
  every commit of the RunTask handler carries `source_message=message`.
  `Variant.legacy` is kept ONLY to state what was wrong before the F1 repair (row inserted with `attempts = 0`,
  delivered count used as if 0-based, polling re-pushes the delivered object); nothing else refers to it.

  The task is a parameter (`Script`): what the n-th execution does.  Everything the model does not
  track (other context keys, outputs, the other tasks of the stage) is outside; the stage context is
  restricted to integer-valued keys `0..15` chosen by the harness.
-/
import Stab.Model.Basic

namespace Stab.Retry
open Stab

/-! ### stage context restricted to the tracked keys -/

/-- association list, first match wins on lookup; `set` replaces in place or appends -/
abbrev Ctx := List (Nat × Int)

def Ctx.get (c : Ctx) (k : Nat) : Option Int :=
  match c with
  | [] => none
  | (k', v) :: r => if k' = k then some v else Ctx.get r k

def Ctx.set (c : Ctx) (k : Nat) (v : Int) : Ctx :=
  match c with
  | [] => [(k, v)]
  | (k', v') :: r => if k' = k then (k, v) :: r else (k', v') :: Ctx.set r k v

/-- `ctx.update(u)` : every pair of `u` is written, later pairs win -/
def merge (c u : Ctx) : Ctx := u.foldl (fun c kv => Ctx.set c kv.1 kv.2) c

/-! ### the task -/

/-- what one execution of the task does -/
inductive Act where
  | failT (u : Ctx)      -- raise TransientError(context_update=u)
  | succeed (u : Ctx)    -- return TaskResult.success(context=u)
  | running (u : Ctx)    -- return TaskResult.running(context=u)
  | failP                -- raise a non-transient exception
  deriving Repr, DecidableEq

/-- the task: execution number `n` (0-based) does `acts[n]`, or `dflt` beyond the list -/
structure Script where
  acts : List Act
  dflt : Act
  deriving Repr

def Script.at (s : Script) (n : Nat) : Act :=
  match s.acts[n]? with
  | some a => a
  | none => s.dflt

/-! ### the pipeline, function by function -/

inductive Variant where
  | legacy | fixed
  deriving DecidableEq, Repr

/-- a `queue_messages` row holding the task's RunTask -/
structure Row where
  attempts : Nat          -- column `attempts`
  maxCol : Nat            -- column `max_attempts`
  payloadAttempts : Nat   -- `"attempts"` inside the JSON payload
  payloadMax : Nat        -- `"max_attempts"` inside the JSON payload
  deriving Repr, DecidableEq

/-- the message object the handler receives -/
structure Msg where
  attempts : Nat
  maxAttempts : Nat
  deriving Repr, DecidableEq

/-- environment of the chain: the queue's own limit (`SqliteQueue.max_attempts`, the poll filter) and the
    dataclass default of `Message.max_attempts` (10 in the source; the harness reads it off the real class) -/
structure Env where
  qmax : Nat
  dfltMax : Nat
  deriving Repr

/-- `deserialize_message`: pops `attempts` and `max_attempts` from the payload, so the dataclass defaults apply;
    `poll_one` does not read the `max_attempts` column back either -/
def deserialize (e : Env) (_r : Row) : Msg := { attempts := 0, maxAttempts := e.dfltMax }

/-- the row after `poll_one` claimed it: `attempts = attempts + 1` -/
def claimed (r : Row) : Row := { r with attempts := r.attempts + 1 }

/-- the message `poll_one` returns: deserialised payload, then `message.attempts = row.attempts + 1` -/
def delivered (e : Env) (r : Row) : Msg :=
  { attempts := r.attempts + 1, maxAttempts := (deserialize e r).maxAttempts }

/-- `poll_one` on this row: `none` when the filter `attempts < queue.max_attempts` rejects it;
    otherwise the claimed row and the delivered message -/
def pollOne (e : Env) (r : Row) : Option (Row × Msg) :=
  if r.attempts < e.qmax then some (claimed r, delivered e r) else none

/-- `copy_with_attempts` -/
def copyWithAttempts (m : Msg) (a : Nat) : Msg := { m with attempts := a }

/-- `AtomicTransaction.push_message` -/
def pushMessage (v : Variant) (m : Msg) : Row :=
  { attempts := (match v with | .legacy => 0 | .fixed => m.attempts),
    maxCol := m.maxAttempts, payloadAttempts := m.attempts, payloadMax := m.maxAttempts }

/-- `message.max_attempts or 10` -/
def effMax (m : Msg) : Nat := if m.maxAttempts = 0 then 10 else m.maxAttempts

/-- `current_attempts` of `handle_exception` -/
def currentAttempts (v : Variant) (m : Msg) : Nat :=
  match v with
  | .legacy => m.attempts             -- `message.attempts or 0`
  | .fixed => m.attempts - 1          -- `max((message.attempts or 0) - 1, 0)`

/-- `handle_exception` on a transient error: `some retry_message` or `none` (mark terminal) -/
def handleTransient (v : Variant) (m : Msg) : Option Msg :=
  let cur := currentAttempts v m
  if cur + 1 < effMax m then some (copyWithAttempts m (cur + 1)) else none

/-- the message `_handle_running` pushes -/
def pollingMessage (v : Variant) (m : Msg) : Msg :=
  match v with
  | .legacy => m
  | .fixed => copyWithAttempts m 0

/-! ### state machine over queue round trips -/

structure State where
  row : Option Row            -- the live RunTask row of the task, if any
  ctx : Ctx                   -- durable stage context (tracked keys)
  execs : Nat                 -- ghost: number of executions of the task so far
  seen : List Ctx             -- ghost: context seen by each execution, oldest first
  done : Option Status        -- status of the CompleteTask that was pushed, if any
  stale : List Row            -- claimed rows whose handling COMMITTED but which were never acked (worker died):
                              -- each is marked processed by that commit (`source_message=message`)
  deriving Repr

inductive Op where
  | handle      -- poll_one, run the handler to completion, ack
  | drop        -- poll_one, handler raised before committing anything (or the worker died): reschedule
  | lose        -- poll_one, the handler runs and commits, then the worker dies: no processor mark, no ack
  | redeliver (k : Nat)   -- the k-th un-acked row of an already committed delivery is delivered again
  deriving DecidableEq, Repr

/-- what the harness can observe about one op -/
inductive Obs where
  | noRow                                   -- nothing to poll for this task
  | stuck                                   -- the row exists but `attempts >= queue.max_attempts`
  | dropped (rowAttempts : Nat)
  | retried (n : Nat) (m : Msg) (saw : Ctx) (row : Row) (stored : Bool) (ctx : Ctx)
  | polled (n : Nat) (m : Msg) (saw : Ctx) (row : Row) (ctx : Ctx)
  | completed (n : Nat) (m : Msg) (saw : Ctx) (st : Status) (ctx : Ctx)
  | lostAck (inner : Obs)                   -- as `inner`, but the delivered row stays in the queue
  | deduped                                 -- acknowledged without running the handler (processed record found)
  deriving Repr

/-- the first RunTask row, pushed by StartTaskHandler (a fresh message: attempts 0, default limit) -/
def initRow (e : Env) : Row := { attempts := 0, maxCol := e.dfltMax, payloadAttempts := 0, payloadMax := e.dfltMax }

def init (e : Env) (c : Ctx) : State :=
  { row := some (initRow e), ctx := c, execs := 0, seen := [], done := none, stale := [] }

/-- the RunTask handler on a delivered message: execute the task, then commit the outcome -/
def handleMsg (v : Variant) (sc : Script) (s : State) (m : Msg) : State × Obs :=
  let n := s.execs
  let s1 := { s with execs := n + 1, seen := s.seen ++ [s.ctx] }
  match sc.at n with
  | .failT u =>
    match handleTransient v m with
    | some rm =>
      -- `if context_update:` store the fresh stage with the update in the same commit as the retry message
      let ctx' := if u.isEmpty then s.ctx else merge s.ctx u
      let row := pushMessage v rm
      ({ s1 with ctx := ctx', row := some row }, .retried n m s.ctx row (!u.isEmpty) ctx')
    | none =>
      -- `_mark_terminal`: context["exception"] (not tracked) + CompleteTask(failure_status = TERMINAL)
      ({ s1 with row := none, done := some .terminal }, .completed n m s.ctx .terminal s.ctx)
  | .failP =>
    ({ s1 with row := none, done := some .terminal }, .completed n m s.ctx .terminal s.ctx)
  | .succeed u =>
    let ctx' := merge s.ctx u
    ({ s1 with ctx := ctx', row := none, done := some .succeeded }, .completed n m s.ctx .succeeded ctx')
  | .running u =>
    let ctx' := merge s.ctx u
    let row := pushMessage v (pollingMessage v m)
    ({ s1 with ctx := ctx', row := some row }, .polled n m s.ctx row ctx')

/-- ops on the live RunTask row of the task -/
def stepLive (v : Variant) (e : Env) (sc : Script) (s : State) (op : Op) : State × Obs :=
  match s.row with
  | none => (s, .noRow)
  | some r =>
    match pollOne e r with
    | none => (s, .stuck)
    | some (r', m) =>
      match op with
      | .drop => ({ s with row := some r' }, .dropped r'.attempts)
      | .lose =>
        -- every commit of the handler marks the delivered message processed; the claimed row is left behind
        let res := handleMsg v sc s m
        ({ res.1 with stale := res.1.stale ++ [r'] }, .lostAck res.2)
      | _ => handleMsg v sc s m

/-- a left-behind row is delivered again: `_handle_message` finds its processed record (C09) and the
    processor acknowledges it without running the handler -/
def stepRedeliver (e : Env) (s : State) (k : Nat) : State × Obs :=
  match s.stale[k]? with
  | none => (s, .noRow)
  | some r => if r.attempts < e.qmax then ({ s with stale := s.stale.eraseIdx k }, .deduped) else (s, .stuck)

def step (v : Variant) (e : Env) (sc : Script) (s : State) (op : Op) : State × Obs :=
  match op with
  | .redeliver k => stepRedeliver e s k
  | _ => stepLive v e sc s op

def run (v : Variant) (e : Env) (sc : Script) (s : State) : List Op → State
  | [] => s
  | op :: ops => run v e sc (step v e sc s op).1 ops

def trace (v : Variant) (e : Env) (sc : Script) (s : State) : List Op → List Obs
  | [] => []
  | op :: ops => (step v e sc s op).2 :: trace v e sc (step v e sc s op).1 ops

/-! ### driver

  `retry <legacy|fixed> q=<qmax> dm=<dataclass default> ctx=<kv|-> script=<act;act;...|-> dflt=<act> ops=<op,op,...|->`
  `kv`  = `k:v,k:v` (keys 0..15);  `act` = `F<kv>` | `S<kv>` | `R<kv>` | `P`;
  ops: `h` handle, `x` drop, `l` lose, `r<k>` redeliver the k-th left-behind row; separated by `.`
  answer: one item per op joined by `|`, then `end ...`
-/

def showCtx (c : Ctx) : String :=
  let items := (List.range 16).filterMap (fun k => (Ctx.get c k).map (fun v => s!"{k}:{v}"))
  if items.isEmpty then "-" else ",".intercalate items

def parseKV (s : String) : Option (Nat × Int) :=
  match s.splitOn ":" with
  | [k, v] => do
    let k ← Parse.nat? k
    let v ← Parse.int? v
    if k < 16 then pure (k, v) else none
  | _ => none

def parseCtx (s : String) : Option Ctx :=
  if s == "-" || s.isEmpty then some [] else Parse.all? parseKV (s.splitOn ",")

def parseAct (s : String) : Option Act :=
  let body := (s.drop 1).toString
  match (s.take 1).toString with
  | "F" => (parseCtx body).map .failT
  | "S" => (parseCtx body).map .succeed
  | "R" => (parseCtx body).map .running
  | "P" => if body.isEmpty then some .failP else none
  | _ => none

def parseOp (s : String) : Option Op :=
  if s == "h" then some .handle
  else if s == "x" then some .drop
  else if s == "l" then some .lose
  else if s.startsWith "r" then (Parse.nat? (s.drop 1).toString).map .redeliver
  else none

def parseOps (s : String) : Option (List Op) :=
  if s == "-" then some [] else Parse.all? parseOp (s.splitOn ".")

def kvArg (key : String) (tok : String) : Option String :=
  if tok.startsWith (key ++ "=") then some (tok.drop (key.length + 1)).toString else none

def showRow (r : Row) : String := s!"{r.attempts}/{r.maxCol}"

def showObs : Obs → String
  | .noRow => "none"
  | .stuck => "stuck"
  | .deduped => "dedup"
  | .dropped a => s!"x:{a}"
  | .retried n m saw row stored ctx =>
    s!"E{n + 1} a={m.attempts} m={m.maxAttempts} see={showCtx saw} retry:{showRow row} v{if stored then 1 else 0} c={showCtx ctx}"
  | .polled n m saw row ctx =>
    s!"E{n + 1} a={m.attempts} m={m.maxAttempts} see={showCtx saw} poll:{showRow row} v1 c={showCtx ctx}"
  | .completed n m saw st ctx =>
    s!"E{n + 1} a={m.attempts} m={m.maxAttempts} see={showCtx saw} done:{st.name} v1 c={showCtx ctx}"
  | .lostAck o => showObs o ++ " noack"

/-- task / stage / workflow status once everything else has been drained, for the single-stage
    workflows the harness builds (every other task succeeds): they follow the task's CompleteTask;
    while a RunTask is still owed (or stuck behind the queue's limit) everything is RUNNING -/
def finalStatuses (s : State) : String :=
  match s.done with
  | some st => s!"{st.name}/{st.name}/{st.name}"
  | none => "RUNNING/RUNNING/RUNNING"

def showEnd (s : State) : String :=
  let d := match s.done with | some st => st.name | none => "-"
  let r := match s.row with | some r => showRow r | none => "-"
  s!"end execs={s.execs} done={d} row={r} stale={s.stale.length} c={showCtx s.ctx} fin={finalStatuses s}"

def drive (rest : String) : String :=
  match rest.splitOn " " with
  | [v, q, dm, cx, scr, df, ops] =>
    let parsed : Option (Variant × Env × Ctx × Script × List Op) := do
      let v ← (if v == "legacy" then some Variant.legacy else if v == "fixed" then some Variant.fixed else none)
      let q ← (kvArg "q" q) >>= Parse.nat?
      let dm ← (kvArg "dm" dm) >>= Parse.nat?
      let cx ← (kvArg "ctx" cx) >>= parseCtx
      let scr ← kvArg "script" scr
      let acts ← (if scr == "-" then some [] else Parse.all? parseAct (scr.splitOn ";"))
      let df ← (kvArg "dflt" df) >>= parseAct
      let ops ← (kvArg "ops" ops) >>= parseOps
      pure (v, { qmax := q, dfltMax := dm }, cx, { acts := acts, dflt := df }, ops)
    match parsed with
    | some (v, e, cx, sc, ops) =>
      let s0 := init e cx
      let obs := trace v e sc s0 ops
      "|".intercalate (obs.map showObs ++ [showEnd (run v e sc s0 ops)])
    | none => "bad-request"
  | _ => "bad-request"

end Stab.Retry
