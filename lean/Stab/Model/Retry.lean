/- Model `Retry` (driver token `retry`) — stub, to be filled in. -/
namespace Stab.Retry

/-- driver entry: the rest of the request line after the model token -/
def drive (_rest : String) : String := "unimplemented"

end Stab.Retry
