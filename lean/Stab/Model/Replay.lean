/-
  Model of `stabilize.events.replay.EventReplayer` (pure fold over the event log).

  * An `Event` carries what `_apply_event` reads: sequence, entity type, entity id, event type,
    timestamp, the scalar keys of `event.data` (`Dict`, values are opaque tokens, `"null"` = JSON
    null / Python `None`) and `event.data["context"]` when present (a dict).
  * `State` is `WorkflowState`: five scalar fields, the context dict, and the two id-keyed dicts
    `stages` / `tasks` (insertion ordered, like Python dicts), each entry a `Dict`.
  * `apply` mirrors `_apply_event` -> `_apply_{workflow,stage,task}_event` branch by branch
    (the event migrator is the identity when no migration is registered: trusted base).
  * The log is the `events` table restricted to one workflow in `ORDER BY sequence ASC` order
    (sequence is the INTEGER PRIMARY KEY, so the order is strict).
  * `rebuild` mirrors `rebuild_workflow_state(workflow_id, as_of_sequence)` with an optional latest
    snapshot; `loadsTimes` says whether `_load_state_from_snapshot` restores `start_time/end_time`
    (the source as shipped does not: generated flag `Stab.Gen.EventMap.snapshotLoadsTimes`).
-/
import Stab.Model.Basic

namespace Stab.Replay
open Stab

/-! ### dictionaries (Python `dict` with string keys, insertion ordered) -/

abbrev Dict := List (String × String)

namespace Dict
def get (d : Dict) (k : String) : Option String :=
  match d with
  | [] => none
  | (k', v) :: rest => if k' == k then some v else get rest k

def has (d : Dict) (k : String) : Bool := (get d k).isSome

/-- `d[k] = v` -/
def set (d : Dict) (k v : String) : Dict :=
  match d with
  | [] => [(k, v)]
  | (k', v') :: rest => if k' == k then (k', v) :: rest else (k', v') :: set rest k v

/-- `d.update(other)` -/
def update (d other : Dict) : Dict := other.foldl (fun acc kv => set acc kv.1 kv.2) d
end Dict

/-- id-keyed dict of entity dicts (`state.stages`, `state.tasks`) -/
abbrev EntMap := List (String × Dict)

namespace EntMap
def get (m : EntMap) (id : String) : Option Dict :=
  match m with
  | [] => none
  | (i, d) :: rest => if i == id then some d else get rest id

/-- `if id not in m: m[id] = init`; then `m[id] = f m[id]` -/
def upsert (m : EntMap) (id : String) (init : Dict) (f : Dict → Dict) : EntMap :=
  match m with
  | [] => [(id, f init)]
  | (i, d) :: rest => if i == id then (i, f d) :: rest else (i, d) :: upsert rest id init f
end EntMap

/-! ### events -/

/-- `EntityType` -/
inductive Kind where
  | workflow | stage | task
  deriving DecidableEq, Repr, Inhabited

/-- `EventType` (declaration order of the Python enum) -/
inductive EType where
  | workflowCreated | workflowStarted | workflowCompleted | workflowFailed | workflowCanceled
  | workflowPaused | workflowResumed
  | stageStarted | stageCompleted | stageFailed | stageSkipped | stageCanceled
  | taskStarted | taskCompleted | taskFailed | taskRetried
  | statusChanged | contextUpdated | outputsUpdated | jumpExecuted | custom
  deriving DecidableEq, Repr, Inhabited

namespace EType
def all : List EType :=
  [workflowCreated, workflowStarted, workflowCompleted, workflowFailed, workflowCanceled,
   workflowPaused, workflowResumed, stageStarted, stageCompleted, stageFailed, stageSkipped,
   stageCanceled, taskStarted, taskCompleted, taskFailed, taskRetried, statusChanged,
   contextUpdated, outputsUpdated, jumpExecuted, custom]

/-- the Python member NAME -/
def name : EType → String
  | workflowCreated => "WORKFLOW_CREATED" | workflowStarted => "WORKFLOW_STARTED"
  | workflowCompleted => "WORKFLOW_COMPLETED" | workflowFailed => "WORKFLOW_FAILED"
  | workflowCanceled => "WORKFLOW_CANCELED" | workflowPaused => "WORKFLOW_PAUSED"
  | workflowResumed => "WORKFLOW_RESUMED"
  | stageStarted => "STAGE_STARTED" | stageCompleted => "STAGE_COMPLETED"
  | stageFailed => "STAGE_FAILED" | stageSkipped => "STAGE_SKIPPED" | stageCanceled => "STAGE_CANCELED"
  | taskStarted => "TASK_STARTED" | taskCompleted => "TASK_COMPLETED" | taskFailed => "TASK_FAILED"
  | taskRetried => "TASK_RETRIED"
  | statusChanged => "STATUS_CHANGED" | contextUpdated => "CONTEXT_UPDATED"
  | outputsUpdated => "OUTPUTS_UPDATED" | jumpExecuted => "JUMP_EXECUTED" | custom => "CUSTOM"

def ofName? (s : String) : Option EType := all.find? (fun x => x.name == s)
end EType

namespace Kind
def name : Kind → String
  | workflow => "WORKFLOW" | stage => "STAGE" | task => "TASK"
def letter : Kind → String
  | workflow => "W" | stage => "S" | task => "T"
def ofLetter? : String → Option Kind
  | "W" => some workflow | "S" => some stage | "T" => some task | _ => none
end Kind

structure Event where
  seq : Nat
  kind : Kind
  eid : String
  etype : EType
  ts : String
  data : Dict := []
  ctx : Option Dict := none
  deriving Repr, Inhabited

/-- `event.data.get(k)` -/
def Event.dget (e : Event) (k : String) : String := (Dict.get e.data k).getD "null"
/-- `event.data.get(k, dflt)` -/
def Event.dgetD (e : Event) (k dflt : String) : String := (Dict.get e.data k).getD dflt

/-! ### state -/

structure State where
  status : String := "null"
  application : String := "null"
  name : String := "null"
  startTime : String := "null"
  endTime : String := "null"
  context : Dict := []
  stages : EntMap := []
  tasks : EntMap := []
  deriving Repr, Inhabited, DecidableEq

def State.empty : State := {}

/-- the effect of one event type on the `status` field, as a table
    (`Props/C12` proves it equal to the table generated from `replay.py`) -/
inductive StatusEffect where
  | const (s : String)        -- status = "S"
  | data (dflt : String)      -- status = event.data.get("status", dflt)
  | none                      -- status untouched
  deriving DecidableEq, Repr

def statusEffect : Kind → EType → StatusEffect
  | .workflow, .workflowStarted => .const "RUNNING"
  | .workflow, .workflowCompleted => .data "SUCCEEDED"
  | .workflow, .workflowFailed => .data "TERMINAL"
  | .workflow, .workflowCanceled => .const "CANCELED"
  | .workflow, .workflowPaused => .const "PAUSED"
  | .workflow, .workflowResumed => .const "RUNNING"
  | .stage, .stageStarted => .const "RUNNING"
  | .stage, .stageCompleted => .data "SUCCEEDED"
  | .stage, .stageFailed => .data "TERMINAL"
  | .stage, .stageSkipped => .const "SKIPPED"
  | .stage, .stageCanceled => .const "CANCELED"
  | .task, .taskStarted => .const "RUNNING"
  | .task, .taskCompleted => .data "SUCCEEDED"
  | .task, .taskFailed => .data "TERMINAL"
  | _, _ => .none

/-- the value `statusEffect` writes for event `e` -/
def StatusEffect.value (eff : StatusEffect) (e : Event) : Option String :=
  match eff with
  | .const s => some s
  | .data d => some (e.dgetD "status" d)
  | .none => Option.none

/-- `state.context.update(event.data["context"])` when the key is present -/
def mergeCtx (c : Dict) (e : Event) : Dict :=
  match e.ctx with
  | some u => Dict.update c u
  | none => c

/-- `_apply_workflow_event` -/
def applyWorkflow (s : State) (e : Event) : State :=
  match e.etype with
  | .workflowCreated => { s with application := e.dget "application", name := e.dget "name" }
  | .workflowStarted => { s with startTime := e.ts, status := "RUNNING", context := mergeCtx s.context e }
  | .workflowCompleted => { s with endTime := e.ts, status := e.dgetD "status" "SUCCEEDED" }
  | .workflowFailed => { s with endTime := e.ts, status := e.dgetD "status" "TERMINAL" }
  | .workflowCanceled => { s with endTime := e.ts, status := "CANCELED" }
  | .workflowPaused => { s with status := "PAUSED" }
  | .workflowResumed => { s with status := "RUNNING" }
  | .contextUpdated => { s with context := mergeCtx s.context e }
  | _ => s

/-- the dict assignments of `_apply_stage_event` after the entry exists -/
def stageFields (e : Event) (d : Dict) : Dict :=
  match e.etype with
  | .stageStarted => (d.set "status" "RUNNING").set "start_time" e.ts
  | .stageCompleted =>
    let d := (d.set "status" (e.dgetD "status" "SUCCEEDED")).set "end_time" e.ts
    if Dict.has e.data "outputs" then d.set "outputs" (e.dget "outputs") else d
  | .stageFailed =>
    ((d.set "status" (e.dgetD "status" "TERMINAL")).set "end_time" e.ts).set "error" (e.dget "error")
  | .stageSkipped => (d.set "status" "SKIPPED").set "skip_reason" (e.dget "reason")
  | .stageCanceled => d.set "status" "CANCELED"
  | _ => d

/-- entry created for a stage id not seen before -/
def stageInit (e : Event) : Dict :=
  [("id", e.eid), ("ref_id", e.dget "ref_id"), ("type", e.dget "type"), ("name", e.dget "name")]

/-- `_apply_stage_event` -/
def applyStage (s : State) (e : Event) : State :=
  { s with stages := EntMap.upsert s.stages e.eid (stageInit e) (stageFields e) }

/-- `task.get("retry_count", 0) + 1` (retry counts are JSON integers) -/
def nextRetry (d : Dict) : String :=
  toString ((((Dict.get d "retry_count").bind String.toNat?).getD 0) + 1)

def taskFields (e : Event) (d : Dict) : Dict :=
  match e.etype with
  | .taskStarted => (d.set "status" "RUNNING").set "start_time" e.ts
  | .taskCompleted =>
    let d := (d.set "status" (e.dgetD "status" "SUCCEEDED")).set "end_time" e.ts
    if Dict.has e.data "outputs" then d.set "outputs" (e.dget "outputs") else d
  | .taskFailed =>
    ((d.set "status" (e.dgetD "status" "TERMINAL")).set "end_time" e.ts).set "error" (e.dget "error")
  | .taskRetried => d.set "retry_count" (e.dgetD "retry_count" (nextRetry d))
  | _ => d

def taskInit (e : Event) : Dict :=
  [("id", e.eid), ("name", e.dget "name"), ("stage_id", e.dget "stage_id")]

/-- `_apply_task_event` -/
def applyTask (s : State) (e : Event) : State :=
  { s with tasks := EntMap.upsert s.tasks e.eid (taskInit e) (taskFields e) }

/-- `_apply_event` -/
def apply (s : State) (e : Event) : State :=
  match e.kind with
  | .workflow => applyWorkflow s e
  | .stage => applyStage s e
  | .task => applyTask s e

/-- fold of a list of events, left to right -/
def replay (s : State) (evs : List Event) : State := evs.foldl apply s

/-! ### rebuild -/

structure Snapshot where
  seq : Nat
  state : State      -- the dict handed to `create_workflow_snapshot` (`WorkflowState.to_dict()` format)
  deriving Repr

/-- `_load_state_from_snapshot` (status, application, name, context, stages, tasks; and
    start/end time only when `loadsTimes`) -/
def load (loadsTimes : Bool) (sn : Snapshot) : State :=
  if loadsTimes then sn.state else { sn.state with startTime := "null", endTime := "null" }

/-- `get_events_for_workflow(workflow_id, from_sequence)`: `sequence > ?`, in table order -/
def eventsAfter (log : List Event) (start : Nat) : List Event := log.filter (fun e => e.seq > start)

/-- `[e for e in ... if e.sequence <= as_of_sequence]` / all when `as_of_sequence is None` -/
def upTo (evs : List Event) : Option Nat → List Event
  | some n => evs.filter (fun e => e.seq ≤ n)
  | none => evs

/-- is the latest snapshot usable: `as_of_sequence is None or snapshot.sequence <= as_of_sequence` -/
def snapshotUsable (sn : Snapshot) : Option Nat → Bool
  | some n => sn.seq ≤ n
  | none => true

/-- `rebuild_workflow_state(workflow_id, as_of_sequence)` with the latest snapshot `snap?` -/
def rebuild (loadsTimes : Bool) (log : List Event) (asOf : Option Nat) (snap? : Option Snapshot) : State :=
  match snap? with
  | some sn =>
    if snapshotUsable sn asOf then replay (load loadsTimes sn) (upTo (eventsAfter log sn.seq) asOf)
    else replay State.empty (upTo (eventsAfter log 0) asOf)
  | none => replay State.empty (upTo (eventsAfter log 0) asOf)

/-- status of an entity in a rebuilt state (`none`: the replayer has no status for it) -/
def statusOf (s : State) (k : Kind) (id : String) : Option String :=
  match k with
  | .workflow => some s.status
  | .stage => (EntMap.get s.stages id).bind (Dict.get · "status")
  | .task => (EntMap.get s.tasks id).bind (Dict.get · "status")

/-! ### text protocol

  event   `seq:K:eid:ETYPE:ts:data:ctx`   K ∈ W,S,T; data `k=v,k=v` | `-`; ctx `none` | dict
  events  `e;e;…` | `-`
  state   `status;application;name;start;end;ctx;stages;tasks`, stages `id>dict/id>dict` | `-`

  `replay run <loadsTimes 0|1> <events> <queries>`     queries `q;q;…`, q = `a<n|n>` (no snapshot, as-of) or
                                                       `s<k>a<n|n>` (snapshot := the model's own state as of k, sequence k);
                                                       answer: states joined by `|`
  `replay snap <loadsTimes> <events> <asOf|n> <snapSeq> <state>`   explicit snapshot state
  `replay status <events> <K> <id>`                    statusOf the full replay (`-` when absent)
-/

def showDict (d : Dict) : String :=
  if d.isEmpty then "-" else ",".intercalate (d.map (fun kv => kv.1 ++ "=" ++ kv.2))

def showEnts (m : EntMap) : String :=
  if m.isEmpty then "-" else "/".intercalate (m.map (fun p => p.1 ++ ">" ++ showDict p.2))

def showState (s : State) : String :=
  ";".intercalate [s.status, s.application, s.name, s.startTime, s.endTime, showDict s.context,
                   showEnts s.stages, showEnts s.tasks]

def parseKV (s : String) : Option (String × String) :=
  match s.splitOn "=" with
  | [k, v] => if k.isEmpty || v.isEmpty then none else some (k, v)
  | _ => none

def parseDict (s : String) : Option Dict :=
  if s == "-" then some [] else Parse.all? parseKV (s.splitOn ",")

def parseEvent (s : String) : Option Event :=
  match s.splitOn ":" with
  | [sq, k, eid, et, ts, data, ctx] => do
    let seq ← Parse.nat? sq
    let kind ← Kind.ofLetter? k
    let etype ← EType.ofName? et
    let data ← parseDict data
    let ctx ← (if ctx == "none" then some none else (parseDict ctx).map some)
    if eid.isEmpty || ts.isEmpty then none else
    pure { seq, kind, eid, etype, ts, data, ctx }
  | _ => none

def parseEvents (s : String) : Option (List Event) :=
  if s == "-" then some [] else Parse.all? parseEvent (s.splitOn ";")

/-- the table order is strictly increasing in `sequence` -/
def sortedStrict : List Event → Bool
  | [] => true
  | [_] => true
  | a :: b :: rest => decide (a.seq < b.seq) && sortedStrict (b :: rest)

def parseEnt (s : String) : Option (String × Dict) :=
  match s.splitOn ">" with
  | [i, d] => do
    let d ← parseDict d
    if i.isEmpty then none else pure (i, d)
  | _ => none

def parseEnts (s : String) : Option EntMap :=
  if s == "-" then some [] else Parse.all? parseEnt (s.splitOn "/")

def parseState (s : String) : Option State :=
  match s.splitOn ";" with
  | [st, app, nm, t0, t1, ctx, stages, tasks] => do
    let context ← parseDict ctx
    let stages ← parseEnts stages
    let tasks ← parseEnts tasks
    if st.isEmpty || app.isEmpty || nm.isEmpty || t0.isEmpty || t1.isEmpty then none else
    pure { status := st, application := app, name := nm, startTime := t0, endTime := t1, context, stages, tasks }
  | _ => none

def parseAsOf (s : String) : Option (Option Nat) :=
  if s == "n" then some none else (Parse.nat? s).map some

/-- `a<asOf>` or `s<k>a<asOf>` -/
def parseQuery (s : String) : Option (Option Nat × Option Nat) :=
  if s.startsWith "a" then do
    let a ← parseAsOf (s.drop 1).toString
    pure (none, a)
  else if s.startsWith "s" then
    match ((s.drop 1).toString).splitOn "a" with
    | [k, a] => do
      let k ← Parse.nat? k
      let a ← parseAsOf a
      pure (some k, a)
    | _ => none
  else none

def runQuery (lt : Bool) (log : List Event) (q : Option Nat × Option Nat) : State :=
  match q.1 with
  | none => rebuild lt log q.2 none
  | some k => rebuild lt log q.2 (some { seq := k, state := rebuild lt log (some k) none })

def drive (rest : String) : String :=
  match rest.splitOn " " with
  | ["run", lt, evs, qs] =>
    match Parse.bool? lt, parseEvents evs, Parse.all? parseQuery (qs.splitOn ";") with
    | some lt, some log, some qs =>
      if !sortedStrict log then "bad-request"
      else "|".intercalate (qs.map (fun q => showState (runQuery lt log q)))
    | _, _, _ => "bad-request"
  | ["snap", lt, evs, asOf, k, st] =>
    match Parse.bool? lt, parseEvents evs, parseAsOf asOf, Parse.nat? k, parseState st with
    | some lt, some log, some asOf, some k, some st =>
      if !sortedStrict log then "bad-request"
      else showState (rebuild lt log asOf (some { seq := k, state := st }))
    | _, _, _, _, _ => "bad-request"
  | ["status", evs, k, id] =>
    match parseEvents evs, Kind.ofLetter? k with
    | some log, some k =>
      if !sortedStrict log then "bad-request"
      else (statusOf (rebuild false log none none) k id).getD "-"
    | _, _ => "bad-request"
  | _ => "bad-request"

end Stab.Replay
