/- Model `Replay` (driver token `replay`) — stub, to be filled in. -/
namespace Stab.Replay

/-- driver entry: the rest of the request line after the model token -/
def drive (_rest : String) : String := "unimplemented"

end Stab.Replay
