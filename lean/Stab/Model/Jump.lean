/-
  Model of `stabilize.handlers.jump_to_stage.traversal` (pure DAG functions) and the jump budget
  arithmetic of `JumpToStageHandler`.

  A graph is the list of stages in `execution.stages` order; stage `i` is identified by its
  index and carries the indices of its `requisite_stage_ref_ids`.
-/
import Stab.Model.Basic

namespace Stab.Jump

/-- `requisite_stage_ref_ids` per stage, by index -/
abbrev Graph := List (List Nat)

def prereqs (g : Graph) (i : Nat) : List Nat := g.getD i []

/-- one scan of `for stage in execution.stages` in `get_resettable_downstream_stages`:
    returns the grown scope and the stages added in this pass, in scan order -/
def scopePass (g : Graph) (scope : List Nat) : List Nat × List Nat :=
  (List.range g.length).foldl
    (fun (acc : List Nat × List Nat) i =>
      let (sc, added) := acc
      let pre := prereqs g i
      if sc.contains i then acc
      else if pre.isEmpty then acc
      else if pre.all (fun r => sc.contains r) then (sc ++ [i], added ++ [i])
      else acc)
    (scope, [])

/-- `while changed:` loop with fuel (the scope grows by ≥ 1 per productive pass, so
    `g.length + 1` passes suffice — proved in Props/C15) -/
def scopeLoop (g : Graph) : Nat → List Nat → List Nat → List Nat × List Nat
  | 0, scope, acc => (scope, acc)
  | fuel + 1, scope, acc =>
    let (sc', added) := scopePass g scope
    if added.isEmpty then (scope, acc) else scopeLoop g fuel sc' (acc ++ added)

/-- `get_resettable_downstream_stages(execution, target)` = `get_skippable_downstream_stages`:
    stages (excluding the root) all of whose prerequisites lie inside the accumulated scope,
    in discovery order -/
def resettable (g : Graph) (root : Nat) : List Nat :=
  (scopeLoop g (g.length + 1) [root] []).2

/-- one pass of the naive transitive closure: add every stage with SOME prerequisite in scope -/
def downPass (g : Graph) (scope : List Nat) : List Nat :=
  (List.range g.length).foldl
    (fun sc i => if sc.contains i then sc
                 else if (prereqs g i).any (fun r => sc.contains r) then sc ++ [i] else sc)
    scope

def downLoop (g : Graph) : Nat → List Nat → List Nat
  | 0, scope => scope
  | fuel + 1, scope =>
    let sc' := downPass g scope
    if sc'.length == scope.length then scope else downLoop g fuel sc'

/-- `get_downstream_stages(execution, target)` as a set (ascending indices), root excluded
    unless it lies on a cycle through itself (the Python DFS then re-visits it) -/
def downstream (g : Graph) (root : Nat) : List Nat :=
  let closure := downLoop g (g.length + 1) [root]
  let selfReach := closure.any (fun i => i != root && (prereqs g root).contains i) || (prereqs g root).contains root
  (List.range g.length).filter (fun i => closure.contains i && (i != root || selfReach))

/-- `get_skipped_stages(execution, source, target)` in `execution.stages` order -/
def skipped (g : Graph) (source target : Nat) : List Nat :=
  let srcDown := resettable g source
  let chain := target :: downstream g target
  (List.range g.length).filter (fun i => srcDown.contains i && !chain.contains i)

/-- `is_backward_jump = is_self_loop or source in get_downstream_stages(target)` -/
def isBackward (g : Graph) (source target : Nat) : Bool :=
  source == target || (downstream g target).contains source

/-- jump budget: `_check_jump_count` accepts iff `jump_count < max_jumps` -/
def jumpAccepted (count max : Int) : Bool := !(count ≥ max)

/-- effective `max_jumps`: workflow context, else source stage context, else 10 -/
def effectiveMax (wf stage : Option Int) : Int :=
  match wf with
  | some m => m
  | none => match stage with
    | some m => m
    | none => 10

/-! ### jump budget over the per-stage `_jump_count` context values

  `JumpToStageHandler._handle_with_retry` (as of "fix: an incoming jump never lowers the target stage's
  jump counter" and "fix: ignore a stale JumpToStage whose source stage is no longer RUNNING"):
  * a JumpToStage whose source stage is not RUNNING is IGNORED (only marked processed): no stage is written;
  * otherwise the source's `_jump_count` (default 0) is compared with the effective max; a REJECTED jump
    leaves all counts alone (the source goes TERMINAL);
  * an ACCEPTED jump writes `count + 1` into the SOURCE's context (unless it is a self loop) and
    `max(target's own count, count + 1)` into the TARGET's context — a count is never lowered.
  `reset_stage_for_retry` keeps `_jump_count`, so no other stage's count changes. -/

/-- `_jump_count` per stage index (absent = 0) -/
abbrev Counts := List Int

def countOf (cs : Counts) (i : Nat) : Int := cs.getD i 0

/-- where `_max_jumps` may be configured: workflow context, per-stage context -/
structure Budget where
  wf : Option Int
  stage : List (Option Int)
  deriving Repr

def Budget.maxFor (b : Budget) (s : Nat) : Int := effectiveMax b.wf (b.stage.getD s none)

/-- one handled `JumpToStage(source → target)` from a RUNNING source: new counts and whether it was accepted -/
def jumpStep (b : Budget) (cs : Counts) (src tgt : Nat) : Counts × Bool :=
  let c := countOf cs src
  if jumpAccepted c (b.maxFor src) then
    ((cs.set src (c + 1)).set tgt (max (countOf cs tgt) (c + 1)), true)
  else (cs, false)

/-- a sequence of jump requests from RUNNING sources, in handling order: final counts and the accepted flags -/
def runJumps (b : Budget) : Counts → List (Nat × Nat) → Counts × List Bool
  | cs, [] => (cs, [])
  | cs, (s, t) :: js =>
    let r := jumpStep b cs s t
    let rest := runJumps b r.1 js
    (rest.1, r.2 :: rest.2)

/-- what the handler does with one JumpToStage message -/
inductive Verdict where
  | ignored    -- source stage not RUNNING: stale message, nothing written
  | rejected   -- budget spent: source TERMINAL
  | accepted
  deriving DecidableEq, Repr

/-- one handled JumpToStage message; `running` = the source stage's status is RUNNING -/
def handleStep (b : Budget) (cs : Counts) (running : Bool) (src tgt : Nat) : Counts × Verdict :=
  if !running then (cs, .ignored)
  else
    let r := jumpStep b cs src tgt
    (r.1, if r.2 then .accepted else .rejected)

/-- a sequence of JumpToStage messages `(source, target, source RUNNING?)` -/
def runReqs (b : Budget) : Counts → List (Nat × Nat × Bool) → Counts × List Verdict
  | cs, [] => (cs, [])
  | cs, (s, t, running) :: js =>
    let r := handleStep b cs running s t
    let rest := runReqs b r.1 js
    (rest.1, r.2 :: rest.2)

/-! ### which stages one accepted jump rewrites (`_handle_with_retry`, status part) -/

structure Effect where
  backward : Bool
  /-- stages given `reset_stage_for_retry` (ascending) -/
  rearm : List Nat
  /-- stages offered `reset_stage_to_skipped`; the handler applies it to those currently NOT_STARTED -/
  skip : List Nat
  /-- forward jump: the source is marked SUCCEEDED -/
  sourceSucceeded : Bool
  deriving Repr

def jumpEffect (g : Graph) (src tgt : Nat) : Effect :=
  let back := isBackward g src tgt
  let res := (resettable g tgt).filter (fun d => d != src && d != tgt)
  let rearmSet := tgt :: ((if src != tgt && back then [src] else []) ++ res)
  { backward := back
    rearm := (List.range g.length).filter (fun i => rearmSet.contains i)
    skip := if back then [] else skipped g src tgt
    sourceSucceeded := src != tgt && !back }

/-- the status writes of one JumpToStage message that passed the budget check: none when the source is
    not RUNNING (stale message) -/
def handleEffect (g : Graph) (running : Bool) (src tgt : Nat) : Option Effect :=
  if running then some (jumpEffect g src tgt) else none

/-! ### driver
  `jump resettable <root> <g>` | `jump downstream <root> <g>` | `jump skipped <src> <tgt> <g>` |
  `jump backward <src> <tgt> <g>`     with `<g>` = `pre;pre;...`, each `pre` = `-` or `1,2`.
  `jump effect <srcRunning 0/1> <src> <tgt> <g>`  →  `IGNORED` | `B|F rearm=.. skip=.. src=S|-`
  `jump budget <wfmax|none> <stagemax,.. (none|int)> <counts,..> <req;req;..|->`  →  `AIR..|c0,c1,..`
     with `req` = `s:t` (source RUNNING) or `s:t:x` (source not RUNNING ⇒ ignored) -/

def parseGraph (s : String) : Option Graph :=
  Parse.all? Parse.natList? (s.splitOn ";")

def optInt? (s : String) : Option (Option Int) :=
  if s == "none" then some none else (Parse.int? s).map some

def parseReq (s : String) : Option (Nat × Nat × Bool) :=
  match s.splitOn ":" with
  | [a, b] => do pure ((← Parse.nat? a), (← Parse.nat? b), true)
  | [a, b, "x"] => do pure ((← Parse.nat? a), (← Parse.nat? b), false)
  | _ => none

def showInts (xs : List Int) : String :=
  if xs.isEmpty then "-" else Parse.joinWith "," (xs.map toString)

def driveBudget (wf st cs js : String) : String :=
  match optInt? wf, Parse.all? optInt? (st.splitOn ","), Parse.all? Parse.int? (cs.splitOn ","),
        (if js == "-" then some [] else Parse.all? parseReq (js.splitOn ";")) with
  | some wf, some st, some cs, some js =>
    let r := runReqs { wf := wf, stage := st } cs js
    String.join (r.2.map (fun v => match v with
      | .accepted => "A" | .rejected => "R" | .ignored => "I")) ++ "|" ++ showInts r.1
  | _, _, _, _ => "bad-request"

def drive (rest : String) : String :=
  match rest.splitOn " " with
  | ["budget", wf, st, cs, js] => driveBudget wf st cs js
  | ["effect", run, s, t, g] =>
    match Parse.bool? run, Parse.nat? s, Parse.nat? t, parseGraph g with
    | some run, some s, some t, some g =>
      match handleEffect g run s t with
      | none => "IGNORED"
      | some e =>
        s!"{if e.backward then "B" else "F"} rearm={Parse.showNats e.rearm} skip={Parse.showNats e.skip} src={if e.sourceSucceeded then "S" else "-"}"
    | _, _, _, _ => "bad-request"
  | ["resettable", r, g] =>
    match Parse.nat? r, parseGraph g with
    | some r, some g => Parse.showNats (resettable g r)
    | _, _ => "bad-request"
  | ["downstream", r, g] =>
    match Parse.nat? r, parseGraph g with
    | some r, some g => Parse.showNats (downstream g r)
    | _, _ => "bad-request"
  | ["skipped", s, t, g] =>
    match Parse.nat? s, Parse.nat? t, parseGraph g with
    | some s, some t, some g => Parse.showNats (skipped g s t)
    | _, _, _ => "bad-request"
  | ["backward", s, t, g] =>
    match Parse.nat? s, Parse.nat? t, parseGraph g with
    | some s, some t, some g => toString (isBackward g s t)
    | _, _, _ => "bad-request"
  | _ => "bad-request"

end Stab.Jump
