/-
  Model of `stabilize.handlers.jump_to_stage.traversal` (pure DAG functions) and the jump budget
  arithmetic of `JumpToStageHandler`.

  A graph is the list of stages in `execution.stages` order; stage `i` is identified by its
  index and carries the indices of its `requisite_stage_ref_ids`.
-/
import Stab.Model.Basic

namespace Stab.Jump

/-- `requisite_stage_ref_ids` per stage, by index -/
abbrev Graph := List (List Nat)

def prereqs (g : Graph) (i : Nat) : List Nat := g.getD i []

/-- one scan of `for stage in execution.stages` in `get_resettable_downstream_stages`:
    returns the grown scope and the stages added in this pass, in scan order -/
def scopePass (g : Graph) (scope : List Nat) : List Nat × List Nat :=
  (List.range g.length).foldl
    (fun (acc : List Nat × List Nat) i =>
      let (sc, added) := acc
      let pre := prereqs g i
      if sc.contains i then acc
      else if pre.isEmpty then acc
      else if pre.all (fun r => sc.contains r) then (sc ++ [i], added ++ [i])
      else acc)
    (scope, [])

/-- `while changed:` loop with fuel (the scope grows by ≥ 1 per productive pass, so
    `g.length + 1` passes suffice — proved in Props/C15) -/
def scopeLoop (g : Graph) : Nat → List Nat → List Nat → List Nat × List Nat
  | 0, scope, acc => (scope, acc)
  | fuel + 1, scope, acc =>
    let (sc', added) := scopePass g scope
    if added.isEmpty then (scope, acc) else scopeLoop g fuel sc' (acc ++ added)

/-- `get_resettable_downstream_stages(execution, target)` = `get_skippable_downstream_stages`:
    stages (excluding the root) all of whose prerequisites lie inside the accumulated scope,
    in discovery order -/
def resettable (g : Graph) (root : Nat) : List Nat :=
  (scopeLoop g (g.length + 1) [root] []).2

/-- one pass of the naive transitive closure: add every stage with SOME prerequisite in scope -/
def downPass (g : Graph) (scope : List Nat) : List Nat :=
  (List.range g.length).foldl
    (fun sc i => if sc.contains i then sc
                 else if (prereqs g i).any (fun r => sc.contains r) then sc ++ [i] else sc)
    scope

def downLoop (g : Graph) : Nat → List Nat → List Nat
  | 0, scope => scope
  | fuel + 1, scope =>
    let sc' := downPass g scope
    if sc'.length == scope.length then scope else downLoop g fuel sc'

/-- `get_downstream_stages(execution, target)` as a set (ascending indices), root excluded
    unless it lies on a cycle through itself (the Python DFS then re-visits it) -/
def downstream (g : Graph) (root : Nat) : List Nat :=
  let closure := downLoop g (g.length + 1) [root]
  let selfReach := closure.any (fun i => i != root && (prereqs g root).contains i) || (prereqs g root).contains root
  (List.range g.length).filter (fun i => closure.contains i && (i != root || selfReach))

/-- `get_skipped_stages(execution, source, target)` in `execution.stages` order -/
def skipped (g : Graph) (source target : Nat) : List Nat :=
  let srcDown := resettable g source
  let chain := target :: downstream g target
  (List.range g.length).filter (fun i => srcDown.contains i && !chain.contains i)

/-- `is_backward_jump = is_self_loop or source in get_downstream_stages(target)` -/
def isBackward (g : Graph) (source target : Nat) : Bool :=
  source == target || (downstream g target).contains source

/-- jump budget: `_check_jump_count` accepts iff `jump_count < max_jumps` -/
def jumpAccepted (count max : Int) : Bool := !(count ≥ max)

/-- effective `max_jumps`: workflow context, else source stage context, else 10 -/
def effectiveMax (wf stage : Option Int) : Int :=
  match wf with
  | some m => m
  | none => match stage with
    | some m => m
    | none => 10

/-! ### driver
  `jump resettable <root> <g>` | `jump downstream <root> <g>` | `jump skipped <src> <tgt> <g>` |
  `jump backward <src> <tgt> <g>`     with `<g>` = `pre;pre;...`, each `pre` = `-` or `1,2`. -/

def parseGraph (s : String) : Option Graph :=
  Parse.all? Parse.natList? (s.splitOn ";")

def drive (rest : String) : String :=
  match rest.splitOn " " with
  | ["resettable", r, g] =>
    match Parse.nat? r, parseGraph g with
    | some r, some g => Parse.showNats (resettable g r)
    | _, _ => "bad-request"
  | ["downstream", r, g] =>
    match Parse.nat? r, parseGraph g with
    | some r, some g => Parse.showNats (downstream g r)
    | _, _ => "bad-request"
  | ["skipped", s, t, g] =>
    match Parse.nat? s, Parse.nat? t, parseGraph g with
    | some s, some t, some g => Parse.showNats (skipped g s t)
    | _, _, _ => "bad-request"
  | ["backward", s, t, g] =>
    match Parse.nat? s, Parse.nat? t, parseGraph g with
    | some s, some t, some g => toString (isBackward g s t)
    | _, _, _ => "bad-request"
  | _ => "bad-request"

end Stab.Jump
