/-
  Model `ClaimProtocol` (driver token `claim`): the "start a stage exactly once" protocol of
  `StartStageHandler._start_if_ready` at the granularity of single DB reads and whole transactions.

  Shared state = the row of ONE join stage `j` (status, version, `_join_fired`, has-tasks) plus the rows of its
  upstream stages (status, version).  Workers are handler invocations, each a small program:

  * `start`  — StartStage(j):  readRow → readTasks → readUps (readiness via `Stab.Ready.evaluate`) →
               [zombie check read] → claimTxn (CAS version ∧ status = expected phase) → plan (local) →
               planTxn (CAS version; persists tasks, `_join_fired`, pushes StartTask, marks processed).
               A lost claim CAS re-reads the row and retries while the row is still in the expected phase; a lost plan
               CAS re-reads and retries on the fresh version unless the stage was taken over (`fix = true`, the default:
               the code since fix 03375b7).  `fix = false` is the behaviour before that fix (both losses end the
               handler); it is only used by the clearly labelled legacy witnesses in Props/C04.lean.
  * `complete i` — CompleteStage(uᵢ): read uᵢ (guard: RUNNING) → for DISCRIMINATOR / N_OF_M joins
               `_update_join_tracking`: re-read j, CAS-write `_completed_branches` into j (a NON-claim write that
               bumps j's version; bounded retry) → completeTxn (CAS uᵢ.version; uᵢ := SUCCEEDED; pushes StartStage(j)).
  * `signal` — persistent SignalStage(j) on a stage that is not SUSPENDED: read j → CAS-write `_buffered_signals`
               (another non-claim write), retried on conflict.

  A schedule is a list of worker indices; each step runs that worker's next atomic action (SQLite is single
  writer, so a transaction is one step).  Ghost counters record what committed.
-/
import Stab.Model.Ready

namespace Stab.ClaimProtocol
open Stab

/-- phases of the join-stage row this protocol moves between -/
inductive JStatus where
  | notStarted | running
  deriving DecidableEq, Repr, Inhabited

def JStatus.name : JStatus → String
  | .notStarted => "NOT_STARTED" | .running => "RUNNING"

structure Cfg where
  join : JoinType := .and
  threshold : Int := 0
  predefined : Bool := true      -- the stage has task rows before it is planned (so it can never look like a zombie)
  fix : Bool := true             -- fix 03375b7 (F6); false = the code before it (legacy witnesses only)
  trackRetries : Nat := 5        -- `_update_join_tracking`: max_retries
  deriving Repr

def Cfg.fires (c : Cfg) : Bool := c.join == .discriminator || c.join == .nOfM

/-- the row of the join stage + ghost counters of what committed on it -/
structure JRow where
  status : JStatus := .notStarted
  version : Nat := 0
  fired : Bool := false          -- context["_join_fired"]
  hasTasks : Bool := false       -- task rows exist
  planned : Bool := false        -- ghost: a plan transaction committed
  branches : List Nat := []      -- context["_completed_branches"]
  buffered : Nat := 0            -- len(context["_buffered_signals"])
  deriving DecidableEq, Repr

structure URow where
  status : Status
  version : Nat := 0
  pushes : Nat := 0              -- ghost: StartStage(j) batches pushed by CompleteStage(uᵢ)
  deriving DecidableEq, Repr

inductive Outcome where
  | planned | lostClaim | lostPlan | ignored | notReady | skip | completed | stale | buffered
  deriving DecidableEq, Repr

def Outcome.name : Outcome → String
  | .planned => "planned" | .lostClaim => "lostClaim" | .lostPlan => "lostPlan" | .ignored => "ignored"
  | .notReady => "notReady" | .skip => "skip" | .completed => "completed" | .stale => "stale" | .buffered => "buffered"

/-- program counter (+ locals) of one worker -/
inductive W where
  -- StartStage(j); `exp = none`: first pass, `some e`: re-read after a lost claim that expected phase `e`
  | sIdle
  | sRow (exp : Option JStatus)
  | sTasks (exp : Option JStatus) (st : JStatus) (v : Nat) (fired : Bool)
  | sUps (st : JStatus) (v : Nat) (fired : Bool) (h : Bool)
  | sZombie (v : Nat)
  | sClaim (exp : JStatus) (v : Nat)
  | sPlan (v : Nat)
  | sPlanTxn (v : Nat)
  | sReplanRow
  | sReplanTasks (st : JStatus) (v : Nat)
  -- CompleteStage(uᵢ)
  | cIdle (i : Nat)
  | cRow (i : Nat) (v : Nat)
  | cTrack (i : Nat) (v : Nat) (tries : Nat)
  | cTrackTxn (i : Nat) (v : Nat) (jst : JStatus) (jv : Nat) (tries : Nat)
  | cTxn (i : Nat) (v : Nat)
  -- persistent SignalStage(j)
  | gIdle
  | gTxn (jv : Nat)
  | done (o : Outcome)
  deriving DecidableEq, Repr

def W.isDone : W → Bool
  | .done _ => true
  | _ => false

/-- legal initial program counters -/
def W.isInitial : W → Bool
  | .sIdle | .cIdle _ | .gIdle => true
  | _ => false

/-- holds the claim: between a committed claim and its plan commit -/
def W.postClaim : W → Bool
  | .sPlan _ | .sPlanTxn _ | .sReplanRow | .sReplanTasks _ _ => true
  | _ => false

/-- a StartStage handler that read the row and has neither committed its plan nor given up -/
def W.inFlight : W → Bool
  | .sTasks .. | .sUps .. | .sZombie _ | .sClaim .. | .sPlan _ | .sPlanTxn _ | .sReplanRow | .sReplanTasks .. => true
  | .sRow (some _) => true
  | _ => false

inductive Ev where
  | claimOk | claimFail | planOk | planFail | bumpOk | bumpFail | complOk | complFail
  deriving DecidableEq, Repr

structure St where
  cfg : Cfg
  j : JRow
  ups : List URow
  ws : List W
  -- ghost
  claimCommits : Nat := 0        -- committed NOT_STARTED → RUNNING changes
  reclaimCommits : Nat := 0      -- committed RUNNING → RUNNING zombie re-claims
  planCommits : Nat := 0
  startTasks : Nat := 0          -- StartTask pushes
  claimer : Option Nat := none   -- who committed NOT_STARTED → RUNNING
  attempted : Bool := false      -- some handler saw READY and went for the claim
  disturbed : Bool := false      -- a non-claim write committed on j while a StartStage handler was in flight
  log : List (Nat × Ev) := []
  deriving Repr

def upStatuses (ups : List URow) : List Ready.Up :=
  (List.range ups.length).zipWith (fun i (u : URow) => { ref := i, status := u.status }) ups

/-- readiness as `StartStageHandler.handle` computes it from the row snapshot and the upstream statuses -/
def readiness (c : Cfg) (fired : Bool) (ups : List URow) : Ready.Phase :=
  (Ready.evaluate { join := c.join, threshold := c.threshold, joinFired := fired, activated := none,
                    bypass := false, ups := upStatuses ups }).phase

/-- `_start_if_ready` up to the claim: what to do with a snapshot (`exp` = phase a lost claim expected) -/
def decideStart (exp : Option JStatus) (st : JStatus) (v : Nat) (h : Bool) : W :=
  match exp with
  | some e => if st ≠ e then .done .lostClaim else
      match st with
      | .notStarted => .sClaim .notStarted v
      | .running => if h then .done .ignored else .sZombie v
  | none =>
      match st with
      | .notStarted => .sClaim .notStarted v
      | .running => if h then .done .ignored else .sZombie v

def bumpJ (j : JRow) : JRow := { j with version := j.version + 1 }

/-- one atomic action of worker `i` whose program counter is `w` -/
def stepW (s : St) (i : Nat) (w : W) : St × W :=
  let c := s.cfg
  let anyInFlight := s.ws.any W.inFlight
  match w with
  | .sIdle => (s, .sRow none)
  | .sRow exp => (s, .sTasks exp s.j.status s.j.version s.j.fired)
  | .sTasks exp st v fired =>
    match exp with
    | none => (s, .sUps st v fired s.j.hasTasks)
    | some e =>
      let w' := decideStart (some e) st v s.j.hasTasks
      (s, w')
  | .sUps st v fired h =>
    match readiness c fired s.ups with
    | .skip => (s, .done .skip)
    | .notReady => (s, .done .notReady)
    | .ready =>
      let w' := decideStart none st v h
      ({ s with attempted := s.attempted || (match w' with | .done _ => false | _ => true) }, w')
  | .sZombie v => (s, .sClaim .running v)
  | .sClaim exp v =>
    if s.j.version = v ∧ s.j.status = exp then
      let j' := { s.j with status := .running, version := s.j.version + 1 }
      match exp with
      | .notStarted =>
        ({ s with j := j', claimCommits := s.claimCommits + 1, claimer := some i, log := s.log ++ [(i, .claimOk)] }, .sPlan (v + 1))
      | .running =>
        ({ s with j := j', reclaimCommits := s.reclaimCommits + 1, log := s.log ++ [(i, .claimOk)] }, .sPlan (v + 1))
    else
      ({ s with log := s.log ++ [(i, .claimFail)] }, if c.fix then .sRow (some exp) else .done .lostClaim)
  | .sPlan v => (s, .sPlanTxn v)
  | .sPlanTxn v =>
    if s.j.version = v then
      let j' := { s.j with version := s.j.version + 1, hasTasks := true, planned := true, fired := s.j.fired || c.fires }
      ({ s with j := j', planCommits := s.planCommits + 1, startTasks := s.startTasks + 1, log := s.log ++ [(i, .planOk)] }, .done .planned)
    else
      ({ s with log := s.log ++ [(i, .planFail)] }, if c.fix then .sReplanRow else .done .lostPlan)
  | .sReplanRow => (s, .sReplanTasks s.j.status s.j.version)
  | .sReplanTasks st v =>
    -- taken_over = fresh.status != RUNNING or (not had_tasks_at_claim and fresh.tasks)
    if st ≠ .running || (!c.predefined && s.j.hasTasks) then (s, .done .lostPlan) else (s, .sPlanTxn v)
  | .cIdle u =>
    match s.ups[u]? with
    | none => (s, .done .stale)
    | some r => if r.status = .running then (s, .cRow u r.version) else (s, .done .stale)
  | .cRow u v => if c.fires then (s, .cTrack u v c.trackRetries) else (s, .cTxn u v)
  | .cTrack u v tries =>
    if s.j.branches.contains u then (s, .cTxn u v) else (s, .cTrackTxn u v s.j.status s.j.version tries)
  | .cTrackTxn u v jst jv tries =>
    if s.j.version = jv ∧ s.j.status = jst then
      ({ s with j := { bumpJ s.j with branches := s.j.branches ++ [u] }, disturbed := s.disturbed || anyInFlight,
                log := s.log ++ [(i, .bumpOk)] }, .cTxn u v)
    else
      ({ s with log := s.log ++ [(i, .bumpFail)] }, match tries with | 0 => .cIdle u | t + 1 => .cTrack u v t)
  | .cTxn u v =>
    match s.ups[u]? with
    | none => (s, .done .stale)
    | some r =>
      if r.version = v then
        ({ s with ups := s.ups.set u { r with status := .succeeded, version := r.version + 1, pushes := r.pushes + 1 },
                  log := s.log ++ [(i, .complOk)] }, .done .completed)
      else ({ s with log := s.log ++ [(i, .complFail)] }, .cIdle u)
  | .gIdle => (s, .gTxn s.j.version)
  | .gTxn jv =>
    if s.j.version = jv then
      ({ s with j := { bumpJ s.j with buffered := s.j.buffered + 1 }, disturbed := s.disturbed || anyInFlight,
                log := s.log ++ [(i, .bumpOk)] }, .done .buffered)
    else ({ s with log := s.log ++ [(i, .bumpFail)] }, .gIdle)
  | .done o => (s, .done o)

def step (s : St) (i : Nat) : St :=
  match s.ws[i]? with
  | none => s
  | some w =>
    let r := stepW s i w
    { r.1 with ws := r.1.ws.set i r.2 }

def run (s : St) (sched : List Nat) : St := sched.foldl step s

def init (c : Cfg) (ups : List URow) (ws : List W) : St :=
  { cfg := c, j := { hasTasks := c.predefined }, ups := ups, ws := ws }

def allDone (s : St) : Bool := s.ws.all W.isDone

/-! ### driver
`claim join=<J> th=<n> pre=<0/1> fix=<0/1>;<ups: STATUS:version,...|->;<workers: S|C<i>|G,...>;<schedule: i,i,...|->`
answer: `j=<status>,v<version>,f<fired>,t<hasTasks>,b<branches>,g<buffered> claims=<n> reclaims=<n> plans=<n> st=<n> ups=<status:v:pushes,...> | w0=<pc> ... | <per worker: c<commit events>r<failed CAS>>` -/

def parseCfg (s : String) : Option Cfg := do
  match s.splitOn " " with
  | [j, th, pre, fix] =>
    let kv (x k : String) : Option String := if x.startsWith (k ++ "=") then some (x.drop (k.length + 1)).toString else none
    let join ← JoinType.ofName? (← kv j "join")
    let threshold ← Parse.int? (← kv th "th")
    let predefined ← Parse.bool? (← kv pre "pre")
    let fix ← Parse.bool? (← kv fix "fix")
    pure { join, threshold, predefined, fix }
  | _ => none

def parseUp (s : String) : Option URow :=
  match s.splitOn ":" with
  | [st, v] => do pure { status := (← Status.ofName? st), version := (← Parse.nat? v) }
  | _ => none

def parseW (s : String) : Option W :=
  if s == "S" then some .sIdle
  else if s == "G" then some .gIdle
  else if s.startsWith "C" then (Parse.nat? (s.drop 1).toString).map .cIdle
  else none

def pcName : W → String
  | .sIdle => "sIdle" | .sRow _ => "sRow" | .sTasks .. => "sTasks" | .sUps .. => "sUps" | .sZombie _ => "sZombie"
  | .sClaim .. => "sClaim" | .sPlan _ => "sPlan" | .sPlanTxn _ => "sPlanTxn" | .sReplanRow => "sReplanRow"
  | .sReplanTasks .. => "sReplanTasks" | .cIdle _ => "cIdle" | .cRow .. => "cRow" | .cTrack .. => "cTrack"
  | .cTrackTxn .. => "cTrackTxn" | .cTxn .. => "cTxn" | .gIdle => "gIdle" | .gTxn _ => "gTxn"
  | .done o => o.name

def Ev.ok : Ev → Bool
  | .claimOk | .planOk | .bumpOk | .complOk => true
  | _ => false

def showSt (s : St) : String :=
  let b := fun (x : Bool) => if x then "1" else "0"
  let j := s!"j={s.j.status.name},v{s.j.version},f{b s.j.fired},t{b s.j.hasTasks},b{s.j.branches.length},g{s.j.buffered}"
  let ups := Parse.joinWith "," (s.ups.map fun u => s!"{u.status.name}:{u.version}:{u.pushes}")
  let ws := Parse.joinWith " " ((List.range s.ws.length).zipWith (fun i w => s!"w{i}={pcName w}") s.ws)
  let per := Parse.joinWith " " ((List.range s.ws.length).map fun i =>
    let evs := (s.log.filter (fun e => e.1 == i)).map (·.2)
    s!"c{(evs.filter Ev.ok).length}r{(evs.filter (fun e => !e.ok)).length}")
  s!"{j} claims={s.claimCommits} reclaims={s.reclaimCommits} plans={s.planCommits} st={s.startTasks} ups={if ups.isEmpty then "-" else ups} | {ws} | {per}"

def drive (rest : String) : String :=
  match rest.splitOn ";" with
  | [c, ups, ws, sched] =>
    match parseCfg c, (if ups == "-" then some [] else Parse.all? parseUp (ups.splitOn ",")),
          Parse.all? parseW (Parse.splitNE ws ","), Parse.natList? sched with
    | some c, some ups, some ws, some sched => showSt (run (init c ups ws) sched)
    | _, _, _, _ => "bad-request"
  | _ => "bad-request"

end Stab.ClaimProtocol
