/- Model `ClaimProtocol` (driver token `claim`) — stub, to be filled in. -/
namespace Stab.ClaimProtocol

/-- driver entry: the rest of the request line after the model token -/
def drive (_rest : String) : String := "unimplemented"

end Stab.ClaimProtocol
