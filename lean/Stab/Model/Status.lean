/-
  Hand-written model of `stabilize.models.status`.

  The generated counterpart (`Stab/Gen/Status.lean`, produced from the Python source on
  every run by `translate/status.py`) is proved equal to this one in `Stab/Props/C06.lean`,
  so a change of the source table breaks a proof obligation while the driver stays runnable.
-/

namespace Stab

/-- `WorkflowStatus` — constructor order is the declaration order of the Python enum. -/
inductive Status where
  | notStarted | running | paused | suspended | succeeded | failedContinue
  | terminal | canceled | redirect | stopped | skipped | buffered
  deriving DecidableEq, Repr, Inhabited

namespace Status

def all : List Status :=
  [notStarted, running, paused, suspended, succeeded, failedContinue,
   terminal, canceled, redirect, stopped, skipped, buffered]

def name : Status → String
  | notStarted => "NOT_STARTED" | running => "RUNNING" | paused => "PAUSED"
  | suspended => "SUSPENDED" | succeeded => "SUCCEEDED" | failedContinue => "FAILED_CONTINUE"
  | terminal => "TERMINAL" | canceled => "CANCELED" | redirect => "REDIRECT"
  | stopped => "STOPPED" | skipped => "SKIPPED" | buffered => "BUFFERED"

def ofName? (s : String) : Option Status :=
  all.find? (fun x => x.name == s)

/-- `is_complete` -/
def isComplete : Status → Bool
  | succeeded | failedContinue | terminal | canceled | stopped | skipped => true
  | _ => false

/-- `is_halt` (== membership in `HALT_STATUSES`) -/
def isHalt : Status → Bool
  | terminal | canceled | stopped => true
  | _ => false

/-- `CONTINUABLE_STATUSES` -/
def isContinuable : Status → Bool
  | succeeded | failedContinue | skipped | redirect => true
  | _ => false

/-- `ACTIVE_STATUSES` -/
def isActive : Status → Bool
  | notStarted | running | paused | suspended => true
  | _ => false

/-- `is_failure` (`_FAILURE_STATUSES`) -/
def isFailure : Status → Bool
  | terminal | stopped | failedContinue => true
  | _ => false

/-- `VALID_TRANSITIONS[s]` -/
def validNext : Status → List Status
  | notStarted => [running, canceled, skipped, buffered, terminal]
  | buffered => [notStarted, running, canceled, skipped]
  | running => [succeeded, failedContinue, terminal, canceled, paused, stopped, suspended,
                redirect, skipped]
  | paused => [running, canceled, stopped]
  | suspended => [running, canceled, stopped]
  | redirect => [running, succeeded, terminal, canceled]
  | succeeded | failedContinue | terminal | canceled | stopped | skipped => []

/-- `can_transition` -/
def canTransition (cur tgt : Status) : Bool :=
  cur == tgt || (validNext cur).contains tgt

end Status
end Stab

namespace Stab.Status
/-- driver: `status can A B` | `status flags A` -/
def drive (rest : String) : String :=
  match rest.splitOn " " with
  | ["can", a, b] =>
    match ofName? a, ofName? b with
    | some x, some y => toString (canTransition x y)
    | _, _ => "bad-status"
  | ["flags", a] =>
    match ofName? a with
    | some x => s!"{x.isComplete} {x.isHalt} {x.isContinuable} {x.isActive} {x.isFailure}"
    | none => "bad-status"
  | _ => "bad-request"
end Stab.Status
