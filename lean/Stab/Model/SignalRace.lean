/-
  Model `SignalRace` (driver token `sigrace`) — the two-worker race between the SignalStage handler and the
  RunTask result that suspends the stage, at read / compare-and-swap granularity (property C18).

  Code mirrored (SQLite backend):
    handlers/signal_stage.py          SignalStageHandler.handle = retry_on_concurrency_error(_handle_with_retry):
                                      with_stage (retrieve_stage: THE READ) -> branch on the loaded object:
                                        SUSPENDED          : status RUNNING, task RUNNING, store_stage + mark + push RunTask (one txn)
                                        else, persistent   : append to context._buffered_signals, store_stage + mark (one txn)
                                        else, transient    : mark only (no stage write)
    handlers/run_task/handler.py      RunTaskHandler.handle: with_task (read; task not RUNNING -> ignore) -> execute the task ->
                                      _process_result_safely = retry_on_concurrency_error(do_process):
                                        do_process reloads the stage (THE SECOND READ) and calls process_result
    handlers/run_task/result.py       _handle_suspended: stage/task not RUNNING -> mark only;  mailbox non-empty -> pop one, stay
                                      RUNNING, push RunTask;  else status SUSPENDED;  both through execute_atomic(stage=...)
                                      _handle_success_like: execute_atomic(stage=..., push CompleteTask)
    persistence/sqlite/transaction.py AtomicTransaction.store_stage: `UPDATE stage_executions SET status, context, ... ,
                                      version = version + 1 WHERE id = :id AND version = :version` with the IN-MEMORY object's
                                      status / context / version; rowcount 0 -> ConcurrencyError (the txn is rolled back)
    handlers/base.py                  retry_on_concurrency_error: RetryWithBackoffPolicy(max_retries = 3) = at most 4 runs of the
                                      closure; the closure starts with the (re)load, so every retry re-reads and re-decides
    persistence/transaction.py        TransactionHelper.execute_atomic wraps its transaction in DEADLOCK_RETRY_POLICY
                                      (max_retries = 5, ConcurrencyError counts as "deadlock"): the SAME in-memory object is
                                      written again, up to 6 times; versions only grow, so after one miss all 6 miss
                                      (6 rolled-back transactions per conflict of the RunTask worker, 1 per conflict of the signal worker)

  Durable state = the stage row (status, version, mailbox length) + pending RunTask rows; the task row's status always
  moves together with the stage status in these two handlers (same commit), so it is not a separate field.
  Ghost counters: task executions, signals that resumed the stage, signals consumed from the mailbox, signals dropped.
  `St.finished` abstracts "the task returned a non-suspending result": the real commit keeps the stage RUNNING and pushes
  CompleteTask; the completion chain that follows never reads or writes the mailbox.

  A worker is a small step machine; one micro-step = everything up to and including its next durable access:
     signal worker : read | act (CAS write, or the plain mark of a transient signal)       [`Variant.reread`: read | re-read | act]
     RunTask worker: read + execute the task | reload | act (CAS write or plain mark)
  A schedule lets worker A take `k` micro-steps, runs worker B to completion (atomically), then finishes A.
  `k = 0` is "B first", `k` beyond A's length is "A first"; everything between is a read / CAS window of A.

  Third direction (second half of the file): the signal handler against the StartStage worker (`startStep`, `raceStart`) while the
  stage is still NOT_STARTED — claim commit, plan commit, and the merge of foreign context writes after a missed plan commit.

  `Variant.cas` is the code as it is.  `Variant.reread` is the signal handler with the buffering branch changed to
  re-read the stage right before it appends to the mailbox (so the CAS guards the second read, not the one the branch
  was decided on); it exists only to state what the version check protects (Props/C18 `reread_variant_loses_signal`).
-/
import Stab.Model.Basic

namespace Stab.SignalRace
open Stab

inductive St where
  | running | suspended | finished
  | notStarted      -- only in the StartStage race below: the stage row before its claim commit
  deriving DecidableEq, Repr

def St.name : St → String
  | .running => "RUNNING" | .suspended => "SUSPENDED" | .finished => "SUCCEEDED" | .notStarted => "NOT_STARTED"

/-- durable state of the stage + ghost counters -/
structure Stage where
  status : St
  version : Nat
  buffered : Nat      -- len(context["_buffered_signals"])
  queued : Nat        -- RunTask rows pushed by these handlers and not yet handled
  execs : Nat         -- ghost: executions of the task
  resumed : Nat       -- ghost: signals delivered to the SUSPENDED stage (each pushes one RunTask)
  consumed : Nat      -- ghost: mailbox entries consumed by a suspending result (each pushes one RunTask)
  dropped : Nat       -- ghost: transient signals discarded
  planned : Nat       -- ghost: plan commits of StartStage (each pushes the stage's StartTask)
  deriving DecidableEq, Repr

/-- the stage is RUNNING, its first RunTask is pending (that one is the RunTask worker's message, not counted in `queued`) -/
def init (version buffered : Nat) : Stage :=
  { status := .running, version, buffered, queued := 0, execs := 0, resumed := 0, consumed := 0, dropped := 0, planned := 1 }

/-- the in-memory StageExecution a worker got from `retrieve_stage` -/
structure Snap where
  status : St
  version : Nat
  buffered : Nat
  deriving DecidableEq, Repr

def load (s : Stage) : Snap := { status := s.status, version := s.version, buffered := s.buffered }

/-- one `store_stage` inside a transaction: the whole row is overwritten from the in-memory object, guarded by ITS version -/
structure Write where
  guard : Nat
  status : St
  buffered : Nat
  push : Nat := 0         -- RunTask rows inserted in the same commit
  resumed : Nat := 0      -- ghost increments
  consumed : Nat := 0
  deriving Repr

/-- `UPDATE ... WHERE version = :version`: `none` = rowcount 0 = ConcurrencyError, transaction rolled back -/
def cas (s : Stage) (w : Write) : Option Stage :=
  if s.version = w.guard then
    some { s with status := w.status, buffered := w.buffered, version := s.version + 1,
                  queued := s.queued + w.push, resumed := s.resumed + w.resumed, consumed := s.consumed + w.consumed }
  else none

/-- `handler_config.concurrency_max_retries` (default; the harness does not change it) -/
def maxRetries : Nat := 3
/-- runs of the transaction inside `execute_atomic` (DEADLOCK_RETRY_POLICY max_retries 5 + 1), all with the same object -/
def innerRuns : Nat := 6

inductive Variant where
  | cas | reread
  | staleMailboxWins    -- StartStage's plan-conflict merge keeps its in-memory mailbox when the key already exists (see below)
  deriving DecidableEq, Repr

/-! ### the signal worker -/

inductive SigOut where
  | delivered | buffered | dropped | raised
  deriving DecidableEq, Repr

inductive SigPc where
  | start (fuel rb : Nat)                  -- next: with_stage's retrieve_stage
  | loaded (fuel rb : Nat) (o : Snap)      -- next: the act decided on `o` (`reread` variant, buffering branch: the re-read)
  | reloaded (fuel rb : Nat) (o : Snap)    -- `reread` variant only: next = the CAS write of the re-read object
  | done (r : SigOut) (rb : Nat)           -- `rb` = rolled-back transactions so far
  deriving DecidableEq, Repr

/-- ConcurrencyError inside `retry_on_concurrency_error`: run the closure again (it starts with the read) or give up -/
def sigConflict (fuel rb : Nat) : SigPc :=
  match fuel with
  | 0 => .done .raised (rb + 1)
  | f + 1 => .start f (rb + 1)

def sigStep (v : Variant) (persistent : Bool) (x : Stage × SigPc) : Stage × SigPc :=
  match x with
  | (s, .start f rb) => (s, .loaded f rb (load s))
  | (s, .loaded f rb o) =>
    if o.status = .suspended then
      match cas s { guard := o.version, status := .running, buffered := o.buffered, push := 1, resumed := 1 } with
      | some s' => (s', .done .delivered rb)
      | none => (s, sigConflict f rb)
    else if persistent then
      match v with
      | .reread => (s, .reloaded f rb (load s))
      | _ =>
        match cas s { guard := o.version, status := o.status, buffered := o.buffered + 1 } with
        | some s' => (s', .done .buffered rb)
        | none => (s, sigConflict f rb)
    else ({ s with dropped := s.dropped + 1 }, .done .dropped rb)
  | (s, .reloaded f rb o) =>
    match cas s { guard := o.version, status := o.status, buffered := o.buffered + 1 } with
    | some s' => (s', .done .buffered rb)
    | none => (s, sigConflict f rb)
  | (s, .done r rb) => (s, .done r rb)

/-! ### the RunTask worker; the task suspends on its executions `1..K` and succeeds afterwards -/

inductive RunOut where
  | ignored       -- with_task found the task not RUNNING: mark only
  | stale         -- the reload found stage/task not RUNNING: result ignored, mark only
  | suspended | consumed | finished | raised
  deriving DecidableEq, Repr

inductive RunPc where
  | start                                              -- next: with_task's read, then the task runs
  | executed (fuel rb : Nat) (susp : Bool)             -- result in hand; next: do_process's reload
  | reloaded (fuel rb : Nat) (susp : Bool) (o : Snap)  -- next: the act decided on `o`
  | done (r : RunOut) (rb : Nat)
  deriving DecidableEq, Repr

/-- ConcurrencyError out of `execute_atomic` (after its own `innerRuns` identical attempts): reload and decide again;
    the task is NOT executed again -/
def runConflict (fuel rb : Nat) (susp : Bool) : RunPc :=
  match fuel with
  | 0 => .done .raised (rb + innerRuns)
  | f + 1 => .executed f (rb + innerRuns) susp

def runStep (K : Nat) (x : Stage × RunPc) : Stage × RunPc :=
  match x with
  | (s, .start) =>
    if s.status = .running then
      ({ s with execs := s.execs + 1 }, .executed maxRetries 0 (decide (s.execs + 1 ≤ K)))
    else (s, .done .ignored 0)
  | (s, .executed f rb susp) => (s, .reloaded f rb susp (load s))
  | (s, .reloaded f rb susp o) =>
    if susp then
      if o.status = .running then
        if 0 < o.buffered then
          match cas s { guard := o.version, status := .running, buffered := o.buffered - 1, push := 1, consumed := 1 } with
          | some s' => (s', .done .consumed rb)
          | none => (s, runConflict f rb susp)
        else
          match cas s { guard := o.version, status := .suspended, buffered := o.buffered } with
          | some s' => (s', .done .suspended rb)
          | none => (s, runConflict f rb susp)
      else (s, .done .stale rb)
    else
      match cas s { guard := o.version, status := .finished, buffered := o.buffered } with
      | some s' => (s', .done .finished rb)
      | none => (s, runConflict f rb susp)
  | (s, .done r rb) => (s, .done r rb)

/-! ### schedules -/

def iter {α : Type} (f : α → α) : Nat → α → α
  | 0, x => x
  | n + 1, x => iter f n (f x)

/-- enough micro-steps to finish any worker: at most 3 per run of the closure, at most `maxRetries + 1` runs, + start -/
def bound : Nat := 16

inductive Dir where
  | sigFirst      -- A = signal worker, B = RunTask worker
  | runFirst      -- A = RunTask worker, B = signal worker
  deriving DecidableEq, Repr

structure Sched where
  dir : Dir
  k : Nat               -- B runs atomically after `k` micro-steps of A
  persistent : Bool
  deriving DecidableEq, Repr

structure Result where
  stage : Stage
  sig : SigPc
  run : RunPc
  deriving DecidableEq, Repr

def sigInit : SigPc := .start maxRetries 0

def race (v : Variant) (K : Nat) (sch : Sched) (s0 : Stage) : Result :=
  match sch.dir with
  | .sigFirst =>
    let a := iter (sigStep v sch.persistent) sch.k (s0, sigInit)
    let b := iter (runStep K) bound (a.1, .start)
    let a' := iter (sigStep v sch.persistent) bound (b.1, a.2)
    { stage := a'.1, sig := a'.2, run := b.2 }
  | .runFirst =>
    let a := iter (runStep K) sch.k (s0, .start)
    let b := iter (sigStep v sch.persistent) bound (a.1, sigInit)
    let a' := iter (runStep K) bound (b.1, a.2)
    { stage := a'.1, sig := b.2, run := a'.2 }

/-! ### the StartStage worker (third direction of the race: a signal handled while the stage is being started)

  handlers/start_stage/handler.py `_start_if_ready`, for a stage with predefined tasks, no mutex / choice group:
    with_stage read -> status must be NOT_STARTED -> CLAIM commit `store_stage(stage, expected_phase="NOT_STARTED")`
    (UPDATE … WHERE version = :version AND status = 'NOT_STARTED'; writes status RUNNING and the loaded context)
      miss: re-read; row left NOT_STARTED -> duplicate claim, return; after `_CLAIM_RETRY_LIMIT` = 5 retries re-queue the
            StartStage; otherwise claim again with the fresh object
    -> `claimed_context = dict(stage.context)` -> plan in memory -> PLAN commit `store_stage(stage)` + mark + push StartTask
      miss: re-read; row not RUNNING -> taken over, return; more than 5 attempts -> raise; otherwise MERGE: every key of the
            fresh context that is new or differs from `claimed_context` is copied into the in-memory context, then
            `claimed_context = dict(fresh.context)`, adopt the fresh version, commit again
  The mailbox is the only context key another worker writes in this race, and signals only append to it, so the merge
  amounts to "in-memory mailbox := re-read mailbox".  `Variant.staleMailboxWins` is the merge `if key not in stage.context`
  (keep the in-memory value whenever the key already exists; the key exists iff a signal was buffered before the claim,
  i.e. iff the in-memory mailbox is non-empty): it exists only to state what the merge protects.
  The plan commit's StartTask -> RunTask chain is collapsed into `queued + 1` (one RunTask to deliver). -/

def claimRetryLimit : Nat := 5

inductive StartOut where
  | started
  | ignored        -- not NOT_STARTED when loaded
  | duplicate      -- claim missed and the row had left NOT_STARTED
  | requeued       -- claim still contended after the retry limit: StartStage pushed again
  | takenOver      -- plan missed and the row had left RUNNING
  | raised
  deriving DecidableEq, Repr

inductive StartPc where
  | start
  | loaded (retry rb : Nat) (o : Snap)                 -- next: the claim CAS with `o`
  | claimMissed (retry rb : Nat)                       -- next: the re-read after a missed claim
  | claimed (attempt rb : Nat) (o : Snap) (c : Nat)    -- `o` = in-memory object, `c` = mailbox in `claimed_context`; next: the plan CAS
  | planMissed (attempt rb : Nat) (o : Snap) (c : Nat) -- next: the re-read + merge after a missed plan commit
  | done (r : StartOut) (rb : Nat)
  deriving DecidableEq, Repr

def startStep (v : Variant) (x : Stage × StartPc) : Stage × StartPc :=
  match x with
  | (s, .start) =>
    if s.status = .notStarted then (s, .loaded 0 0 (load s)) else (s, .done .ignored 0)
  | (s, .loaded r rb o) =>
    if s.version = o.version ∧ s.status = .notStarted then
      ({ s with status := .running, buffered := o.buffered, version := s.version + 1 },
       .claimed 0 rb { o with status := .running, version := o.version + 1 } o.buffered)
    else (s, .claimMissed r (rb + 1))
  | (s, .claimMissed r rb) =>
    if s.status = .notStarted then
      if claimRetryLimit ≤ r then (s, .done .requeued rb) else (s, .loaded (r + 1) rb (load s))
    else (s, .done .duplicate rb)
  | (s, .claimed a rb o c) =>
    if s.version = o.version then
      ({ s with status := o.status, buffered := o.buffered, version := s.version + 1, queued := s.queued + 1,
                planned := s.planned + 1 }, .done .started rb)
    else (s, .planMissed a (rb + 1) o c)
  | (s, .planMissed a rb o c) =>
    if s.status = .running then
      if claimRetryLimit < a + 1 then (s, .done .raised rb)
      else
        let merged := match v with
          | .staleMailboxWins => if o.buffered = 0 then s.buffered else o.buffered
          | _ => if s.buffered = c then o.buffered else s.buffered
        (s, .claimed (a + 1) rb { o with buffered := merged, version := s.version } s.buffered)
    else (s, .done .takenOver rb)
  | (s, .done r rb) => (s, .done r rb)

/-- the stage row before StartStage: NOT_STARTED, `buffered` persistent signals already in its mailbox -/
def initStart (version buffered : Nat) : Stage :=
  { status := .notStarted, version, buffered, queued := 0, execs := 0, resumed := 0, consumed := 0, dropped := 0, planned := 0 }

structure StartResult where
  stage : Stage
  sig : SigPc
  start : StartPc
  deriving DecidableEq, Repr

/-- `Dir.runFirst`: A = the StartStage worker, B = the signal worker; `Dir.sigFirst`: A = the signal worker -/
def raceStart (v : Variant) (sch : Sched) (s0 : Stage) : StartResult :=
  match sch.dir with
  | .sigFirst =>
    let a := iter (sigStep v sch.persistent) sch.k (s0, sigInit)
    let b := iter (startStep v) bound (a.1, .start)
    let a' := iter (sigStep v sch.persistent) bound (b.1, a.2)
    { stage := a'.1, sig := a'.2, start := b.2 }
  | .runFirst =>
    let a := iter (startStep v) sch.k (s0, .start)
    let b := iter (sigStep v sch.persistent) bound (a.1, sigInit)
    let a' := iter (startStep v) bound (b.1, a.2)
    { stage := a'.1, sig := b.2, start := a'.2 }

/-! ### after the race: further messages are handled one at a time -/

/-- a SignalStage handled with nobody else running -/
def sigAtomic (v : Variant) (persistent : Bool) (s : Stage) : Stage :=
  (iter (sigStep v persistent) bound (s, sigInit)).1

/-- one pending RunTask handled with nobody else running -/
def runAtomic (K : Nat) (s : Stage) : Stage :=
  (iter (runStep K) bound ({ s with queued := s.queued - 1 }, .start)).1

/-- deliver pending RunTasks until none is left (fuel = how many deliveries at most) -/
def quiesce (K : Nat) : Nat → Stage → Stage
  | 0, s => s
  | n + 1, s => if s.queued = 0 then s else quiesce K n (runAtomic K s)

/-! ### driver

  `sigrace <cas|reread> K=<n> dir=<sig|run> k=<n> p=<0|1> v=<version> b=<mailbox> post=<-|0,1,...>`
  `post` = signals (1 persistent / 0 transient) handled one at a time right after the race (they were pending during it);
  then pending RunTasks are delivered until the queue is empty.
  answer: `race st=… dv=… b=… q=… e=… sig=<out>.r<rollbacks> run=<out>.r<rollbacks> | fin st=… b=… q=… e=… wf=…`

  `sigrace start <cas|staleMailboxWins> K=<n> dir=<start|sig> k=<n> p=<0|1> v=<version> b=<mailbox> post=<…>`: the StartStage race
  (`dir=start`: A = StartStage worker); answer `race st=… dv=… b=… q=… e=… pl=<plan commits> sig=… start=<out>.r<rollbacks> | fin …`
-/

def SigOut.name : SigOut → String
  | .delivered => "delivered" | .buffered => "buffered" | .dropped => "dropped" | .raised => "raised"

def RunOut.name : RunOut → String
  | .ignored => "ignored" | .stale => "stale" | .suspended => "suspended" | .consumed => "consumed"
  | .finished => "finished" | .raised => "raised"

def showSig : SigPc → String
  | .done r rb => s!"{r.name}.r{rb}"
  | _ => "unfinished"

def showRun : RunPc → String
  | .done r rb => s!"{r.name}.r{rb}"
  | _ => "unfinished"

def StartOut.name : StartOut → String
  | .started => "started" | .ignored => "ignored" | .duplicate => "duplicate" | .requeued => "requeued"
  | .takenOver => "takenOver" | .raised => "raised"

def showStart : StartPc → String
  | .done r rb => s!"{r.name}.r{rb}"
  | _ => "unfinished"

def kvArg (key : String) (tok : String) : Option String :=
  if tok.startsWith (key ++ "=") then some (tok.drop (key.length + 1)).toString else none

def parsePost (s : String) : Option (List Bool) :=
  if s == "-" then some [] else Parse.all? Parse.bool? (s.splitOn ",")

def showRace (v0 : Nat) (r : Result) : String :=
  s!"race st={r.stage.status.name} dv={r.stage.version - v0} b={r.stage.buffered} q={r.stage.queued} e={r.stage.execs} sig={showSig r.sig} run={showRun r.run}"

def showFin (s : Stage) : String :=
  let wf := if s.status = .finished then "SUCCEEDED" else "RUNNING"
  s!"fin st={s.status.name} b={s.buffered} q={s.queued} e={s.execs} wf={wf}"

def showStartRace (v0 : Nat) (r : StartResult) : String :=
  s!"race st={r.stage.status.name} dv={r.stage.version - v0} b={r.stage.buffered} q={r.stage.queued} e={r.stage.execs} pl={r.stage.planned} sig={showSig r.sig} start={showStart r.start}"

def driveStart (toks : List String) : String :=
  match toks with
  | [v, kk, d, k, p, ver, b, post] =>
    let parsed : Option (Variant × Nat × Sched × Nat × Nat × List Bool) := do
      let v ← (if v == "cas" then some Variant.cas else if v == "staleMailboxWins" then some Variant.staleMailboxWins else none)
      let kk ← (kvArg "K" kk) >>= Parse.nat?
      let d ← kvArg "dir" d
      let d ← (if d == "sig" then some Dir.sigFirst else if d == "start" then some Dir.runFirst else none)
      let k ← (kvArg "k" k) >>= Parse.nat?
      let p ← (kvArg "p" p) >>= Parse.bool?
      let ver ← (kvArg "v" ver) >>= Parse.nat?
      let b ← (kvArg "b" b) >>= Parse.nat?
      let post ← (kvArg "post" post) >>= parsePost
      pure (v, kk, { dir := d, k := k, persistent := p }, ver, b, post)
    match parsed with
    | some (v, kk, sch, ver, b, post) =>
      let r := raceStart v sch (initStart ver b)
      let s1 := post.foldl (fun s p => sigAtomic v p s) r.stage
      let fin := quiesce kk 64 s1
      showStartRace ver r ++ " | " ++ showFin fin
    | none => "bad-request"
  | _ => "bad-request"

def drive (rest : String) : String :=
  match rest.splitOn " " with
  | "start" :: toks => driveStart toks
  | [v, kk, d, k, p, ver, b, post] =>
    let parsed : Option (Variant × Nat × Sched × Nat × Nat × List Bool) := do
      let v ← (if v == "cas" then some Variant.cas else if v == "reread" then some Variant.reread else none)
      let kk ← (kvArg "K" kk) >>= Parse.nat?
      let d ← kvArg "dir" d
      let d ← (if d == "sig" then some Dir.sigFirst else if d == "run" then some Dir.runFirst else none)
      let k ← (kvArg "k" k) >>= Parse.nat?
      let p ← (kvArg "p" p) >>= Parse.bool?
      let ver ← (kvArg "v" ver) >>= Parse.nat?
      let b ← (kvArg "b" b) >>= Parse.nat?
      let post ← (kvArg "post" post) >>= parsePost
      pure (v, kk, { dir := d, k := k, persistent := p }, ver, b, post)
    match parsed with
    | some (v, kk, sch, ver, b, post) =>
      let r := race v kk sch (init ver b)
      let s1 := post.foldl (fun s p => sigAtomic v p s) r.stage
      let fin := quiesce kk 64 s1
      showRace ver r ++ " | " ++ showFin fin
    | none => "bad-request"
  | _ => "bad-request"

end Stab.SignalRace
