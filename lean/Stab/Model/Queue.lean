/-
  Model `Queue` (driver token `queue`) of `stabilize.queue.sqlite` (SqliteQueue + SqliteDLQMixin),
  `persistence/sqlite/transaction.py:push_message` and the poll / ack / reschedule protocol the
  processor drives (`queue/processor/processor.py`).

  What is modelled, statement by statement (the WHERE clauses are mirrored literally):

  * `push`             INSERT … attempts 0, max_attempts = queue.max_attempts, version 0 (default), lock NULL
  * `pushTxn m`        AtomicTransaction.push_message: same INSERT but with ITS OWN max_attempts value `m`
                       (`getattr(message, "max_attempts", 10)`), committed by the surrounding transaction
  * `inject kind`      (environment) a row whose payload cannot be deserialised: 1 = invalid JSON
                       (poll_one claims it, then moves it to the DLQ), 2 = unknown message type
                       (poll_one claims it and then raises)
  * `pollSelect w`     the SELECT of poll_one: deliverable ∧ (locked_until NULL ∨ lapsed) ∧
                       attempts < QUEUE.max_attempts, ORDER BY deliver_at LIMIT 1
  * `pollClaim w`      the UPDATE … WHERE id = :id AND version = :version (lock, attempts+1, version+1) + commit;
                       it does NOT re-check the lock — only the version
  * `poll w`           both, with nothing in between
  * `ack`              DELETE WHERE id (unconditional)
  * `reschedule w id`  the message worker `w` got from poll_one carries the claim token `_claim_version` (= the row
                       version its claim produced): UPDATE SET deliver_at, locked_until = NULL
                       WHERE id = :id AND version = :claim   (no version bump)
  * `extend w id`      UPDATE SET locked_until WHERE id = :id AND version = :claim AND locked_until IS NOT NULL AND
                       not lapsed; returns rowcount == 1.  In the abstract state a held lock stays held, so only the
                       return value is modelled.
  * `rescheduleRaw id` / `extendRaw id`   the same calls with a hand-made Message that has NO claim token: the guard
                       is omitted and the statements are the unconditional ones the code had before the F14 repair
                       (`WHERE id = :id`).  Messages handed out by poll_one always carry the token.
  * `moveToDlq`        DELETE … RETURNING + INSERT INTO dlq, ONE commit
  * `sweep`            check_and_move_expired: SELECT WHERE attempts >= max_attempts (the ROW's column),
                       then move_to_dlq per row, one commit each
  * `replay`           DELETE FROM dlq RETURNING + INSERT (new row id, attempts 0, column defaults:
                       max_attempts 10, version 0, lock NULL), ONE commit
  * `expire id` / `mature id`   abstract time: the row's lock lapses / its deliver_at is reached
  * `crash a k`        the process dies at the (k+1)-th commit of `a`: the first `k` commits are durable,
                       everything in memory (pending SELECT results, leases) is gone

  Ordering (`ORDER BY deliver_at`, a TEXT comparison): every statement that writes `deliver_at`
  stamps the row with a logical clock; rows written by `replay_dlq` use SQLite's
  `YYYY-MM-DD HH:MM:SS` format, which sorts before Python's ISO format (`…T…`) of the same date,
  hence the `front` flag.  Order = front rows first, then stamp, then row id.  No theorem depends on
  the order — only on `pick_mem` (the selected row is one of the eligible rows).

  `toks` is real in-memory state: the claim token on the Message object worker `w` holds for row `id`
  (replaced by `w`'s next claim of that row, gone after a crash).
  Ghost state: `acked` (payload tags removed by `ack`), `leases` (worker `w` was handed row `id` by a
  successful claim and has not released it; `live = false` once its lock lapsed), worker ids.
  The payload is abstracted to a unique `tag` (the harness puts the tag into the message).
-/
import Stab.Model.Basic

namespace Stab.Queue
open Stab

inductive Lock where
  | free | held | lapsed
  deriving DecidableEq, Repr

structure Row where
  id : Nat
  tag : Nat
  bad : Nat            -- 0 fine, 1 invalid JSON, 2 unknown type
  attempts : Nat
  maxAtt : Nat         -- the row's own max_attempts column
  version : Nat
  lock : Lock
  deliverable : Bool
  front : Bool
  stamp : Nat
  deriving DecidableEq, Repr

structure DRow where
  did : Nat
  origId : Nat
  tag : Nat
  bad : Nat
  attempts : Nat
  deriving DecidableEq, Repr

/-- result of worker `w`'s SELECT, kept until its UPDATE -/
structure Sel where
  w : Nat
  id : Nat
  version : Nat
  attempts : Nat
  deriving DecidableEq, Repr

structure Lease where
  w : Nat
  id : Nat
  ver : Nat            -- the row version the claim produced (= the worker's claim token)
  live : Bool
  deriving DecidableEq, Repr

/-- `message._claim_version` of the Message worker `w` holds for row `id` -/
structure Tok where
  w : Nat
  id : Nat
  ver : Nat
  deriving DecidableEq, Repr

structure State where
  maxAttempts : Nat            -- SqliteQueue(max_attempts=…)
  rows : List Row := []
  dlq : List DRow := []
  acked : List Nat := []
  nextId : Nat := 1
  nextDid : Nat := 1
  nextTag : Nat := 0
  clock : Nat := 0
  sels : List Sel := []
  leases : List Lease := []
  toks : List Tok := []
  deriving Repr

def init (maxAttempts : Nat) : State := { maxAttempts }

/-- `max_attempts INTEGER DEFAULT 10` — what `replay_dlq` (which omits the column) gets -/
def columnDefaultMaxAtt : Nat := 10

inductive Act where
  | push (delay : Bool)
  | pushTxn (maxAtt : Nat) (delay : Bool)
  | inject (bad : Nat)
  | pollSelect (w : Nat)
  | pollClaim (w : Nat)
  | poll (w : Nat)
  | ack (w id : Nat)
  | reschedule (w id : Nat) (delay : Bool)
  | extend (w id : Nat)
  | rescheduleRaw (id : Nat) (delay : Bool)
  | extendRaw (id : Nat)
  | expire (id : Nat)
  | mature (id : Nat)
  | moveToDlq (id : Nat)
  | sweep
  | replay (did : Nat)
  deriving DecidableEq, Repr

inductive Op where
  | act (a : Act)
  | crash (a : Act) (k : Nat)
  deriving DecidableEq, Repr

/-! ### primitive transitions (each is one committed statement group, or an in-memory change) -/

inductive Prim where
  | pushRow (maxAtt bad : Nat) (delay : Bool)
  | setSel (w : Nat)
  | dropSel (w : Nat)
  | claimSel (w : Nat) (dlqCorrupt : Bool)
  | ackRow (w id : Nat)
  | resched (w id : Nat) (delay : Bool)
  | reschedRaw (id : Nat) (delay : Bool)
  | extendRaw (id : Nat)
  | expire (id : Nat)
  | mature (id : Nat)
  | moveToDlq (id : Nat)
  | replay (did : Nat)
  | kill
  deriving DecidableEq, Repr

/-- the WHERE clause of the poll SELECT -/
def eligible (maxAttempts : Nat) (r : Row) : Bool :=
  r.deliverable && r.lock != .held && decide (r.attempts < maxAttempts)

/-- `a` sorts strictly before `b` under `ORDER BY deliver_at` -/
def before (a b : Row) : Bool :=
  (a.front && !b.front) || (a.front == b.front && decide (a.stamp < b.stamp))

/-- `ORDER BY deliver_at LIMIT 1` (ties: lowest row id = first in the list) -/
def pick : List Row → Option Row
  | [] => none
  | r :: rs =>
    match pick rs with
    | none => some r
    | some b => if before b r then some b else some r

def candidate (s : State) : Option Row := pick (s.rows.filter (eligible s.maxAttempts))

def selOf (s : State) (w : Nat) : Option Sel := s.sels.find? (fun x => x.w == w)

def dropSels (w : Nat) (sels : List Sel) : List Sel := sels.filter (fun x => x.w != w)

/-- the row the claim UPDATE of `x` matches (`WHERE id = :id AND version = :version`) -/
def matched (s : State) (x : Sel) : Option Row :=
  s.rows.find? (fun r => r.id == x.id && r.version == x.version)

def pushRow (s : State) (maxAtt bad : Nat) (delay : Bool) : State :=
  { s with
    rows := s.rows ++ [{ id := s.nextId, tag := s.nextTag, bad, attempts := 0, maxAtt, version := 0,
                         lock := .free, deliverable := !delay, front := false, stamp := s.clock }]
    nextId := s.nextId + 1, nextTag := s.nextTag + 1, clock := s.clock + 1 }

def setSel (s : State) (w : Nat) : State :=
  match candidate s with
  | none => { s with sels := dropSels w s.sels }
  | some r => { s with sels := ⟨w, r.id, r.version, r.attempts⟩ :: dropSels w s.sels }

def moveToDlq (s : State) (i : Nat) : State :=
  match s.rows.find? (fun r => r.id == i) with
  | none => s
  | some r =>
    { s with rows := s.rows.filter (fun r => r.id != i)
             dlq := s.dlq ++ [⟨s.nextDid, r.id, r.tag, r.bad, r.attempts⟩]
             nextDid := s.nextDid + 1 }

def dropLeases (w i : Nat) (ls : List Lease) : List Lease := ls.filter (fun l => !(l.w == w && l.id == i))

def dropToks (w i : Nat) (ts : List Tok) : List Tok := ts.filter (fun t => !(t.w == w && t.id == i))

def tokOf (s : State) (w i : Nat) : Option Nat := (s.toks.find? (fun t => t.w == w && t.id == i)).map (·.ver)

def claimRows (rows : List Row) (i v : Nat) : List Row :=
  rows.map (fun r => if r.id == i && r.version == v
    then { r with lock := .held, attempts := r.attempts + 1, version := r.version + 1 } else r)

def claimSel (s : State) (w : Nat) (dlqCorrupt : Bool) : State :=
  match selOf s w with
  | none => s
  | some x =>
    let s0 := { s with sels := dropSels w s.sels }
    match matched s x with
    | none => s0
    | some r =>
      let s1 := { s0 with rows := claimRows s0.rows x.id x.version }
      -- a new claim by the same worker supersedes its older (lapsed) lease on that row
      if r.bad == 0 then
        { s1 with leases := ⟨w, r.id, r.version + 1, true⟩ :: dropLeases w r.id s1.leases
                  toks := ⟨w, r.id, r.version + 1⟩ :: dropToks w r.id s1.toks }
      else if r.bad == 1 && dlqCorrupt then moveToDlq s1 r.id
      else s1

def ackRow (s : State) (w i : Nat) : State :=
  { s with rows := s.rows.filter (fun r => r.id != i)
           acked := s.acked ++ (s.rows.filter (fun r => r.id == i)).map (·.tag)
           leases := dropLeases w i s.leases }

/-- `reschedule(message, delay)` with the message `w` polled: guarded by its claim token.
    Without such a message (`w` never polled the row) the call cannot be made: no-op. -/
def resched (s : State) (w i : Nat) (delay : Bool) : State :=
  match tokOf s w i with
  | none => s
  | some v =>
    { s with rows := s.rows.map (fun r => if r.id == i && r.version == v
               then { r with deliverable := !delay, front := false, stamp := s.clock, lock := .free } else r)
             clock := s.clock + 1
             leases := dropLeases w i s.leases }

/-- `reschedule` with a hand-made Message (no claim token): unguarded -/
def reschedRaw (s : State) (i : Nat) (delay : Bool) : State :=
  { s with rows := s.rows.map (fun r => if r.id == i
             then { r with deliverable := !delay, front := false, stamp := s.clock, lock := .free } else r)
           clock := s.clock + 1 }

/-- `extend_lock` with a hand-made Message (no claim token): unguarded -/
def extendRaw (s : State) (i : Nat) : State :=
  { s with rows := s.rows.map (fun r => if r.id == i then { r with lock := .held } else r) }

/-- does the guarded `extend_lock` of worker `w` hit a row (`rowcount == 1`)? -/
def extendHits (s : State) (w i : Nat) : Bool :=
  match tokOf s w i with
  | none => false
  | some v => s.rows.any (fun r => r.id == i && r.version == v && r.lock == .held)

def expire (s : State) (i : Nat) : State :=
  { s with rows := s.rows.map (fun r => if r.id == i && r.lock == .held then { r with lock := .lapsed } else r)
           leases := s.leases.map (fun l => if l.id == i then { l with live := false } else l) }

def mature (s : State) (i : Nat) : State :=
  { s with rows := s.rows.map (fun r => if r.id == i then { r with deliverable := true } else r) }

def replay (s : State) (d : Nat) : State :=
  match s.dlq.find? (fun x => x.did == d) with
  | none => s
  | some x =>
    { s with dlq := s.dlq.filter (fun y => y.did != d)
             rows := s.rows ++ [{ id := s.nextId, tag := x.tag, bad := x.bad, attempts := 0,
                                  maxAtt := columnDefaultMaxAtt, version := 0, lock := .free,
                                  deliverable := true, front := true, stamp := s.clock }]
             nextId := s.nextId + 1, clock := s.clock + 1 }

def kill (s : State) : State := { s with sels := [], leases := [], toks := [] }

def applyPrim (s : State) : Prim → State
  | .pushRow m b d => pushRow s m b d
  | .setSel w => setSel s w
  | .dropSel w => { s with sels := dropSels w s.sels }
  | .claimSel w c => claimSel s w c
  | .ackRow w i => ackRow s w i
  | .resched w i d => resched s w i d
  | .reschedRaw i d => reschedRaw s i d
  | .extendRaw i => extendRaw s i
  | .expire i => expire s i
  | .mature i => mature s i
  | .moveToDlq i => moveToDlq s i
  | .replay d => replay s d
  | .kill => kill s

def applyPrims (s : State) (ps : List Prim) : State := ps.foldl applyPrim s

/-- ids the sweep's SELECT returns
    (`WHERE attempts >= max_attempts OR attempts >= :queue_max_attempts`, table order) -/
def sweepIds (s : State) : List Nat :=
  (s.rows.filter (fun r => decide (r.attempts ≥ r.maxAtt) || decide (r.attempts ≥ s.maxAttempts))).map (·.id)

/-- The committed steps of an action; `budget = some k` keeps only what the first `k` commits make durable. -/
def primsOf (s : State) (a : Act) (budget : Option Nat) : List Prim :=
  let one (p : Prim) : List Prim := if budget == some 0 then [] else [p]
  match a with
  | .push d => one (.pushRow s.maxAttempts 0 d)
  | .pushTxn m d => one (.pushRow m 0 d)
  | .inject b => one (.pushRow s.maxAttempts b false)
  | .pollSelect w => [.setSel w]                       -- no commit: only the worker's memory changes
  | .pollClaim w =>
    match budget with
    | some 0 => [.dropSel w]
    | some 1 => [.claimSel w false]
    | _ => [.claimSel w true]
  | .poll w =>
    match budget with
    | some 0 => [.setSel w, .dropSel w]
    | some 1 => [.setSel w, .claimSel w false]
    | _ => [.setSel w, .claimSel w true]
  | .ack w i => one (.ackRow w i)
  | .reschedule w i d => one (.resched w i d)
  | .extend _ _ => []                                  -- a held lock stays held: nothing changes in the abstract state
  | .rescheduleRaw i d => one (.reschedRaw i d)
  | .extendRaw i => one (.extendRaw i)
  | .expire i => [.expire i]
  | .mature i => [.mature i]
  | .moveToDlq i => one (.moveToDlq i)
  | .sweep =>
    let ids := sweepIds s
    (match budget with | some k => ids.take k | none => ids).map Prim.moveToDlq
  | .replay d => one (.replay d)

def opPrims (s : State) : Op → List Prim
  | .act a => primsOf s a none
  | .crash a k => primsOf s a (some k) ++ [.kill]

/-- one operation -/
def next (s : State) (op : Op) : State := applyPrims s (opPrims s op)

def run (s : State) (ops : List Op) : State := ops.foldl next s

/-! ### what the caller sees -/

inductive Out where
  | ok | none | nosel | raised | crashed
  | sel (id version : Nat)
  | got (id tag attempts : Nat)
  | bool (b : Bool)
  | count (n : Nat)
  deriving DecidableEq, Repr

/-- would the claim UPDATE of worker `w` hit a row (`rowcount == 1`)? -/
def claimHits (s : State) (w : Nat) : Option Row :=
  match selOf s w with
  | none => none
  | some x => matched s x

def claimOut (s : State) (w : Nat) : Out :=
  match selOf s w with
  | none => .nosel
  | some x =>
    match matched s x with
    | none => .none
    | some r => if r.bad == 0 then .got r.id r.tag (r.attempts + 1) else if r.bad == 1 then .none else .raised

def outOf (s : State) : Op → Out
  | .crash _ _ => .crashed
  | .act a =>
    match a with
    | .push _ | .pushTxn _ _ | .inject _ | .ack _ _ | .reschedule _ _ _ | .rescheduleRaw _ _ | .expire _ | .mature _
    | .moveToDlq _ => .ok
    | .pollSelect _ => match candidate s with | none => .none | some r => .sel r.id r.version
    | .pollClaim w => claimOut s w
    | .poll w => match candidate s with | none => .none | some _ => claimOut (setSel s w) w
    | .extend w i => .bool (extendHits s w i)
    | .extendRaw i => .bool (s.rows.any (fun r => r.id == i))
    | .sweep => .count (sweepIds s).length
    | .replay d => .bool (s.dlq.any (fun x => x.did == d))

/-! ### ghost predicates used by the theorems -/

def hasLive (s : State) (w i : Nat) : Bool := s.leases.any (fun l => l.w == w && l.id == i && l.live)

/-- the op uses a hand-made Message without claim token (outside the poll → release protocol) -/
def isRawAct : Act → Bool
  | .rescheduleRaw _ _ | .extendRaw _ => true
  | _ => false

def isRaw : Op → Bool
  | .act a | .crash a _ => isRawAct a

def liveOn (s : State) (i : Nat) : List Lease := s.leases.filter (fun l => l.live && l.id == i)

def queueTags (s : State) : List Nat := s.rows.map (·.tag)
def dlqTags (s : State) : List Nat := s.dlq.map (·.tag)

/-- in how many places is payload `t` -/
def places (s : State) (t : Nat) : Nat :=
  (queueTags s).count t + (dlqTags s).count t + s.acked.count t

/-! ### text protocol

  request : `queue <maxAttempts> <op;op;…>`
  ops     : `push:d` `pusht:m:d` `inject:b` `sel:w` `claim:w` `poll:w` `ack:w:id` `resched:w:id:d`
            `extend:w:id` `rresched:id:d` `rextend:id` `expire:id` `mature:id` `dlq:id` `sweep` `replay:did`
            `crash:k:<op>`
  answer  : per op `<out>#<rows>#<dlq>#<order of the deliverable rows>#<acked>` joined by `|`
  (the pair form `queue <m> <setup> <A> <B> [ab|ba]` is described above `drivePair`)
-/

def parseAct (toks : List String) : Option Act :=
  match toks with
  | ["push", d] => do pure (.push (← Parse.bool? d))
  | ["pusht", m, d] => do pure (.pushTxn (← Parse.nat? m) (← Parse.bool? d))
  | ["inject", b] => do pure (.inject (← Parse.nat? b))
  | ["sel", w] => do pure (.pollSelect (← Parse.nat? w))
  | ["claim", w] => do pure (.pollClaim (← Parse.nat? w))
  | ["poll", w] => do pure (.poll (← Parse.nat? w))
  | ["ack", w, i] => do pure (.ack (← Parse.nat? w) (← Parse.nat? i))
  | ["resched", w, i, d] => do pure (.reschedule (← Parse.nat? w) (← Parse.nat? i) (← Parse.bool? d))
  | ["extend", w, i] => do pure (.extend (← Parse.nat? w) (← Parse.nat? i))
  | ["rresched", i, d] => do pure (.rescheduleRaw (← Parse.nat? i) (← Parse.bool? d))
  | ["rextend", i] => do pure (.extendRaw (← Parse.nat? i))
  | ["expire", i] => do pure (.expire (← Parse.nat? i))
  | ["mature", i] => do pure (.mature (← Parse.nat? i))
  | ["dlq", i] => do pure (.moveToDlq (← Parse.nat? i))
  | ["sweep"] => some .sweep
  | ["replay", d] => do pure (.replay (← Parse.nat? d))
  | _ => none

def parseOp (s : String) : Option Op :=
  match s.splitOn ":" with
  | "crash" :: k :: rest => do pure (.crash (← parseAct rest) (← Parse.nat? k))
  | toks => (parseAct toks).map .act

def Lock.show : Lock → String
  | .free => "f" | .held => "h" | .lapsed => "x"

def b01 (b : Bool) : String := if b then "1" else "0"

def showRow (r : Row) : String :=
  s!"{r.id}.{r.tag}.{r.bad}.{r.attempts}.{r.maxAtt}.{r.version}.{r.lock.show}.{b01 r.deliverable}"

def showDRow (d : DRow) : String := s!"{d.did}.{d.origId}.{d.tag}.{d.bad}.{d.attempts}"

def listOr (xs : List String) : String := if xs.isEmpty then "-" else Parse.joinWith "," xs

/-- insertion sort by `before` (stable: list order = id order breaks ties) -/
def insertOrd (r : Row) : List Row → List Row
  | [] => [r]
  | x :: xs => if before r x then r :: x :: xs else x :: insertOrd r xs

def ordered (rows : List Row) : List Row := rows.foldr insertOrd []

def showState (s : State) : String :=
  listOr (s.rows.map showRow) ++ "#" ++ listOr (s.dlq.map showDRow) ++ "#"
    ++ listOr ((ordered (s.rows.filter (·.deliverable))).map (fun r => toString r.id)) ++ "#" ++ listOr (s.acked.map toString)

def Out.show : Out → String
  | .ok => "ok" | .none => "none" | .nosel => "nosel" | .raised => "raised" | .crashed => "crashed"
  | .sel i v => s!"sel:{i}:{v}"
  | .got i t a => s!"got:{i}:{t}:{a}"
  | .bool b => b01 b
  | .count n => s!"n{n}"

def runShow (s : State) : List Op → List String
  | [] => []
  | op :: rest =>
    let s' := next s op
    ((outOf s op).show ++ "#" ++ showState s') :: runShow s' rest

/-! ### pairs — the sequential reference of the statement-level interleaving suite

  request : `queue <maxAttempts> <setup ops> <A> <B> <ab|ba>` — `A`, `B` are op groups (`op;op;…`) applied to the state
            after the setup in the order `A;B` (`ab`) or `B;A` (`ba`); without the last token both orders are answered
            (`<A;B>|<B;A>`); `split` (A must be one `poll:w`): `sel:w; B; claim:w`
  answer  : `<outs of A>,<outs of B>#<state>` — the outputs always in the order A, B, a group's outputs joined by `+`.
  `check_and_move_expired` returns the number of rows its SELECT saw, which under a concurrent move is not the number
  it moved; the pair form prints that count as `n`.
-/

def Out.showPair : Out → String
  | .count _ => "n"
  | o => o.show

/-- outputs of an op group and the state after it -/
def runGroup (s : State) : List Op → List String × State
  | [] => ([], s)
  | op :: rest =>
    let r := runGroup (next s op) rest
    ((outOf s op).showPair :: r.1, r.2)

def showPairOrder (s : State) (a b : List Op) (ab : Bool) : String :=
  if ab then
    let ra := runGroup s a
    let rb := runGroup ra.2 b
    Parse.joinWith "+" ra.1 ++ "," ++ Parse.joinWith "+" rb.1 ++ "#" ++ showState rb.2
  else
    let rb := runGroup s b
    let ra := runGroup rb.2 a
    Parse.joinWith "+" ra.1 ++ "," ++ Parse.joinWith "+" rb.1 ++ "#" ++ showState ra.2

/-- `A = poll:w` split at its SELECT / claim UPDATE with the group `B` in between (`sel:w; B; claim:w`): the one
    statement-level interleaving of a poll that is not an interleaving of whole operations.  Same answer format. -/
def showPairSplit (s : State) (w : Nat) (b : List Op) : String :=
  let rb := runGroup (next s (.act (.pollSelect w))) b
  (outOf rb.2 (.act (.pollClaim w))).showPair ++ "," ++ Parse.joinWith "+" rb.1 ++ "#"
    ++ showState (next rb.2 (.act (.pollClaim w)))

def parseOps (s : String) : Option (List Op) := Parse.all? parseOp (Parse.splitNE s ";")

def drivePairSplit (m pre a b : String) : String :=
  match Parse.nat? m, parseOps pre, parseOps a, parseOps b with
  | some m, some pre, some [.act (.poll w)], some b => showPairSplit (run (init m) pre) w b
  | _, _, _, _ => "bad-request"

def drivePair (m pre a b : String) (order : Option Bool) : String :=
  match Parse.nat? m, parseOps pre, parseOps a, parseOps b with
  | some m, some pre, some a, some b =>
    let s := run (init m) pre
    match order with
    | some o => showPairOrder s a b o
    | none => showPairOrder s a b true ++ "|" ++ showPairOrder s a b false
  | _, _, _, _ => "bad-request"

def drive (rest : String) : String :=
  match rest.splitOn " " with
  | [m, ops] =>
    match Parse.nat? m, Parse.all? parseOp (Parse.splitNE ops ";") with
    | some m, some ops => Parse.joinWith "|" (runShow (init m) ops)
    | _, _ => "bad-request"
  | [m, pre, a, b] => drivePair m pre a b none
  | [m, pre, a, b, "ab"] => drivePair m pre a b (some true)
  | [m, pre, a, b, "ba"] => drivePair m pre a b (some false)
  | [m, pre, a, b, "split"] => drivePairSplit m pre a b
  | _ => "bad-request"

end Stab.Queue
