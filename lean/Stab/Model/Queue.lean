/- Model `Queue` (driver token `queue`) — stub, to be filled in. -/
namespace Stab.Queue

/-- driver entry: the rest of the request line after the model token -/
def drive (_rest : String) : String := "unimplemented"

end Stab.Queue
