/- Model `Expr` (driver token `expr`) — stub, to be filled in. -/
namespace Stab.Expr

/-- driver entry: the rest of the request line after the model token -/
def drive (_rest : String) : String := "unimplemented"

end Stab.Expr
