/-
  Model of `stabilize.expressions` (`evaluate_expression` / `_eval_node`), from the AST level.

  * Text → AST is CPython's `ast.parse` on both sides: the harness parses the very string it hands to
    `evaluate_expression` and serialises that tree into the line protocol below.  What happens
    before the tree exists (blank input, the `true/1/false/0` fast path, `SyntaxError`, or
    `ast.parse` raising something else) is the `Parsed` classification.
  * `Expr` has one constructor per node class `_eval_node` dispatches on, in dispatch order, plus
    `unsupported kind` for every other class (`Call`, `Lambda`, `BinOp`, `Dict`, `Slice`, …).
    `Props.C20.dispatch_eq_model` proves the list extracted from the source equals `supportedKinds`.
  * `Value` = {None, bool, int, str, list, tuple, dict with string keys} — JSON documents (the stage
    context is persisted as JSON) plus tuples, which only `Tuple` nodes create.  **Floats are
    excluded** (also bytes / complex / Ellipsis constants); the harness keeps them out of the
    correspondence and only monitors the outcome class for them on the Python side.
  * Python primitives that can raise return `Option` (`none` = the one exception class that
    primitive raises: `TypeError` for `-x`, ordering, `in`, hashing; `IndexError` for `seq[i]`).
    `evalF` turns `none` into that class and then applies the `try/except` guards of the code,
    which are explicit in `Guards`: `Guards.fixed` mirrors the code *with* proposed_fixes/F2.diff,
    `Guards.current` the code without it (finding F2).
  * Recursion depth: `fuel` = how many nested `_eval_node` frames may still be entered.  The fixed
    code raises `ExpressionError` when `depth > _MAX_DEPTH`; the unfixed code runs into CPython's
    recursion limit (`RecursionError`), with `fuel` = frames left on the caller's stack.
  * Object identity (`is`) is exact when one operand is `None`/`True`/`False`; for two
    non-singleton objects it is CPython's business and is a parameter (`Env.ident`).
-/
import Stab.Model.Basic

namespace Stab.Expr
open Stab

/-! ### values -/

inductive Value where
  | none
  | bool (b : Bool)
  | int (i : Int)
  | str (s : String)
  | list (xs : List Value)
  | tuple (xs : List Value)
  | dict (kvs : List (String × Value))
  deriving Repr, Inhabited

/-- exception classes that can come out of `evaluate_expression` -/
inductive Err where
  | expression        -- `ExpressionError`, the evaluator's own
  | typeError | indexError | recursionError | memoryError | valueError
  deriving DecidableEq, Repr

def Err.name : Err → String
  | .expression => "ExpressionError" | .typeError => "TypeError" | .indexError => "IndexError"
  | .recursionError => "RecursionError" | .memoryError => "MemoryError" | .valueError => "ValueError"

def Err.ofName? (s : String) : Option Err :=
  [Err.expression, .typeError, .indexError, .recursionError, .memoryError, .valueError].find? (fun e => e.name == s)

namespace Value

/-- `bool(v)` -/
def truthy : Value → Bool
  | .none => false
  | .bool b => b
  | .int i => i != 0
  | .str s => !s.isEmpty
  | .list xs => !xs.isEmpty
  | .tuple xs => !xs.isEmpty
  | .dict kvs => !kvs.isEmpty

/-- `bool` is a subclass of `int`: `True == 1` -/
def num? : Value → Option Int
  | .bool b => some (if b then 1 else 0)
  | .int i => some i
  | _ => Option.none

mutual
/-- `a == b` -/
def eq : Value → Value → Bool
  | .none, .none => true
  | .bool a, .bool b => a == b
  | .bool a, .int b => (if a then 1 else 0) == b
  | .int a, .bool b => a == (if b then 1 else 0)
  | .int a, .int b => a == b
  | .str a, .str b => a == b
  | .list a, .list b => eqList a b
  | .tuple a, .tuple b => eqList a b
  | .dict a, .dict b => a.length == b.length && subDict a b
  | _, _ => false
termination_by structural a => a
def eqList : List Value → List Value → Bool
  | [], [] => true
  | x :: xs, y :: ys => eq x y && eqList xs ys
  | _, _ => false
termination_by structural a => a
/-- every key of `a` is in `b` with an equal value (`dict_equal`) -/
def subDict : List (String × Value) → List (String × Value) → Bool
  | [], _ => true
  | (k, v) :: rest, b =>
    (match b.lookup k with
     | .some w => eq v w
     | .none => false) && subDict rest b
termination_by structural a => a
end

mutual
/-- `hash(v)` works: no list / dict anywhere inside tuples -/
def hashable : Value → Bool
  | .tuple xs => hashableL xs
  | .list _ => false
  | .dict _ => false
  | _ => true
def hashableL : List Value → Bool
  | [] => true
  | x :: xs => hashable x && hashableL xs
end

end Value

inductive OrdOp where
  | lt | le | gt | ge
  deriving DecidableEq, Repr

def OrdOp.onInt (op : OrdOp) (a b : Int) : Bool :=
  match op with
  | .lt => a < b | .le => a ≤ b | .gt => a > b | .ge => a ≥ b

/-- lexicographic comparison of code-point lists (what `str <` does) -/
def cmpCodes : List Nat → List Nat → Ordering
  | [], [] => .eq
  | [], _ :: _ => .lt
  | _ :: _, [] => .gt
  | a :: as, b :: bs => if a < b then .lt else if a > b then .gt else cmpCodes as bs

def OrdOp.onOrdering (op : OrdOp) (o : Ordering) : Bool :=
  match op, o with
  | .lt, .lt => true | .lt, _ => false
  | .le, .gt => false | .le, _ => true
  | .gt, .gt => true | .gt, _ => false
  | .ge, .lt => false | .ge, _ => true

def codes (s : String) : List Nat := s.toList.map Char.toNat

namespace Value
mutual
/-- `a < b` etc.; `none` = `TypeError` ("'<' not supported between instances of …") -/
def order (op : OrdOp) : Value → Value → Option Bool
  | .list a, .list b => orderSeq op a b
  | .tuple a, .tuple b => orderSeq op a b
  | .str a, .str b => some (op.onOrdering (cmpCodes (codes a) (codes b)))
  | .bool a, .bool b => some (op.onInt (if a then 1 else 0) (if b then 1 else 0))
  | .bool a, .int b => some (op.onInt (if a then 1 else 0) b)
  | .int a, .bool b => some (op.onInt a (if b then 1 else 0))
  | .int a, .int b => some (op.onInt a b)
  | _, _ => Option.none
termination_by structural a => a
/-- sequences: the first pair that is not `==` decides (with the operator itself, which may raise);
    if there is none the lengths decide -/
def orderSeq (op : OrdOp) : List Value → List Value → Option Bool
  | x :: xs, y :: ys => if eq x y then orderSeq op xs ys else order op x y
  | [], ys => some (op.onInt 0 ys.length)
  | xs, [] => some (op.onInt xs.length 0)
termination_by structural a => a
end
end Value

/-- `needle in haystack` for strings (substring) -/
def isInfix (p : List Char) : List Char → Bool
  | [] => p.isEmpty
  | c :: cs => p.isPrefixOf (c :: cs) || isInfix p cs

/-- `a in b`; `none` = `TypeError` -/
def contains (a b : Value) : Option Bool :=
  match b with
  | .list xs => some (xs.any (fun x => Value.eq x a))
  | .tuple xs => some (xs.any (fun x => Value.eq x a))
  | .str s =>
    match a with
    | .str p => some (isInfix p.toList s.toList)
    | _ => Option.none                      -- 'in <string>' requires string as left operand
  | .dict kvs =>
    if a.hashable then
      match a with
      | .str k => some ((kvs.lookup k).isSome)
      | _ => some false                     -- keys are strings
    else Option.none                        -- unhashable type
  | _ => Option.none                        -- argument of type … is not iterable

/-- `operator.neg`; `none` = `TypeError` -/
def neg : Value → Option Value
  | .int i => some (.int (-i))
  | .bool b => some (.int (if b then -1 else 0))
  | _ => Option.none

/-- `seq[i]` with Python's negative indices; `none` = `IndexError` -/
def index (xs : List Value) (i : Int) : Option Value :=
  let j := if i < 0 then i + xs.length else i
  if j < 0 then Option.none else xs[j.toNat]?

/-! ### syntax -/

inductive Const where
  | none | bool (b : Bool) | int (i : Int) | str (s : String)
  deriving Repr

def Const.toValue : Const → Value
  | .none => .none | .bool b => .bool b | .int i => .int i | .str s => .str s

inductive CmpOp where
  | eq | ne | lt | le | gt | ge | is | isNot | in_ | notIn
  deriving DecidableEq, Repr

inductive BoolOp where
  | and | or
  deriving DecidableEq, Repr

inductive UnOp where
  | not | usub | uadd | invert
  deriving DecidableEq, Repr

/-- one constructor per `isinstance(node, ast.X)` branch of `_eval_node`, in source order;
    `unsupported` is the final `raise ExpressionError("Unsupported expression node: …")` -/
inductive Expr where
  | const (c : Const)                                   -- ast.Constant
  | name (id : String)                                  -- ast.Name
  | attr (e : Expr) (a : String)                        -- ast.Attribute
  | subscript (e : Expr) (slice : Expr)                 -- ast.Subscript
  | compare (left : Expr) (rest : List (CmpOp × Expr))  -- ast.Compare
  | boolOp (op : BoolOp) (vals : List Expr)             -- ast.BoolOp
  | unary (op : UnOp) (e : Expr)                        -- ast.UnaryOp
  | ifExp (test body orelse : Expr)                     -- ast.IfExp
  | list (elts : List Expr)                             -- ast.List
  | tuple (elts : List Expr)                            -- ast.Tuple
  | unsupported (kind : String)                         -- anything else
  deriving Repr, Inhabited

/-- the ast class a constructor stands for -/
def Expr.kind : Expr → String
  | .const _ => "Constant" | .name _ => "Name" | .attr _ _ => "Attribute"
  | .subscript _ _ => "Subscript" | .compare _ _ => "Compare" | .boolOp _ _ => "BoolOp"
  | .unary _ _ => "UnaryOp" | .ifExp _ _ _ => "IfExp" | .list _ => "List" | .tuple _ => "Tuple"
  | .unsupported k => k

/-- the dispatch list of `_eval_node`, in source order (compared with the generated list in Props) -/
def supportedKinds : List String :=
  ["Constant", "Name", "Attribute", "Subscript", "Compare", "BoolOp", "UnaryOp", "IfExp", "List", "Tuple"]

/-- what `ast.parse`/the prologue of `evaluate_expression` made of the text -/
inductive Parsed where
  | blank                    -- `not expression or not expression.strip()`
  | fastTrue | fastFalse     -- `expr.lower() in ("true","1")` / `("false","0")`
  | syntaxError              -- `ast.parse` raised `SyntaxError`
  | parseRaised (e : Err)    -- `ast.parse` raised another class (RecursionError, MemoryError, ValueError)
  | tree (e : Expr)
  deriving Repr

/-- the `try/except` guards of the code.  `true` = present. -/
structure Guards where
  compare : Bool      -- Compare: `except TypeError → ExpressionError`          (in the code today)
  index : Bool        -- Subscript: `except IndexError → None`                   (in the code today)
  unary : Bool        -- UnaryOp: `except TypeError → ExpressionError`           (F2.diff)
  subscript : Bool    -- Subscript `dict.get(key)`: `except TypeError → ExpressionError` (F2.diff)
  depth : Bool        -- `depth > _MAX_DEPTH → ExpressionError` + RecursionError backstop (F2.diff)
  parse : Bool        -- `ast.parse`: ValueError / RecursionError / MemoryError → ExpressionError (F2.diff)
  deriving DecidableEq, Repr

def Guards.fixed : Guards := ⟨true, true, true, true, true, true⟩
def Guards.current : Guards := ⟨true, true, false, false, false, false⟩

/-- `_MAX_DEPTH` of the fixed code (compared with the generated constant in Props) -/
def maxDepth : Nat := 200

structure Env where
  vars : List (String × Value)              -- the `context` dict
  ident : Value → Value → Bool := fun _ _ => false   -- `a is b` for two non-singleton objects

/-! ### evaluation -/

def isSingleton : Value → Bool
  | .none | .bool _ => true
  | _ => false

/-- `a is b` -/
def isSame (ident : Value → Value → Bool) (a b : Value) : Bool :=
  if isSingleton a || isSingleton b then
    match a, b with
    | .none, .none => true
    | .bool x, .bool y => x == y
    | _, _ => false
  else ident a b

/-- `_SAFE_OPERATORS[type(op)](left, right)`; `none` = `TypeError` -/
def cmpOp (ident : Value → Value → Bool) (op : CmpOp) (a b : Value) : Option Bool :=
  match op with
  | .eq => some (Value.eq a b)
  | .ne => some (!Value.eq a b)
  | .lt => Value.order .lt a b
  | .le => Value.order .le a b
  | .gt => Value.order .gt a b
  | .ge => Value.order .ge a b
  | .is => some (isSame ident a b)
  | .isNot => some (!isSame ident a b)
  | .in_ => contains a b
  | .notIn => (contains a b).map (!·)

/-- raise `cls`, or `ExpressionError` when the corresponding `except` clause is present -/
def raiseGuarded (guard : Bool) (cls : Err) : Except Err α :=
  .error (if guard then .expression else cls)

/-- the `ast.Name` branch -/
def lookupName (env : Env) (id : String) : Value :=
  if id == "True" || id == "true" then .bool true
  else if id == "False" || id == "false" then .bool false
  else if id == "None" || id == "none" || id == "null" then .none
  else (env.vars.lookup id).getD .none          -- missing context keys evaluate to None

/-- `[_eval_node(x) for x in xs]`: left to right, the first exception wins -/
def evalAll (ev : Expr → Except Err Value) : List Expr → Except Err (List Value)
  | [] => .ok []
  | e :: es =>
    match ev e with
    | .error x => .error x
    | .ok v =>
      match evalAll ev es with
      | .error x => .error x
      | .ok vs => .ok (v :: vs)

/-- the `for op, comparator in zip(node.ops, node.comparators)` loop -/
def evalChain (g : Guards) (ident : Value → Value → Bool) (ev : Expr → Except Err Value) :
    Value → List (CmpOp × Expr) → Except Err Value
  | _, [] => .ok (.bool true)
  | left, (op, e) :: rest =>
    match ev e with
    | .error x => .error x
    | .ok right =>
      match cmpOp ident op left right with
      | Option.none => raiseGuarded g.compare .typeError
      | some false => .ok (.bool false)
      | some true => evalChain g ident ev right rest

/-- the `ast.Subscript` branch after both operands are known -/
def subscriptValue (g : Guards) (value key : Value) : Except Err Value :=
  match value with
  | .dict kvs =>
    if key.hashable then
      match key with
      | .str k => .ok ((kvs.lookup k).getD .none)
      | _ => .ok .none
    else raiseGuarded g.subscript .typeError
  | .list xs | .tuple xs =>
    match key.num? with
    | some i =>
      match index xs i with
      | some v => .ok v
      | Option.none => if g.index then .ok .none else .error .indexError
    | Option.none => .ok .none
  | _ => .ok .none

/-- the `ast.UnaryOp` branch after the operand is known -/
def unaryValue (g : Guards) (op : UnOp) (v : Value) : Except Err Value :=
  match op with
  | .not => .ok (.bool (!v.truthy))
  | .usub =>
    match neg v with
    | some r => .ok r
    | Option.none => raiseGuarded g.unary .typeError
  | .uadd | .invert => .error .expression        -- "Unsupported unary operator"

/-- `_eval_node(node, context)` with `fuel` nested frames left -/
def evalF (g : Guards) (env : Env) : Nat → Expr → Except Err Value
  | 0, _ => raiseGuarded g.depth .recursionError
  | fuel + 1, e =>
    match e with
    | .const c => .ok c.toValue
    | .name id => .ok (lookupName env id)
    | .attr e a =>
      match evalF g env fuel e with
      | .error x => .error x
      | .ok (.dict kvs) => .ok ((kvs.lookup a).getD .none)
      | .ok _ => .ok .none
    | .subscript e s =>
      match evalF g env fuel e with
      | .error x => .error x
      | .ok value =>
        match evalF g env fuel s with
        | .error x => .error x
        | .ok key => subscriptValue g value key
    | .compare l rest =>
      match evalF g env fuel l with
      | .error x => .error x
      | .ok left => evalChain g env.ident (evalF g env fuel) left rest
    | .boolOp op vals =>
      match evalAll (evalF g env fuel) vals with
      | .error x => .error x
      | .ok vs =>
        match op with
        | .and => .ok (.bool (vs.all Value.truthy))     -- `all(values)`: no short circuit, a bool
        | .or => .ok (.bool (vs.any Value.truthy))      -- `any(values)`
    | .unary op e =>
      match evalF g env fuel e with
      | .error x => .error x
      | .ok v => unaryValue g op v
    | .ifExp t b o =>
      match evalF g env fuel t with
      | .error x => .error x
      | .ok tv => if tv.truthy then evalF g env fuel b else evalF g env fuel o
    | .list es =>
      match evalAll (evalF g env fuel) es with
      | .error x => .error x
      | .ok vs => .ok (.list vs)
    | .tuple es =>
      match evalAll (evalF g env fuel) es with
      | .error x => .error x
      | .ok vs => .ok (.tuple vs)
    | .unsupported _ => .error .expression

/-- `evaluate_expression(text, context)`; `stack` = frames the caller's stack still allows -/
def evaluate (g : Guards) (env : Env) (stack : Nat) : Parsed → Except Err Value
  | .blank => .error .expression
  | .fastTrue => .ok (.bool true)
  | .fastFalse => .ok (.bool false)
  | .syntaxError => .error .expression
  | .parseRaised cls => raiseGuarded g.parse cls
  | .tree e => evalF g env (if g.depth then min (maxDepth + 1) stack else stack) e

/-- the model of record: the code with F2.diff applied, on an ordinary stack -/
def eval (e : Expr) (env : Env) : Except Err Value := evalF .fixed env (maxDepth + 1) e

/-! ### the two callers -/

inductive SplitOutcome where
  | activate | skip
  deriving DecidableEq, Repr

/-- `_apply_split_logic`, per downstream: `except ExpressionError → skipped`; anything else propagates -/
def splitBranch (r : Except Err Value) : Except Err SplitOutcome :=
  match r with
  | .ok v => .ok (if v.truthy then .activate else .skip)
  | .error .expression => .ok .skip
  | .error x => .error x

/-- `_should_skip` on an expression-typed `stageEnabled`: `except ExpressionError → False` (not skipping) -/
def shouldSkip (r : Except Err Value) : Except Err Bool :=
  match r with
  | .ok v => .ok (!v.truthy)
  | .error .expression => .ok false
  | .error x => .error x

/-! ### driver
  `expr <guards:6 bits> <stack> <ident 0|1> <nvars> (key value)* <parsed>` — everything is a prefix
  token stream.  values: `N T F i<int> s<cp.cp…> L <n> … U <n> … D <n> (s<key> value)*`;
  expressions: `c <const>` `n s<id>` `a <e> s<attr>` `sub <e> <e>` `cmp <k> <e> (<op> <e>)*`
  `and|or <k> <e>*` `not|neg|pos|inv <e>` `if <e> <e> <e>` `list|tup <k> <e>*` `x <Kind>`;
  parsed: `blank` `fast1` `fast0` `syntax` `raised <Class>` or an expression.
  Output: `v <value>` or `err <Class>`. -/

abbrev Toks := List String

def parseStr (t : String) : Option String :=
  if t.startsWith "s" then
    let body := (t.drop 1).toString
    if body.isEmpty then some ""
    else (Parse.all? Parse.nat? (body.splitOn ".")).map (fun cps => String.ofList (cps.map Char.ofNat))
  else Option.none

def parseMany {α} (p : Toks → Option (α × Toks)) : Nat → Toks → Option (List α × Toks)
  | 0, ts => some ([], ts)
  | n + 1, ts => do
    let (a, ts) ← p ts
    let (as, ts) ← parseMany p n ts
    pure (a :: as, ts)

def parseValue : Nat → Toks → Option (Value × Toks)
  | 0, _ => Option.none
  | fuel + 1, t :: ts =>
    if t == "N" then some (.none, ts)
    else if t == "T" then some (.bool true, ts)
    else if t == "F" then some (.bool false, ts)
    else if t.startsWith "i" then (Parse.int? (t.drop 1).toString).map (fun i => (.int i, ts))
    else if t.startsWith "s" then (parseStr t).map (fun s => (.str s, ts))
    else if t == "L" || t == "U" then
      match ts with
      | n :: ts => do
        let (vs, ts) ← parseMany (parseValue fuel) (← Parse.nat? n) ts
        pure (if t == "L" then .list vs else .tuple vs, ts)
      | [] => Option.none
    else if t == "D" then
      match ts with
      | n :: ts => do
        let (kvs, ts) ← parseMany (fun ts => match ts with
          | k :: ts => do
            let key ← parseStr k
            let (v, ts) ← parseValue fuel ts
            pure ((key, v), ts)
          | [] => Option.none) (← Parse.nat? n) ts
        pure (.dict kvs, ts)
      | [] => Option.none
    else Option.none
  | _ + 1, [] => Option.none

def parseCmpOp : String → Option CmpOp
  | "eq" => some .eq | "ne" => some .ne | "lt" => some .lt | "le" => some .le | "gt" => some .gt
  | "ge" => some .ge | "is" => some .is | "isnot" => some .isNot | "in" => some .in_ | "notin" => some .notIn
  | _ => Option.none

def parseConst (ts : Toks) : Option (Const × Toks) :=
  match ts with
  | t :: ts =>
    if t == "N" then some (.none, ts)
    else if t == "T" then some (.bool true, ts)
    else if t == "F" then some (.bool false, ts)
    else if t.startsWith "i" then (Parse.int? (t.drop 1).toString).map (fun i => (.int i, ts))
    else if t.startsWith "s" then (parseStr t).map (fun s => (.str s, ts))
    else Option.none
  | [] => Option.none

def parseExpr : Nat → Toks → Option (Expr × Toks)
  | 0, _ => Option.none
  | _ + 1, [] => Option.none
  | fuel + 1, t :: ts =>
    let pe := parseExpr fuel
    match t with
    | "c" => (parseConst ts).map (fun (c, ts) => (.const c, ts))
    | "n" =>
      match ts with
      | s :: ts => (parseStr s).map (fun id => (.name id, ts))
      | [] => Option.none
    | "a" => do
      let (e, ts) ← pe ts
      match ts with
      | s :: ts => (parseStr s).map (fun a => (.attr e a, ts))
      | [] => Option.none
    | "sub" => do
      let (e, ts) ← pe ts
      let (s, ts) ← pe ts
      pure (.subscript e s, ts)
    | "cmp" =>
      match ts with
      | n :: ts => do
        let (l, ts) ← pe ts
        let (rest, ts) ← parseMany (fun ts => match ts with
          | o :: ts => do
            let op ← parseCmpOp o
            let (e, ts) ← pe ts
            pure ((op, e), ts)
          | [] => Option.none) (← Parse.nat? n) ts
        pure (.compare l rest, ts)
      | [] => Option.none
    | "and" | "or" | "list" | "tup" =>
      match ts with
      | n :: ts => do
        let (es, ts) ← parseMany pe (← Parse.nat? n) ts
        let e := if t == "and" then Expr.boolOp .and es else if t == "or" then .boolOp .or es
                 else if t == "list" then .list es else .tuple es
        pure (e, ts)
      | [] => Option.none
    | "not" => (pe ts).map (fun (e, ts) => (.unary .not e, ts))
    | "neg" => (pe ts).map (fun (e, ts) => (.unary .usub e, ts))
    | "pos" => (pe ts).map (fun (e, ts) => (.unary .uadd e, ts))
    | "inv" => (pe ts).map (fun (e, ts) => (.unary .invert e, ts))
    | "if" => do
      let (a, ts) ← pe ts
      let (b, ts) ← pe ts
      let (c, ts) ← pe ts
      pure (.ifExp a b c, ts)
    | "x" =>
      match ts with
      | k :: ts => some (.unsupported k, ts)
      | [] => Option.none
    | _ => Option.none

def parseParsed (ts : Toks) : Option Parsed :=
  match ts with
  | ["blank"] => some .blank
  | ["fast1"] => some .fastTrue
  | ["fast0"] => some .fastFalse
  | ["syntax"] => some .syntaxError
  | ["raised", c] => (Err.ofName? c).map .parseRaised
  | ts =>
    match parseExpr (ts.length + 1) ts with
    | some (e, []) => some (.tree e)
    | _ => Option.none

def showStr (s : String) : String :=
  "s" ++ Parse.joinWith "." ((codes s).map toString)

mutual
def showValue : Value → String
  | .none => "N"
  | .bool true => "T"
  | .bool false => "F"
  | .int i => s!"i{i}"
  | .str s => showStr s
  | .list xs => s!"L {xs.length}" ++ showValues xs
  | .tuple xs => s!"U {xs.length}" ++ showValues xs
  | .dict kvs => s!"D {kvs.length}" ++ showPairs kvs
def showValues : List Value → String
  | [] => ""
  | x :: xs => " " ++ showValue x ++ showValues xs
def showPairs : List (String × Value) → String
  | [] => ""
  | (k, v) :: rest => " " ++ showStr k ++ " " ++ showValue v ++ showPairs rest
end

def parseGuards (s : String) : Option Guards :=
  match s.toList with
  | [a, b, c, d, e, f] => do
    let bit (c : Char) : Option Bool := if c == '1' then some true else if c == '0' then some false else Option.none
    pure ⟨← bit a, ← bit b, ← bit c, ← bit d, ← bit e, ← bit f⟩
  | _ => Option.none

/-- `ident`: `0`/`1` = the (constant) answer of `is` on two non-singleton objects -/
def parseRequest (rest : String) : Option (Guards × Env × Nat × Parsed) :=
  match rest.splitOn " " with
  | gs :: stack :: ident :: nvars :: ts => do
    let g ← parseGuards gs
    let stack ← Parse.nat? stack
    let idb ← Parse.bool? ident
    let n ← Parse.nat? nvars
    let (vars, ts) ← parseMany (fun ts => match ts with
      | k :: ts => do
        let key ← parseStr k
        let (v, ts) ← parseValue (ts.length + 1) ts
        pure ((key, v), ts)
      | [] => Option.none) n ts
    let p ← parseParsed ts
    pure (g, { vars := vars, ident := fun _ _ => idb }, stack, p)
  | _ => Option.none

def drive (rest : String) : String :=
  match parseRequest rest with
  | some (g, env, stack, p) =>
    match evaluate g env stack p with
    | .ok v => "v " ++ showValue v
    | .error e => "err " ++ e.name
  | Option.none => "bad-request"

end Stab.Expr
